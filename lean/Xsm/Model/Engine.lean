import Xsm.Model.Plan
/-
EXECUTE side and the macrostep loops, parameterised by engine flavour.
-/
namespace XSM

inductive Flavor where | sync | async
deriving DecidableEq, Repr, Inhabited

structure St where
  cfg : List Path := []
  hist : List (Path × List Path) := []
  queue : List Ev := []
  status : String := "uninitialized"
  trace : List String := []          -- newest first
  err : Option EErr := none          -- sticky for the current command (sync: raised from send)
  raiseDepth : Nat := 0              -- async `_raise_depth`
  errors : Nat := 0                  -- async: events whose processing failed (logged, loop survives)
deriving Inhabited

abbrev Snd := Ev → St → St

def St.fail (s : St) (e : EErr) : St := if s.err.isSome then s else { s with err := some e }
def addActive (p : Path) (s : St) : St := if s.cfg.contains p then s else { s with cfg := s.cfg ++ [p] }
def delActive (p : Path) (s : St) : St := { s with cfg := s.cfg.filter (· != p) }
def emit (r : String) (s : St) : St := { s with trace := r :: s.trace }

/-- the keys of `BUILTIN_ACTION_ALIASES` that denote `xstate.raise` (table read from the source) -/
def raiseAliases : List String :=
  (Tables.builtinAliases.filter (fun kv => kv.2 = Tables.act_RAISE)).map (·.1)
def raisedEvent (a : ActionRef) : Option Ev :=
  match a.params with
  | some p =>
    match p.get? "event" with
    | some (.str e) => some (.user e)
    | some (.obj kvs) => (match (J.obj kvs).get? "type" with | some (.str e) => some (.user e) | _ => none)
    | _ => none
  | none => none

/-- `snd` is used for done.state events, `sndRaise` for the `raise` action (async counts those) -/
structure Hooks where
  snd : Snd
  sndRaise : Snd

def execActions (h : Hooks) (as : List ActionRef) (evType : String) (s : St) : St :=
  as.foldl (fun s a =>
    if s.err.isSome then s
    else if raiseAliases.contains a.type then
      (match raisedEvent a with | some e => h.sndRaise e s | none => s)
    else emit s!"{a.type}@{evType}" s) s

-- done-ness: `_is_state_done` ----------------------------------------------------------------------
mutual
def doneNode (cfg : List Path) (p : Path) : SNode → Bool
  | .mk d kids =>
    match d.kind with
    | .final => true
    | .compound =>
      match cfg.find? (fun q => q != [] && q.dropLast == p) with
      | some ch => doneKid cfg p (ch.getLast?.getD "") kids
      | none => false
    | .parallel => doneRegions cfg p kids
    | _ => false
def doneKid (cfg : List Path) (p : Path) (k : String) : List (String × SNode) → Bool
  | [] => false
  | (k', c) :: rest => if k' = k then doneNode cfg (p ++ [k']) c else doneKid cfg p k rest
def doneRegions (cfg : List Path) (p : Path) : List (String × SNode) → Bool
  | [] => true
  | (k, c) :: rest =>
    (if c.kind == .history then true
     else (cfg.any (fun q => (p ++ [k]).isPrefixOf q)) && doneNode cfg (p ++ [k]) c)
    && doneRegions cfg p rest
end

def isStateDone (m : Machine) (cfg : List Path) (p : Path) : Bool :=
  match m.root.at p with
  | some n => doneNode cfg p n
  | none => false

def complete (s : St) : St := if s.status = "running" then { s with status := "done" } else s

def checkAndFireOnDone (h : Hooks) (m : Machine) (fin : Path) (s : St) : St :=
  let ancestors := (chainUp fin).drop 1
  match ancestors.find? (fun a => match m.defAt a with
        | some d => d.onDone.isSome && isStateDone m s.cfg a
        | none => false) with
  | some a => h.snd (.done ("done.state." ++ m.idOf a) (m.idOf a)) s
  | none => if fin.length = 1 then complete s else s

def hasHistoryKid (n : SNode) : Bool := n.kids.any (fun kc => kc.2.kind == .history)

def recordHistory (m : Machine) (exiting : List Path) (s : St) : St :=
  let cands := (exiting.flatMap chainUp).eraseDups
  let hist := cands.foldl (fun hist st =>
    match m.root.at st with
    | none => hist
    | some n =>
      if hasHistoryKid n then
        let rem := sortBy (fun a b => a.length < b.length || (a.length == b.length && decide (m.idOf a ≤ m.idOf b)))
          (s.cfg.filter (fun q => q != st && st.isPrefixOf q))
        if rem.isEmpty then hist else (hist.filter (fun kv => kv.1 != st)) ++ [(st, rem)]
      else hist) s.hist
  { s with hist := hist }

/-- event name handed to an entry/exit action -/
def entryEvName (fl : Flavor) (m : Machine) (e : Entry) (ev : Option String) : String :=
  match fl with
  | .sync => ev.getD ("entry." ++ m.idOf e.path)
  | .async => ev.getD "___xstate_statemachine_init___"

def exitEvName (fl : Flavor) (m : Machine) (p : Path) (ev : Option String) : String :=
  match fl with
  | .sync => ev.getD ("exit." ++ m.idOf p)
  | .async => ev.getD "___xstate_statemachine_exit___"

def enterOne (h : Hooks) (fl : Flavor) (m : Machine) (ev : Option String) (s : St) (e : Entry) : St :=
  if s.err.isSome then s else
  match m.defAt e.path with
  | none => s
  | some d =>
    let s := addActive e.path s
    let s := execActions h d.entry (entryEvName fl m e ev) s
    if s.err.isSome then s else
    if d.kind == .final then checkAndFireOnDone h m e.path s else s

def exitOne (h : Hooks) (fl : Flavor) (m : Machine) (ev : Option String) (s : St) (p : Path) : St :=
  if s.err.isSome then s else
  match m.defAt p with
  | none => s
  | some d => delActive p (execActions h d.exit (exitEvName fl m p ev) s)

/-- run a plan: exits, actions, entries, in that order; a failed transition restores the configuration -/
def executeCore (h : Hooks) (fl : Flavor) (m : Machine) (ev : Ev) (pl : Plan) (s : St) : St :=
  if pl.internal then
    match pl.err with
    | some e => s.fail e
    | none => execActions h pl.actions ev.type s
  else
    let s1 := recordHistory m pl.exits s
    let s2 := pl.exits.foldl (exitOne h fl m (some ev.type)) s1
    let s3 := if s2.err.isSome then s2 else execActions h pl.actions ev.type s2
    let s4 := pl.entries.foldl (enterOne h fl m (some ev.type)) s3
    let s5 := match pl.err with
      | some e => if s4.err.isSome then s4 else s4.fail e
      | none => s4
    if s5.err.isSome then { s5 with cfg := s.cfg } else s5

/-- the observation point of `on_transition` plugins and subscribers: the configuration they see -/
def obsRecord (m : Machine) (s : St) : String := "#t:" ++ ",".intercalate (s.cfg.map m.idOf)

/-- one selected transition: `executeCore`, then (only when it did not fail) the observers run -/
def execute (h : Hooks) (fl : Flavor) (m : Machine) (ev : Ev) (pl : Plan) (s : St) : St :=
  let r := executeCore h fl m ev pl s
  if r.err.isSome then r else emit (obsRecord m r) r

def processEvent (h : Hooks) (fl : Flavor) (m : Machine) (env : GEnv) (ev : Ev) (s : St) : St :=
  match selectTransitions m s.cfg env ev with
  | .error (.missing n) => s.fail (.missingGuard n)
  | .ok sel =>
    sel.foldl (fun s c =>
      if s.err.isSome then s
      else if sel.length > 1 && !(s.cfg.contains c.src) then s
      else execute h fl m ev (planTransition m s.cfg s.hist c) s) s

def transientLoop (h : Hooks) (fl : Flavor) (m : Machine) (env : GEnv) : Nat → St → St
  | 0, s => s
  | fuel + 1, s =>
    if s.err.isSome then s else
    match selectTransitions m s.cfg env (.user "") with
    | .error (.missing n) => s.fail (.missingGuard n)
    | .ok sel =>
      if !sel.isEmpty && sel.any (fun c => c.t.event = "") then
        transientLoop h fl m env fuel (processEvent h fl m env (.user "") s)
      else s

def enqueue : Snd := fun e s => if s.status = "running" then { s with queue := s.queue ++ [e] } else s

-- SYNC ---------------------------------------------------------------------------------------------
def hooksFlagged : Hooks := { snd := enqueue, sndRaise := enqueue }

def drainLoop (m : Machine) (env : GEnv) : Nat → St → St
  | 0, s => if s.queue.isEmpty then s else { s with queue := [] }
  | budget + 1, s =>
    match s.queue with
    | [] => s
    | e :: rest =>
      -- a machine that completed / failed / stopped processes nothing further
      if s.status ≠ "running" then { s with queue := [] } else
      -- `on_event_received` plugins see every dequeued event
      let s := processEvent hooksFlagged .sync m env e (emit ("#recv:" ++ e.type) { s with queue := rest })
      let s := transientLoop hooksFlagged .sync m env m.maxIterations s
      if s.err.isSome then s else drainLoop m env budget s

def drainFlagged (m : Machine) (env : GEnv) (s : St) : St := drainLoop m env m.maxIterations s

def sndUnflagged (m : Machine) (env : GEnv) : Snd := fun e s =>
  if s.status = "running" then drainFlagged m env { s with queue := s.queue ++ [e] } else s

def startEntries (m : Machine) : List Entry × Option EErr :=
  let (es, e) := dfltDescend m [] m.root
  (⟨[], false⟩ :: es, e)

def syncStart (m : Machine) (env : GEnv) (s : St) : St :=
  let s := { s with status := "running" }
  -- `_enter_states([machine])` with event None: every state gets its own synthetic entry event
  let (es, e) := startEntries m
  let s := es.foldl (enterOne hooksFlagged .sync m none) s
  let s := match e with | some err => s.fail err | none => s
  if s.err.isSome then s else
  -- settling runs behind the re-entrancy guard too; the queue is drained afterwards
  let s := transientLoop hooksFlagged .sync m env m.maxIterations s
  if s.err.isSome then s else
  drainFlagged m env s

def syncSend (m : Machine) (env : GEnv) (e : Ev) (s : St) : St := sndUnflagged m env e s

-- ASYNC ----------------------------------------------------------------------------------------------
/-- while the run loop is processing an event (`_processing`), both the `raise` built-in and a
    `done.state.*` raised by an entry count towards the chain breaker -/
def hooksAsync : Hooks :=
  { snd := fun e s => enqueue e { s with raiseDepth := s.raiseDepth + 1 }
    sndRaise := fun e s => enqueue e { s with raiseDepth := s.raiseDepth + 1 } }

/-- one iteration of `_run_event_loop`; an error while processing is logged and the loop survives -/
def asyncStep (m : Machine) (env : GEnv) (e : Ev) (s : St) : St :=
  if s.raiseDepth > m.maxIterations then { s with raiseDepth := 0 }        -- chain broken: event dropped
  else
    let before := s.raiseDepth
    let s1 := processEvent hooksAsync .async m env e (emit ("#recv:" ++ e.type) s)
    let s2 := transientLoop hooksAsync .async m env m.maxIterations s1
    if s2.err.isSome then { s2 with err := none, errors := s2.errors + 1 }
    else if s2.raiseDepth = before then { s2 with raiseDepth := 0 } else s2

/-- run the loop until the queue is empty or the machine stops running; `fuel` only guards the model
    (the code has no such bound: exhaustion is reported as a hang) -/
def asyncDrain (m : Machine) (env : GEnv) : Nat → St → St
  | 0, s => if s.queue.isEmpty || s.status ≠ "running" then s else { s with status := "HANG" }
  | fuel + 1, s =>
    if s.status ≠ "running" then s else
    match s.queue with
    | [] => s
    | e :: rest => asyncDrain m env fuel (asyncStep m env e { s with queue := rest })

def asyncFuel (m : Machine) : Nat := 10 * m.maxIterations + 50

def asyncStart (m : Machine) (env : GEnv) (s : St) : St :=
  let s := { s with status := "running" }
  let (es, e) := startEntries m
  -- `start()` itself runs outside the run loop (`_processing` is false): nothing is counted
  let s := es.foldl (enterOne hooksFlagged .async m (some "___xstate_statemachine_init___")) s
  let s := match e with | some err => s.fail err | none => s
  if s.err.isSome then { s with status := "stopped" } else
  let s := transientLoop hooksFlagged .async m env m.maxIterations s
  if s.err.isSome then { s with status := "stopped" } else
  asyncDrain m env (asyncFuel m) s

def asyncSend (m : Machine) (env : GEnv) (e : Ev) (s : St) : St :=
  if s.status = "running" then asyncDrain m env (asyncFuel m) { s with queue := s.queue ++ [e] } else s

def start (fl : Flavor) := match fl with | .sync => syncStart | .async => asyncStart
def send (fl : Flavor) := match fl with | .sync => syncSend | .async => asyncSend

end XSM
