import Xsm.Model.Plan
import Xsm.Model.Parse
/-
EXECUTE side and the macrostep loops, parameterised by engine flavour.
-/
namespace XSM

inductive Flavor where | sync | async
deriving DecidableEq, Repr, Inhabited

/-- a queued event; `self` marks one the interpreter enqueued at itself while processing (async:
    `_self_raised`; sync: `_raised_in_drain`) -/
structure QEv where
  ev : Ev
  self : Bool := false
deriving Inhabited

structure St where
  cfg : List Path := []
  hist : List (Path × List Path) := []
  queue : List QEv := []
  status : String := "uninitialized"
  trace : List String := []          -- newest first
  err : Option EErr := none          -- sticky for the current command (sync: raised from send)
  ctx : List (String × Int) := []    -- the integer-valued part of the context
  raiseDepth : Nat := 0              -- async `_raise_depth`
  errors : Nat := 0                  -- async: events whose processing failed (logged, loop survives)
  expCut : Bool := false             -- `_expansion_cut`: the depth bound tripped inside the CURRENT nested
                                     -- expansion (meaningful only while a top-level built-in is expanding)
deriving Inhabited

abbrev Snd := Ev → St → St

def St.fail (s : St) (e : EErr) : St := if s.err.isSome then s else { s with err := some e }
def addActive (p : Path) (s : St) : St := if s.cfg.contains p then s else { s with cfg := s.cfg ++ [p] }
def delActive (p : Path) (s : St) : St := { s with cfg := s.cfg.filter (· != p) }
def emit (r : String) (s : St) : St := { s with trace := r :: s.trace }

/-- the keys of `BUILTIN_ACTION_ALIASES` that denote `xstate.raise` (table read from the source) -/
def raiseAliases : List String :=
  (Tables.builtinAliases.filter (fun kv => kv.2 = Tables.act_RAISE)).map (·.1)
def raisedEvent (a : ActionRef) : Option Ev :=
  match a.params with
  | some p =>
    match p.get? "event" with
    | some (.str e) => some (.user e)
    | some (.obj kvs) => (match (J.obj kvs).get? "type" with | some (.str e) => some (.user e) | _ => none)
    | _ => none
  | none => none

abbrev Ctx := List (String × Int)

def ctxSet (c : Ctx) (k : String) (v : Int) : Ctx :=
  if c.any (fun kv => kv.1 = k) then c.map (fun kv => if kv.1 = k then (k, v) else kv) else c ++ [(k, v)]
def ctxGet (c : Ctx) (k : String) : Int := ((c.find? (fun kv => kv.1 = k)).map (·.2)).getD 0

/-- what a user-supplied action does when called with (context, event type) -/
inductive AOut where
  | ok (ctx : Ctx)        -- returns normally, leaving this context
  | raises                -- raises an exception
  | missing               -- no implementation registered under that name
  | isAsync (ctx : Ctx)   -- a coroutine function (fine for the async engine, refused by the sync one)
deriving Inhabited

/-- user code: guards and actions are arbitrary functions of (name, context, event type) -/
structure UEnv where
  g : String → Ctx → String → GOut
  a : String → Ctx → String → AOut

def UEnv.genv (u : UEnv) (c : Ctx) (ev : String) : GEnv := fun n => u.g n c ev

/-- the environment the action executor runs in. `snd` is used for done.state events, `sndRaise` for
    the `raise` action (the async engine counts both while processing); `act` is the user's action
    registry, `geval` the guard evaluator `choose` branches go through (the engine instantiates it with
    the very evaluator transitions use), `syncEngine` says whether coroutine actions are refused. -/
structure Hooks where
  snd : Snd
  sndRaise : Snd
  act : String → Ctx → String → AOut := fun _ c _ => .ok c
  geval : GuardExpr → St → String → Except GErr Bool := fun _ _ _ => .ok true
  syncEngine : Bool := true

def canonicalBuiltin (ty : String) : Option String :=
  (Tables.builtinAliases.find? (fun kv => kv.1 = ty)).map (·.2)

/-- `assign` with a literal mapping: integer entries are applied in order (others are outside the model) -/
def applyAssign (params : Option J) (c : Ctx) : Ctx :=
  let asg : Option J := match params with
    | some (.obj kvs) => (match (J.obj kvs).get? "assignment" with | some v => some v | none => none)
    | _ => none
  match asg with
  | some (.obj kvs) => kvs.foldl (fun c kv => match kv.2 with | .num n => ctxSet c kv.1 n | _ => c) c
  | _ => c

/-- the branch list of a `choose`: (guard config, actions config) -/
def chooseBranches (params : Option J) : List (Option J × Option J) :=
  match params with
  | some (.obj kvs) =>
    (match (J.obj kvs).get? "conditions" with
     | some (.arr bs) => bs.map (fun b => ((if b.hasKey "guard" then b.get? "guard" else b.get? "cond"), b.get? "actions"))
     | _ => [])
  | _ => []

inductive BOut where           -- what running one built-in produced
  | followups (as : List ActionRef)
  | failed (e : EErr)          -- the built-in raised: contained by the caller like a failing user action

/-- first branch whose guard passes (`guard_cfg is None or _is_guard_satisfied(...)`) -/
def pickBranch (h : Hooks) (s : St) (evType : String) : List (Option J × Option J) → BOut
  | [] => .followups []
  | (g, acts) :: rest =>
    let take : BOut :=
      match (match acts with
             | none => (.ok [] : Except PErr (List ActionRef))
             | some (.arr xs) => xs.mapM parseAction
             | some v => (parseAction v).map (fun a => [a])) with
      | .ok as => .followups as
      | .error _ => .failed (.invalidConfig "choose: bad action")
    match g with
    | none => take
    | some .null => take
    | some gj =>
      match parseGuard gj with
      | .error _ => .failed (.invalidConfig "choose: bad guard")
      | .ok ge =>
        match h.geval ge s evType with
        | .error (.missing n) => .failed (.missingGuard n)
        | .ok true => take
        | .ok false => pickBranch h s evType rest

/-- the state `_collect_builtin_followups` leaves when it returns a list: at the cut level
    (`_action_depth > MAX_ACTION_DEPTH`) the trip is recorded (`_expansion_cut = True`) and nothing else
    happens — `assign` is skipped there like every built-in; otherwise `assign` is applied -/
def assignStep (canon : String) (cut : Bool) (a : ActionRef) (s : St) : St :=
  if cut then { s with expCut := true }
  else if canon = Tables.act_ASSIGN then { s with ctx := applyAssign a.params s.ctx } else s

/-- after the follow-ups of a built-in ran: an error escaping the nested list is contained here like
    any failing built-in; otherwise `raise` is delivered -/
def finishBuiltin (h : Hooks) (canon : String) (a : ActionRef) (s2 : St) : St × Bool :=
  if s2.err.isSome then (emit ("#aerr:" ++ a.type) { s2 with err := none }, true)
  else if canon = Tables.act_RAISE then
    ((match raisedEvent a with | some e => h.sndRaise e s2 | none => s2), false)
  else (s2, false)

/-- a built-in action: `_collect_builtin_followups`, the follow-ups, then the engine-specific delivery.
    Once the depth bound tripped in the current expansion (`s.expCut`), `choose` (the only built-in of the
    model's fragment that produces follow-ups; in the code also `pure` and `enqueueActions`) returns
    nothing; `assign`, `raise`, … are not affected by the flag. -/
def builtinStep (h : Hooks) (nested : List ActionRef → String → St → St) (cut : Bool) (evType : String)
    (canon : String) (a : ActionRef) (s : St) : St × Bool :=
  let bo : BOut :=
    if cut then .followups []
    else if canon = Tables.act_CHOOSE ∧ s.expCut = false then pickBranch h s evType (chooseBranches a.params)
    else .followups []
  match bo with
  | .failed _ => (emit ("#aerr:" ++ a.type) s, true)
  | .followups fs =>
    finishBuiltin h canon a (if fs.isEmpty then assignStep canon cut a s else nested fs evType (assignStep canon cut a s))

/-- one action of `_execute_actions`. `nested` runs a follow-up list one level deeper; `cut` says the
    depth bound is exhausted (`_action_depth > MAX_ACTION_DEPTH`: built-ins produce nothing).
    The Bool of the accumulator says "the rest of this list is skipped". -/
def actStep (h : Hooks) (nested : List ActionRef → String → St → St) (cut : Bool) (evType : String)
    (acc : St × Bool) (a : ActionRef) : St × Bool :=
  if acc.2 || acc.1.err.isSome then acc else
  -- a user implementation of the same name wins over a built-in
  match h.act a.type acc.1.ctx evType with
  | .ok c => (emit s!"{a.type}@{evType}" { acc.1 with ctx := c }, false)
  | .isAsync c =>
    if h.syncEngine then (acc.1.fail (.notSupported a.type), true)
    else (emit s!"{a.type}@{evType}" { acc.1 with ctx := c }, false)
  | .raises => (emit ("#aerr:" ++ a.type) (emit s!"{a.type}@{evType}" acc.1), true)
  | .missing =>
    match canonicalBuiltin a.type with
    | none => (acc.1.fail (.missingAction a.type), true)
    | some canon => builtinStep h nested cut evType canon a acc.1

/-- the expansion a TOP-LEVEL built-in started is over (`f` is the fuel its follow-ups ran with:
    `MAX_ACTION_DEPTH` exactly when the built-in sat at depth 0): `_expansion_cut` is not read again before
    the next top-level built-in resets it (`if depth == 0: self._expansion_cut = False`), so the model
    clears it here — the flag is `false` whenever a top-level list is running, which is what the code's
    reset establishes for every read. Deeper levels leave it alone: a trip is seen by every later sibling
    of the same expansion. -/
def endExpansion (f : Nat) (s : St) : St :=
  if f = Tables.maxActionDepth then { s with expCut := false } else s

@[simp] theorem endExpansion_cfg (f : Nat) (s : St) : (endExpansion f s).cfg = s.cfg := by
  unfold endExpansion; split <;> rfl
@[simp] theorem endExpansion_hist (f : Nat) (s : St) : (endExpansion f s).hist = s.hist := by
  unfold endExpansion; split <;> rfl
@[simp] theorem endExpansion_queue (f : Nat) (s : St) : (endExpansion f s).queue = s.queue := by
  unfold endExpansion; split <;> rfl
@[simp] theorem endExpansion_status (f : Nat) (s : St) : (endExpansion f s).status = s.status := by
  unfold endExpansion; split <;> rfl
@[simp] theorem endExpansion_trace (f : Nat) (s : St) : (endExpansion f s).trace = s.trace := by
  unfold endExpansion; split <;> rfl
@[simp] theorem endExpansion_err (f : Nat) (s : St) : (endExpansion f s).err = s.err := by
  unfold endExpansion; split <;> rfl
@[simp] theorem endExpansion_ctx (f : Nat) (s : St) : (endExpansion f s).ctx = s.ctx := by
  unfold endExpansion; split <;> rfl
@[simp] theorem endExpansion_raiseDepth (f : Nat) (s : St) : (endExpansion f s).raiseDepth = s.raiseDepth := by
  unfold endExpansion; split <;> rfl
@[simp] theorem endExpansion_errors (f : Nat) (s : St) : (endExpansion f s).errors = s.errors := by
  unfold endExpansion; split <;> rfl

/-- `_execute_actions`, with nested expansion (`choose`) bounded by the code's own depth counter:
    `fuel` is `MAX_ACTION_DEPTH + 1 - _action_depth`. -/
def execActionsF (h : Hooks) : Nat → List ActionRef → String → St → St
  | 0, as, evType, s => (as.foldl (actStep h (fun _ _ s => s) true evType) (s, false)).1
  | f + 1, as, evType, s =>
    (as.foldl (actStep h (fun fs e s => endExpansion f (execActionsF h f fs e s)) false evType) (s, false)).1

def execActions (h : Hooks) (as : List ActionRef) (evType : String) (s : St) : St :=
  execActionsF h (Tables.maxActionDepth + 1) as evType s

-- done-ness: `_is_state_done` ----------------------------------------------------------------------
mutual
def doneNode (cfg : List Path) (p : Path) : SNode → Bool
  | .mk d kids =>
    match d.kind with
    | .final => true
    | .compound =>
      match cfg.find? (fun q => q != [] && q.dropLast == p) with
      | some ch => doneKid cfg p (ch.getLast?.getD "") kids
      | none => false
    | .parallel => doneRegions cfg p kids
    | _ => false
def doneKid (cfg : List Path) (p : Path) (k : String) : List (String × SNode) → Bool
  | [] => false
  | (k', c) :: rest => if k' = k then doneNode cfg (p ++ [k']) c else doneKid cfg p k rest
def doneRegions (cfg : List Path) (p : Path) : List (String × SNode) → Bool
  | [] => true
  | (k, c) :: rest =>
    (if c.kind == .history then true
     else (cfg.any (fun q => (p ++ [k]).isPrefixOf q)) && doneNode cfg (p ++ [k]) c)
    && doneRegions cfg p rest
end

def isStateDone (m : Machine) (cfg : List Path) (p : Path) : Bool :=
  match m.root.at p with
  | some n => doneNode cfg p n
  | none => false

def complete (s : St) : St := if s.status = "running" then { s with status := "done" } else s

def checkAndFireOnDone (h : Hooks) (m : Machine) (fin : Path) (s : St) : St :=
  let ancestors := (chainUp fin).drop 1
  match ancestors.find? (fun a => match m.defAt a with
        | some d => d.onDone.isSome && isStateDone m s.cfg a
        | none => false) with
  | some a => h.snd (.done ("done.state." ++ m.idOf a) (m.idOf a)) s
  | none => if fin.length = 1 then complete s else s

def hasHistoryKid (n : SNode) : Bool := n.kids.any (fun kc => kc.2.kind == .history)

def recordHistory (m : Machine) (exiting : List Path) (s : St) : St :=
  let cands := (exiting.flatMap chainUp).eraseDups
  let hist := cands.foldl (fun hist st =>
    match m.root.at st with
    | none => hist
    | some n =>
      if hasHistoryKid n then
        let rem := sortBy (fun a b => a.length < b.length || (a.length == b.length && decide (m.idOf a ≤ m.idOf b)))
          (s.cfg.filter (fun q => q != st && st.isPrefixOf q))
        if rem.isEmpty then hist else (hist.filter (fun kv => kv.1 != st)) ++ [(st, rem)]
      else hist) s.hist
  { s with hist := hist }

/-- event name handed to an entry/exit action -/
def entryEvName (fl : Flavor) (m : Machine) (e : Entry) (ev : Option String) : String :=
  match fl with
  | .sync => ev.getD ("entry." ++ m.idOf e.path)
  | .async => ev.getD "___xstate_statemachine_init___"

def exitEvName (fl : Flavor) (m : Machine) (p : Path) (ev : Option String) : String :=
  match fl with
  | .sync => ev.getD ("exit." ++ m.idOf p)
  | .async => ev.getD "___xstate_statemachine_exit___"

def enterOne (h : Hooks) (fl : Flavor) (m : Machine) (ev : Option String) (s : St) (e : Entry) : St :=
  if s.err.isSome then s else
  match m.defAt e.path with
  | none => s
  | some d =>
    let s := addActive e.path s
    let s := execActions h d.entry (entryEvName fl m e ev) s
    if s.err.isSome then s else
    if d.kind == .final then checkAndFireOnDone h m e.path s else s

def exitOne (h : Hooks) (fl : Flavor) (m : Machine) (ev : Option String) (s : St) (p : Path) : St :=
  if s.err.isSome then s else
  match m.defAt p with
  | none => s
  | some d => delActive p (execActions h d.exit (exitEvName fl m p ev) s)

/-- the three phases of an external transition, in order; the first error stops everything after it -/
def runPlan (h : Hooks) (fl : Flavor) (m : Machine) (ev : Ev) (pl : Plan) (s : St) : St :=
  let s2 := pl.exits.foldl (exitOne h fl m (some ev.type)) (recordHistory m pl.exits s)
  let s3 := if s2.err.isSome then s2 else execActions h pl.actions ev.type s2
  let s4 := pl.entries.foldl (enterOne h fl m (some ev.type)) s3
  match pl.err with
  | some e => s4.fail e
  | none => s4

/-- run a plan: exits, actions, entries, in that order; a failed transition restores the configuration -/
def executeCore (h : Hooks) (fl : Flavor) (m : Machine) (ev : Ev) (pl : Plan) (s : St) : St :=
  if pl.internal then
    match pl.err with
    | some e => s.fail e
    | none => execActions h pl.actions ev.type s
  else
    let r := runPlan h fl m ev pl s
    if r.err.isSome then { r with cfg := s.cfg } else r

/-- the observation point of `on_transition` plugins and subscribers: the configuration they see -/
def obsRecord (m : Machine) (s : St) : String := "#t:" ++ ",".intercalate (s.cfg.map m.idOf)

/-- one selected transition: `executeCore`, then (only when it did not fail) the observers run -/
def execute (h : Hooks) (fl : Flavor) (m : Machine) (ev : Ev) (pl : Plan) (s : St) : St :=
  let r := executeCore h fl m ev pl s
  if r.err.isSome then r else emit (obsRecord m r) r

/-- `self.status not in ("running", "uninitialized")` -/
def finished (status : String) : Bool := status != "running" && status != "uninitialized"

def processEvent (h : Hooks) (fl : Flavor) (m : Machine) (u : UEnv) (ev : Ev) (s : St) : St :=
  match selectTransitions m s.cfg (u.genv s.ctx ev.type) ev with
  | .error (.missing n) => s.fail (.missingGuard n)
  | .ok sel =>
    sel.foldl (fun s c =>
      if s.err.isSome then s
      -- an earlier transition of this macrostep completed / failed / stopped the machine: `break`
      else if finished s.status then s
      else if sel.length > 1 && !(s.cfg.contains c.src) then s
      else execute h fl m ev (planTransition m s.cfg s.hist c) s) s

def transientLoop (h : Hooks) (fl : Flavor) (m : Machine) (u : UEnv) : Nat → St → St
  | 0, s => s
  | fuel + 1, s =>
    if s.err.isSome then s else
    match selectTransitions m s.cfg (u.genv s.ctx "") (.user "") with
    | .error (.missing n) => s.fail (.missingGuard n)
    | .ok sel =>
      if !sel.isEmpty && sel.any (fun c => c.t.event = "") then
        transientLoop h fl m u fuel (processEvent h fl m u (.user "") s)
      else s

def enqueueQ (self : Bool) : Snd := fun e s =>
  if s.status = "running" then { s with queue := s.queue ++ [⟨e, self⟩] } else s
def enqueue : Snd := enqueueQ false

/-- hooks of an engine: user registry, the transitions' own guard evaluator for `choose`, sends -/
def mkHooks (u : UEnv) (m : Machine) (sync : Bool) (snd sndRaise : Snd) : Hooks :=
  { snd, sndRaise, act := u.a, syncEngine := sync,
    geval := fun g s ev => evalGuard m s.cfg (u.genv s.ctx ev) g }

-- SYNC ---------------------------------------------------------------------------------------------
/-- every send made while `_is_processing` is set only enqueues — and `send()` / `send_events()` MARK what
    they enqueue then (`self._raised_in_drain.add(id(event_obj))`): the `raise` built-in, `done.state.*`, a
    `send()` made by an action. `_is_processing` is set during the initial entry and the settling of
    `start()` and during every drain; the mark of a queued entry is its `self` flag. -/
def hooksFlagged (u : UEnv) (m : Machine) : Hooks := mkHooks u m true (enqueueQ true) (enqueueQ true)

/-- the cut of `_process_event_queue` (`chained > limit`): the marked events still queued — the one at the
    head included — are discarded, the external ones are kept, in order (`kept`), the marks are cleared
    (nothing marked is left) -/
def syncPurge (s : St) : St := { s with queue := s.queue.filter (fun q => !q.self) }

/-- `id(self._event_queue[0]) in self._raised_in_drain`, `chained += 1`, `if chained > limit` -/
def syncTrips (m : Machine) (chained : Nat) (q : QEv) : Bool := q.self && decide (chained + 1 > m.maxIterations)

/-- the counter after the head `q` has been looked at (and is going to be processed) -/
def chainedNext (chained : Nat) (q : QEv) : Nat := if q.self then chained + 1 else chained

/-- the `while self._event_queue:` loop of `_process_event_queue`, carrying its local `chained`: only the
    dequeues of MARKED events count; when the count exceeds `maxIterations` the marked entries are purged
    (`syncPurge`), the counter is reset and the loop GOES ON with the external events. A failing macrostep
    aborts the drain (the exception propagates to the caller of `send`): whatever is queued stays queued,
    marks included. The first argument is a MODEL fuel — the code has no such counter; it is recursed on
    only to make the definition structural. `drainFuel` always suffices (`Xsm/Proofs/SyncDrain.lean`:
    `Term.drain_no_hang`, `C13.sync_drain_terminates`), so the fuel-0 branch is never reached with events pending on a running
    interpreter; it discards them (any total choice would do). -/
def drainLoop (m : Machine) (u : UEnv) : Nat → Nat → St → St
  | 0, _, s => if s.queue.isEmpty then s else { s with queue := [] }
  | fuel + 1, chained, s =>
    match s.queue with
    | [] => s
    | q :: rest =>
      -- a machine that completed / failed / stopped processes nothing further (marks cleared with the queue)
      if s.status ≠ "running" then { s with queue := [] } else
      if syncTrips m chained q then drainLoop m u fuel 0 (syncPurge s) else
      -- `on_event_received` plugins see every dequeued event
      let s1 := processEvent (hooksFlagged u m) .sync m u q.ev (emit ("#recv:" ++ q.ev.type) { s with queue := rest })
      let s2 := transientLoop (hooksFlagged u m) .sync m u m.maxIterations s1
      if s2.err.isSome then s2 else drainLoop m u fuel (chainedNext chained q) s2

/-- number of queued events that were accepted from outside (not marked) -/
def extCount (l : List QEv) : Nat := l.countP (fun q => !q.self)

/-- an upper bound on the number of iterations of one `_process_event_queue()`: between two dequeues of
    external events (none is ever added while draining: everything enqueued then is marked) at most
    `maxIterations` marked events are processed and one cut happens -/
def drainFuel (m : Machine) (s : St) : Nat := (extCount s.queue + 1) * (m.maxIterations + 2)

/-- `_process_event_queue()` entered with `_is_processing` clear: `chained = 0` -/
def drainFlagged (m : Machine) (u : UEnv) (s : St) : St := drainLoop m u (drainFuel m s) 0 s

def sndUnflagged (m : Machine) (u : UEnv) : Snd := fun e s =>
  if s.status = "running" then drainFlagged m u { s with queue := s.queue ++ [⟨e, false⟩] } else s

def startEntries (m : Machine) : List Entry × Option EErr :=
  let (es, e) := dfltDescend m [] m.root
  (⟨[], false⟩ :: es, e)

def syncStart (m : Machine) (u : UEnv) (s : St) : St :=
  let s := { s with status := "running", ctx := m.ctx0 }
  -- `_enter_states([machine])` with event None: every state gets its own synthetic entry event
  let (es, e) := startEntries m
  let s := es.foldl (enterOne (hooksFlagged u m) .sync m none) s
  let s := match e with | some err => s.fail err | none => s
  if s.err.isSome then s else
  -- settling runs behind the re-entrancy guard too; the queue is drained afterwards
  let s := transientLoop (hooksFlagged u m) .sync m u m.maxIterations s
  if s.err.isSome then s else
  drainFlagged m u s

def syncSend (m : Machine) (u : UEnv) (e : Ev) (s : St) : St := sndUnflagged m u e s

-- ASYNC ----------------------------------------------------------------------------------------------
/-- `start()` itself runs outside the run loop (`_processing` is false): nothing is counted -/
def hooksAsyncStart (u : UEnv) (m : Machine) : Hooks := mkHooks u m false enqueue enqueue

/-- while the run loop is processing an event (`_processing`), both the `raise` built-in and a
    `done.state.*` raised by an entry count towards the chain breaker and are marked self-raised -/
def hooksAsync (u : UEnv) (m : Machine) : Hooks :=
  mkHooks u m false (fun e s => enqueueQ true e { s with raiseDepth := s.raiseDepth + 1 })
    (fun e s => enqueueQ true e { s with raiseDepth := s.raiseDepth + 1 })

/-- the end-of-chain test BEHIND the `try/except/finally` of the run loop: the chain ends (the counter
    is reset) once this macrostep raised nothing (`_raise_depth == depth_before`) and nothing self-raised
    is pending (`not self._self_raised`) — whether the macrostep succeeded or FAILED -/
def asyncChainEnd (before : Nat) (s : St) : St :=
  if s.raiseDepth = before && !(s.queue.any (·.self)) then { s with raiseDepth := 0 } else s

/-- what the run loop does with an event it decided to process (`on_event_received`, `try: …
    _process_event_and_transient_transitions`, `except Exception: log`, then the end-of-chain test): an
    error while processing is logged and the loop survives. `depth_before` is read when the `try` is
    entered. -/
def asyncProcess (m : Machine) (u : UEnv) (e : Ev) (s : St) : St :=
  let s1 := processEvent (hooksAsync u m) .async m u e (emit ("#recv:" ++ e.type) s)
  let s2 := transientLoop (hooksAsync u m) .async m u m.maxIterations s1
  asyncChainEnd s.raiseDepth (if s2.err.isSome then { s2 with err := none, errors := s2.errors + 1 } else s2)

/-- the chain breaker fired: the counter is reset and every self-raised event still queued is purged;
    externally sent events are kept, in order -/
def asyncPurge (s : St) : St := { s with raiseDepth := 0, queue := s.queue.filter (fun q => !q.self) }

/-- one iteration of `_run_event_loop` for the dequeued entry `q` (`was_self_raised` is `q.self`).
    Chain broken (`_raise_depth > limit`): the queue is purged; the event in hand is dropped only if it
    is itself a member of the chain — an event sent from OUTSIDE falls through and is processed like
    any other event (with the counter at 0). -/
def asyncStep (m : Machine) (u : UEnv) (q : QEv) (s : St) : St :=
  if s.raiseDepth > m.maxIterations then
    (if q.self then asyncPurge s else asyncProcess m u q.ev (asyncPurge s))
  else asyncProcess m u q.ev s

/-- run the loop until the queue is empty or the machine stops running; `fuel` only guards the model
    (the code has no such bound: exhaustion is reported as a hang) -/
def asyncDrain (m : Machine) (u : UEnv) : Nat → St → St
  | 0, s => if s.queue.isEmpty || s.status ≠ "running" then s else { s with status := "HANG" }
  | fuel + 1, s =>
    if s.status ≠ "running" then s else
    match s.queue with
    | [] => s
    | q :: rest => asyncDrain m u fuel (asyncStep m u q { s with queue := rest })

def asyncFuel (m : Machine) : Nat := 10 * m.maxIterations + 50

/-- `start()`, first phase: `await self._enter_states([self.machine], init_event)` -/
def asyncStartEntered (m : Machine) (u : UEnv) (s : St) : St :=
  let s := { s with status := "running", ctx := m.ctx0 }
  let (es, e) := startEntries m
  let s := es.foldl (enterOne (hooksAsyncStart u m) .async m (some "___xstate_statemachine_init___")) s
  match e with | some err => s.fail err | none => s
/-- `start()`, second phase: `await self._settle_transient_transitions()` -/
def asyncStartSettled (m : Machine) (u : UEnv) (s : St) : St :=
  transientLoop (hooksAsyncStart u m) .async m u m.maxIterations (asyncStartEntered m u s)

/-- `start()` up to the point where the run-loop task is created: the initial entry and the eventless
    settling, with NO event dequeued in between (no loop exists yet: whatever entry actions raise and
    whatever was sent meanwhile just sits in the queue); a failure stops the interpreter -/
def asyncStartSettle (m : Machine) (u : UEnv) (s : St) : St :=
  if (asyncStartEntered m u s).err.isSome then { asyncStartEntered m u s with status := "stopped" }
  else if (asyncStartSettled m u s).err.isSome then { asyncStartSettled m u s with status := "stopped" }
  else asyncStartSettled m u s

/-- `if self.status == "running": self._event_loop_task = create_task(self._run_event_loop())` -/
def asyncLoopCreated (m : Machine) (u : UEnv) (s : St) : Bool := decide ((asyncStartSettle m u s).status = "running")

/-- `start()`: entry + settling, THEN (only if still running) the run loop, observed at quiescence -/
def asyncStart (m : Machine) (u : UEnv) (s : St) : St :=
  let s' := asyncStartSettle m u s
  if s'.status = "running" then asyncDrain m u (asyncFuel m) s' else s'

def asyncSend (m : Machine) (u : UEnv) (e : Ev) (s : St) : St :=
  if s.status = "running" then asyncDrain m u (asyncFuel m) { s with queue := s.queue ++ [⟨e, false⟩] } else s

def start (fl : Flavor) := match fl with | .sync => syncStart | .async => asyncStart
def send (fl : Flavor) := match fl with | .sync => syncSend | .async => asyncSend

end XSM
