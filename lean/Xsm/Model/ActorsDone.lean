import Xsm.Model.Actors
/-
  ActorsDone — actors whose machine ENDS BY ITSELF, on top of the actor-system model `Xsm/Model/Actors.lean`
  (nothing of that file is changed: its operations and the theorems about them speak about systems in which an
  actor leaves `running` only through `stop()`).

  Modelled code (src/xstate_statemachine):
    base_interpreter.py  `_complete` (a top-level final state is reached: `status = "done"`), `_fail` (an invoked
                         service raises and nothing handles it: `status = "error"`) — the status, nothing else
    interpreter.py       `send` (refuses events when `stopped`, `done` or `error`), `_run_event_loop`
                         (`while self.status == "running"`), `stop` (returns early only for `uninitialized` /
                         `stopped`: a finished actor is torn down like a running one), `_spawn_and_manage_actor`
                         (the managing task of `invoke: {src: <machine>}`: polls the child's status every 5 ms,
                         reports `done.invoke.<id>` / `error.platform.<id>`, and its `finally`)
    sync_interpreter.py  `send`, `stop`, the watcher thread `_runner` of a non-blocking `_spawn_actor`
                         (polls every 10 ms; `_queue_actor_done`; `child.stop()`; pops its own entry)

  A finished actor is, at message level, a stopped one — it refuses every event ("dropping event"), its run loop
  is gone — except that NOTHING of `stop()` has happened: its children map, its children, its registry entries and
  its pending delayed sends are exactly as they were, and a later `stop()` still tears it down.  It is represented
  as a `stopped` actor of the base system that is listed in `fin`; `stopD` first gives it back the status `running`
  (run loop gone), because `stop()` does not tell a finished actor from a running one.

  What happens NEXT depends on who watches the child:
    sync, non-blocking spawn / invoke   the watcher thread: `done.invoke.iv` to the parent (invoke + final state only),
                                        `child.stop()` (whole subtree, registry), pops its own entry
    async, invoke                       the managing task: `done.invoke.iv` / `error.platform.iv` to the parent, pops
                                        the child from the parent's map — and, until F71 is repaired (`fixed = false`),
                                        does NOT stop it: `if child.status == "running": await child.stop()`.
                                        What the child had spawned keeps running, registered, addressable by systemId,
                                        and is out of reach of every `stop()`.  Repaired: `await child.stop()` always.
    async spawn, sync blocking spawn    nobody: the child stays in the children map as `done` until somebody stops it
                                        or an actor above it (`stop()` then tears it down like a running child:
                                        `reviveSub`).  The base `runActions` cannot express that for a `stopChild` / a
                                        spawn over an id in use issued from INSIDE an action list: an operation that may
                                        do so while a finished actor is still listed leaves the modelled fragment
                                        (`oos`, the monitor alone judges the rest of the run).
  The operation `fin` is composite: the actor handles FIN / FAIL, then the clock advances by `pollMs`, so that the
  watcher has reacted at the next observation point (the harness does the same).
-/
namespace XSM.Actors

/-- at least the poll interval of both watchers (async 5 ms, sync 10 ms) -/
def pollMs : Nat := 10

inductive StatusD | uninit | running | done | error | stopped
  deriving DecidableEq, Repr, Inhabited

structure SysD where
  base : Sys := {}
  fin : List (Nat × Bool) := []     -- finished by itself and not stopped since: uid, failed?
  fixed : Bool := false             -- F71 repaired: the async managing task always stops its child
  deriving Repr, Inhabited

namespace SysD

def isFin (d : SysD) (u : Nat) : Bool := d.fin.any (fun kv => kv.1 = u)

def failed (d : SysD) (u : Nat) : Bool := d.fin.any (fun kv => kv.1 = u && kv.2)

/-- the status the library shows -/
def status (d : SysD) (u : Nat) : StatusD :=
  if d.failed u then .error
  else if d.isFin u then .done
  else
    match (d.base.get u).status with
    | .uninit => .uninit
    | .running => .running
    | .stopped => .stopped

end SysD

/-- `_complete` / `_fail`: the status leaves `running`; the run loop ends (`while self.status == "running"`) -/
def finishA (s : Sys) (u : Nat) : Sys := s.upd u (fun a => { a with status := .stopped, alive := false })

/-- what `stop()` sees in a finished actor: not `uninitialized`, not `stopped` -/
def reviveA (s : Sys) (u : Nat) : Sys := s.upd u (fun a => { a with status := .running })

/-- the actors at and below `x` in the children maps -/
def subtreeOf (s : Sys) (x : Nat) : List Nat := (dfs s (s.actors.length + 1) 0 x).map (·.2)

/-- every finished actor at or below `x` as `stop()` sees it -/
def reviveSub (d : SysD) (x : Nat) : SysD :=
  { d with base := (subtreeOf d.base x).foldl (fun s u => if d.isFin u then reviveA s u else s) d.base,
           fin := d.fin.filter (fun kv => !(subtreeOf d.base x).contains kv.1) }

/-- `stop()` of `x`, finished or not, with finished actors below it or not -/
def stopD (busy : Option Nat) (d : SysD) (x : Nat) : SysD :=
  { reviveSub d x with base := stop busy (reviveSub d x).base x }

/-- was the child created by `invoke`? (async: the managing task; sync: `_spawn_actor(on_complete = "iv")`, the
    harness's invoke id — no spawn action uses it) -/
def isInvokeWatch (w : Watch) : Bool := w.invoke || (segs w.cid).getLast? = some "iv"

/-- what the watcher tells the parent about a child that finished by itself -/
def notifyFin (d : SysD) (w : Watch) : Sys :=
  if d.failed w.child then
    -- sync `_queue_actor_done` reports a reached final state only; the async task reports the failure
    if w.invoke then deliverNow d.base w.parent "error.platform.iv" else d.base
  else if isInvokeWatch w then deliverNow d.base w.parent "done.invoke.iv"
  else d.base

def popD (d : SysD) (w : Watch) : SysD := { d with base := popOwnKid d.base w }

/-- a watcher notices that its child no longer runs; a child that FINISHED BY ITSELF:
    sync   `_queue_actor_done(child)`; `child.stop()`; pop own entry
    async  send done / error; `finally: self._actors.pop(child.id); if child.status == "running": await child.stop()`
           — a finished child is not `running`: it is dropped and NOT stopped (repaired: always stopped) -/
def runWatchD (d : SysD) (iw : Nat × Watch) : SysD :=
  if iw.2.live ∧ d.isFin iw.2.child then
    match d.base.flavor with
    | .sync => popD (stopD none { d with base := killWatch (notifyFin d iw.2) iw.1 } iw.2.child) iw.2
    | .async =>
      if d.fixed then stopD none (popD { d with base := killWatch (notifyFin d iw.2) iw.1 } iw.2) iw.2.child
      else popD { d with base := killWatch (notifyFin d iw.2) iw.1 } iw.2
  else { d with base := runWatch d.base iw }

def runWatchesD (d : SysD) : SysD :=
  ((List.range d.base.watches.length).zip d.base.watches).foldl runWatchD d

/-- `advance` with the watchers of this file -/
def advanceD (d : SysD) (dt : Nat) : SysD :=
  { runWatchesD d with base := settle (tick (fireDue (settle (runWatchesD d).base) dt) dt) }

/-- is `x` still in the children map of its parent? (the root: nobody above it) -/
def stillListed (s : Sys) (x : Nat) : Bool :=
  match (s.get x).parent with
  | none => true
  | some p => (s.get p).kids.any (fun kv => kv.2 = x)

/-- the transition into the final (failing) state: the invoking state, if active, is exited first -/
def finBody (p : Nat) (busy : Option Nat) (s1 : Sys) : Sys := finishA (leaveBody busy p s1) p

def finName (failed : Bool) : String := if failed then "FAIL" else "FIN"

/-- the harness makes the machine of the running actor `p` end by itself, then lets `pollMs` pass -/
def finOp (d : SysD) (p : Nat) (failed : Bool) : SysD :=
  if (d.base.get p).status = .running then
    advanceD { d with base := handle d.base p (finName failed) (finBody p), fin := d.fin ++ [(p, failed)] } pollMs
  else { d with base := advance (handle d.base p (finName failed) (fun _ s => s)) pollMs }

/-- is some finished actor still in its parent's children map (or the root)? -/
def hasListedFin (d : SysD) : Bool := d.fin.any (fun kv => stillListed d.base kv.1)

def mayStop : Action → Bool
  | .stopChild _ => true
  | .spawn _ _ _ _ => true
  | _ => false

/-- can this operation call `stop()` from inside the base model's action lists / state exits? -/
def opMayStop (cmds : List (String × List Action)) : Op → Bool
  | .cmd _ name => name = "GOINV" || name = "LEAVE" || ((dlookup name cmds).getD []).any mayStop
  | _ => false

inductive OpD
  | base (op : Op)
  | fin (aid : String) (failed : Bool)
  deriving Repr, Inhabited

def stepD (cmds : List (String × List Action)) (d : SysD) : OpD → SysD
  | .base (.stop aid) =>
    match findActor d.base aid with
    | none => { d with base := step cmds d.base (.stop aid) }
    | some x => { reviveSub d x with base := step cmds (reviveSub d x).base (.stop aid) }
  | .base op => { d with base := step cmds (markOos d.base (hasListedFin d && opMayStop cmds op)) op }
  | .fin aid failed =>
    match findActor d.base aid with
    | none => { d with base := advance (clearWarns d.base) pollMs }
    | some p => finOp { d with base := clearWarns (markOos d.base (hasListedFin d && (d.base.get p).inInv)) } p failed

def runD (cmds : List (String × List Action)) (d : SysD) (ops : List OpD) : SysD := ops.foldl (stepD cmds) d

def initD (fl : Flavor) (eager : Bool) (invoke : List (String × String)) (fixed : Bool) : SysD :=
  { base := init fl eager invoke, fixed := fixed }

/-- `invB` with the finished actors exempt from the clauses about stopped ones (a finished actor keeps its children) -/
def invD (d : SysD) : Bool :=
  (List.range d.base.actors.length).all (fun u =>
    (d.base.get u).kids.all (fun kv => u < kv.2 && kv.2 < d.base.actors.length) &&
    (d.isFin u ||
      ((runningB (d.base.get u) || deadB d.base (d.base.get u)) &&
       (!deadB d.base (d.base.get u) || (d.base.get u).kids.isEmpty))))

end XSM.Actors
