import Xsm.Model.Parse
/-
Creation-time type checks added to the library by the `fix:` commits for findings F15c, F15d, F15g
(and the state-level `target` check): a `target` that is not a string, an action `type` that is not a
string, an `invoke.src` that is not hashable. They are independent of the structural parse
(`Parse.lean`): `createMachine` = these checks, then `parseMachine`. Only the error CLASS is compared
with the code (`InvalidConfigError` at `create_machine`), never which of several errors is reported.
-/
namespace XSM

def badTarget : Option J → Bool
  | none => false | some .null => false | some (.str _) => false | some _ => true

/-- `ActionDefinition`: an object whose `type` is present and not a string -/
def badAction : J → Bool
  | .obj kvs => (match (J.obj kvs).get? "type" with | none => false | some (.str _) => false | some _ => true)
  | _ => false

def badActions : Option J → Bool
  | none => false
  | some v => if !truthy v then false else (ensureList v).any badAction

/-- one transition config (after `_normalize_transitions`): target and actions -/
def badTransition : J → Bool
  | .obj kvs => badTarget ((J.obj kvs).get? "target") || badActions ((J.obj kvs).get? "actions")
  | _ => false

def badTransitions : J → Bool
  | .arr xs => xs.any badTransition
  | j => badTransition j

def badTransMap : Option J → Bool
  | some (.obj kvs) => kvs.any (fun kv => badTransitions kv.2)
  | _ => false

def badInvoke : J → Bool
  | .obj kvs =>
    let o := J.obj kvs
    (match o.get? "src" with | some (.arr _) => true | some (.obj _) => true | _ => false) ||
    (match o.get? "onDone" with | some v => badTransitions v | none => false) ||
    (match o.get? "onError" with | some v => badTransitions v | none => false)
  | _ => false

/-- the checks on one state's own definition -/
def badStateDef (cfg : J) : Bool :=
  badTarget (cfg.get? "target") || badActions (cfg.get? "entry") || badActions (cfg.get? "exit") ||
  badTransMap (cfg.get? "on") || badTransMap (cfg.get? "after") ||
  (match cfg.get? "always" with | some v => badTransitions v | none => false) ||
  (match cfg.get? "onDone" with | some v => badTransitions v | none => false) ||
  (ensureList ((cfg.get? "invoke").getD (.arr []))).any badInvoke

def validateState (cfg : J) : Except PErr Unit := do
  if badStateDef cfg then throw "InvalidConfigError: a target / action type / invoke src has the wrong type"
  for _h : kc in stateKidsJ cfg do
    validateState kc.2
termination_by sizeOf cfg
decreasing_by exact stateKidsJ_sizeOf_lt cfg kc _h

/-- `create_machine`: the type checks, then the structural parse -/
def createMachine (cfg : J) : Except PErr Machine := do
  match cfg with
  | .obj _ => validateState cfg
  | _ => pure ()
  parseMachine cfg

end XSM
