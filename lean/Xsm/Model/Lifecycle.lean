import Xsm.Model.Engine
/-
LIFECYCLE operations of the two interpreters over the engine state `St`:
`start()`, `send()`, `send_events()`, `stop()`, `_fail()`, `from_snapshot(get_snapshot())`.

Mirrors (file:function in /repo/src/xstate_statemachine)
  sync_interpreter.py : SyncInterpreter.start / stop / send / send_events / _process_event_queue
  interpreter.py      : Interpreter.start / stop / send / send_events / _run_event_loop / is_running
  base_interpreter.py : _fail, get_persisted_snapshot, from_snapshot

The status tests of `send`, `stop`, `_fail` are NOT written here as literals: they are read from
`Xsm/Generated/Tables.lean` (regenerated from the source on every run) through `refuses`, so an
edit of those literals in the code changes these definitions and breaks the `*_spec` theorems of
`Xsm/Proofs/Lifecycle.lean`.

What the async engine needs beyond `St`: whether an `_event_loop_task` is attached (`loop`). A
snapshot-restored interpreter has the persisted status and NO loop task; `start()` attaches one —
AFTER the initial entry and the eventless settling, and only if the interpreter is still running then
(`asyncLoopCreated`): nothing is dequeued while `start()` is entering the initial states.
Observation points are quiescent: after every operation the attached run loop has drained the queue
(`lsettle`), exactly what the harness does (`_drain`) before it looks at the interpreter.
-/
namespace XSM

/-- one clause `if self.status <op> <literals>: return` as extracted from the source -/
def gateClause (status : String) (c : String × List String) : Bool :=
  if c.1 = "NotEq" then !(c.2.contains status)
  else if c.1 = "Eq" then c.2.contains status
  else if c.1 = "In" then c.2.contains status
  else if c.1 = "NotIn" then !(c.2.contains status)
  else false

/-- the operation returns at once (does nothing) in this status -/
def refuses (gate : List (String × List String)) (status : String) : Bool :=
  gate.any (gateClause status)

/-- an interpreter object: engine state + (async) "a run-loop task is attached" -/
structure LSt where
  st : St := {}
  loop : Bool := false
deriving Inhabited

/-- `Interpreter(machine)` / `SyncInterpreter(machine)`: the context is built by the constructor -/
def LSt.new (m : Machine) : LSt := { st := { ctx := m.ctx0 } }

def sendGate : Flavor → List (String × List String)
  | .sync => Tables.syncSendGate
  | .async => Tables.asyncSendGate
def stopGate : Flavor → List (String × List String)
  | .sync => Tables.syncStopGate
  | .async => Tables.asyncStopGate

/-- append a burst of external events at the tail of the queue -/
def pushAll (es : List Ev) (s : St) : St :=
  { s with queue := s.queue ++ es.map (fun e => (⟨e, false⟩ : QEv)) }

/-- async: an attached run loop of a running interpreter drains the queue before the next observation -/
def lsettle (fl : Flavor) (m : Machine) (u : UEnv) (l : LSt) : LSt :=
  match fl with
  | .sync => l
  | .async =>
    if l.loop = true ∧ l.st.status = "running" then { l with st := asyncDrain m u (asyncFuel m) l.st } else l

/-- `start()` refuses with `InvalidConfigError`: a stopped interpreter cannot be revived -/
def startRaises (l : LSt) : Bool := decide (l.st.status = "stopped")

/-- async `start()`: the "resume a snapshot-restored interpreter" branch is tested first -/
def asyncResumes (l : LSt) : Bool :=
  (decide (l.st.status = "running") || decide (l.st.status = "done") || decide (l.st.status = "error")) && !l.loop

def opStart (fl : Flavor) (m : Machine) (u : UEnv) (l : LSt) : LSt :=
  match fl with
  | .sync =>
    if startRaises l then l
    else if l.st.status ≠ "uninitialized" then l
    else { l with st := syncStart m u l.st }
  | .async =>
    if asyncResumes l then
      (if l.st.status = "running" then lsettle .async m u { l with loop := true } else l)
    else if startRaises l then l
    else if l.st.status ≠ "uninitialized" then l
    -- the run-loop task is created only AFTER the initial entry and the settling, and only if the
    -- interpreter is still running then (a start that failed or completed the machine attaches none)
    else { st := asyncStart m u l.st, loop := asyncLoopCreated m u l.st }

/-- `send_events(es)`: gate, append everything, then (sync) ONE drain / (async) the run loop's business -/
def opSendMany (fl : Flavor) (m : Machine) (u : UEnv) (es : List Ev) (l : LSt) : LSt :=
  if refuses (sendGate fl) l.st.status then l
  else
    match fl with
    | .sync => { l with st := drainFlagged m u (pushAll es l.st) }
    | .async => lsettle .async m u { l with st := pushAll es l.st }

/-- `send(e)` -/
def opSend (fl : Flavor) (m : Machine) (u : UEnv) (e : Ev) (l : LSt) : LSt := opSendMany fl m u [e] l

/-- `stop()`: no-op when uninitialized or stopped; otherwise status := "stopped" and the run loop is
    cancelled. Neither engine touches the event queue. -/
def opStop (fl : Flavor) (l : LSt) : LSt :=
  if refuses (stopGate fl) l.st.status then l
  else { st := { l.st with status := "stopped" }, loop := false }

/-- `_fail(error)`: an invoked service failed and nothing handles it -/
def opFail (l : LSt) : LSt :=
  if refuses Tables.failGate l.st.status then l
  else { l with st := { l.st with status := "error" } }

/-- what a snapshot round trip does to the recorded history: `get_persisted_snapshot` stores the
    ids sorted as strings and `from_snapshot` re-sorts the resolved nodes by (depth, id) — the
    order `_record_history` keeps (stable sorts, so the composition is the (depth, id) sort of the
    id-sorted list) -/
def snapshotHist (m : Machine) (h : List (Path × List Path)) : List (Path × List Path) :=
  h.map (fun kv => (kv.1,
    sortBy (fun a b => a.length < b.length || (a.length == b.length && decide (m.idOf a ≤ m.idOf b)))
      (sortBy (fun a b => decide (m.idOf a ≤ m.idOf b)) kv.2)))

/-- `cls.from_snapshot(it.get_snapshot(), machine)`: a NEW interpreter with the persisted status,
    context, configuration and history; empty queue, no run loop, nothing scheduled -/
def opRestore (m : Machine) (l : LSt) : LSt :=
  { st := { cfg := l.st.cfg, hist := snapshotHist m l.st.hist, ctx := l.st.ctx, status := l.st.status },
    loop := false }

inductive LOp where
  | start
  | send (e : Ev)
  | sendMany (es : List Ev)
  | stop
  | fail
  | restore
deriving Inhabited

def lstep (fl : Flavor) (m : Machine) (u : UEnv) (l : LSt) : LOp → LSt
  | .start => opStart fl m u l
  | .send e => opSend fl m u e l
  | .sendMany es => opSendMany fl m u es l
  | .stop => opStop fl l
  | .fail => opFail l
  | .restore => opRestore m l

def lrun (fl : Flavor) (m : Machine) (u : UEnv) (ops : List LOp) (l : LSt) : LSt :=
  ops.foldl (lstep fl m u) l

-- the events a drain receives ---------------------------------------------------------------------
/-- the state the sync drain loop holds after processing `e` (already dequeued from `s`) and settling -/
def syncMacro (m : Machine) (u : UEnv) (e : Ev) (s : St) : St :=
  transientLoop (hooksFlagged u m) .sync m u m.maxIterations
    (processEvent (hooksFlagged u m) .sync m u e (emit ("#recv:" ++ e.type) s))

/-- the entries `drainLoop` dequeues and hands to `on_event_received` / `_process_event`, in order, with
    their mark (same recursion as `drainLoop`; a cut hands nothing over: the marked head is discarded with
    the other marked entries) -/
def drainLogQ (m : Machine) (u : UEnv) : Nat → Nat → St → List QEv
  | 0, _, _ => []
  | fuel + 1, chained, s =>
    match s.queue with
    | [] => []
    | q :: rest =>
      if s.status ≠ "running" then []
      else if syncTrips m chained q then drainLogQ m u fuel 0 (syncPurge s)
      else
        q :: (if (syncMacro m u q.ev { s with queue := rest }).err.isSome then []
              else drainLogQ m u fuel (chainedNext chained q) (syncMacro m u q.ev { s with queue := rest }))

/-- the events `drainLoop` receives, in order -/
def drainLog (m : Machine) (u : UEnv) (fuel chained : Nat) (s : St) : List Ev :=
  (drainLogQ m u fuel chained s).map (·.ev)

/-- the run loop hands the dequeued entry `q` to `on_event_received` / `_process_event`: always, unless
    the chain breaker is tripped AND `q` is itself self-raised (an external event is never dropped) -/
def asyncReceives (m : Machine) (q : QEv) (s : St) : Bool := !(decide (s.raiseDepth > m.maxIterations) && q.self)

/-- the entries `asyncDrain` (the run loop) dequeues and PROCESSES, in order, with their origin flag; a
    SELF-RAISED event dequeued while the chain breaker is tripped is dropped unprocessed and does not appear -/
def asyncLogQ (m : Machine) (u : UEnv) : Nat → St → List QEv
  | 0, _ => []
  | fuel + 1, s =>
    if s.status ≠ "running" then []
    else
      match s.queue with
      | [] => []
      | q :: rest =>
        (if asyncReceives m q s then [q] else [])
          ++ asyncLogQ m u fuel (asyncStep m u q { s with queue := rest })

/-- the events the run loop processes, in order -/
def asyncLog (m : Machine) (u : UEnv) (fuel : Nat) (s : St) : List Ev := (asyncLogQ m u fuel s).map (·.ev)

-- the re-entrancy flag protocol of the sync engine, two threads, statement granularity ---------------
namespace SyncFlag
/-
    def send(self, e):
 0      self._event_queue.append(e)
 1      if self._is_processing: return          # _process_event_queue
 2      self._is_processing = True
 3      while self._event_queue:                #   3: test, pop    3': process the popped event
            ev = popleft(); process(ev)
 4      self._is_processing = False
 5      (returned)
-/
inductive PC where | append | check | setFlag | loopTest | processing | clearFlag | done
deriving DecidableEq, Repr, Inhabited

structure S where
  pcA : PC := .append
  pcB : PC := .append
  flag : Bool := false
  queue : Nat := 0          -- number of queued events
  processed : Nat := 0      -- events handed to `_process_event`
deriving DecidableEq, Repr, Inhabited

/-- the thread is inside the region the flag is meant to protect (between setting and clearing it) -/
def PC.inRegion : PC → Bool
  | .loopTest | .processing | .clearFlag => true
  | _ => false

/-- one statement of one thread, as the code is written: test and set are two statements -/
def stmt (pc : PC) (flag : Bool) (queue processed : Nat) : PC × Bool × Nat × Nat :=
  match pc with
  | .append => (.check, flag, queue + 1, processed)
  | .check => (if flag then .done else .setFlag, flag, queue, processed)
  | .setFlag => (.loopTest, true, queue, processed)
  | .loopTest => if queue = 0 then (.clearFlag, flag, queue, processed) else (.processing, flag, queue - 1, processed)
  | .processing => (.loopTest, flag, queue, processed + 1)
  | .clearFlag => (.done, false, queue, processed)
  | .done => (.done, flag, queue, processed)

/-- the same with test-and-set made ONE atomic statement (what a lock around them gives) -/
def stmtAtomic (pc : PC) (flag : Bool) (queue processed : Nat) : PC × Bool × Nat × Nat :=
  match pc with
  | .check => if flag then (.done, flag, queue, processed) else (.loopTest, true, queue, processed)
  | _ => stmt pc flag queue processed

/-- `true` schedules thread A, `false` thread B -/
def step (f : PC → Bool → Nat → Nat → PC × Bool × Nat × Nat) (s : S) (a : Bool) : S :=
  if a then
    let r := f s.pcA s.flag s.queue s.processed
    { s with pcA := r.1, flag := r.2.1, queue := r.2.2.1, processed := r.2.2.2 }
  else
    let r := f s.pcB s.flag s.queue s.processed
    { s with pcB := r.1, flag := r.2.1, queue := r.2.2.1, processed := r.2.2.2 }

def run (f : PC → Bool → Nat → Nat → PC × Bool × Nat × Nat) (sched : List Bool) (s : S) : S :=
  sched.foldl (step f) s

/-- at most one thread is inside the flagged region -/
def Mutex (s : S) : Prop := ¬ (s.pcA.inRegion = true ∧ s.pcB.inRegion = true)

instance (s : S) : Decidable (Mutex s) := by unfold Mutex; exact inferInstance

end SyncFlag

end XSM
