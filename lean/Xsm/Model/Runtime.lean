import Xsm.Model.Engine
/-!
RUNTIME layer around the engine model: virtual time, `after` timers, invoked services.

The engine model (`Engine.lean`) has no notion of time. The code calls `_schedule_state_tasks` when
a state has been entered and `_cancel_state_tasks` when it is exited; this file re-runs the engine's
own `exitOne` / `enterOne` / `execActions` (nothing of the engine is re-implemented) in the same
order as `runPlan` and adds the bookkeeping the code does at those two points:

* async (`interpreter.py`): per exited state `cancel_by_owner` (awaits the cancelled tasks, i.e.
  yields to the event loop when there was something to cancel), then the exit actions; per entered
  state the entry actions, then `_schedule_state_tasks` (one timer task per `after` transition, one
  service task per `invoke`);
* sync (`sync_interpreter.py`): all cancels first, then the exit actions; `_schedule_state_tasks` at
  the END of a state's entry, i.e. after its nested default descent; services run inside the entry.

Time passes only where the interpreter's own task is suspended: a slow action (`REnv.dur`), the
`await` inside `cancel_by_owner`, or the idle interpreter. What can happen meanwhile is given by the
interleaving handler `RCx.wnd` (the real one is `window`): timers expire, services finish, external
inputs of the agenda arrive — all of which only ENQUEUE (plus `_fail`).  Wake-ups are ordered by
(due time, creation order), external inputs first at equal times.

ORDER WITHIN ONE INSTANT (async). asyncio's loop keeps ONE FIFO of ready callbacks; when it is empty the clock
jumps to the next deadline and EVERY timer handle due then is moved to the FIFO at once (deadline, creation
order), behind whatever is already in it; a new task's first step, a task that did `sleep(0)`, a task whose
awaited future was resolved (`queue.get()` after a `put`) all go to the END of the FIFO. The model does not
keep the FIFO: every entry of it has a STAMP taken from the one allocation counter `nextId` at the moment it
was appended (for a sleeper: the creation order of its timer handle, `wseq` — older than anything appended
in the instant at which it expires), and what runs next is the ready entry with the least stamp (`nextItem`).
Ready entries: a sleeper that is due (`Item.wake`), a timer task that has not yet begun to sleep
(`Item.tstart`), a service task before its first hop (`Item.hop`: `sleep(0)`, which re-appends it) and
before the call of its service (`Item.call`), and the run loop (`Item.loop`, stamp `RT.lw`) once something
has been put into the queue it was waiting on. Hence, at one instant: wake-ups that are due go BEFORE the
first steps of tasks created in that instant, a task created by the interpreter needs two hops before its
service is called (the run loop, woken meanwhile, goes first and may cancel it unstarted), and an external
input that arrives at that instant goes before everything.

Ghost fields (`acts`, `fired`, `started`, `clean`) exist for the theorems only: the code has no
activation counter — which is exactly why findings F6/F7 exist.
-/
namespace XSM

structure Timer where
  owner : Path
  evType : String
  armed : Nat          -- time of arming (= time of the owner's entry)
  delay : Nat          -- resolved at arming
  act : Nat            -- activation index of the owner at arming time
  seq : Nat            -- creation order of the timer task / thread
  slot : Nat           -- index of the delay key among the owner's arming ones (one timer per delay key)
  started : Bool       -- the timer task / thread has begun to wait (at the creating task's next yield)
  wseq : Nat           -- creation order of its wake-up, once started
deriving Repr, Inhabited, DecidableEq

def Timer.due (t : Timer) : Nat := t.armed + t.delay

structure SvcSpec where
  coro : Bool          -- coroutine function (awaits `dur` ms) / plain callable (returns at once)
  dur : Nat
  ok : Bool            -- returns / raises
deriving Repr, Inhabited, DecidableEq

structure Invocation where
  owner : Path
  id : String
  src : String
  act : Nat
  seq : Nat            -- creation order of the service task
  spec : SvcSpec
  handled : Bool       -- the invoke declares `onError`
  started : Bool       -- the service has been called (a task that never ran has not)
  hopped : Bool        -- async, not yet started: the task's first step (`sleep(0)`) is done, the call is in the ready queue
  due : Nat            -- completion time, once started
  wseq : Nat           -- creation order of its wake-up, once started; before: the stamp of its next step in the ready queue
deriving Repr, Inhabited, DecidableEq

/-- user-supplied timing data: named delays, service registry, duration of (slow) actions -/
structure REnv where
  delays : String → Option Nat
  svc : String → Option SvcSpec
  dur : String → Nat

inductive ExtOp where
  | send (e : String)
  | stop
  | obs
deriving Repr, Inhabited, DecidableEq

structure RT where
  st : St := {}
  now : Nat := 0
  timers : List Timer := []
  invs : List Invocation := []
  nextId : Nat := 0
  acts : List (Path × Nat) := []              -- ghost: number of entries of each state so far
  agenda : List (Nat × ExtOp) := []           -- external inputs still to come (ascending times)
  log : List (Nat × String) := []             -- time-stamped observable records, newest first
  seen : Nat := 0                             -- engine trace records already copied into `log`
  fired : List Timer := []                    -- ghost: timers whose expiry was delivered
  started : List (Path × String × Nat) := []  -- ghost: service calls (owner, invoke id, activation)
  clean : Bool := true                        -- ghost: no rollback, no entry of an already active state
  lt : Bool := false                          -- async: the run-loop task exists and is alive (waiting in `queue.get()` when idle);
                                              -- created by `start()` only AFTER entry + settling, and only if still running
  lw : Option Nat := none                     -- async: the run-loop task is in the ready queue (just created: `lt` still false; or
                                              -- woken by a `put` while it waited in `queue.get()`), with this stamp
deriving Inhabited

/-- context of a run: engine flavour, machine, user code, timing data, interleaving handler -/
structure RCx where
  fl : Flavor
  m : Machine
  u : UEnv
  r : REnv
  wnd : Nat → RT → RT

-- ghost activation counters ------------------------------------------------------------------------
def actOf (acts : List (Path × Nat)) (p : Path) : Nat :=
  match acts.find? (fun kv => kv.1 = p) with
  | some kv => kv.2
  | none => 0

def bumpAct (acts : List (Path × Nat)) (p : Path) : List (Path × Nat) :=
  (p, actOf acts p + 1) :: acts

-- log ------------------------------------------------------------------------------------------------
/-- copy the engine trace records produced since the last flush, stamped with the current time -/
def RT.flush (rt : RT) : RT :=
  { rt with log := (rt.st.trace.take (rt.st.trace.length - rt.seen)).map (fun r => (rt.now, r)) ++ rt.log,
            seen := rt.st.trace.length }

def rlog (r : String) (rt : RT) : RT :=
  { rt with log := (rt.now, r) :: rt.flush.log, seen := rt.flush.seen }

def setNow (t : Nat) (rt : RT) : RT :=
  { rt with log := rt.flush.log, seen := rt.flush.seen, now := if rt.now ≤ t then t else rt.now }

-- delivery (what a timer task, a service task or an external caller does: `send`) --------------------
/-- `send` from outside the interpreter's own task: only enqueues (refused unless running); `self` is the
    mark the engine puts on the queued entry -/
def deliverQ (self : Bool) (e : Ev) (rt : RT) : RT :=
  rlog ("send:" ++ e.type ++ ":" ++ rt.st.status) { rt with st := enqueueQ self e rt.st }
def deliver (e : Ev) (rt : RT) : RT :=
  rlog ("send:" ++ e.type ++ ":" ++ rt.st.status) { rt with st := enqueue e rt.st }

/-- the mark of a `send` that arrives while the interpreter is BUSY. sync: `_is_processing` is set, so
    `send()` records the event in `_raised_in_drain` — whoever the caller is (an action, a timer thread, another
    thread); async: `send()` marks nothing (only `raise` / `done.state.*` inside the run loop are) -/
def busyMark : Flavor → Bool
  | .sync => true
  | .async => false

/-- `_fail`: an unhandled service error puts the interpreter into the `error` status -/
def stFail (s : St) : St :=
  if s.status = "running" ∨ s.status = "uninitialized" then { s with status := "error" } else s

def doneEvOf (i : Invocation) : Ev :=
  if i.spec.ok then .done ("done.invoke." ++ i.id) i.id else .done ("error.platform." ++ i.id) i.id

/-- a service returns or raises: exactly one completion event; unhandled failure ⇒ `_fail` -/
def completeInv (i : Invocation) (rt : RT) : RT :=
  let rt1 := deliver (doneEvOf i)
    (rlog ("svc-end:" ++ i.id ++ (if i.spec.ok then ":ok" else ":raise")) { rt with invs := rt.invs.filter (fun j => j.seq ≠ i.seq) })
  if i.spec.ok ∨ i.handled then rt1 else { rt1 with st := stFail rt1.st }

/-- the service task gets to run: the service is called (once) -/
def startOne (rt : RT) (i : Invocation) : RT :=
  let rt1 := rlog ("svc-start:" ++ i.id) { rt with started := (i.owner, i.id, i.act) :: rt.started }
  if i.spec.coro then
    { rt1 with invs := rt1.invs.map (fun j => if j.seq = i.seq then
                  { j with started := true, due := rt1.now + i.spec.dur, wseq := rt1.nextId } else j),
               nextId := rt1.nextId + 1 }
  else completeInv i rt1

/-- timer tasks created since the last yield begin to sleep, in creation order (the deadline is
    unaffected: no time has passed since they were created) -/
def startTimersL : List Timer → Nat → List Timer × Nat
  | [], n => ([], n)
  | t :: ts, n =>
    if t.started then (t :: (startTimersL ts n).1, (startTimersL ts n).2)
    else ({ t with started := true, wseq := n } :: (startTimersL ts (n + 1)).1, (startTimersL ts (n + 1)).2)

/-- the interpreter's task yields: tasks created since the last yield get to run — first the timer
    tasks (they go to sleep), then the service tasks (one more hop: the service is called) -/
def startPending (rt : RT) : RT :=
  let rt1 := { rt with timers := (startTimersL rt.timers rt.nextId).1, nextId := (startTimersL rt.timers rt.nextId).2 }
  (rt1.invs.filter (fun i => !i.started)).foldl startOne rt1

-- wake-ups -------------------------------------------------------------------------------------------
inductive Wake where
  | tm (t : Timer)
  | iv (i : Invocation)
deriving Inhabited

def Wake.due : Wake → Nat
  | .tm t => t.due
  | .iv i => i.due
def Wake.ord : Wake → Nat
  | .tm t => t.wseq
  | .iv i => i.wseq

def lexLt (a1 a2 b1 b2 : Nat) : Bool := a1 < b1 || (a1 == b1 && a2 < b2)

def wakes (rt : RT) : List Wake := (rt.timers.filter (·.started)).map .tm ++ (rt.invs.filter (·.started)).map .iv

def minWakeL : List Wake → Option Wake
  | [] => none
  | w :: ws =>
    match minWakeL ws with
    | none => some w
    | some b => if lexLt b.due b.ord w.due w.ord then some b else some w

def minWake (rt : RT) : Option Wake := minWakeL (wakes rt)

/-- `stop()`: status, `cancel_all`, the run loop is cancelled -/
def stopRT (rt : RT) : RT :=
  if rt.st.status = "uninitialized" ∨ rt.st.status = "stopped" then rt
  else rlog "stop" { rt with st := { rt.st with status := "stopped" }, timers := [], invs := [], lt := false, lw := none }

def obsRec (m : Machine) (rt : RT) : String :=
  "obs:" ++ ",".intercalate (rt.st.cfg.map m.idOf) ++ ";" ++ rt.st.status ++ ";tasks=" ++ toString (rt.timers.length + rt.invs.length)

/-- a timer expires while the interpreter is busy (or, async, at any time): the expiry is delivered.
    The sync timer thread first re-checks that the interpreter runs and the owner is active. -/
def fireTimerQ (fl : Flavor) (t : Timer) (rt : RT) : RT :=
  let rt1 := { rt with timers := rt.timers.filter (fun x => x.seq ≠ t.seq) }
  match fl with
  | .async => deliver (.after t.evType) { rt1 with fired := t :: rt1.fired }
  | .sync =>
    -- the timer thread's `send()` finds `_is_processing` set: the event is marked
    if rt1.st.status = "running" ∧ rt1.st.cfg.contains t.owner then deliverQ true (.after t.evType) { rt1 with fired := t :: rt1.fired }
    else rt1

def fireWakeQ (fl : Flavor) (w : Wake) (rt : RT) : RT :=
  match w with
  | .tm t => fireTimerQ fl t rt
  | .iv i => completeInv i rt

/-- an external input arriving while the interpreter is busy -/
def extQ (fl : Flavor) (m : Machine) (op : ExtOp) (rt : RT) : RT :=
  match op with
  | .send e => deliverQ (busyMark fl) (.user e) rt
  | .stop => stopRT rt
  | .obs => rlog (obsRec m rt) rt

/-- an external input at time `t` goes before every engine wake-up that is not strictly earlier -/
def agendaFirst (t : Nat) : Option Wake → Bool
  | some w => decide (t ≤ w.due)
  | none => true

/-- the earliest engine wake-up, if it comes strictly before (untilT, untilSeq) -/
def dueWake (rt : RT) (untilT untilSeq : Nat) : Option Wake :=
  match minWake rt with
  | some w => if lexLt w.due w.ord untilT untilSeq then some w else none
  | none => none

inductive Next where
  | ext (t : Nat) (op : ExtOp) (rest : List (Nat × ExtOp))
  | wake (w : Wake)
  | idle

/-- what happens next: the first external input (if due by `untilT` and not later than the earliest
    engine wake-up `ew`), else that wake-up, else nothing -/
def nextOf (agenda : List (Nat × ExtOp)) (untilT : Nat) (ew : Option Wake) : Next :=
  match agenda with
  | (t, op) :: rest =>
    if decide (t ≤ untilT) && agendaFirst t ew then .ext t op rest
    else (match ew with | some w => .wake w | none => .idle)
  | [] => (match ew with | some w => .wake w | none => .idle)

/-- everything that wakes up strictly before (untilT, untilSeq), in order; enqueue-only -/
def windowLoop (fl : Flavor) (m : Machine) (untilT untilSeq : Nat) : Nat → RT → RT
  | 0, rt => rt
  | fuel + 1, rt =>
    match nextOf rt.agenda untilT (dueWake rt untilT untilSeq) with
    | .ext t op rest => windowLoop fl m untilT untilSeq fuel (extQ fl m op (setNow t { rt with agenda := rest }))
    | .wake w => windowLoop fl m untilT untilSeq fuel (fireWakeQ fl w (setNow w.due rt))
    | .idle => rt

/-- service tasks whose first hop is done: their services are called (they are ahead, in the ready queue, of
    every task created later) -/
def callHopped (rt : RT) : RT :=
  (rt.invs.filter (fun i => !i.started && i.hopped)).foldl startOne rt

/-- THE interleaving handler: the interpreter's task is suspended for `d` ms (`d = 0`: a bare yield; the
    `gather` in `cancel_by_owner` resumes only after everything that is in the ready queue, and the two
    hops of the service tasks in it, are done).
    async: what is already in the ready queue goes first — the wake-ups due at this very instant (their
    timer handles fired together with the one that woke the interpreter; the interpreter's own sleep, if
    any, is created before it yields: stamp `rt.nextId`) — then the tasks created since the last yield. -/
def window (fl : Flavor) (m : Machine) (d : Nat) (rt : RT) : RT :=
  match fl with
  | .sync =>
    let rt1 := startPending { rt with nextId := rt.nextId + 1 }
    setNow (rt.now + d)
      (windowLoop fl m (rt.now + d) rt.nextId (rt1.timers.length + rt1.invs.length + rt1.agenda.length + 1) rt1)
  | .async =>
    let fuel := rt.timers.length + rt.invs.length + rt.agenda.length + 1
    let rt1 := windowLoop fl m rt.now rt.nextId fuel { rt with nextId := rt.nextId + 1 }
    let rt2 := startPending (callHopped rt1)
    setNow (rt.now + d) (windowLoop fl m (rt.now + d) rt.nextId fuel rt2)

-- cancel / schedule ------------------------------------------------------------------------------------
/-- `_cancel_state_tasks(p)`: every timer and every service task of the owner, all of them -/
def cancelOwner (c : RCx) (p : Path) (rt : RT) : RT :=
  let had := rt.timers.any (fun t => t.owner = p) || rt.invs.any (fun i => i.owner = p)
  let rt1 := { rt with timers := rt.timers.filter (fun t => t.owner ≠ p), invs := rt.invs.filter (fun i => i.owner ≠ p) }
  if had then (match c.fl with | .async => c.wnd 0 rt1 | .sync => rt1) else rt1

/-- `_resolve_delay` for an `after` key: numeric, else a named delay (absent ⇒ the timer is skipped) -/
def digitsVal : List Char → Nat → Option Nat
  | [], acc => some acc
  | c :: cs, acc => if c.isDigit then digitsVal cs (acc * 10 + (c.toNat - '0'.toNat)) else none

/-- a key made of decimal digits is a number of milliseconds (Python `int(key)`; signs, blanks and
    underscores are outside the model) -/
def numericKey (key : String) : Option Nat :=
  match key.toList with
  | [] => none
  | cs => digitsVal cs 0

def resolveDelay (r : REnv) (key : String) : Option Nat :=
  match numericKey key with
  | some n => some n
  | none => r.delays key

/-- (event type, delay) of the timers one `_schedule_state_tasks` call arms, in arming order: ONE timer per
    delay key whose delay resolves (`for t_def in transitions[:1]`), however many guarded alternatives the
    key lists — it carries the event type of the key's first alternative (they all share
    `after.<delay>.<id>`; each expiry selects the first alternative whose guard passes) -/
def afterArms (r : REnv) (after : List (String × List Trans)) : List (String × Nat) :=
  after.flatMap (fun kv => match resolveDelay r kv.1 with
    | none => []
    | some d => (kv.2.take 1).map (fun t => (t.event, d)))

/-- the one timer of a delay key, if the key arms one: its delay resolves and it lists a transition -/
def armOfKey (r : REnv) (kv : String × List Trans) : Option (String × Nat) :=
  match resolveDelay r kv.1, kv.2 with
  | some d, t :: _ => some (t.event, d)
  | _, _ => none

def mkTimers (fl : Flavor) (p : Path) (a now base : Nat) : List (String × Nat) → Nat → List Timer
  | [], _ => []
  | x :: xs, i =>
    { owner := p, evType := x.1, armed := now, delay := x.2, act := a, seq := base + i, slot := i,
      started := false, wseq := base + i } :: mkTimers fl p a now base xs (i + 1)

def armAll (fl : Flavor) (m : Machine) (p : Path) (a : Nat) (arms : List (String × Nat)) (rt : RT) : RT :=
  if arms.isEmpty then rt else
  rlog ("arm:" ++ m.idOf p ++ ":" ++ ",".intercalate (arms.map (fun x => x.1 ++ "/" ++ toString x.2)))
    { rt with timers := rt.timers ++ mkTimers fl p a rt.now rt.nextId arms 0, nextId := rt.nextId + arms.length }

def svcOf (r : REnv) (i : Invoke) : Option SvcSpec :=
  match i.src with
  | some s => r.svc s
  | none => none

/-- async: one task per invocation; a missing service is fatal for the entry -/
def schedInvsAsync (r : REnv) (p : Path) (a : Nat) : List Invoke → RT → RT
  | [], rt => rt
  | i :: is, rt =>
    match svcOf r i with
    | none => { rt with st := rt.st.fail (.missingAction ("service:" ++ i.src.getD "")) }
    | some sp =>
      schedInvsAsync r p a is
        { rt with invs := rt.invs ++ [{ owner := p, id := i.id, src := i.src.getD "", act := a, seq := rt.nextId, spec := sp,
                                        handled := !i.onError.isEmpty, started := false, hopped := false, due := 0, wseq := rt.nextId }],
                  nextId := rt.nextId + 1 }

/-- sync: the service runs inside the entry; its completion event is queued at once -/
def runSvcsSync (r : REnv) (h : Hooks) (p : Path) (a : Nat) : List Invoke → RT → RT
  | [], rt => rt
  | i :: is, rt =>
    match svcOf r i with
    | none => { rt with st := rt.st.fail (.missingAction ("service:" ++ i.src.getD "")) }
    | some sp =>
      if sp.coro then { rt with st := rt.st.fail (.notSupported ("service:" ++ i.src.getD "")) } else
      let rt1 := rlog ("svc-start:" ++ i.id) { rt with started := (p, i.id, a) :: rt.started }
      let rt2 := rlog ("svc-end:" ++ i.id ++ (if sp.ok then ":ok" else ":raise")) rt1
      let e : Ev := if sp.ok then .done ("done.invoke." ++ i.id) i.id else .done ("error.platform." ++ i.id) i.id
      let rt3 := rlog ("send:" ++ e.type ++ ":" ++ rt2.st.status) { rt2 with st := h.snd e rt2.st }
      runSvcsSync r h p a is (if sp.ok ∨ !i.onError.isEmpty then rt3 else { rt3 with st := stFail rt3.st })

/-- `_schedule_state_tasks(p)`: timers first, then services -/
def scheduleRT (c : RCx) (h : Hooks) (p : Path) (d : StateDef) (rt : RT) : RT :=
  let a := actOf rt.acts p
  let rt1 := armAll c.fl c.m p a (afterArms c.r d.after) rt
  match c.fl with
  | .async => schedInvsAsync c.r p a d.invoke rt1
  | .sync => runSvcsSync c.r h p a d.invoke rt1

-- the engine's transition steps, with the bookkeeping --------------------------------------------------
/-- the interpreter's task sleeps inside a (slow) action list before the list's effects happen -/
def slowWindow (c : RCx) (as : List ActionRef) (rt : RT) : RT :=
  if rt.st.err.isSome then rt else
  if (as.map (fun a => c.r.dur a.type)).sum = 0 then rt else c.wnd (as.map (fun a => c.r.dur a.type)).sum rt

def exitStepRT (c : RCx) (h : Hooks) (ev : Option String) (rt : RT) (p : Path) : RT :=
  if rt.st.err.isSome then rt else
  match c.m.defAt p with
  | none => rt
  | some d =>
    let rt1 := match c.fl with | .async => cancelOwner c p rt | .sync => rt
    let rt2 := slowWindow c d.exit rt1
    { rt2 with st := exitOne h c.fl c.m ev rt2.st p }

/-- the order in which a list of entries is processed: enter a state / schedule its tasks -/
inductive EStep where
  | enter (e : Entry)
  | sched (p : Path)
deriving Inhabited

/-- sync: states still waiting for their `_schedule_state_tasks` (innermost first) that are closed by
    the arrival of entry `e` (everything that is not an ancestor reached by default descent) -/
def closeOpen (e : Entry) : List Path → List EStep × List Path
  | [] => ([], [])
  | q :: stack =>
    if e.nested && (q.isPrefixOf e.path && q != e.path) then ([], q :: stack)
    else ((EStep.sched q) :: (closeOpen e stack).1, (closeOpen e stack).2)

def syncSteps : List Entry → List Path → List EStep
  | [], stack => stack.map .sched
  | e :: es, stack => (closeOpen e stack).1 ++ [.enter e] ++ syncSteps es (e.path :: (closeOpen e stack).2)

def entrySteps (fl : Flavor) (es : List Entry) : List EStep :=
  match fl with
  | .async => es.flatMap (fun e => [.enter e, .sched e.path])
  | .sync => syncSteps es []

def enterStepRT (c : RCx) (h : Hooks) (ev : Option String) (rt : RT) : EStep → RT
  | .enter e =>
    if rt.st.err.isSome then rt else
    match c.m.defAt e.path with
    | none => rt
    | some d =>
      -- the state is added to the configuration BEFORE its entry actions run (and may sleep)
      let rt1 := slowWindow c d.entry { rt with st := addActive e.path rt.st }
      { rt1 with st := enterOne h c.fl c.m ev rt1.st e, acts := bumpAct rt1.acts e.path,
                 clean := rt1.clean && !(rt.st.cfg.contains e.path) }
  | .sched p =>
    if rt.st.err.isSome then rt else
    match c.m.defAt p with
    | none => rt
    | some d => scheduleRT c h p d rt

def exitAllRT (c : RCx) (h : Hooks) (ev : Option String) (ps : List Path) (rt : RT) : RT :=
  match c.fl with
  | .async => ps.foldl (exitStepRT c h ev) rt
  | .sync => ps.foldl (exitStepRT c h ev) (if rt.st.err.isSome then rt else ps.foldl (fun rt p => cancelOwner c p rt) rt)

def enterAllRT (c : RCx) (h : Hooks) (ev : Option String) (es : List Entry) (rt : RT) : RT :=
  (entrySteps c.fl es).foldl (enterStepRT c h ev) rt

/-- `runPlan` with the bookkeeping -/
def runPlanRT (c : RCx) (h : Hooks) (ev : Ev) (pl : Plan) (rt : RT) : RT :=
  let rt2 := exitAllRT c h (some ev.type) pl.exits { rt with st := recordHistory c.m pl.exits rt.st }
  let rt3 := if rt2.st.err.isSome then rt2 else
    { (slowWindow c pl.actions rt2) with st := execActions h pl.actions ev.type (slowWindow c pl.actions rt2).st }
  let rt4 := enterAllRT c h (some ev.type) pl.entries rt3
  match pl.err with
  | some e => { rt4 with st := rt4.st.fail e }
  | none => rt4

/-- the rollback re-arms what exiting tore down: `_schedule_state_tasks` for every state of the
    pre-transition configuration that was to be exited (same activation: the state was not re-entered) -/
def rearmRT (c : RCx) (h : Hooks) (pre exits : List Path) (rt : RT) : RT :=
  (pre.filter (fun p => exits.contains p)).foldl (fun rt p =>
    match c.m.defAt p with
    | none => rt
    | some d => scheduleRT c h p d rt) rt

def executeCoreRT (c : RCx) (h : Hooks) (ev : Ev) (pl : Plan) (rt : RT) : RT :=
  if pl.internal then
    match pl.err with
    | some e => { rt with st := rt.st.fail e }
    | none => { (slowWindow c pl.actions rt) with st := execActions h pl.actions ev.type (slowWindow c pl.actions rt).st }
  else
    let r := runPlanRT c h ev pl rt
    if r.st.err.isSome then
      -- the error stays flagged while re-arming (a missing service cannot flag a second one)
      let r1 := rearmRT c h rt.st.cfg pl.exits { r with st := { r.st with err := none }, clean := false }
      { r1 with st := { r1.st with cfg := rt.st.cfg, err := r.st.err } }
    else r

def executeRT (c : RCx) (h : Hooks) (ev : Ev) (pl : Plan) (rt : RT) : RT :=
  let r := executeCoreRT c h ev pl rt
  if r.st.err.isSome then r else { r with st := emit (obsRecord c.m r.st) r.st }

def processEventRT (c : RCx) (h : Hooks) (ev : Ev) (rt : RT) : RT :=
  match selectTransitions c.m rt.st.cfg (c.u.genv rt.st.ctx ev.type) ev with
  | .error (.missing n) => { rt with st := rt.st.fail (.missingGuard n) }
  | .ok sel =>
    sel.foldl (fun rt cd =>
      if rt.st.err.isSome then rt
      else if finished rt.st.status then rt
      else if sel.length > 1 && !(rt.st.cfg.contains cd.src) then rt
      else executeRT c h ev (planTransition c.m rt.st.cfg rt.st.hist cd) rt) rt

def transientLoopRT (c : RCx) (h : Hooks) : Nat → RT → RT
  | 0, rt => rt
  | fuel + 1, rt =>
    if rt.st.err.isSome then rt else
    match selectTransitions c.m rt.st.cfg (c.u.genv rt.st.ctx "") (.user "") with
    | .error (.missing n) => { rt with st := rt.st.fail (.missingGuard n) }
    | .ok sel =>
      if !sel.isEmpty && sel.any (fun cd => cd.t.event = "") then
        transientLoopRT c h fuel (processEventRT c h (.user "") rt)
      else rt

-- ASYNC ------------------------------------------------------------------------------------------------
/-- `asyncProcess` (Engine.lean) with the bookkeeping: `on_event_received`, the macrostep, `except
    Exception: log`, and — BEHIND the `try/except/finally`, i.e. after a failed macrostep too — the
    engine's own end-of-chain test `asyncChainEnd` (`depth_before` is read when the `try` is entered) -/
def asyncProcessRT (c : RCx) (e : Ev) (rt : RT) : RT :=
  let rt1 := processEventRT c (hooksAsync c.u c.m) e { rt with st := emit ("#recv:" ++ e.type) rt.st }
  let rt2 := transientLoopRT c (hooksAsync c.u c.m) c.m.maxIterations rt1
  { rt2 with
    st := asyncChainEnd rt.st.raiseDepth (if rt2.st.err.isSome then { rt2.st with err := none, errors := rt2.st.errors + 1 } else rt2.st) }

/-- `asyncStep` (Engine.lean) with the bookkeeping, for the dequeued entry `q` (`was_self_raised` is
    `q.self`): chain broken ⇒ the engine's `asyncPurge`; the event in hand is dropped only if it is itself
    a member of the chain, an event sent from OUTSIDE falls through and is processed normally -/
def asyncStepRT (c : RCx) (q : QEv) (rt : RT) : RT :=
  if rt.st.raiseDepth > c.m.maxIterations then
    (if q.self then { rt with st := asyncPurge rt.st } else asyncProcessRT c q.ev { rt with st := asyncPurge rt.st })
  else asyncProcessRT c q.ev rt

def asyncDrainRT (c : RCx) : Nat → RT → RT
  | 0, rt => if rt.st.queue.isEmpty || rt.st.status ≠ "running" then rt else { rt with st := { rt.st with status := "HANG" } }
  | fuel + 1, rt =>
    if rt.st.status ≠ "running" then rt else
    match rt.st.queue with
    | [] => rt
    | q :: rest => asyncDrainRT c fuel (asyncStepRT c q { rt with st := { rt.st with queue := rest } })

-- SYNC -------------------------------------------------------------------------------------------------
/-- `drainLoop` (Engine.lean) with the bookkeeping: model fuel, the loop's local `chained`, the state -/
def drainLoopRT (c : RCx) : Nat → Nat → RT → RT
  | 0, _, rt => if rt.st.queue.isEmpty then rt else { rt with st := { rt.st with queue := [] } }
  | fuel + 1, chained, rt =>
    match rt.st.queue with
    | [] => rt
    | q :: rest =>
      if rt.st.status ≠ "running" then { rt with st := { rt.st with queue := [] } } else
      if syncTrips c.m chained q then drainLoopRT c fuel 0 { rt with st := syncPurge rt.st } else
      let rt1 := processEventRT c (hooksFlagged c.u c.m) q.ev { rt with st := emit ("#recv:" ++ q.ev.type) { rt.st with queue := rest } }
      let rt2 := transientLoopRT c (hooksFlagged c.u c.m) c.m.maxIterations rt1
      if rt2.st.err.isSome then rt2 else drainLoopRT c fuel (chainedNext chained q) rt2

/-- `_process_event_queue()`: `chained = 0`; the model fuel is the engine model's `drainFuel` — every send
    that arrives while the drain is in flight is marked (`busyMark`), so no external entry is added meanwhile
    and the same bound holds -/
def drainFlaggedRT (c : RCx) (rt : RT) : RT := drainLoopRT c (drainFuel c.m rt.st) 0 rt

def syncSendRT (c : RCx) (e : Ev) (rt : RT) : RT :=
  if rt.st.status = "running" then
    drainFlaggedRT c { rt with st := { rt.st with queue := rt.st.queue ++ [⟨e, false⟩] } }
  else rt

-- idle interpreter / top level -------------------------------------------------------------------------
/-- the run-loop task gets to run: it takes events until the queue is empty (it then waits in
    `queue.get()`) or the interpreter is no longer running (`while self.status == "running"`: it ends) -/
def loopRuns (c : RCx) (rt : RT) : RT :=
  { (asyncDrainRT c (asyncFuel c.m) rt) with lt := decide ((asyncDrainRT c (asyncFuel c.m) rt).st.status = "running") }

-- the ready queue of one instant (async) ---------------------------------------------------------------
/-- an entry of the event loop's ready queue -/
inductive Item where
  | loop                      -- the run loop: just created, or woken by a `put` while it waited in `queue.get()`
  | wake (w : Wake)           -- a sleeper whose deadline has come: a timer task / a service task
  | tstart (t : Timer)        -- first step of a timer task: it begins to sleep
  | hop (i : Invocation)      -- first step of a service task: `sleep(0)`, which re-appends it
  | call (i : Invocation)     -- second step of a service task: the service is called
deriving Inhabited

/-- position in the ready queue: the value of the allocation counter when the entry was appended (`lw`:
    the run loop's) -/
def Item.stamp (lw : Nat) : Item → Nat
  | .loop => lw
  | .wake w => w.ord
  | .tstart t => t.wseq
  | .hop i => i.wseq
  | .call i => i.wseq

def readyItems (rt : RT) : List Item :=
  (match rt.lw with | some _ => [Item.loop] | none => []) ++
  ((wakes rt).filter (fun w => decide (w.due ≤ rt.now))).map .wake ++
  (rt.timers.filter (fun t => !t.started)).map .tstart ++
  (rt.invs.filter (fun i => !i.started)).map (fun i => if i.hopped then Item.call i else Item.hop i)

/-- the entry with the least stamp (stamps are distinct, except the `0` of a run loop woken by an external
    input — which goes first: it is the first of the list) -/
def minItemL (lw : Nat) : List Item → Option Item
  | [] => none
  | x :: xs =>
    match minItemL lw xs with
    | none => some x
    | some b => if b.stamp lw < x.stamp lw then some b else some x

def nextItem (rt : RT) : Option Item := minItemL (rt.lw.getD 0) (readyItems rt)

/-- one step of a task other than the run loop -/
def runTask (it : Item) (rt : RT) : RT :=
  match it with
  | .loop => rt
  | .wake w => fireWakeQ .async w rt
  | .tstart t =>
    { rt with timers := rt.timers.map (fun x => if x.seq = t.seq then { x with started := true, wseq := rt.nextId } else x),
              nextId := rt.nextId + 1 }
  | .hop i =>
    { rt with invs := rt.invs.map (fun j => if j.seq = i.seq then { j with hopped := true, wseq := rt.nextId } else j),
              nextId := rt.nextId + 1 }
  | .call i => startOne rt i

/-- the run loop waits in `queue.get()` and something has been put: its wake-up joins the ready queue -/
def wakeLoop (rt : RT) : RT :=
  if rt.lt && rt.lw.isNone && !rt.st.queue.isEmpty then { rt with lw := some rt.nextId, nextId := rt.nextId + 1 } else rt

/-- the tasks that are in the ready queue ahead of the run loop (all of them if the run loop is not in it)
    take their steps, in queue order; whatever they `put` wakes a waiting run loop -/
def runTasks : Nat → RT → RT
  | 0, rt => rt
  | fuel + 1, rt =>
    match nextItem (wakeLoop rt) with
    | none => wakeLoop rt
    | some it =>
      match it with
      | .loop => wakeLoop rt
      | _ => runTasks fuel (runTask it (wakeLoop rt))

/-- the run loop's turn. Running: it takes events until the queue is empty (`loopRuns`). Otherwise: if this
    is its very first step (`lt = false`: created by `start()`, not yet run) the `while self.status ==
    "running"` test fails and it ends without touching the queue; else it was waiting in `queue.get()` when
    the status changed (`_fail` right after the error event was queued): woken, it re-checks the status
    behind `get()`: the event in hand is DISCARDED (`task_done()`, nothing is received, no
    `on_event_received`) and the loop ends (`break`); whatever else is queued stays in the queue, which
    nothing drains any more -/
def loopTurn (c : RCx) (rt : RT) : RT :=
  if rt.st.status = "running" then loopRuns c { rt with lw := none }
  else if !rt.lt then { rt with lw := none }
  else
    match rt.st.queue with
    | _ :: rest => { rt with st := { rt.st with queue := rest }, lt := false, lw := none }
    | [] => { rt with lt := false, lw := none }

/-- the interpreter's own task is idle: everything that is ready at this instant runs, in the order of the
    ready queue (sync: the timer threads created since the last yield begin to wait) -/
def settle (c : RCx) : Nat → RT → RT
  | 0, rt => { rt with st := { rt.st with status := "HANG" } }
  | fuel + 1, rt =>
    match c.fl with
    | .sync => startPending rt
    | .async =>
      match (runTasks (2 * rt.timers.length + 3 * rt.invs.length + 2) rt).lw with
      | none => runTasks (2 * rt.timers.length + 3 * rt.invs.length + 2) rt
      | some _ => settle c fuel (loopTurn c (runTasks (2 * rt.timers.length + 3 * rt.invs.length + 2) rt))

def startHooks (c : RCx) : Hooks :=
  match c.fl with
  | .sync => hooksFlagged c.u c.m
  | .async => hooksAsyncStart c.u c.m

def startEv (c : RCx) : Option String :=
  match c.fl with
  | .sync => none
  | .async => some "___xstate_statemachine_init___"

/-- `start()` failed (`except Exception: self.status = "stopped"; cancel the loop task if it was created;
    raise`): no run loop exists yet at that point -/
def startFailed (c : RCx) (r : RT) : RT :=
  match c.fl with
  | .sync => r
  | .async => { r with st := { r.st with status := "stopped" }, lt := false, lw := none }

def startEnter (c : RCx) (rt : RT) : RT :=
  let rt1 := enterAllRT c (startHooks c) (startEv c) (startEntries c.m).1
    { rt with st := { rt.st with status := "running", ctx := c.m.ctx0 } }
  match (startEntries c.m).2 with
  | some err => { rt1 with st := rt1.st.fail err }
  | none => rt1

/-- first half of `startPending`: the timer tasks created since the last yield begin to sleep -/
def timersSleep (rt : RT) : RT :=
  { rt with timers := (startTimersL rt.timers rt.nextId).1, nextId := (startTimersL rt.timers rt.nextId).2 }

/-- async, `if self.status == "running": self._event_loop_task = create_task(self._run_event_loop())` —
    the engine's `asyncLoopCreated`: the run loop comes into being only HERE, after the initial entry and
    the eventless settling, and only if nothing (an unhandled service failure, `stop()`) has ended the
    run meanwhile; whatever was raised or sent during the entry is still in the queue. `start()` then
    returns. The new task's first step joins the ready queue BEHIND the first steps of the tasks created
    since `start()` last yielded (the timer tasks go to sleep, the service tasks do their first hop, which
    puts them behind the loop task); when its turn comes it takes what is queued (`settle`). -/
def loopCreated (_c : RCx) (rt : RT) : RT :=
  if rt.st.status = "running" then { rt with lw := some rt.nextId, nextId := rt.nextId + 1 } else rt

def startFinish (c : RCx) (rt : RT) : RT :=
  match c.fl with
  | .sync => drainFlaggedRT c rt
  | .async => settle c 64 (loopCreated c rt)

/-- `start()`: entry, then eventless settling, THEN (async: only if still running) the run loop -/
def startRT (c : RCx) (rt : RT) : RT :=
  if (startEnter c rt).st.err.isSome then startFailed c (startEnter c rt) else
  if (transientLoopRT c (startHooks c) c.m.maxIterations (startEnter c rt)).st.err.isSome then
    startFailed c (transientLoopRT c (startHooks c) c.m.maxIterations (startEnter c rt))
  else startFinish c (transientLoopRT c (startHooks c) c.m.maxIterations (startEnter c rt))

/-- an external input arriving at an idle interpreter -/
def extIdle (c : RCx) (op : ExtOp) (rt : RT) : RT :=
  match op with
  | .send e =>
    (match c.fl with
     | .async =>
       -- the harness's `send` runs as a timer handle of this instant, ahead of the handles that wake the sleepers
       -- due at the same instant: a run loop that was waiting in `queue.get()` is woken FIRST (stamp 0)
       if (deliver (.user e) rt).lt && (deliver (.user e) rt).lw.isNone && !(deliver (.user e) rt).st.queue.isEmpty
       then { (deliver (.user e) rt) with lw := some 0 } else deliver (.user e) rt
     | .sync =>
       -- `send` raises to its caller: an error of an earlier call is not the interpreter's state
       syncSendRT c (.user e) (rlog ("send:" ++ e ++ ":" ++ rt.st.status) { rt with st := { rt.st with err := none } }))
  | .stop => stopRT rt
  | .obs => rlog (obsRec c.m rt) rt

/-- a timer expires at an idle sync interpreter: the timer thread itself calls `send` -/
def fireTimerIdleSync (c : RCx) (t : Timer) (rt : RT) : RT :=
  let rt1 := { rt with timers := rt.timers.filter (fun x => x.seq ≠ t.seq) }
  if rt1.st.status = "running" ∧ rt1.st.cfg.contains t.owner then
    syncSendRT c (.after t.evType)
      (rlog ("send:" ++ t.evType ++ ":" ++ rt1.st.status) { rt1 with fired := t :: rt1.fired, st := { rt1.st with err := none } })
  else rt1

/-- an engine wake-up at an idle interpreter. async: the clock jumps to the deadline and the earliest
    sleeper is woken (enqueue-only; the other sleepers due at that instant follow in `settle`, all of them
    ahead of the run loop they wake); sync: the timer thread itself calls `send` -/
def fireIdle (c : RCx) (w : Wake) (rt : RT) : RT :=
  match c.fl with
  | .async => fireWakeQ .async w (setNow w.due rt)
  | .sync =>
    (match w with
     | .tm t => fireTimerIdleSync c t (setNow w.due rt)
     | .iv i => completeInv i (setNow w.due rt))

/-- let virtual time run up to `T`: external inputs and wake-ups in time order (inputs first at equal
    times) -/
def advanceTo (c : RCx) (T : Nat) : Nat → RT → RT
  | 0, rt => { rt with st := { rt.st with status := "HANG" } }
  | fuel + 1, rt =>
    if rt.st.status = "HANG" then rt else
    if (settle c 64 rt).st.status = "HANG" then settle c 64 rt else
    match nextOf (settle c 64 rt).agenda T (dueWake (settle c 64 rt) (T + 1) 0) with
    | .ext t op rest => advanceTo c T fuel (extIdle c op (setNow t { (settle c 64 rt) with agenda := rest }))
    | .wake w => advanceTo c T fuel (fireIdle c w (settle c 64 rt))
    | .idle => setNow T (settle c 64 rt)

/-- the concrete context: the interleaving handler is `window` -/
def mkCx (fl : Flavor) (m : Machine) (u : UEnv) (r : REnv) : RCx := { fl, m, u, r, wnd := window fl m }

/-- a whole run: start at time 0, then let time run to the horizon with the given agenda -/
def runRT (fl : Flavor) (m : Machine) (u : UEnv) (r : REnv) (agenda : List (Nat × ExtOp)) (horizon fuel : Nat) : RT :=
  advanceTo (mkCx fl m u r) horizon fuel (startRT (mkCx fl m u r) { agenda := agenda })

end XSM
