import Xsm.Model.Machine
import Xsm.Model.Str
/- resolver.py `resolve_target_state` + the interpreters' multi-stage resolution. -/
namespace XSM

def descend (n : SNode) (base : Path) (segs : List String) : Option Path :=
  match n.at segs with
  | some _ => some (base ++ segs)
  | none => none

def parentOf (p : Path) : Path := p.dropLast

/-- key of the state at `p` (root's key is the machine id) -/
def Machine.keyOf (m : Machine) (p : Path) : String := (p.getLast?).getD m.id

def resolveTarget (m : Machine) (target : String) (ref : Path) : Option Path :=
  if target = "" then none
  else if sStartsWith target "#" then
    let segs : List String := splitDot (sDrop target 1)
    if segs.any (· = "") then none else
    let viaMachine : Option Path :=
      if segs.head? = some m.id then (match m.root.at segs.tail with | some _ => some segs.tail | none => none) else none
    match viaMachine with
    | some p => some p
    | none =>
      match m.customIds.find? (fun kv => some kv.1 = segs.head?) with
      | some (_, anchor) =>
        if segs.length = 1 then some anchor
        else (match m.root.at anchor with
              | some n => descend n anchor segs.tail
              | none => none)
      | none => none
  else if target = "." then some (parentOf ref)
  else if sStartsWith target "." then
    let segs : List String := splitDot (sDrop target 1)
    if segs.any (· = "") then none else
    let base := parentOf ref
    match m.root.at base with
    | some n => descend n base segs
    | none => none
  else
    let segs : List String := splitDot target
    if segs.any (· = "") then none else
    -- bubble up from ref
    let rec go (fuel : Nat) (cur : Path) : Option Path :=
      match fuel with
      | 0 => none
      | fuel + 1 =>
        match m.root.at cur with
        | none => none
        | some n =>
          match descend n cur segs with
          | some p => some p
          | none =>
            if segs.length = 1 ∧ segs.head? = some (m.keyOf cur) then some cur
            else if cur = [] then none else go fuel (parentOf cur)
    go (ref.length + 1) ref

/-- last dotted segment of a state's id -/
def Machine.localName (m : Machine) (p : Path) : String :=
  match p.getLast? with
  | some k => ((splitDot k).getLast?).getD k
  | none => ((splitDot m.id).getLast?).getD m.id

/-- `_resolve_target_state_robustly` / `_resolve_target_state_node` -/
def resolveRobust (m : Machine) (src : Path) (target : String) : Option Path :=
  let attempts : List (String × Path) :=
    [(target, src)] ++ (if src = [] then [] else [(target, parentOf src)]) ++
    [(target, []), (m.id ++ "." ++ target, [])]
  match attempts.findSome? (fun (t, r) => resolveTarget m t r) with
  | some p => some p
  | none =>
    -- fallback 1: attribute lookup on the root object (`machine` attribute is the root itself)
    if target = "machine" then some [] else
    -- fallback 2: root.states by key, then by local name
    match findKid target m.root.kids with
    | some _ => some [target]
    | none =>
      match m.root.kids.find? (fun kc => m.localName [kc.1] = target) with
      | some (k, _) => some [k]
      | none =>
        -- fallback 3: pre-order tree walk on local names
        (m.root.allPaths []).find? (fun p => m.localName p = target)

end XSM
