import Xsm.Model.Guard
import Xsm.Model.Descriptor
/- `_collect_eligible_transitions`, `_select_transitions` -/
namespace XSM

inductive Ev where
  | user (type : String)
  | done (type : String) (src : String)
  | after (type : String)
deriving Repr, Inhabited, DecidableEq

def Ev.type : Ev → String
  | .user t => t | .done t _ => t | .after t => t

structure Cand where
  src : Path
  t : Trans
deriving Inhabited

def isLeafNode (n : SNode) : Bool :=
  n.kind == .atomic || n.kind == .final || n.kids.isEmpty

/-- prefixes of `p` from `p` itself up to the root -/
def chainUp (p : Path) : List Path :=
  (List.range (p.length + 1)).map (fun i => p.take (p.length - i))

/-- guard cache: tid → result -/
abbrev GCache := List (Nat × Bool)

def passes (m : Machine) (cfg : List Path) (env : GEnv) (cache : GCache) (t : Trans) :
    Except GErr (Bool × GCache) :=
  match cache.find? (fun kv => kv.1 = t.tid) with
  | some (_, b) => pure (b, cache)
  | none => do
    let b ← guardOk m cfg env t.guard
    pure (b, cache ++ [(t.tid, b)])

def filterPassing (m : Machine) (cfg : List Path) (env : GEnv) (src : Path) :
    List Trans → GCache → Except GErr (List Cand × GCache)
  | [], c => pure ([], c)
  | t :: ts, c => do
    let (b, c1) ← passes m cfg env c t
    let (rest, c2) ← filterPassing m cfg env src ts c1
    pure ((if b then [{ src, t }] else []) ++ rest, c2)

/-- on-descriptor candidates at one node; `blocked` when a forbidden transition is met -/
def onCands (m : Machine) (cfg : List Path) (env : GEnv) (src : Path) (d : StateDef) (ev : Ev) :
    List String → GCache → Except GErr (List Cand × Bool × GCache)
  | [], c => pure ([], false, c)
  | key :: keys, c => do
    let ts := ((d.on.find? (fun kv => kv.1 = key)).map (·.2)).getD []
    -- walk this key's list until a forbidden one
    let rec walk : List Trans → GCache → Except GErr (List Cand × Bool × GCache)
      | [], c => pure ([], false, c)
      | t :: rest, c =>
        if t.forbidden then pure ([], true, c) else do
          let (b, c1) ← passes m cfg env c t
          let (more, blk, c2) ← walk rest c1
          pure ((if b then [{ src, t }] else []) ++ more, blk, c2)
    let (here, blk, c1) ← walk ts c
    if blk then pure (here, true, c1) else do
      let (more, blk2, c2) ← onCands m cfg env src d ev keys c1
      pure (here ++ more, blk2, c2)

/-- candidate producers threaded through the guard cache -/
abbrev CProd := GCache → Except GErr (List Cand × GCache)

def cNone : CProd := fun c => .ok ([], c)

/-- run `a`, then `b`, concatenating their candidates -/
def seqC (a b : CProd) : CProd := fun c =>
  match a c with
  | .error e => .error e
  | .ok (xs, c1) =>
    match b c1 with
    | .error e => .error e
    | .ok (ys, c2) => .ok (xs ++ ys, c2)

/-- the non-`on` buckets of one node: eventless, onDone, after, invoke handlers -/
def nodeBuckets (m : Machine) (cfg : List Path) (env : GEnv) (cur : Path) (d : StateDef) (ev : Ev)
    (isTransientCheck : Bool) : CProd :=
  let et := ev.type
  let alw : CProd := if isTransientCheck then
      filterPassing m cfg env cur (((d.on.find? (fun kv => kv.1 = "")).map (·.2)).getD [])
    else cNone
  let od : CProd := match d.onDone with
    | some t => if t.event = et then filterPassing m cfg env cur [t] else cNone
    | none => cNone
  let af : CProd := match ev with
    | .after _ => filterPassing m cfg env cur ((d.after.flatMap (·.2)).filter (fun t => t.event = et))
    | _ => cNone
  let inv : CProd := match ev with
    | .done _ src =>
      filterPassing m cfg env cur
        ((d.invoke.filter (fun i => i.id = src)).flatMap (fun i => (i.onDone ++ i.onError).filter (fun t => t.event = et)))
    | _ => cNone
  seqC alw (seqC od (seqC af inv))

/-- the upward walk -/
def collectChain (m : Machine) (cfg : List Path) (env : GEnv) (ev : Ev)
    (isTransientCheck isExplicitTransient : Bool) : List Path → CProd
  | [], c => .ok ([], c)
  | cur :: ups, c =>
    match m.defAt cur with
    | none => .ok ([], c)
    | some d =>
      match (if isExplicitTransient then (.ok ([], false, c) : Except GErr (List Cand × Bool × GCache))
             else onCands m cfg env cur d ev (matchingDescriptors (d.on.map (·.1)) ev.type) c) with
      | .error e => .error e
      | .ok (onC, blocked, c1) =>
        if blocked then .ok (onC, c1) else
        match seqC (nodeBuckets m cfg env cur d ev isTransientCheck)
                   (collectChain m cfg env ev isTransientCheck isExplicitTransient ups) c1 with
        | .error e => .error e
        | .ok (rest, c2) => .ok (onC ++ rest, c2)

def collectEligible (m : Machine) (cfg : List Path) (env : GEnv) (leaf : Path) (ev : Ev)
    (cache : GCache) : Except GErr (List Cand × GCache) :=
  let et := ev.type
  let isTransientCheck := !(Tables.nonTransientPrefixes.any (fun p => sStartsWith et p))
  let isExplicitTransient := decide (et = "")
  collectChain m cfg env ev isTransientCheck isExplicitTransient (chainUp leaf) cache

/-- first element with maximal key (Python `max` keeps the first maximum) -/
def firstMaxBy (f : Cand → Nat) : List Cand → Option Cand
  | [] => none
  | x :: xs => some (xs.foldl (fun best y => if f y > f best then y else best) x)

/-- insertion sort, ascending by a (Nat, String) key: stable -/
def insertBy {α} (le : α → α → Bool) (x : α) : List α → List α
  | [] => [x]
  | y :: ys => if le x y then x :: y :: ys else y :: insertBy le x ys
def sortBy {α} (le : α → α → Bool) (xs : List α) : List α :=
  xs.foldr (fun x acc => insertBy le x acc) []

def leavesSorted (m : Machine) (cfg : List Path) : List Path :=
  let leaves := cfg.filter (fun p => match m.root.at p with | some n => isLeafNode n | none => false)
  let leaves := if leaves.isEmpty then cfg else leaves
  -- key (-depth, id): deeper first, then id ascending
  sortBy (fun a b => a.length > b.length || (a.length == b.length && decide (m.idOf a ≤ m.idOf b))) leaves

def selectLoop (m : Machine) (cfg : List Path) (env : GEnv) (ev : Ev) :
    List Path → GCache → List Cand → Except GErr (List Cand)
  | [], _, acc => .ok acc
  | leaf :: ls, c, acc =>
    match collectEligible m cfg env leaf ev c with
    | .error e => .error e
    | .ok (elig, c1) =>
      match firstMaxBy (fun x => x.src.length) elig with
      | none => selectLoop m cfg env ev ls c1 acc
      | some w =>
        if acc.any (fun x => x.t.tid = w.t.tid) then selectLoop m cfg env ev ls c1 acc
        else selectLoop m cfg env ev ls c1 (acc ++ [w])

def selectTransitions (m : Machine) (cfg : List Path) (env : GEnv) (ev : Ev) :
    Except GErr (List Cand) :=
  match selectLoop m cfg env ev (leavesSorted m cfg) [] [] with
  | .error e => .error e
  | .ok sel => .ok (sortBy (fun a b => a.src.length ≥ b.src.length) sel)

/-- `BaseInterpreter.can(event)`: `bool(self._select_transitions(event_obj))` inside
    `try … except Exception: return False`. The event is already an event object here
    (`_coerce_event` is outside the model; its `TypeError` is raised before the `try`).
    So a selection that raises (a guard without implementation) reports `False`; nothing but a
    Boolean is returned, no interpreter state is touched. -/
def can (m : Machine) (cfg : List Path) (env : GEnv) (ev : Ev) : Bool :=
  match selectTransitions m cfg env ev with
  | .ok sel => !sel.isEmpty
  | .error _ => false

end XSM
