import Xsm.Model.Parse
/-!
Model of the Python front ends (C19).  Core Lean only.

* `snakeToCamel` — `logic_loader._snake_to_camel` / `pythonic._snake_to_camel` (the two copies are
  the same text): `components = s.split("_"); components[0] + "".join(x.title() for x in components[1:])`
  with Python's `str.title()` restricted to ASCII (a letter is upper-cased when the previous character
  is not a letter, lower-cased otherwise; every other character is copied and resets the flag).
* `logicMapWrites` / `lookupImpl` — the `logic_map` dict `LogicLoader.discover_and_build_logic` fills
  (`logic_map[name] = f; logic_map[_snake_to_camel(name)] = f` for every public callable, later writes
  win) and the lookup `name in logic_map`.
* `required` — `LogicLoader._extract_logic_from_node` over the parsed `Machine`
  (what the loader demands), `discover` — step 3 (bind every demanded name or raise).
* `arityRegistry` / `registerSubclass` — `MachineLogic._register_subclass_methods`.
* `PyDef` and its two compilers into the machine JSON: `compileImpl` (= `pythonic._compile_config`,
  `_compile_state`, `_apply_root_properties`: `Transition` objects are grouped by the BARE NAME of
  their source and merged into every compiled state of that name) and `denote` (the same compiler with
  the transitions attached to the state OBJECT they were declared on; objects are identified by their
  position in the definition tree).
* `buildImpl` — `MachineBuilder.build` (states and transitions by name, top level only).
-/
namespace XSM.Py
open XSM

/-! ## 1. `_snake_to_camel` -/

/-- `str.split("_")` as (first component, remaining components) -/
def splitUs : List Char → List Char × List (List Char)
  | [] => ([], [])
  | c :: cs =>
    if c = '_' then ([], (splitUs cs).1 :: (splitUs cs).2)
    else (c :: (splitUs cs).1, (splitUs cs).2)

/-- `str.title()` on ASCII; `prev` = "the previous character is cased" -/
def titleAux : Bool → List Char → List Char
  | _, [] => []
  | prev, c :: cs => (if prev then c.toLower else c.toUpper) :: titleAux c.isAlpha cs

def title (s : List Char) : List Char := titleAux false s

def snakeToCamel (s : List Char) : List Char :=
  (splitUs s).1 ++ ((splitUs s).2.map title).flatten

def snakeToCamelS (s : String) : String := String.ofList (snakeToCamel s.toList)

/-! ## 2. the loader's `logic_map` -/

/-- `not name.startswith("_")` -/
def isPublic (n : String) : Bool := !(sStartsWith n "_")

/-- the (key, callable) writes into `logic_map`, in order, for the callables in scan order
    (registered modules, then `logic_modules`, each in `inspect.getmembers` order, then providers) -/
def logicMapWrites (scan : List String) : List (String × String) :=
  (scan.filter isPublic).flatMap (fun c => [(c, c), (snakeToCamelS c, c)])

/-- `logic_map[n]` (a dict: the last write wins); the callable is identified by its own name -/
def lookupImpl (scan : List String) (n : String) : Option String :=
  ((logicMapWrites scan).reverse.find? (fun kv => kv.1 = n)).map (·.2)

/-! ## 3. what the loader demands: `_extract_logic_from_node` -/

def isBuiltin (ty : String) : Bool := Tables.builtinAliases.any (fun kv => kv.1 = ty)

def spawnPrefix : String := "spawn_"
def spawnBlockingPrefix : String := "spawn_blocking_"
/-- `models.is_spawn_action` -/
def isSpawn (ty : String) : Bool := sStartsWith ty spawnPrefix
/-- `models.spawn_service_key` -/
def spawnKey (ty : String) : String :=
  if sStartsWith ty spawnBlockingPrefix then sDrop ty spawnBlockingPrefix.length
  else if sStartsWith ty spawnPrefix then sDrop ty spawnPrefix.length
  else ty

mutual
/-- `_collect_guard_names`: the user predicates a guard depends on (composites and `stateIn` are
    evaluated by the interpreter; a bare-string guard named `and` is a user predicate) -/
def guardNames : GuardExpr → List String
  | .named n _ => [n]
  | .stateIn _ => []
  | .and cs => guardNamesL cs
  | .or cs => guardNamesL cs
  | .not c => guardNames c
def guardNamesL : List GuardExpr → List String
  | [] => []
  | g :: gs => guardNames g ++ guardNamesL gs
end

def transGuardNames (t : Trans) : List String :=
  match t.guard with
  | some g => guardNames g
  | none => []

/-- `all_transitions`: `on` (incl. the `""` bucket), `after`, `on_done` -/
def mainTrans (d : StateDef) : List Trans :=
  d.on.flatMap (·.2) ++ d.after.flatMap (·.2) ++ d.onDone.toList

/-- `all_actions`: entry, exit and the actions of `all_transitions` -/
def mainActs (d : StateDef) : List ActionRef :=
  d.entry ++ d.exit ++ (mainTrans d).flatMap (·.actions)

/-- the `onDone` / `onError` transitions of the invocations -/
def invTrans (d : StateDef) : List Trans :=
  d.invoke.flatMap (fun i => i.onDone ++ i.onError)

/-- the actions of the invocations' `onDone` / `onError` transitions -/
def invActs (d : StateDef) : List ActionRef :=
  (invTrans d).flatMap (·.actions)

/-- action names demanded by one state. `spawn_*` goes to the services and built-ins are skipped, in the
    main lists and (the same routing, written a second time) in an invocation's `onDone`/`onError` lists -/
def defActions (d : StateDef) : List String :=
  ((mainActs d).filter (fun a => !isSpawn a.type && !isBuiltin a.type)).map (·.type)
  ++ ((invActs d).filter (fun a => !isSpawn a.type && !isBuiltin a.type)).map (·.type)

def defGuards (d : StateDef) : List String :=
  (mainTrans d ++ invTrans d).flatMap transGuardNames

/-- `if invoke_def.src:` -/
def invokeSrcs (d : StateDef) : List String :=
  d.invoke.filterMap (fun i => match i.src with | some s => if s = "" then none else some s | none => none)

/-- service names demanded by one state: the keys of the spawn directives of the main lists, the invoked
    sources, the keys of the spawn directives of the invocations' `onDone`/`onError` lists -/
def defServices (d : StateDef) : List String :=
  ((mainActs d).filter (fun a => isSpawn a.type)).map (fun a => spawnKey a.type) ++ invokeSrcs d
  ++ ((invActs d).filter (fun a => isSpawn a.type)).map (fun a => spawnKey a.type)

mutual
/-- every state definition of a subtree (the recursion of `_extract_logic_from_node`) -/
def subDefs : SNode → List StateDef
  | .mk d kids => d :: subDefsKids kids
def subDefsKids : List (String × SNode) → List StateDef
  | [] => []
  | kc :: rest => subDefs kc.2 ++ subDefsKids rest
end

structure Req where
  actions : List String
  guards : List String
  services : List String
deriving Repr

def required (m : Machine) : Req :=
  { actions := (subDefs m.root).flatMap defActions
    guards := (subDefs m.root).flatMap defGuards
    services := (subDefs m.root).flatMap defServices }

/-- step 3 for one kind: bind each demanded name or fail with the first unbound one -/
def bindAll (scan : List String) : List String → Except String (List (String × String))
  | [] => .ok []
  | n :: ns =>
    match lookupImpl scan n with
    | none => .error n
    | some c =>
      match bindAll scan ns with
      | .error e => .error e
      | .ok bs => .ok ((n, c) :: bs)

structure Bindings where
  actions : List (String × String)
  guards : List (String × String)
  services : List (String × String)
deriving Repr

/-- `discover_and_build_logic` after parsing: `ImplementationMissingError` (here: the unbound name)
    or the three discovered dicts (name ↦ callable) -/
def discover (scan : List String) (m : Machine) : Except String Bindings :=
  match bindAll scan (required m).actions with
  | .error e => .error e
  | .ok a =>
    match bindAll scan (required m).guards with
    | .error e => .error e
    | .ok g =>
      match bindAll scan (required m).services with
      | .error e => .error e
      | .ok s => .ok { actions := a, guards := g, services := s }

/-! ## 4. `MachineLogic._register_subclass_methods` -/

inductive LogicKind where | guard | service | action
deriving DecidableEq, Repr

/-- the arity table: parameters of the BOUND method -/
def arityRegistry : Nat → Option LogicKind
  | 2 => some .guard
  | 3 => some .service
  | 4 => some .action
  | _ => none

structure Regs where
  actions : List String
  guards : List String
  services : List String
deriving Repr

def Regs.of (r : Regs) : LogicKind → List String
  | .guard => r.guards | .service => r.services | .action => r.actions

def Regs.add (r : Regs) (k : LogicKind) (n : String) : Regs :=
  match k with
  | .guard => { r with guards := r.guards ++ [n] }
  | .service => { r with services := r.services ++ [n] }
  | .action => { r with actions := r.actions ++ [n] }

/-- one subclass method `(name, arity)`: skipped when private, when the arity matches no contract,
    or when the name is already bound in that registry (explicit dictionaries win) -/
def registerOne (r : Regs) (m : String × Nat) : Regs :=
  if !isPublic m.1 then r else
  match arityRegistry m.2 with
  | none => r
  | some k => if (r.of k).contains m.1 then r else r.add k m.1

def registerSubclass (explicit : Regs) (methods : List (String × Nat)) : Regs :=
  methods.foldl registerOne explicit

/-! ## 5. Python definitions and their compilation to the machine JSON -/

/-- a `pythonic.State` object as its constructor stores it -/
structure PyState where
  name : String
  initial : Bool := false
  final : Bool := false
  parallel : Bool := false
  history : Option String := none
  on : List (String × J) := []          -- `State.on`: targets BY NAME (JSON shorthand)
  entry : List J := []
  exit : List J := []
  after : List (String × J) := []
  invoke : Option J := none
  onDone : Option J := none
  always : Option J := none
  tags : List String := []
  metaD : List (String × J) := []

inductive PyNode where
  | mk (s : PyState) (kids : List PyNode)

/-- a `pythonic.Transition` object: source and target are State OBJECTS, identified here by their
    position in the definition (the path of names from the top); `.name` of an object is the last
    component -/
structure PyTrans where
  src : Path
  event : String
  target : Option Path := none
  guard : Option String := none
  actions : List J := []
  reenter : Bool := false
  internal : Bool := false

structure PyDef where
  id : String
  states : List PyNode
  transitions : List PyTrans := []       -- `TransitionGroup`s flattened, declaration order
  context : Option J := none
  root : Option PyState := none

def nameOf (p : Path) : String := p.getLast?.getD ""

/-- a Python dict assignment `d[k] = v` on an insertion-ordered dict -/
def dictSet (kvs : List (String × J)) (k : String) (v : J) : List (String × J) :=
  if kvs.any (fun kv => kv.1 = k) then kvs.map (fun kv => if kv.1 = k then (k, v) else kv)
  else kvs ++ [(k, v)]

/-- the `entry` dict `_merge_transitions_into` builds for one `Transition` -/
def compileTrans (t : PyTrans) : J :=
  .obj ((if t.internal then [] else match t.target with
                                    | some p => [("target", J.str (nameOf p))]
                                    | none => [])
        ++ (match t.guard with | some g => if g = "" then [] else [("guard", J.str g)] | none => [])
        ++ (if t.actions.isEmpty then [] else [("actions", J.arr t.actions)])
        ++ (if t.reenter then [("reenter", J.bool true)] else []))

/-- `trans_by_source_event[name]`: event ↦ transitions, both in first-appearance order -/
def groupByEvent (ts : List PyTrans) : List (String × List PyTrans) :=
  ts.foldl (fun acc t =>
    if acc.any (fun kv => kv.1 = t.event) then acc.map (fun kv => if kv.1 = t.event then (kv.1, kv.2 ++ [t]) else kv)
    else acc ++ [(t.event, [t])]) []

def oneOrList : List J → J
  | [x] => x
  | xs => .arr xs

def objPairs : J → List (String × J)
  | .obj kvs => kvs
  | _ => []

/-- `_merge_transitions_into` for ONE compiled state and the transitions attached to it: every event
    key is (over)written, the `on` key is appended when the state had none -/
def mergeInto (cfg : List (String × J)) (ts : List PyTrans) : List (String × J) :=
  if ts.isEmpty then cfg else
  let cfg1 := if cfg.any (fun kv => kv.1 = "on") then cfg else cfg ++ [("on", J.obj [])]
  let on0 := objPairs (((J.obj cfg1).get? "on").getD (.obj []))
  let on1 := (groupByEvent ts).foldl (fun on g => dictSet on g.1 (oneOrList (g.2.map compileTrans))) on0
  dictSet cfg1 "on" (.obj on1)

def onDoneJ : J → J
  | .str s => .obj [("target", .str s)]
  | j => j

def hasDupNames : List PyNode → Bool
  | [] => false
  | (.mk s _) :: rest => rest.any (fun n => match n with | .mk s' _ => s'.name = s.name) || hasDupNames rest

def initialKids (kids : List PyNode) : List String :=
  kids.filterMap (fun n => match n with | .mk s _ => if s.initial then some s.name else none)

/-- the part of `_compile_state` before the children -/
def stateHead (s : PyState) : List (String × J) :=
  (if s.final then [("type", J.str "final")]
   else if s.parallel then [("type", J.str "parallel")]
   else match s.history with
     | some h => if h = "" then [] else [("type", J.str "history"), ("history", J.str h)]
     | none => [])
  ++ (if s.entry.isEmpty then [] else [("entry", oneOrList s.entry)])
  ++ (if s.exit.isEmpty then [] else [("exit", oneOrList s.exit)])
  ++ (if s.on.isEmpty && s.always.isNone then []
      else [("on", J.obj (match s.always with | some a => dictSet s.on "" a | none => s.on))])
  ++ (if s.after.isEmpty then [] else [("after", J.obj s.after)])
  ++ (match s.invoke with | some v => if truthy v then [("invoke", v)] else [] | none => [])
  ++ (match s.onDone with | some v => [("onDone", onDoneJ v)] | none => [])
  ++ (if s.tags.isEmpty then [] else [("tags", J.arr (s.tags.map J.str))])
  ++ (if s.metaD.isEmpty then [] else [("meta", J.obj s.metaD)])

mutual
/-- `_compile_state` followed by `_merge_transitions_into` for this state; `att p` are the
    transitions merged into the state at position `p` -/
def compileNode (att : Path → List PyTrans) (pre : Path) (parentParallel : Bool) : PyNode → Except String J
  | .mk s kids =>
    if s.final && !kids.isEmpty then .error "InvalidConfigError: final state cannot have child states"
    else if parentParallel && s.initial then .error "InvalidConfigError: child of a parallel state with initial=True"
    else
      match compileKids att (pre ++ [s.name]) s.parallel kids with
      | .error e => .error e
      | .ok kidCfgs =>
        if hasDupNames kids then .error "InvalidConfigError: duplicate state name at the same level"
        else if (initialKids kids).length > 1 then .error "InvalidConfigError: multiple initial states"
        else
          let kidPart : List (String × J) :=
            if kids.isEmpty then []
            else [("states", J.obj kidCfgs)]
              ++ (if s.parallel then [] else match initialKids kids with
                                            | i :: _ => if i = "" then [] else [("initial", J.str i)]
                                            | [] => [])
          .ok (.obj (mergeInto (stateHead s ++ kidPart) (att (pre ++ [s.name]))))
def compileKids (att : Path → List PyTrans) (pre : Path) (parentParallel : Bool) : List PyNode → Except String (List (String × J))
  | [] => .ok []
  | n :: rest =>
    match compileNode att pre parentParallel n with
    | .error e => .error e
    | .ok c =>
      match compileKids att pre parentParallel rest with
      | .error e => .error e
      | .ok cs => .ok ((match n with | .mk s _ => s.name, c) :: cs)
end

mutual
/-- positions (paths of names) of the State objects of a definition, document order -/
def nodePaths (pre : Path) : PyNode → List Path
  | .mk s kids => (pre ++ [s.name]) :: kidsPaths (pre ++ [s.name]) kids
def kidsPaths (pre : Path) : List PyNode → List Path
  | [] => []
  | n :: rest => nodePaths pre n ++ kidsPaths pre rest
end

def PyDef.paths (d : PyDef) : List Path := kidsPaths [] d.states
/-- the bare names of all State objects -/
def PyDef.names (d : PyDef) : List String := d.paths.map nameOf

/-- the keys of `all_states_by_name`: every bare name and every dotted path -/
def PyDef.keys (d : PyDef) : List String := d.names ++ d.paths.map (fun p => ".".intercalate p)

/-- `_apply_root_properties` -/
def applyRoot (cfg : List (String × J)) : Option PyState → List (String × J)
  | none => cfg
  | some r =>
    let c1 := if r.parallel then dictSet cfg "type" (.str "parallel") else cfg
    let c2 := if r.on.isEmpty then c1 else dictSet c1 "on" (.obj r.on)
    let c3 := match r.always with
      | some a => dictSet c2 "on" (.obj (dictSet (objPairs (((J.obj c2).get? "on").getD (.obj []))) "" a))
      | none => c2
    let c4 := if r.entry.isEmpty then c3 else dictSet c3 "entry" (.arr r.entry)
    let c5 := if r.exit.isEmpty then c4 else dictSet c4 "exit" (.arr r.exit)
    let c6 := if r.after.isEmpty then c5 else dictSet c5 "after" (.obj r.after)
    let c7 := match r.invoke with | some v => if truthy v then dictSet c6 "invoke" v else c6 | none => c6
    let c8 := match r.onDone with | some v => dictSet c7 "onDone" (onDoneJ v) | none => c7
    let c9 := if r.tags.isEmpty then c8 else dictSet c8 "tags" (.arr (r.tags.map J.str))
    if r.metaD.isEmpty then c9 else dictSet c9 "meta" (.obj r.metaD)

/-- `_compile_config` with the attachment of `Transition` objects to compiled states as a parameter.
    `srcOk` is the "transition source is a defined state" validation. -/
def compileConfig (att : Path → List PyTrans) (srcOk : PyTrans → Bool) (d : PyDef) : Except String J :=
  if hasDupNames d.states then .error "InvalidConfigError: duplicate state name at the same level"
  else if (initialKids d.states).length > 1 then .error "InvalidConfigError: multiple initial states"
  else if !(d.transitions.all srcOk) then .error "InvalidConfigError: transition source is not a defined state"
  else
    match compileKids att [] false d.states with
    | .error e => .error e
    | .ok cs =>
      let base : List (String × J) :=
        [("id", J.str d.id), ("states", J.obj cs)]
        ++ (match initialKids d.states with | i :: _ => if i = "" then [] else [("initial", J.str i)] | [] => [])
        ++ (match d.context with | some c => [("context", c)] | none => [])
      .ok (.obj (applyRoot base d.root))

/-- what the code does: `trans_by_source_event[t.source.name]`, merged into EVERY state called so -/
def attByName (ts : List PyTrans) (p : Path) : List PyTrans := ts.filter (fun t => nameOf t.src = nameOf p)
/-- attachment by object identity -/
def attByObj (ts : List PyTrans) (p : Path) : List PyTrans := ts.filter (fun t => t.src = p)

/-- `pythonic._compile_config` (class-based `StateMachine.create_machine` and `build_machine`) -/
def compileImpl (d : PyDef) : Except String J :=
  compileConfig (attByName d.transitions) (fun t => d.keys.contains (nameOf t.src)) d

/-- the config the definition denotes: each `Transition` belongs to the State object it was declared on -/
def denote (d : PyDef) : Except String J :=
  compileConfig (attByObj d.transitions) (fun t => d.paths.contains t.src) d

/-! ## 6. `MachineBuilder.build` -/

structure BTrans where
  source : String
  event : String
  target : J := .null            -- stored as given (a name)
  guard : Option String := none
  actions : List J := []
  reenter : Bool := false
  internal : Bool := false

def bEntry (t : BTrans) : J :=
  .obj ((if t.internal then [] else [("target", t.target)])
        ++ (match t.guard with | some g => if g = "" then [] else [("guard", J.str g)] | none => [])
        ++ (if t.actions.isEmpty then [] else [("actions", J.arr t.actions)])
        ++ (if t.reenter then [("reenter", J.bool true)] else []))

/-- one transition merged into ITS source state's config: an existing entry for the event is kept and
    the new one appended (a list is extended, a single entry becomes a two-element list) -/
def bMergeOne (cfg : List (String × J)) (t : BTrans) : List (String × J) :=
  let cfg1 := if cfg.any (fun kv => kv.1 = "on") then cfg else cfg ++ [("on", J.obj [])]
  let on0 := objPairs (((J.obj cfg1).get? "on").getD (.obj []))
  let on1 := match (J.obj on0).get? t.event with
    | some (.arr xs) => dictSet on0 t.event (.arr (xs ++ [bEntry t]))
    | some x => dictSet on0 t.event (.arr [x, bEntry t])
    | none => dictSet on0 t.event (bEntry t)
  dictSet cfg1 "on" (.obj on1)

/-- the transition loop of `build()` over the (deep-copied) top-level state dict -/
def buildStates (states : List (String × J)) : List BTrans → Except String (List (String × J))
  | [] => .ok states
  | t :: ts =>
    if states.any (fun kv => kv.1 = t.source) then
      buildStates (states.map (fun kv => if kv.1 = t.source then (kv.1, J.obj (bMergeOne (objPairs kv.2) t)) else kv)) ts
    else .error "InvalidConfigError: transition source is not a defined state"

/-- the config dict `MachineBuilder.state(...)` stores (key order as written) -/
def bStateCfg (s : PyState) : List (String × J) :=
  let c0 : List (String × J) := if s.final then [("type", J.str "final")] else []
  let c1 := if s.parallel then dictSet c0 "type" (.str "parallel") else c0
  let c2 := match s.history with
    | some h => if h = "" then c1 else dictSet (dictSet c1 "type" (.str "history")) "history" (.str h)
    | none => c1
  let c3 := c2
    ++ (if s.on.isEmpty then [] else [("on", J.obj s.on)])
    ++ (if s.entry.isEmpty then [] else [("entry", J.arr s.entry)])
    ++ (if s.exit.isEmpty then [] else [("exit", J.arr s.exit)])
    ++ (if s.after.isEmpty then [] else [("after", J.obj s.after)])
    ++ (match s.invoke with | some v => if truthy v then [("invoke", v)] else [] | none => [])
    ++ (if s.tags.isEmpty then [] else [("tags", J.arr (s.tags.map J.str))])
    ++ (if s.metaD.isEmpty then [] else [("meta", J.obj s.metaD)])
    ++ (match s.onDone with | some v => [("onDone", onDoneJ v)] | none => [])
  match s.always with
  | some a => dictSet c3 "on" (.obj (dictSet (objPairs (((J.obj c3).get? "on").getD (.obj []))) "" a))
  | none => c3

/-- `MachineBuilder.child_states(parent, initial=, states=, parallel=)` on the parent's config -/
def bChildStates (cfg : List (String × J)) (initial : Option String) (states : Option J) (parallel : Bool) : List (String × J) :=
  let c1 := if parallel then dictSet cfg "type" (.str "parallel") else cfg
  let c2 := match states with | some v => if truthy v then dictSet c1 "states" v else c1 | none => c1
  match initial with
  | some i => if i = "" || parallel then c2 else dictSet c2 "initial" (.str i)
  | none => c2

structure BDef where
  id : String
  states : List (String × J)           -- `_states`: name ↦ config dict as `.state()` / `.child_states()` left it
  initial : Option String := none
  transitions : List BTrans := []
  context : Option J := none
  root : List (String × J) := []       -- `.root(**properties)`

/-- `config.update(root)` -/
def dictUpdate (cfg : List (String × J)) (upd : List (String × J)) : List (String × J) :=
  upd.foldl (fun c kv => dictSet c kv.1 kv.2) cfg

def buildImpl (b : BDef) : Except String J :=
  match buildStates b.states b.transitions with
  | .error e => .error e
  | .ok ss =>
    .ok (.obj (dictUpdate
      ([("id", J.str b.id), ("states", J.obj ss)]
       ++ (match b.initial with | some i => if i = "" then [] else [("initial", J.str i)] | none => [])
       ++ (match b.context with | some c => [("context", c)] | none => []))
      b.root))

end XSM.Py
