import Xsm.Model.Machine
/-
Set-level specification functions of a microstep (what is exited, what is entered), shared by
the executable plan (`Model/Plan.lean`) and by the proofs (`Proofs/Legal.lean`).
-/
namespace XSM
namespace Spec

-- default descent -----------------------------------------------------------
mutual
def enterDefault (path : Path) : SNode → List Path
  | .mk d kids =>
    path :: (match d.kind with
      | .compound => match d.initial with
          | some k => enterInit path k kids
          | none => []
      | .parallel => enterRegions path kids
      | _ => [])
def enterInit (path : Path) (k : String) : List (String × SNode) → List Path
  | [] => []
  | (k', c) :: rest => if k' = k then enterDefault (path ++ [k']) c else enterInit path k rest
def enterRegions (path : Path) : List (String × SNode) → List Path
  | [] => []
  | (k', c) :: rest =>
      (if c.kind = .history then [] else enterDefault (path ++ [k']) c) ++ enterRegions path rest
end

-- explicit entry ------------------------------------------------------------
def regionsNotIn (L : List Path) (p : Path) : List (String × SNode) → List Path
  | [] => []
  | (k, c) :: rest =>
    (if c.kind = .history ∨ (p ++ [k]) ∈ L then [] else enterDefault (p ++ [k]) c)
      ++ regionsNotIn L p rest

def hasExplicitChild (L : List Path) (p : Path) : Bool :=
  L.any (fun q => q ≠ [] && q.dropLast == p)

def extra (root : SNode) (L : List Path) (p : Path) : List Path :=
  match root.at p with
  | none => []
  | some (.mk d kids) =>
    match d.kind with
    | .compound =>
      if hasExplicitChild L p then [] else
        match d.initial with
        | some k => enterInit p k kids
        | none => []
    | .parallel => regionsNotIn L p kids
    | _ => []

/-- `_enter_states(L)`: each element contributes itself and its default extras;
    the contribution depends only on `L` and the static tree. Order = Python's. -/
def enterStates (root : SNode) (L : List Path) : List Path :=
  L.flatMap (fun p => p :: extra root L p)

-- domain / exit set / path --------------------------------------------------
def lcp : Path → Path → Path
  | a :: as, b :: bs => if a = b then a :: lcp as bs else []
  | _, _ => []

def domain (src tgt : Path) : Path :=
  if tgt = src then src.dropLast
  else if tgt <+: src then tgt.dropLast
  else lcp src tgt

def kindAt (root : SNode) (p : Path) : Option Kind := (root.at p).map (·.kind)

def exitSet (root : SNode) (c : List Path) (dom tgt : Path) : List Path :=
  let cand := c.filter (fun s => dom.isPrefixOf s && s != dom)
  if kindAt root dom = some .parallel ∧ dom.length < tgt.length then
    cand.filter (fun s => (tgt.take (dom.length + 1)).isPrefixOf s)
  else cand

def pathToEnter (dom tgt : Path) : List Path :=
  (List.range (tgt.length - dom.length)).map (fun i => tgt.take (dom.length + 1 + i))

def stepConfig (root : SNode) (c : List Path) (src tgt : Path) : List Path :=
  let dom := domain src tgt
  let ex := exitSet root c dom tgt
  c.filter (fun s => !ex.contains s) ++ enterStates root (pathToEnter dom tgt)



end Spec
end XSM
