import Xsm.Model.Select
import Xsm.Model.Resolve
import Xsm.Model.Spec
/-
Microstep PLAN: everything about one transition that can be computed before any effect runs —
the ordered exit list, the transition's actions, the ordered entry list (each entry tagged
`nested` when it is reached by default descent), and the error the entry would raise, if any.
Mirrors `_find_transition_domain`, `_compute_states_to_exit`, `_get_path_to_state`,
`_resolve_history_target`, `_enter_states`.
-/
namespace XSM

inductive EErr where
  | stateNotFound (t : String)
  | invalidConfig (msg : String)
  | missingGuard (name : String)
  | missingAction (name : String)
  | notSupported (name : String)
deriving Repr, Inhabited

structure Entry where
  path : Path
  nested : Bool        -- reached by default descent (sync engine hands it a synthetic event)
deriving Repr, Inhabited

structure Plan where
  exits : List Path := []
  actions : List ActionRef := []
  entries : List Entry := []
  err : Option EErr := none          -- raised after the listed entries have run
  internal : Bool := false           -- actions only
deriving Inhabited

-- default descent (entry order) ---------------------------------------------------------------
mutual
def dfltDescend (m : Machine) (p : Path) : SNode → List Entry × Option EErr
  | .mk d kids =>
    match d.kind with
    | .compound =>
      if (d.initial.map (· != "")).getD false then dfltInit m p (d.initial.getD "") kids
      else if !kids.isEmpty then ([], some (.invalidConfig s!"compound state {m.idOf p} has no initial"))
      else ([], none)
    | .parallel => dfltRegions m p [] kids
    | _ => ([], none)
/-- enter kid `k` (must exist) and its default descent -/
def dfltInit (m : Machine) (p : Path) (k : String) : List (String × SNode) → List Entry × Option EErr
  | [] => ([], some (.invalidConfig s!"initial state not found in {m.idOf p}"))
  | (k', c) :: rest =>
    if k' = k then
      let (es, e) := dfltDescend m (p ++ [k']) c
      (⟨p ++ [k'], true⟩ :: es, e)
    else dfltInit m p k rest
/-- enter every non-history region not in `skip`, each with its default descent -/
def dfltRegions (m : Machine) (p : Path) (skip : List Path) : List (String × SNode) → List Entry × Option EErr
  | [] => ([], none)
  | (k, c) :: rest =>
    if c.kind == .history || skip.contains (p ++ [k]) then dfltRegions m p skip rest
    else
      let (es, e) := dfltDescend m (p ++ [k]) c
      match e with
      | some err => (⟨p ++ [k], true⟩ :: es, some err)
      | none =>
        let (es2, e2) := dfltRegions m p skip rest
        (⟨p ++ [k], true⟩ :: es ++ es2, e2)
end

/-- what one element `p` of the entry list contributes besides itself -/
def entryExtras (m : Machine) (L : List Path) (p : Path) (d : StateDef) (kids : List (String × SNode)) :
    List Entry × Option EErr :=
  match d.kind with
  | .compound =>
    if (d.initial.map (· != "")).getD false then
      if Spec.hasExplicitChild L p then ([], none)
      else dfltInit m p (d.initial.getD "") kids
    else if !kids.isEmpty then ([], some (.invalidConfig s!"compound state {m.idOf p} has no initial"))
    else ([], none)
  | .parallel => dfltRegions m p L kids
  | _ => ([], none)

def planEnterStep (m : Machine) (L : List Path) (acc : List Entry × Option EErr) (p : Path) :
    List Entry × Option EErr :=
  match acc.2 with
  | some _ => acc
  | none =>
    match m.root.at p with
    | none => (acc.1, some (.invalidConfig "no such state"))
    | some (.mk d kids) =>
      let r := entryExtras m L p d kids
      (acc.1 ++ ⟨p, false⟩ :: r.1, r.2)

/-- `_enter_states(L)` as a plan: each element, then its extras -/
def planEnter (m : Machine) (L : List Path) : List Entry × Option EErr :=
  L.foldl (planEnterStep m L) ([], none)

-- domain / exits / paths -------------------------------------------------------------------------
def domain (src tgt : Path) : Path := Spec.domain src tgt

/-- `_find_transition_domain`: `none` is Python's `None` ("the whole machine"): the parent of the
    root. The last rule lifts the domain above a parallel state whose history child is targeted. -/
def domainO (m : Machine) (src tgt : Path) : Option Path :=
  if tgt = src then (if src = [] then none else some src.dropLast)
  else if tgt <+: src then (if tgt = [] then none else some tgt.dropLast)
  else
    let d := Spec.lcp src tgt
    if m.kindAt tgt = some .history ∧ m.kindAt d = some .parallel ∧ tgt.dropLast = d then
      (if d = [] then none else some d.dropLast)
    else some d

def exitSet (m : Machine) (c : List Path) (dom tgt : Path) : List Path := Spec.exitSet m.root c dom tgt

def pathFrom (dom x : Path) : List Path :=
  if dom.isPrefixOf x then (List.range (x.length - dom.length)).map (fun i => x.take (dom.length + 1 + i))
  else (List.range (x.length + 1)).map (fun i => x.take i)

/-- `_get_path_to_state(x, stop_at=dom)`; with `None` the walk reaches (and includes) the root -/
def pathFromO (dom : Option Path) (x : Path) : List Path :=
  match dom with
  | some d => pathFrom d x
  | none => (List.range (x.length + 1)).map (fun i => x.take i)

def sortExit (m : Machine) (xs : List Path) : List Path :=
  (sortBy (fun a b => a.length < b.length || (a.length == b.length && decide (m.idOf a ≤ m.idOf b))) xs).reverse

def resolveHistoryTarget (m : Machine) (hist : List (Path × List Path)) (h : Path) : List Path :=
  let parent := h.dropLast
  let remembered := ((hist.find? (fun kv => kv.1 = parent)).map (·.2)).getD []
  match m.root.at h, m.root.at parent with
  | some hn, some pn =>
    if remembered.isEmpty then
      let viaDefault := match hn.d.historyTarget with
        | some t => if t = "" then none else resolveTarget m t h
        | none => none
      match viaDefault with
      | some r => [r]
      | none =>
        let regions := if pn.kind = .parallel then
            (pn.kids.filter (fun kc => kc.2.kind != .history)).map (fun kc => parent ++ [kc.1]) else []
        match pn.d.initial with
        | some i => if i != "" && (findKid i pn.kids).isSome then [parent ++ [i]] else regions
        | none => regions
    else if hn.d.deep then
      let leaves := remembered.filter (fun q => match m.root.at q with | some n => isLeafNode n | none => false)
      if leaves.isEmpty then remembered else leaves
    else
      let sh := remembered.filter (fun q => q != [] && q.dropLast == parent)
      if sh.isEmpty then remembered else sh
  | _, _ => []

/-- the plan of one selected transition in configuration `cfg` with history `hist` -/
def planTransition (m : Machine) (cfg : List Path) (hist : List (Path × List Path)) (c : Cand) : Plan :=
  let t := c.t
  match t.target with
  | none => { actions := t.actions, internal := true }
  | some tstr =>
    if tstr = "" then { actions := t.actions, internal := true } else
    match resolveRobust m c.src tstr with
    | none => { err := some (.stateNotFound tstr), internal := true }
    | some tgt =>
      if tgt = c.src && !t.reenter then { actions := t.actions, internal := true } else
      let domO := domainO m c.src tgt
      let exits := sortExit m (match domO with | none => cfg | some dom => exitSet m cfg dom tgt)
      if m.kindAt tgt = some .history then
        let targets := resolveHistoryTarget m hist tgt
        let combined := (targets.flatMap (pathFromO domO)).eraseDups
        let (es, e) := planEnter m combined
        { exits, actions := t.actions, entries := es, err := e }
      else
        let (es, e) := planEnter m (pathFromO domO tgt)
        { exits, actions := t.actions, entries := es, err := e }

end XSM
