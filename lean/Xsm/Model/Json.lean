/-
Ordered JSON values and a small text parser (objects keep key order: the
library depends on dict insertion order).
-/
namespace XSM

inductive J where
  | null
  | bool (b : Bool)
  | num (n : Int)          -- integers only (delays, bounds); non-integers are kept as strings by the harness
  | str (s : String)
  | arr (xs : List J)
  | obj (kvs : List (String × J))
deriving Repr, Inhabited

namespace J

def get? (j : J) (k : String) : Option J :=
  match j with
  | obj kvs => (kvs.find? (fun kv => kv.1 == k)).map (·.2)
  | _ => none

def hasKey (j : J) (k : String) : Bool :=
  match j with
  | obj kvs => kvs.any (fun kv => kv.1 == k)
  | _ => false

def isNull : J → Bool | null => true | _ => false

end J

-- parser ----------------------------------------------------------------------
structure P where
  s : Array Char
  i : Nat

namespace P
def peek (p : P) : Option Char := p.s[p.i]?
def adv (p : P) (n : Nat := 1) : P := { p with i := p.i + n }
partial def ws (p : P) : P :=
  match p.peek with
  | some c => if c == ' ' || c == '\n' || c == '\t' || c == '\r' then ws p.adv else p
  | none => p
end P

def hexVal (c : Char) : Nat :=
  if '0' ≤ c ∧ c ≤ '9' then c.toNat - '0'.toNat
  else if 'a' ≤ c ∧ c ≤ 'f' then c.toNat - 'a'.toNat + 10
  else if 'A' ≤ c ∧ c ≤ 'F' then c.toNat - 'A'.toNat + 10 else 0

partial def parseStr (p : P) (acc : String) : Except String (String × P) :=
  match p.peek with
  | none => .error "unterminated string"
  | some '"' => .ok (acc, p.adv)
  | some '\\' =>
    match p.adv.peek with
    | some 'n' => parseStr (p.adv 2) (acc.push '\n')
    | some 't' => parseStr (p.adv 2) (acc.push '\t')
    | some 'r' => parseStr (p.adv 2) (acc.push '\r')
    | some 'b' => parseStr (p.adv 2) (acc.push (Char.ofNat 8))
    | some 'f' => parseStr (p.adv 2) (acc.push (Char.ofNat 12))
    | some 'u' =>
      let h := fun k => hexVal ((p.s[p.i + 2 + k]?).getD '0')
      let v := h 0 * 4096 + h 1 * 256 + h 2 * 16 + h 3
      parseStr (p.adv 6) (acc.push (Char.ofNat v))
    | some c => parseStr (p.adv 2) (acc.push c)
    | none => .error "bad escape"
  | some c => parseStr p.adv (acc.push c)

partial def parseNum (p : P) (neg : Bool) (acc : Nat) : (Int × P) :=
  match p.peek with
  | some c => if c.isDigit then parseNum p.adv neg (acc * 10 + (c.toNat - '0'.toNat))
              else ((if neg then -(Int.ofNat acc) else Int.ofNat acc), p)
  | none => ((if neg then -(Int.ofNat acc) else Int.ofNat acc), p)

mutual
partial def parseVal (p0 : P) : Except String (J × P) := do
  let p := p0.ws
  match p.peek with
  | none => .error "eof"
  | some '{' => parseObj p.adv.ws []
  | some '[' => parseArr p.adv.ws []
  | some '"' => let (s, p') ← parseStr p.adv ""; pure (.str s, p')
  | some 't' => pure (.bool true, p.adv 4)
  | some 'f' => pure (.bool false, p.adv 5)
  | some 'n' => pure (.null, p.adv 4)
  | some '-' => let (n, p') := parseNum p.adv true 0; pure (.num n, p')
  | some c => if c.isDigit then (let (n, p') := parseNum p false 0; pure (.num n, p')) else .error s!"unexpected {c}"
partial def parseArr (p : P) (acc : List J) : Except String (J × P) := do
  match p.peek with
  | some ']' => pure (.arr acc.reverse, p.adv)
  | _ =>
    let (v, p1) ← parseVal p
    let p2 := p1.ws
    match p2.peek with
    | some ',' => parseArr p2.adv.ws (v :: acc)
    | some ']' => pure (.arr (v :: acc).reverse, p2.adv)
    | _ => .error "bad array"
partial def parseObj (p : P) (acc : List (String × J)) : Except String (J × P) := do
  match p.peek with
  | some '}' => pure (.obj acc.reverse, p.adv)
  | some '"' =>
    let (k, p1) ← parseStr p.adv ""
    let p2 := p1.ws
    match p2.peek with
    | some ':' =>
      let (v, p3) ← parseVal p2.adv
      let p4 := p3.ws
      match p4.peek with
      | some ',' => parseObj p4.adv.ws ((k, v) :: acc)
      | some '}' => pure (.obj ((k, v) :: acc).reverse, p4.adv)
      | _ => .error "bad object"
    | _ => .error "expected :"
  | _ => .error "bad object key"
end

def parseJson (s : String) : Except String J := do
  let (v, _) ← parseVal { s := s.toList.toArray, i := 0 }
  pure v

end XSM
