import Xsm.Model.Machine
import Xsm.Model.Str
/- `_is_guard_satisfied`, `_is_state_in`. -/
namespace XSM

inductive GOut where | t | f | raises | missing
deriving DecidableEq, Repr, Inhabited

/-- user guard environment: name → outcome (already applied to context/event by the caller) -/
abbrev GEnv := String → GOut

inductive GErr where | missing (name : String)
deriving Repr

def stateInTarget (params : Option J) : Option String :=
  match params with
  | some (.obj kvs) =>
    let o := J.obj kvs
    (match (if o.hasKey "state" then o.get? "state" else o.get? "value") with
     | some (.str s) => if s = "" then none else some s
     | _ => none)
  | some (.str s) => if s = "" then none else some s
  | _ => none

def isStateIn (m : Machine) (cfg : List Path) (params : Option J) : Bool :=
  match stateInTarget params with
  | none => false
  | some t =>
    let nrm := if sStartsWith t "#" then sDrop t 1 else t
    cfg.any (fun p => let i := m.idOf p; i == nrm || sEndsWith i ("." ++ nrm))

mutual
def evalGuard (m : Machine) (cfg : List Path) (env : GEnv) : GuardExpr → Except GErr Bool
  | .and cs => evalAll m cfg env cs
  | .or cs => evalAny m cfg env cs
  | .not c => do let b ← evalGuard m cfg env c; pure (!b)
  | .stateIn params =>
    -- a user implementation named stateIn wins
    match env "stateIn" with
    | .missing => pure (isStateIn m cfg params)
    | .t => pure true | .f => pure false | .raises => pure false
  | .named name _ =>
    match env name with
    | .missing => .error (.missing name)
    | .t => pure true | .f => pure false | .raises => pure false
def evalAll (m : Machine) (cfg : List Path) (env : GEnv) : List GuardExpr → Except GErr Bool
  | [] => pure true
  | c :: cs => do
    let b ← evalGuard m cfg env c
    if b then evalAll m cfg env cs else pure false
def evalAny (m : Machine) (cfg : List Path) (env : GEnv) : List GuardExpr → Except GErr Bool
  | [] => pure false
  | c :: cs => do
    let b ← evalGuard m cfg env c
    if b then pure true else evalAny m cfg env cs
end

def guardOk (m : Machine) (cfg : List Path) (env : GEnv) : Option GuardExpr → Except GErr Bool
  | none => pure true
  | some g => evalGuard m cfg env g

end XSM
