import Xsm.Model.Engine
/-
Snapshots: `get_persisted_snapshot` / `get_snapshot` and `from_snapshot` (base_interpreter.py) over the
engine state `St`.

`snap m s` is the JSON value the code serialises (same keys, same order): `status`, `context`,
`state_ids` (sorted ids of the active atomic/final states), `configuration` (sorted ids of every active
state), `output`, `error`, `history` (owner id -> SORTED ids of the remembered states: the code sorts
them by id, although `_record_history` keeps them in (depth, id) order), `actors`, `system`.
The engine model has no machine output, no error object and no child actors: these keys carry the
values the code writes for a machine without `output`/`invoke`/spawn (`null`, `null`, `{}`, `{}`).
Only the integer-valued part of the context is modelled (as everywhere in the engine model).

`restore m j` is what `from_snapshot` rebuilds from a decoded snapshot: status and context verbatim,
the listed configuration (falling back to `state_ids` when `configuration` is absent/empty) plus the
ancestor closure, the history with every remembered id that names a state (unknown ones are silently
dropped by the code, so they are dropped here), each remembered list put back into the (depth, id)
order `_record_history` keeps it in (commit 546b3d4; `restoreUnsorted` is `from_snapshot` before that
fix: the lists stay in the id order of the snapshot), an empty queue and fresh counters.  Errors:
`invalidConfig` (the text does not decode to a JSON object: `InvalidConfigError`), `shape key`
(`_validate_snapshot_shape`, run before anything is rebuilt: the first key of `status`, `context`,
`configuration`, `state_ids`, `history`, `actors`, `system` whose value has the wrong JSON type —
`InvalidConfigError` naming that key; the repair of finding F43) and `stateNotFound id`
(`StateNotFoundError`, only for a well-shaped snapshot).  The engine model has no child actors, so a
well-shaped `actors` / `system` value is accepted and otherwise ignored.
-/
namespace XSM

inductive RErr where
  | invalidConfig (msg : String)
  | stateNotFound (id : String)
  | shape (key : String)
deriving Repr, DecidableEq, Inhabited

/-- Python `sorted(ids)`: code-point lexicographic order on the dotted ids -/
def idLe (m : Machine) (a b : Path) : Bool := decide (m.idOf a ≤ m.idOf b)
def sortIds (m : Machine) (ps : List Path) : List Path := sortBy (idLe m) ps

def jIds (m : Machine) (ps : List Path) : J := .arr (ps.map (fun p => J.str (m.idOf p)))

/-- `is_atomic or is_final` -/
def isLeafState (m : Machine) (p : Path) : Bool :=
  match m.kindAt p with
  | some .atomic => true
  | some .final => true
  | _ => false

def snapCtx (c : Ctx) : J := .obj (c.map (fun kv => (kv.1, J.num kv.2)))

def snapHist (m : Machine) (h : List (Path × List Path)) : J :=
  .obj (h.map (fun kv => (m.idOf kv.1, jIds m (sortIds m kv.2))))

/-- `get_persisted_snapshot` -/
def snap (m : Machine) (s : St) : J :=
  .obj [("status", .str s.status),
        ("context", snapCtx s.ctx),
        ("state_ids", jIds m (sortIds m (s.cfg.filter (isLeafState m)))),
        ("configuration", jIds m (sortIds m s.cfg)),
        ("output", .null),
        ("error", .null),
        ("history", snapHist m s.hist),
        ("actors", .obj []),
        ("system", .obj [])]

-- restore ------------------------------------------------------------------------------------------

/-- `MachineNode.get_state_by_id`: split on '.', the first segment is the machine id, walk the keys -/
def stateById (m : Machine) (id : String) : Option Path :=
  match splitDot id with
  | [] => none
  | k :: p =>
    if k = m.id then
      (match m.root.at p with
       | some _ => some p
       | none => none)
    else none

def strList : List J → Option (List String)
  | [] => some []
  | .str s :: rest =>
    (match strList rest with
     | some ss => some (s :: ss)
     | none => none)
  | _ :: _ => none

/-- every listed id must name a state (`StateNotFoundError(target=state_id)` otherwise) -/
def restoreIds (m : Machine) : List String → Except RErr (List Path)
  | [] => .ok []
  | id :: rest =>
    match stateById m id with
    | none => .error (.stateNotFound id)
    | some p =>
      match restoreIds m rest with
      | .ok ps => .ok (p :: ps)
      | .error e => .error e

/-- the listed states and all their ancestors -/
def closeUp (ps : List Path) : List Path := (ps.flatMap chainUp).eraseDups

def restoreCtx (kvs : List (String × J)) : Ctx :=
  kvs.filterMap (fun kv => match kv.2 with | .num n => some (kv.1, n) | _ => none)

/-- the sort key of `_record_history` and (since 546b3d4) of `from_snapshot`: `(depth, id)` ascending -/
def depthIdLeM (m : Machine) (a b : Path) : Bool :=
  a.length < b.length || (a.length == b.length && decide (m.idOf a ≤ m.idOf b))
def sortDI (m : Machine) (ps : List Path) : List Path := sortBy (depthIdLeM m) ps

/-- one `history` entry: ids that name no state are skipped; an entry left empty is not stored; the
    remaining states are ordered by `ord` (`sortDI m` in the code, the identity before 546b3d4).
    (An owner id that names no state is kept by the code as a dead key; it has no `Path`, so it is
    dropped here — no lookup can ever reach it.) -/
def restoreHistEntry (m : Machine) (ord : List Path → List Path) (kv : String × J) :
    Except RErr (Option (Path × List Path)) :=
  match kv.2 with
  | .arr xs =>
    (match strList xs with
     | none => .error (.shape "history")
     | some ids =>
       let nodes := ids.filterMap (stateById m)
       if nodes.isEmpty then .ok none
       else (match stateById m kv.1 with
             | some P => .ok (some (P, ord nodes))
             | none => .ok none))
  | _ => .error (.shape "history")

def restoreHist (m : Machine) (ord : List Path → List Path) : List (String × J) → Except RErr (List (Path × List Path))
  | [] => .ok []
  | kv :: rest =>
    match restoreHistEntry m ord kv with
    | .error e => .error e
    | .ok o =>
      match restoreHist m ord rest with
      | .error e => .error e
      | .ok h =>
        (match o with
         | some x => .ok (x :: h)
         | none => .ok h)

/-- `snapshot.get("configuration") or snapshot["state_ids"]` -/
def restoreIdsJ (j : J) : Except RErr (List String) :=
  let fromStateIds : Except RErr (List String) :=
    match j.get? "state_ids" with
    | some (.arr ys) =>
      (match strList ys with
       | some ids => .ok ids
       | none => .error (.shape "state_ids"))
    | _ => .error (.shape "state_ids")
  match j.get? "configuration" with
  | none => fromStateIds
  | some .null => fromStateIds
  | some (.arr []) => fromStateIds
  | some (.arr (x :: xs)) =>
    (match strList (x :: xs) with
     | some ids => .ok ids
     | none => .error (.shape "configuration"))
  | some _ => .error (.shape "configuration")

def restoreHistJ (m : Machine) (ord : List Path → List Path) (j : J) : Except RErr (List (Path × List Path)) :=
  match j.get? "history" with
  | none => .ok []
  | some .null => .ok []
  | some (.obj kvs) => restoreHist m ord kvs
  | some _ => .error (.shape "history")

-- `_validate_snapshot_shape` ------------------------------------------------------------------------

/-- Python truthiness of a decoded JSON value (`not snapshot.get("configuration")`) -/
def jTruthy : J → Bool
  | .null => false
  | .bool b => b
  | .num n => n != 0
  | .str s => s != ""
  | .arr xs => !xs.isEmpty
  | .obj kvs => !kvs.isEmpty

def isStr : J → Bool
  | .str _ => true
  | _ => false
def isObj : J → Bool
  | .obj _ => true
  | _ => false
/-- `ids(value)`: a list of strings -/
def isIds : J → Bool
  | .arr xs => (strList xs).isSome
  | _ => false
/-- `mapping(value, item)`: an object every value of which passes `item` -/
def isMapOf (item : J → Bool) : J → Bool
  | .obj kvs => kvs.all (fun kv => item kv.2)
  | _ => false
/-- `actor(record)` — what `from_snapshot` reads of a persisted actor record: it is an object, `src` is
    absent, `null` or a string (the `services` key), `snapshot` is an object (`machine_id` is not read) -/
def isActorRec (r : J) : Bool :=
  match r with
  | .obj _ =>
    (match r.get? "src" with
     | none => true
     | some .null => true
     | some (.str _) => true
     | some _ => false) &&
    (match r.get? "snapshot" with
     | some (.obj _) => true
     | _ => false)
  | _ => false

/-- one row of the table: `value = snapshot.get(key)` passes `check`, or it is `None` (key absent, or
    `null`: no check of the table accepts `None`) and the key is not required -/
def shapeRowOk (j : J) (key : String) (required : Bool) (check : J → Bool) : Bool :=
  match j.get? key with
  | none => !required
  | some .null => !required
  | some v => check v

/-- `state_ids` is required when `not snapshot.get("configuration")` -/
def stateIdsRequired (j : J) : Bool :=
  match j.get? "configuration" with
  | none => true
  | some v => !jTruthy v

/-- `_validate_snapshot_shape`: the first offending key, in the order of the table -/
def shapeErr (j : J) : Option RErr :=
  if !shapeRowOk j "status" true isStr then some (.shape "status")
  else if !shapeRowOk j "context" true isObj then some (.shape "context")
  else if !shapeRowOk j "configuration" false isIds then some (.shape "configuration")
  else if !shapeRowOk j "state_ids" (stateIdsRequired j) isIds then some (.shape "state_ids")
  else if !shapeRowOk j "history" false (isMapOf isIds) then some (.shape "history")
  else if !shapeRowOk j "actors" false (isMapOf isActorRec) then some (.shape "actors")
  else if !shapeRowOk j "system" false (isMapOf isStr) then some (.shape "system")
  else none

/-- the body of `from_snapshot` after the validation (on a validated snapshot none of its `shape`
    branches is taken: `restoreCore_no_shape`) -/
def restoreCore (m : Machine) (ord : List Path → List Path) (j : J) : Except RErr St :=
  match j.get? "context" with
  | some (.obj ckvs) =>
    (match j.get? "status" with
     | some (.str st) =>
       (match restoreIdsJ j with
        | .error e => .error e
        | .ok ids =>
          (match restoreIds m ids with
           | .error e => .error e
           | .ok ps =>
             (match restoreHistJ m ord j with
              | .error e => .error e
              | .ok h =>
                .ok { cfg := closeUp ps, hist := h, queue := [], status := st, trace := [], err := none,
                      ctx := restoreCtx ckvs, raiseDepth := 0, errors := 0 })))
     | _ => .error (.shape "status"))
  | _ => .error (.shape "context")

/-- `from_snapshot` on the decoded JSON value, with the order `ord` given to each remembered list:
    top-level type, then the shape of every key, then the rebuild -/
def restoreWith (m : Machine) (ord : List Path → List Path) (j : J) : Except RErr St :=
  match j with
  | .obj _ =>
    (match shapeErr j with
     | some e => .error e
     | none => restoreCore m ord j)
  | _ => .error (.invalidConfig "Snapshot must decode to a JSON object")

/-- `from_snapshot` (current code): remembered lists in (depth, id) order -/
def restore (m : Machine) (j : J) : Except RErr St := restoreWith m (sortDI m) j

/-- `from_snapshot` before commit 546b3d4: remembered lists left in the id order of the snapshot -/
def restoreUnsorted (m : Machine) (j : J) : Except RErr St := restoreWith m id j

/-- `start()` on a restored interpreter whose status is not `uninitialized` only re-attaches the run
    loop (async) or does nothing (sync): the state is unchanged -/
def resume (s : St) : St := s

end XSM
