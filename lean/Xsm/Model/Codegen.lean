import Xsm.Generated.CodegenTables
/-!
Code-generator naming model: `cli/naming.py` (`to_identifier`, `IdentifierAllocator`).

Everything is on `List Char` (DESIGN §4.2: string-structure functions are defined on lists so that
proofs can use list lemmas).  The Unicode step `_transliterate` (NFKD, then drop characters of
non-zero combining class) is a per-character map; the model takes it as a PARAMETER
`tr : Char → List Char` — the theorems hold for every such map — and the compiled driver instantiates
it with the table regenerated from the running Python's `unicodedata` (`pyTranslit`).

    _INVALID_CHARS = re.compile(r"[^0-9a-zA-Z_]+")           -- `subInvalid`
    candidate = _INVALID_CHARS.sub("_", _transliterate(name)).strip("_")
    if not candidate: candidate = <the same of fallback>
    if not candidate: candidate = "state"                     -- `baseCandidate`
    if candidate[0].isdigit(): candidate = f"s_{candidate}"   -- `prefixDigit`
    if keyword.iskeyword(candidate) or candidate in _SOFT_KEYWORDS: candidate += "_"
    elif candidate in _SHADOW_RISK: candidate += "_"          -- `finish`
-/
namespace XSM.Codegen

-- character classes (ASCII, as in the explicit ranges of the regular expression) ---------------
def isAsciiDigit (c : Char) : Bool := decide (48 ≤ c.toNat) && decide (c.toNat ≤ 57)
def isAsciiLetter (c : Char) : Bool :=
  (decide (65 ≤ c.toNat) && decide (c.toNat ≤ 90)) || (decide (97 ≤ c.toNat) && decide (c.toNat ≤ 122))
/-- a character of `[0-9a-zA-Z_]` -/
def isIdChar (c : Char) : Bool := isAsciiLetter c || isAsciiDigit c || c == '_'
/-- a character that may start a Python identifier (ASCII fragment) -/
def isIdStart (c : Char) : Bool := isAsciiLetter c || c == '_'

/-- `_INVALID_CHARS.sub("_", s)`: every maximal run of characters outside `[0-9a-zA-Z_]` becomes
    one underscore (`inRun` = the previous character was part of such a run) -/
def subInvalidAux : Bool → List Char → List Char
  | _, [] => []
  | inRun, c :: cs =>
    if isIdChar c then c :: subInvalidAux false cs
    else if inRun then subInvalidAux true cs
    else '_' :: subInvalidAux true cs

def subInvalid (s : List Char) : List Char := subInvalidAux false s

/-- drop trailing underscores -/
def stripR : List Char → List Char
  | [] => []
  | c :: cs =>
    match stripR cs with
    | [] => if c == '_' then [] else [c]
    | r :: rs => c :: r :: rs

def stripL (s : List Char) : List Char := s.dropWhile (· == '_')

/-- `str.strip("_")` -/
def strip (s : List Char) : List Char := stripR (stripL s)

/-- `_INVALID_CHARS.sub("_", _transliterate(s)).strip("_")` -/
def sanitize (tr : Char → List Char) (s : List Char) : List Char := strip (subInvalid (s.flatMap tr))

def stateWord : List Char := ['s', 't', 'a', 't', 'e']

def baseCandidate (tr : Char → List Char) (name fallback : List Char) : List Char :=
  match sanitize tr name with
  | [] =>
    (match sanitize tr fallback with
     | [] => stateWord
     | c :: cs => c :: cs)
  | c :: cs => c :: cs

def prefixDigit : List Char → List Char
  | [] => []
  | c :: cs => if isAsciiDigit c then 's' :: '_' :: c :: cs else c :: cs

/-- the three word lists `to_identifier` consults -/
structure NameTables where
  keywords : List (List Char)
  soft : List (List Char)
  shadow : List (List Char)

def finish (T : NameTables) (c : List Char) : List Char :=
  if c ∈ T.keywords ∨ c ∈ T.soft then c ++ ['_']
  else if c ∈ T.shadow then c ++ ['_']
  else c

/-- `naming.to_identifier(name, fallback=fallback)` for an arbitrary transliteration and word lists -/
def toIdentifierWith (T : NameTables) (tr : Char → List Char) (name fallback : List Char) : List Char :=
  finish T (prefixDigit (baseCandidate tr name fallback))

-- IdentifierAllocator -----------------------------------------------------------------------------

/-- `f"{base}_{suffix}"` -/
def suffixed (base : List Char) (n : Nat) : List Char := base ++ '_' :: Nat.toDigits 10 n

/-- `while candidate in taken: candidate = f"{base}_{suffix}"; suffix += 1`, started at `suffix = n`;
    the loop counter is bounded by the size of `taken` (enough by the pigeonhole principle:
    `fresh_not_taken`) -/
def search (taken : List (List Char)) (base : List Char) : Nat → Nat → List Char
  | 0, n => suffixed base n
  | fuel + 1, n =>
    if suffixed base n ∈ taken then search taken base fuel (n + 1) else suffixed base n

def fresh (taken : List (List Char)) (base : List Char) : List Char :=
  if base ∈ taken then search taken base taken.length 2 else base

/-- allocator state: `_by_key` (most recent first) and `_taken` -/
structure Alloc where
  byKey : List (List Char × List Char)
  taken : List (List Char)

def lookup (k : List Char) : List (List Char × List Char) → Option (List Char)
  | [] => none
  | (k', v) :: rest => if k' = k then some v else lookup k rest

def Alloc.init (reserved : List (List Char)) : Alloc := { byKey := [], taken := reserved }

/-- `IdentifierAllocator.allocate(name, fallback=fallback)` -/
def allocate (T : NameTables) (tr : Char → List Char) (a : Alloc) (name fallback : List Char) :
    Alloc × List Char :=
  match lookup name a.byKey with
  | some v => (a, v)
  | none =>
    let c := fresh a.taken (toIdentifierWith T tr name fallback)
    ({ byKey := (name, c) :: a.byKey, taken := c :: a.taken }, c)

/-- a whole request sequence; returns the final state and the log `(name, binding)` of every request -/
def allocateAll (T : NameTables) (tr : Char → List Char) :
    Alloc → List (List Char × List Char) → Alloc × List (List Char × List Char)
  | a, [] => (a, [])
  | a, (name, fb) :: rest =>
    let r := allocate T tr a name fb
    let rr := allocateAll T tr r.1 rest
    (rr.1, (name, r.2) :: rr.2)

-- the concrete instance -----------------------------------------------------------------------------

def pyTables : NameTables :=
  { keywords := CodegenTables.pyKeywords, soft := CodegenTables.softKeywords, shadow := CodegenTables.shadowRisk }

def hexDigitVal (c : Char) : Nat :=
  if 48 ≤ c.toNat ∧ c.toNat ≤ 57 then c.toNat - 48
  else if 65 ≤ c.toNat ∧ c.toNat ≤ 70 then c.toNat - 55
  else 0

def parseTranslitLine (l : List Char) : Nat × List Char :=
  let code := l.takeWhile (· != ' ')
  let img := (l.dropWhile (· != ' ')).drop 1
  (code.foldl (fun acc c => acc * 16 + hexDigitVal c) 0, img)

def splitLines : List Char → List (List Char)
  | [] => [[]]
  | c :: cs =>
    match splitLines cs with
    | [] => [[]]
    | l :: ls => if c = '\n' then [] :: l :: ls else (c :: l) :: ls

/-- the table of `CodegenTables.translitRaw`, sorted by code point -/
def translitTable : Array (Nat × List Char) :=
  ((splitLines CodegenTables.translitRaw.toList).map parseTranslitLine).toArray

def binSearch (t : Array (Nat × List Char)) (key : Nat) : Nat → Nat → Nat → Option (List Char)
  | 0, _, _ => none
  | fuel + 1, lo, hi =>
    if lo ≥ hi then none
    else
      let mid := (lo + hi) / 2
      match t[mid]? with
      | none => none
      | some (k, v) =>
        if k = key then some v
        else if k < key then binSearch t key fuel (mid + 1) hi
        else binSearch t key fuel lo mid

/-- `_transliterate` on one character, as far as `to_identifier` can tell: ASCII is unchanged; a
    non-ASCII character outside the table stands for itself (it is outside `[0-9a-zA-Z_]`) -/
def pyTranslit (c : Char) : List Char :=
  if c.toNat < 128 then [c]
  else match binSearch translitTable c.toNat 64 0 translitTable.size with
    | some img => img
    | none => [c]

def toIdentifier (name fallback : List Char) : List Char := toIdentifierWith pyTables pyTranslit name fallback

def pyAllocateAll (reserved : List (List Char)) (reqs : List (List Char × List Char)) : List (List Char) :=
  (allocateAll pyTables pyTranslit (Alloc.init reserved) reqs).2.map (·.2)

end XSM.Codegen
