/- String helpers defined on `List Char` so that proofs can use list lemmas. -/
namespace XSM

def sDrop (s : String) (n : Nat) : String := String.ofList (s.toList.drop n)
def sDropRight (s : String) (n : Nat) : String := String.ofList (s.toList.take (s.toList.length - n))
def sStartsWith (s pre : String) : Bool := pre.toList.isPrefixOf s.toList
def sEndsWith (s suf : String) : Bool := suf.toList.isSuffixOf s.toList

/-- Python `str.split(".")` on a list of characters -/
def splitDotL : List Char → List (List Char)
  | [] => [[]]
  | c :: cs =>
    match splitDotL cs with
    | [] => [[]]           -- unreachable
    | seg :: rest => if c = '.' then [] :: seg :: rest else (c :: seg) :: rest

def splitDot (s : String) : List String := (splitDotL s.toList).map String.ofList

end XSM
