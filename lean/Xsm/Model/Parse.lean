import Xsm.Model.Machine
import Xsm.Model.Str
import Xsm.Generated.Tables
/-
Config front end: mirrors models.py parsing and normalisation.
-/
namespace XSM

abbrev PErr := String      -- "InvalidConfigError: ..." ; refined later into a kind enum

def ensureList : J → List J
  | .null => []
  | .arr xs => xs
  | j => [j]

/-- `_normalize_transitions` -/
def normalizeTransitions : J → Except PErr (List J)
  | .null => .ok [.obj [("__forbidden__", .bool true)]]
  | .str s => .ok [.obj [("target", .str s)]]
  | .obj kvs => .ok [.obj kvs]
  | .arr xs => xs.mapM (fun
      | .str s => .ok (.obj [("target", .str s)])
      | .obj kvs => .ok (.obj kvs)
      | _ => .error "InvalidConfigError: invalid transition item in list")
  | _ => .error "InvalidConfigError: invalid transition config"

def parseAction : J → Except PErr ActionRef
  | .str s => .ok { type := s }
  | .obj kvs =>
    let j := J.obj kvs
    let ty := match j.get? "type" with | some (.str s) => s | _ => "UnknownAction"
    .ok { type := ty, params := j.get? "params" }
  | _ => .error "InvalidConfigError: action definition must be a string or a dictionary"

def truthy : J → Bool
  | .null => false | .bool b => b | .num n => n != 0 | .str s => s != ""
  | .arr xs => !xs.isEmpty | .obj kvs => !kvs.isEmpty

def parseActions (j : Option J) : Except PErr (List ActionRef) :=
  match j with
  | none => .ok []
  | some v => if !truthy v then .ok [] else (ensureList v).mapM parseAction

partial def parseGuard (j : J) : Except PErr GuardExpr :=
  match j with
  | .str s => .ok (.named s none)          -- a bare string is never composite; "stateIn" bare string is stateIn w/o params
  | .obj kvs => do
    let o := J.obj kvs
    let ty ← match o.get? "type" with
      | some (.str s) => if s = "" then .error "InvalidConfigError: guard object must have a non-empty string 'type'" else pure s
      | _ => .error "InvalidConfigError: guard object must have a non-empty string 'type'"
    let params := o.get? "params"
    let isComposite := ty = "and" || ty = "or" || ty = "not"
    let c1 : List J := match o.get? "children" with | some v => if truthy v then ensureList v else [] | none => []
    let c2 : List J := if !c1.isEmpty then c1 else match params with
      | some (.obj pk) =>
        let po := J.obj pk
        match po.get? "guards" with
        | some v => if truthy v then ensureList v else (match po.get? "children" with | some w => if truthy w then ensureList w else [] | none => [])
        | none => (match po.get? "children" with | some w => if truthy w then ensureList w else [] | none => [])
      | _ => []
    let c3 : List J := if !c2.isEmpty || !isComposite then c2 else match params with
      | some (.obj pk) => (match (J.obj pk).get? "guard" with | some .null => [] | some g => [g] | none => [])
      | _ => []
    let children ← c3.mapM parseGuard
    if isComposite then
      if children.isEmpty then .error s!"InvalidConfigError: composite guard '{ty}' requires at least one nested guard"
      else if ty = "not" then
        match children with
        | [c] => pure (.not c)
        | _ => .error "InvalidConfigError: guard 'not' requires exactly one nested guard"
      else if ty = "and" then pure (.and children) else pure (.or children)
    else if ty = "stateIn" then pure (.stateIn params)
    else pure (.named ty params)
  | _ => .error "InvalidConfigError: guard must be a string or a dictionary"

/-- bare-string "stateIn" is_state_in too (type == "stateIn") -/
def fixBareStateIn : GuardExpr → GuardExpr
  | .named "stateIn" p => .stateIn p
  | g => g

structure PState where
  nextTid : Nat := 0
  customIds : List (String × Path) := []

abbrev PM := StateT PState (Except PErr)

def freshTid : PM Nat := do
  let s ← get; set { s with nextTid := s.nextTid + 1 }; pure s.nextTid

def parseTransition (event : String) (cfg : J) : PM Trans := do
  let actions ← (parseActions (cfg.get? "actions") : Except PErr _)
  let rawGuard := if cfg.hasKey "guard" then cfg.get? "guard" else cfg.get? "cond"
  let guard ← match rawGuard with
    | none => pure none
    | some .null => pure none
    | some g => do let ge ← (parseGuard g : Except PErr _); pure (some (fixBareStateIn ge))
  let target := match cfg.get? "target" with | some (.str s) => some s | _ => none   -- TODO non-string targets
  let reenter := match cfg.get? "reenter" with | some v => truthy v | none => false
  let forbidden := match cfg.get? "__forbidden__" with | some v => truthy v | none => false
  let tid ← freshTid
  pure { tid, event, target, guard, actions, reenter, forbidden }

def parseTransList (event : String) (cfg : J) : PM (List Trans) := do
  let cfgs ← (normalizeTransitions cfg : Except PErr _)
  cfgs.mapM (parseTransition event)

def isHistoryCfg : J → Bool
  | j => match j.get? "type" with | some (.str "history") => true | _ => false

def joinId (pid key : String) : String := pid ++ "." ++ key

partial def parseState (cfg : J) (key : String) (sid : String) (path : Path) (isRoot : Bool) : PM SNode := do
  -- custom id
  let mut customId : Option String := none
  if !isRoot then
    match cfg.get? "id" with
    | none => pure ()
    | some .null => pure ()
    | some (.str s) =>
      if s = "" then throw s!"InvalidConfigError: state '{sid}' has an invalid 'id'"
      let st ← get
      if st.customIds.any (fun kv => kv.1 == s) then throw s!"InvalidConfigError: duplicate state id '{s}'"
      set { st with customIds := st.customIds ++ [(s, path)] }
      customId := some s
    | some _ => throw s!"InvalidConfigError: state '{sid}' has an invalid 'id'"
  -- kind
  let tyStr : Option String := match cfg.get? "type" with | some (.str s) => some s | _ => none
  let kind : Kind :=
    if cfg.hasKey "states" then (if tyStr = some "parallel" then .parallel else .compound)
    else if tyStr = some "final" then .final
    else if tyStr = some "history" then .history
    else .atomic
  -- initial
  let initialRaw ← match cfg.get? "initial" with
    | none => pure none | some .null => pure none
    | some (.str s) => pure (some s)
    | some _ => throw s!"InvalidConfigError: state '{sid}' has an invalid 'initial'"
  let statesJ := (cfg.get? "states").getD (.obj [])
  let initial ←
    if kind != .compound || (initialRaw.map (· != "")).getD false then pure initialRaw
    else match statesJ with
      | .obj kvs =>
        let cands := kvs.filter (fun kv => !(isHistoryCfg kv.2))
        pure (match cands with | [kv] => some kv.1 | _ => initialRaw)
      | _ => throw "RAW:AttributeError"     -- `.items()` on a non-dict before shape validation
  -- tags
  let tags ← match cfg.get? "tags" with
    | none => pure []
    | some (.str s) => pure [s]
    | some (.arr xs) => xs.mapM (fun | .str s => pure s | _ => throw s!"InvalidConfigError: state '{sid}' has non-string tag(s)")
    | some _ => throw s!"InvalidConfigError: state '{sid}' has an invalid 'tags' value"
  -- meta
  match cfg.get? "meta" with
    | none => pure ()
    | some v => if truthy v then (match v with | .obj _ => pure () | _ => throw s!"InvalidConfigError: state '{sid}' has an invalid 'meta' value") else pure ()
  let deep := kind == .history && (match cfg.get? "history" with | some (.str "deep") => true | _ => false)
  let historyTarget := match cfg.get? "target" with | some (.str s) => some s | _ => none
  let entry ← (parseActions (cfg.get? "entry") : Except PErr _)
  let exit ← (parseActions (cfg.get? "exit") : Except PErr _)
  -- on (+ always)
  let onJ := (cfg.get? "on").getD (.obj [])
  let mut on : List (String × List Trans) := []
  match onJ with
  | .obj kvs =>
    for (ev, tc) in kvs do
      let ts ← parseTransList ev tc
      -- a repeated key cannot occur in a Python dict; JSON duplicate keys keep the last
      on := (on.filter (fun kv => kv.1 != ev)) ++ [(ev, ts)]
  | _ => throw s!"InvalidConfigError: state '{sid}' has an invalid 'on' value"
  match cfg.get? "always" with
  | none => pure ()
  | some .null => pure ()
  | some a =>
    let ts ← parseTransList "" a
    on := match on.find? (fun kv => kv.1 == "") with
      | some _ => on.map (fun kv => if kv.1 == "" then (kv.1, kv.2 ++ ts) else kv)
      | none => on ++ [("", ts)]
  -- onDone
  let onDone ← match cfg.get? "onDone" with
    | none => pure none
    | some v => if !truthy v then pure none else do
        let cfgs ← (normalizeTransitions v : Except PErr _)
        match cfgs with
        | [] => pure none
        | c :: _ => do let t ← parseTransition ("done.state." ++ sid) c; pure (some t)
  -- after
  let afterJ := (cfg.get? "after").getD (.obj [])
  let mut after : List (String × List Trans) := []
  match afterJ with
  | .obj kvs =>
    for (delay, tc) in kvs do
      let cfgs ← (normalizeTransitions tc : Except PErr _)
      let ts ← cfgs.mapM (parseTransition ("after." ++ delay ++ "." ++ sid))
      after := after ++ [(delay, ts)]
  | _ => throw s!"InvalidConfigError: state '{sid}' has an invalid 'after' value"
  -- invoke
  let mut invoke : List Invoke := []
  for ic in ensureList ((cfg.get? "invoke").getD (.arr [])) do
    match ic with
    | .obj _ =>
      let iid := match ic.get? "id" with | some (.str s) => s | _ => sid
      let od ← match ic.get? "onDone" with | none => pure [] | some v => parseTransList ("done.invoke." ++ iid) v
      let oe ← match ic.get? "onError" with | none => pure [] | some v => parseTransList ("error.platform." ++ iid) v
      let src := match ic.get? "src" with | some (.str s) => some s | _ => none
      invoke := invoke ++ [{ id := iid, src, onDone := od, onError := oe }]
    | _ => throw s!"InvalidConfigError: state '{sid}' has an invalid 'invoke' entry"
  -- children
  let mut kids : List (String × SNode) := []
  match statesJ with
  | .obj kvs =>
    for (k, c) in kvs do
      match c with
      | .obj _ => pure ()
      | _ => throw s!"InvalidConfigError: state '{sid}.{k}' must be an object/dict"
      if k.contains '.' then
        let head := (splitDot k).headD ""
        if kvs.any (fun kv => kv.1 == head) then throw s!"InvalidConfigError: state key '{k}' in '{sid}' is ambiguous"
    for (k, c) in kvs do
      let child ← parseState c k (joinId sid k) (path ++ [k]) false
      kids := (kids.filter (fun kc => kc.1 != k)) ++ [(k, child)]
  | _ => throw s!"InvalidConfigError: state '{sid}' has an invalid 'states' value"
  let d : StateDef := { kind, initial, entry, exit, on, onDone, after, invoke, deep, historyTarget, customId, tags }
  pure (.mk d kids)

def parseMachine (cfg : J) : Except PErr Machine := do
  match cfg with
  | .obj _ => pure ()
  | _ => throw "InvalidConfigError: machine configuration must be a dictionary"
  let mid ← match cfg.get? "id" with
    | some (.str s) => if s = "" then throw "InvalidConfigError: machine configuration must have a non-empty 'id' string" else pure s
    | _ => throw "InvalidConfigError: machine configuration must have a non-empty 'id' string"
  if !cfg.hasKey "states" then throw "InvalidConfigError: must be a dict with 'id' and 'states' keys"
  match cfg.get? "context" with
  | none => pure () | some (.obj _) => pure () | some (.str _) => pure ()
  | some _ => throw s!"InvalidConfigError: machine '{mid}' has an invalid 'context'"
  let maxIt ← match cfg.get? "maxIterations" with
    | none => pure Tables.defaultMaxIterations
    | some (.num n) => pure n.toNat
    | some _ => throw "RAW:ValueError"
  let (root, st) ← (parseState cfg mid mid [] true).run {}
  pure { id := mid, root, maxIterations := maxIt, customIds := st.customIds }

end XSM
