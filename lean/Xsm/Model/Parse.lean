import Xsm.Model.Machine
import Xsm.Model.Str
import Xsm.Generated.Tables
/-
Config front end: mirrors models.py parsing and normalisation.
-/
namespace XSM

abbrev PErr := String      -- "InvalidConfigError: ..." ; refined later into a kind enum

def ensureList : J → List J
  | .null => []
  | .arr xs => xs
  | j => [j]

/-- `_normalize_transitions` -/
def normalizeTransitions : J → Except PErr (List J)
  | .null => .ok [.obj [("__forbidden__", .bool true)]]
  | .str s => .ok [.obj [("target", .str s)]]
  | .obj kvs => .ok [.obj kvs]
  | .arr xs => xs.mapM (fun
      | .str s => .ok (.obj [("target", .str s)])
      | .obj kvs => .ok (.obj kvs)
      | _ => .error "InvalidConfigError: invalid transition item in list")
  | _ => .error "InvalidConfigError: invalid transition config"

def parseAction : J → Except PErr ActionRef
  | .str s => .ok { type := s }
  | .obj kvs =>
    let j := J.obj kvs
    let ty := match j.get? "type" with | some (.str s) => s | _ => "UnknownAction"
    .ok { type := ty, params := j.get? "params" }
  | _ => .error "InvalidConfigError: action definition must be a string or a dictionary"

def truthy : J → Bool
  | .null => false | .bool b => b | .num n => n != 0 | .str s => s != ""
  | .arr xs => !xs.isEmpty | .obj kvs => !kvs.isEmpty

def parseActions (j : Option J) : Except PErr (List ActionRef) :=
  match j with
  | none => .ok []
  | some v => if !truthy v then .ok [] else (ensureList v).mapM parseAction

-- sizes of sub-values (termination of the recursive parsers) ---------------------
theorem J.find_sizeOf_lt (kvs : List (String × J)) (k : String) (v : J)
    (h : (kvs.find? (fun kv => kv.1 == k)).map (·.2) = some v) : sizeOf v < sizeOf kvs := by
  induction kvs with
  | nil => simp at h
  | cons hd rest ih =>
    obtain ⟨k', v'⟩ := hd
    simp only [List.find?] at h
    split at h
    · simp at h; subst h; simp; omega
    · have := ih h; simp; omega

theorem J.get?_sizeOf_lt (j : J) (k : String) (v : J) (h : j.get? k = some v) :
    sizeOf v < sizeOf j := by
  cases j <;> simp [J.get?] at h
  case obj kvs =>
    have := J.find_sizeOf_lt kvs k v (by simpa using h)
    simp; omega

theorem ensureList_sizeOf_le (v c : J) (h : c ∈ ensureList v) : sizeOf c ≤ sizeOf v := by
  cases v <;> simp [ensureList] at h
  case arr xs => have := List.sizeOf_lt_of_mem h; simp; omega
  all_goals (subst h; exact Nat.le_refl _)

/-- Python `o.get(k) or []`, read as a list of operands -/
def truthyList (o : J) (k : String) : List J :=
  match o.get? k with | some v => if truthy v then ensureList v else [] | none => []

theorem truthyList_sizeOf_lt (o : J) (k : String) (c : J) (h : c ∈ truthyList o k) :
    sizeOf c < sizeOf o := by
  unfold truthyList at h
  split at h
  · rename_i v hv
    split at h
    · have h1 := ensureList_sizeOf_le v c h
      have h2 := J.get?_sizeOf_lt o k v hv
      omega
    · simp at h
  · simp at h

/-- the `type` of a guard object -/
def guardTypeOf (o : J) : Except PErr String :=
  match o.get? "type" with
  | some (.str s) => if s = "" then .error "InvalidConfigError: guard object must have a non-empty string 'type'" else pure s
  | _ => .error "InvalidConfigError: guard object must have a non-empty string 'type'"

/-- operands written inside `params`: `params.guards or params.children or []` -/
def paramsOperands : Option J → List J
  | some (.obj pk) =>
    let po := J.obj pk
    match po.get? "guards" with
    | some v => if truthy v then ensureList v else truthyList po "children"
    | none => truthyList po "children"
  | _ => []

/-- the single nested guard `params.guard` (when present and not null) -/
def paramsGuard : Option J → List J
  | some (.obj pk) => (match (J.obj pk).get? "guard" with | some .null => [] | some g => [g] | none => [])
  | _ => []

/-- the raw operand list of a guard object (`children_cfg`): `children`, else `params.guards`,
else `params.children`, else (composite types only) the single `params.guard` -/
def guardChildrenJ (o : J) (isComposite : Bool) : List J :=
  let params := o.get? "params"
  let c1 : List J := truthyList o "children"
  let c2 : List J := if !c1.isEmpty then c1 else paramsOperands params
  let c3 : List J := if !c2.isEmpty || !isComposite then c2 else paramsGuard params
  c3

theorem paramsOperands_sizeOf_lt (p c : J) (h : c ∈ paramsOperands (some p)) : sizeOf c < sizeOf p := by
  unfold paramsOperands at h
  split at h
  · rename_i pk heq
    cases heq
    simp only at h
    split at h
    · rename_i v hv
      split at h
      · have h1 := ensureList_sizeOf_le v c h
        have h2 := J.get?_sizeOf_lt _ _ v hv
        omega
      · exact truthyList_sizeOf_lt _ _ c h
    · exact truthyList_sizeOf_lt _ _ c h
  · simp at h

theorem paramsGuard_sizeOf_lt (p c : J) (h : c ∈ paramsGuard (some p)) : sizeOf c < sizeOf p := by
  unfold paramsGuard at h
  split at h
  · rename_i pk heq
    cases heq
    split at h
    · simp at h
    · rename_i g _ hg
      have := J.get?_sizeOf_lt _ _ g hg
      simp at h; subst h; exact this
    · simp at h
  · simp at h

theorem guardChildrenJ_sizeOf_lt (o : J) (ic : Bool) (c : J) (h : c ∈ guardChildrenJ o ic) :
    sizeOf c < sizeOf o := by
  have hpo : ∀ c, c ∈ paramsOperands (o.get? "params") → sizeOf c < sizeOf o := by
    intro c h
    cases hp : o.get? "params" with
    | none => simp [hp, paramsOperands] at h
    | some p =>
      rw [hp] at h
      have := paramsOperands_sizeOf_lt p c h
      have := J.get?_sizeOf_lt o _ p hp
      omega
  have hpg : ∀ c, c ∈ paramsGuard (o.get? "params") → sizeOf c < sizeOf o := by
    intro c h
    cases hp : o.get? "params" with
    | none => simp [hp, paramsGuard] at h
    | some p =>
      rw [hp] at h
      have := paramsGuard_sizeOf_lt p c h
      have := J.get?_sizeOf_lt o _ p hp
      omega
  unfold guardChildrenJ at h
  simp only at h
  repeat' split at h
  all_goals first
    | exact truthyList_sizeOf_lt _ _ c h
    | exact hpo c h
    | exact hpg c h

/-- the last step of `GuardDefinition.__init__`: shape checks and classification -/
def finishGuard (ty : String) (params : Option J) (children : List GuardExpr) : Except PErr GuardExpr :=
  let isComposite := ty = "and" || ty = "or" || ty = "not"
  if isComposite then
    if children.isEmpty then .error s!"InvalidConfigError: composite guard '{ty}' requires at least one nested guard"
    else if ty = "not" then
      match children with
      | [c] => pure (.not c)
      | _ => .error "InvalidConfigError: guard 'not' requires exactly one nested guard"
    else if ty = "and" then pure (.and children) else pure (.or children)
  else if ty = "stateIn" then pure (.stateIn params)
  else pure (.named ty params)

/-- `GuardDefinition.__init__`; total, by recursion on the size of the JSON value -/
def parseGuard (j : J) : Except PErr GuardExpr :=
  match j with
  -- a bare string is never composite; `is_state_in = (type == "stateIn")` holds for bare strings too
  | .str s => .ok (if s = Tables.stateInGuardType then .stateIn none else .named s none)
  | .obj kvs => do
    let o := J.obj kvs
    let ty ← guardTypeOf o
    let isComposite := ty = "and" || ty = "or" || ty = "not"
    let children ← (guardChildrenJ o isComposite).attach.mapM (fun c => parseGuard c.1)
    finishGuard ty (o.get? "params") children
  | _ => .error "InvalidConfigError: guard must be a string or a dictionary"
termination_by sizeOf j
decreasing_by
  exact guardChildrenJ_sizeOf_lt (J.obj kvs) _ c.1 c.2

/-- bare-string "stateIn" is_state_in too (type == "stateIn") -/
def fixBareStateIn : GuardExpr → GuardExpr
  | .named "stateIn" p => .stateIn p
  | g => g

structure PState where
  nextTid : Nat := 0
  customIds : List (String × Path) := []

abbrev PM := StateT PState (Except PErr)

def freshTid : PM Nat := do
  let s ← get; set { s with nextTid := s.nextTid + 1 }; pure s.nextTid

/-- `config.get("guard", config.get("cond"))`: the v4 key `cond` is read when there is no
`guard` key -/
def rawGuardOf (cfg : J) : Option J :=
  if cfg.hasKey "guard" then cfg.get? "guard" else cfg.get? "cond"

/-- `GuardDefinition(raw_guard) if raw_guard is not None else None` -/
def parseGuardOpt : Option J → Except PErr (Option GuardExpr)
  | none => pure none
  | some .null => pure none
  | some g => do let ge ← parseGuard g; pure (some (fixBareStateIn ge))

def parseTransition (event : String) (cfg : J) : PM Trans := do
  let actions ← (parseActions (cfg.get? "actions") : Except PErr _)
  let guard ← (parseGuardOpt (rawGuardOf cfg) : Except PErr _)
  let target := match cfg.get? "target" with | some (.str s) => some s | _ => none   -- TODO non-string targets
  let reenter := match cfg.get? "reenter" with | some v => truthy v | none => false
  let forbidden := match cfg.get? "__forbidden__" with | some v => truthy v | none => false
  let tid ← freshTid
  pure { tid, event, target, guard, actions, reenter, forbidden }

def parseTransList (event : String) (cfg : J) : PM (List Trans) := do
  let cfgs ← (normalizeTransitions cfg : Except PErr _)
  cfgs.mapM (parseTransition event)

def isHistoryCfg : J → Bool
  | j => match j.get? "type" with | some (.str "history") => true | _ => false

def joinId (pid key : String) : String := pid ++ "." ++ key

/-- the raw child-state configs of a state config, in document order -/
def stateKidsJ (cfg : J) : List (String × J) :=
  match (cfg.get? "states").getD (.obj []) with
  | .obj kvs => kvs
  | _ => []

theorem stateKidsJ_sizeOf_lt (cfg : J) (kc : String × J) (h : kc ∈ stateKidsJ cfg) :
    sizeOf kc.2 < sizeOf cfg := by
  unfold stateKidsJ at h
  cases hs : cfg.get? "states" with
  | none => simp [hs] at h
  | some v =>
    have h1 := J.get?_sizeOf_lt cfg _ v hs
    simp only [hs, Option.getD_some] at h
    split at h
    · rename_i kvs
      have h2 := List.sizeOf_lt_of_mem h
      obtain ⟨k, c⟩ := kc
      simp at h2 h1 ⊢
      omega
    · simp at h

/-- everything `StateNode.__init__` does for one state except building its child nodes
(the shape of `states` is validated here; the children themselves are parsed by `parseState`) -/
def parseStateDef (cfg : J) (sid : String) (path : Path) (isRoot : Bool) : PM StateDef := do
  -- custom id
  let mut customId : Option String := none
  if !isRoot then
    match cfg.get? "id" with
    | none => pure ()
    | some .null => pure ()
    | some (.str s) =>
      if s = "" then throw s!"InvalidConfigError: state '{sid}' has an invalid 'id'"
      let st ← get
      if st.customIds.any (fun kv => kv.1 == s) then throw s!"InvalidConfigError: duplicate state id '{s}'"
      set { st with customIds := st.customIds ++ [(s, path)] }
      customId := some s
    | some _ => throw s!"InvalidConfigError: state '{sid}' has an invalid 'id'"
  -- kind
  let tyStr : Option String := match cfg.get? "type" with | some (.str s) => some s | _ => none
  let kind : Kind :=
    if cfg.hasKey "states" then (if tyStr = some "parallel" then .parallel else .compound)
    else if tyStr = some "final" then .final
    else if tyStr = some "history" then .history
    else .atomic
  -- initial
  let initialRaw ← match cfg.get? "initial" with
    | none => pure none | some .null => pure none
    | some (.str s) => pure (some s)
    | some _ => throw s!"InvalidConfigError: state '{sid}' has an invalid 'initial'"
  let statesJ := (cfg.get? "states").getD (.obj [])
  let initial ←
    if kind != .compound || (initialRaw.map (· != "")).getD false then pure initialRaw
    else match statesJ with
      | .obj kvs =>
        let cands := kvs.filter (fun kv => !(isHistoryCfg kv.2))
        pure (match cands with | [kv] => some kv.1 | _ => initialRaw)
      | _ => throw "InvalidConfigError: invalid 'states' value (not an object)"     -- `.items()` on a non-dict before shape validation
  -- tags
  let tags ← match cfg.get? "tags" with
    | none => pure []
    | some (.str s) => pure [s]
    | some (.arr xs) => xs.mapM (fun | .str s => pure s | _ => throw s!"InvalidConfigError: state '{sid}' has non-string tag(s)")
    | some _ => throw s!"InvalidConfigError: state '{sid}' has an invalid 'tags' value"
  -- meta
  match cfg.get? "meta" with
    | none => pure ()
    | some v => if truthy v then (match v with | .obj _ => pure () | _ => throw s!"InvalidConfigError: state '{sid}' has an invalid 'meta' value") else pure ()
  let deep := kind == .history && (match cfg.get? "history" with | some (.str "deep") => true | _ => false)
  let historyTarget := match cfg.get? "target" with | some (.str s) => some s | _ => none
  let entry ← (parseActions (cfg.get? "entry") : Except PErr _)
  let exit ← (parseActions (cfg.get? "exit") : Except PErr _)
  -- on (+ always)
  let onJ := (cfg.get? "on").getD (.obj [])
  let mut on : List (String × List Trans) := []
  match onJ with
  | .obj kvs =>
    for (ev, tc) in kvs do
      let ts ← parseTransList ev tc
      -- a repeated key cannot occur in a Python dict; JSON duplicate keys keep the last
      on := (on.filter (fun kv => kv.1 != ev)) ++ [(ev, ts)]
  | _ => throw s!"InvalidConfigError: state '{sid}' has an invalid 'on' value"
  match cfg.get? "always" with
  | none => pure ()
  | some .null => pure ()
  | some a =>
    let ts ← parseTransList "" a
    on := match on.find? (fun kv => kv.1 == "") with
      | some _ => on.map (fun kv => if kv.1 == "" then (kv.1, kv.2 ++ ts) else kv)
      | none => on ++ [("", ts)]
  -- onDone
  let onDone ← match cfg.get? "onDone" with
    | none => pure none
    | some v => if !truthy v then pure none else do
        let cfgs ← (normalizeTransitions v : Except PErr _)
        match cfgs with
        | [] => pure none
        | c :: _ => do let t ← parseTransition ("done.state." ++ sid) c; pure (some t)
  -- after
  let afterJ := (cfg.get? "after").getD (.obj [])
  let mut after : List (String × List Trans) := []
  match afterJ with
  | .obj kvs =>
    for (delay, tc) in kvs do
      let cfgs ← (normalizeTransitions tc : Except PErr _)
      let ts ← cfgs.mapM (parseTransition ("after." ++ delay ++ "." ++ sid))
      after := after ++ [(delay, ts)]
  | _ => throw s!"InvalidConfigError: state '{sid}' has an invalid 'after' value"
  -- invoke
  let mut invoke : List Invoke := []
  for ic in ensureList ((cfg.get? "invoke").getD (.arr [])) do
    match ic with
    | .obj _ =>
      let iid := match ic.get? "id" with | some (.str s) => s | _ => sid
      let od ← match ic.get? "onDone" with | none => pure [] | some v => parseTransList ("done.invoke." ++ iid) v
      let oe ← match ic.get? "onError" with | none => pure [] | some v => parseTransList ("error.platform." ++ iid) v
      let src := match ic.get? "src" with | some (.str s) => some s | _ => none
      invoke := invoke ++ [{ id := iid, src, onDone := od, onError := oe }]
    | _ => throw s!"InvalidConfigError: state '{sid}' has an invalid 'invoke' entry"
  -- children: shape checks only
  match statesJ with
  | .obj kvs =>
    for (k, c) in kvs do
      match c with
      | .obj _ => pure ()
      | _ => throw s!"InvalidConfigError: state '{sid}.{k}' must be an object/dict"
      if k.contains '.' then
        let head := (splitDot k).headD ""
        if kvs.any (fun kv => kv.1 == head) then throw s!"InvalidConfigError: state key '{k}' in '{sid}' is ambiguous"
  | _ => throw s!"InvalidConfigError: state '{sid}' has an invalid 'states' value"
  pure { kind, initial, entry, exit, on, onDone, after, invoke, deep, historyTarget, customId, tags }

/-- `StateNode.__init__`; total, by recursion on the size of the JSON value -/
def parseState (cfg : J) (key : String) (sid : String) (path : Path) (isRoot : Bool) : PM SNode := do
  let d ← parseStateDef cfg sid path isRoot
  -- children (`stateKidsJ cfg` is the `kvs` of the `states` object validated by `parseStateDef`)
  let mut kids : List (String × SNode) := []
  for _h : kc in stateKidsJ cfg do
    let child ← parseState kc.2 kc.1 (joinId sid kc.1) (path ++ [kc.1]) false
    kids := (kids.filter (fun x => x.1 != kc.1)) ++ [(kc.1, child)]
  pure (.mk d kids)
termination_by sizeOf cfg
decreasing_by exact stateKidsJ_sizeOf_lt cfg kc _h

/-- Python `int(s)` on a string, approximately: surrounding ASCII blanks and a leading `-` are accepted
(not modelled: a leading `+`, `_` digit separators, non-ASCII digits) -/
def pyIntOfStr (s : String) : Option Int := (String.ofList ((s.toList.dropWhile (· = ' ')).reverse.dropWhile (· = ' ')).reverse).toInt?

/-- `MachineNode.__init__` + the checks of `factory.create_machine` (called with an explicit `logic`).
Errors tagged `RAW:` model raw Python exceptions the code really raises (not library errors). -/
def parseMachine (cfg : J) : Except PErr Machine := do
  match cfg with
  | .obj _ => pure ()
  | _ => throw "InvalidConfigError: machine configuration must be a dictionary"   -- factory.py: `config.get("id")` on a non-dict
  let mid ← match cfg.get? "id" with
    | some (.str s) => if s = "" then throw "InvalidConfigError: machine configuration must have a non-empty 'id' string" else pure s
    | _ => throw "InvalidConfigError: machine configuration must have a non-empty 'id' string"
  if !cfg.hasKey "states" then throw "InvalidConfigError: must be a dict with 'id' and 'states' keys"
  match cfg.get? "context" with
  | none => pure () | some (.obj _) => pure () | some (.str _) => pure ()
  | some _ => throw s!"InvalidConfigError: machine '{mid}' has an invalid 'context'"
  let maxIt ← match cfg.get? "maxIterations" with
    | none => pure Tables.defaultMaxIterations
    | some (.num n) => pure n.toNat
    | some (.bool b) => pure (if b then 1 else 0)                 -- `int(True)` = 1
    | some (.str s) => (match pyIntOfStr s with
        | some n => pure n.toNat
        | none => throw "InvalidConfigError: invalid 'maxIterations' (not an integer literal)")
    | some _ => throw "InvalidConfigError: invalid 'maxIterations' (not a number)"   -- None, list, dict
  let (root, st) ← (parseState cfg mid mid [] true).run {}
  let ctx0 : List (String × Int) := match cfg.get? "context" with
    | some (.obj kvs) => kvs.filterMap (fun kv => match kv.2 with | .num n => some (kv.1, n) | _ => none)
    | _ => []
  pure { id := mid, root, maxIterations := maxIt, customIds := st.customIds, ctx0 }

end XSM
