import Xsm.Model.Engine
import Xsm.Model.Snapshot
/-
The pure transition API (helpers.py): `PureSnapshot`, `_build_probe`, `_capture`, `initial_transition`,
`transition` (and `get_initial_snapshot` / `get_next_snapshot`, which are their first components).

The code builds a throw-away `SyncInterpreter` subclass (`_Probe`), so the model builds the pure
functions FROM the sync engine's own definitions (`syncStart`, `syncSend`, hence `processEvent`,
`transientLoop`, `drainLoop`, `execActions`): the probe is the sync engine run in another user
environment, `pureEnv u`, in which

* an action the user REGISTERED is recorded and never called (`_execute_actions` of the probe: the
  registry is consulted for the NAME only — a user action of the same name wins over a built-in, as in
  a real run — so its outcome, context change, failure or coroutine-ness are all ignored: `.ok c`);
* a name that is neither registered nor a built-in is recorded too (the probe never looks for an
  implementation, so it cannot miss one): `.ok c`;
* an unregistered BUILT-IN goes to the engine's own `_execute_builtin_action` when it is one of
  `assign`, `raise`, `choose` (repair of finding F32: these decide what the step computes — the context,
  the event processed next within the same call, the actions recorded next) and is recorded and nothing
  more otherwise (`log`, `emit`, `cancel`, `sendTo`, `sendParent`, `forwardTo`, `escalate`, `stopChild`,
  `spawnChild`: effects; `pure`, `enqueueActions`: callbacks into user code). The engine model has no
  effect for the second group either (`builtinStep` does nothing for them), so both groups are `.missing`
  here — "not a user action, the built-in path runs" (the whitelist itself is not observable at the
  abstraction of the engine model).  Built-in names never reach the trace (neither in the engine model, where only user
  actions are logged, nor here); the code's `recorded` list does contain them, and the tie compares it
  with them filtered out — the projection the monitor has always used.

`_schedule_state_tasks` is suppressed in the probe and the engine model has no timers or services;
`_deliver` of the probe queues an undelayed `raise` at itself (`self.send`: marked, as `hooksFlagged`) and drops
every other delivery; delays are outside the engine model.

`PureSnap` is what `PureSnapshot` exposes, with paths for ids: configuration, (integer part of the)
context, status (`"active"`, `"done"`, `"error"`), and — repair of finding F4 — the remembered history.
`state_ids` is a function of the configuration and `output` is outside the engine model.
The configuration is a set in the code; the list is handed through unchanged here (that the engine does
not depend on its order is C16).  `restore` puts every remembered list back in (depth, id) order, as
`transition()` does (the same concern as `from_snapshot`, commit 546b3d4); on the lists `_record_history`
produced this is the identity (`Pure.sortDI_of_diSorted`).

Purity of the inputs (the machine definition and the snapshot handed in are not modified) is by
construction in a functional model and is checked on the implementation by fingerprints.
-/
namespace XSM

deriving instance DecidableEq for EErr

structure PureSnap where
  cfg : List Path := []
  ctx : Ctx := []
  status : String := "active"
  hist : List (Path × List Path) := []
deriving DecidableEq, Repr, Inhabited

/-- the probe's view of the action registry: whether a name is registered matters, what the action does
    does not -/
def pureAct (u : UEnv) : String → Ctx → String → AOut := fun n c e =>
  match u.a n c e with
  | .missing => if (canonicalBuiltin n).isSome then .missing else .ok c
  | _ => .ok c

/-- the user environment the probe runs in: the user's guards, and `pureAct` for actions -/
def pureEnv (u : UEnv) : UEnv := { g := u.g, a := pureAct u }

/-- the hooks of the probe: the sync engine's own hooks over `pureEnv u` -/
def pureHooks (u : UEnv) (m : Machine) : Hooks := hooksFlagged (pureEnv u) m

/-- `_capture` -/
def capture (s : St) : PureSnap :=
  { cfg := s.cfg, ctx := s.ctx, hist := s.hist,
    status := if s.status = "done" then "done" else if s.status = "error" then "error" else "active" }

/-- `_build_probe(machine, snapshot)` + the restoration in `transition()`: a fresh interpreter, status
    "running", the snapshot's configuration, context and remembered history (each list re-sorted) -/
def restorePure (m : Machine) (p : PureSnap) : St :=
  { cfg := p.cfg, hist := p.hist.map (fun kv => (kv.1, sortDI m kv.2)), queue := [], status := "running",
    trace := [], err := none, ctx := p.ctx, raiseDepth := 0, errors := 0 }

/-- a trace record written by an observer or the engine's bookkeeping (`#recv:`, `#t:`, `#aerr:`) -/
def isBookkeeping (r : String) : Bool := sStartsWith r "#"

/-- `name@event` ↦ `name` (split at the LAST '@') -/
def recName (r : String) : String :=
  String.ofList ((r.toList.reverse.dropWhile (fun c => c != '@')).drop 1).reverse

/-- the reported actions of one call: the names of the action records of the trace, oldest first -/
def reported (s : St) : List String :=
  (s.trace.reverse.filter (fun r => !isBookkeeping r)).map recName

/-- what a call returns, read off the engine state it ended in: the snapshot and the reported actions, or
    the exception it raised -/
def observe (s : St) : Except EErr (PureSnap × List String) :=
  match s.err with
  | some e => .error e
  | none => .ok (capture s, reported s)

/-- `initial_transition(machine)`: `probe.start()` -/
def pureInitial (m : Machine) (u : UEnv) : Except EErr (PureSnap × List String) :=
  observe (syncStart m (pureEnv u) {})

/-- `transition(machine, snapshot, event)`: a snapshot that is not active is returned as it is with no
    actions (repair of finding F5); otherwise `probe.send(event)` from the restored probe -/
def pureTransition (m : Machine) (u : UEnv) (p : PureSnap) (ev : Ev) : Except EErr (PureSnap × List String) :=
  if p.status = "active" then observe (syncSend m (pureEnv u) ev (restorePure m p))
  else .ok (p, [])

/-- the API chained over an event list, as a caller does: each call starts from the snapshot the previous
    one returned; an exception ends the chain -/
def pureChain (m : Machine) (u : UEnv) : PureSnap → List Ev → List (Except EErr (PureSnap × List String))
  | _, [] => []
  | p, e :: es =>
    match pureTransition m u p e with
    | .ok r => .ok r :: pureChain m u r.1 es
    | .error x => [.error x]

end XSM
