import Xsm.Model.Json
/-
Parsed machine: rose tree of states, mirrors models.py (StateNode / TransitionDefinition /
GuardDefinition / ActionDefinition / InvokeDefinition).
-/
namespace XSM

abbrev Path := List String

inductive Kind where
  | atomic | compound | parallel | final | history
deriving DecidableEq, Repr, Inhabited

structure ActionRef where
  type : String
  params : Option J := none
deriving Repr, Inhabited

inductive GuardExpr where
  | named (name : String) (params : Option J)
  | stateIn (params : Option J)
  | and (cs : List GuardExpr)
  | or (cs : List GuardExpr)
  | not (c : GuardExpr)
deriving Repr, Inhabited

structure Trans where
  tid : Nat                      -- identity (Python: id(transition)); unique per machine
  event : String
  target : Option String
  guard : Option GuardExpr
  actions : List ActionRef
  reenter : Bool
  forbidden : Bool
deriving Repr, Inhabited

structure Invoke where
  id : String
  src : Option String
  onDone : List Trans
  onError : List Trans
deriving Repr, Inhabited

structure StateDef where
  kind : Kind
  initial : Option String
  entry : List ActionRef
  exit : List ActionRef
  on : List (String × List Trans)         -- insertion order, "" bucket = always
  onDone : Option Trans
  after : List (String × List Trans)      -- key as written (numeric or named)
  invoke : List Invoke
  deep : Bool                              -- history kind
  historyTarget : Option String
  customId : Option String
  tags : List String
deriving Repr, Inhabited

inductive SNode where
  | mk (d : StateDef) (kids : List (String × SNode))
deriving Inhabited

namespace SNode
def d : SNode → StateDef | mk d _ => d
def kids : SNode → List (String × SNode) | mk _ ks => ks
def kind (n : SNode) : Kind := n.d.kind
end SNode

def findKid (k : String) : List (String × SNode) → Option SNode
  | [] => none
  | (k', c) :: rest => if k' = k then some c else findKid k rest

def SNode.at : SNode → Path → Option SNode
  | n, [] => some n
  | .mk _ ks, k :: p =>
    match findKid k ks with
    | some c => c.at p
    | none => none

structure Machine where
  id : String
  root : SNode
  maxIterations : Nat
  customIds : List (String × Path)
  ctx0 : List (String × Int) := []       -- integer-valued entries of the initial `context`
deriving Inhabited

def Machine.idOf (m : Machine) (p : Path) : String :=
  p.foldl (fun acc k => acc ++ "." ++ k) m.id

def Machine.kindAt (m : Machine) (p : Path) : Option Kind := (m.root.at p).map (·.kind)
def Machine.defAt (m : Machine) (p : Path) : Option StateDef := (m.root.at p).map (·.d)

-- all state paths in document (pre-)order
mutual
def SNode.allPaths : SNode → Path → List Path
  | .mk _ kids, p => p :: allPathsKids kids p
def allPathsKids : List (String × SNode) → Path → List Path
  | [], _ => []
  | (k, c) :: rest, p => c.allPaths (p ++ [k]) ++ allPathsKids rest p
end

end XSM
