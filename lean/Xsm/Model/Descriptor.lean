import Xsm.Model.Machine
import Xsm.Generated.Tables
import Xsm.Model.Str
/- `_matching_descriptors` -/
namespace XSM

/-- the tuple in `_matching_descriptors`, read from the source on every run -/
def internalPrefixes : List String := Tables.internalPrefixes

def insertByLenDesc (k : String) : List String → List String
  | [] => [k]
  | x :: xs => if x.length < k.length then k :: x :: xs else x :: insertByLenDesc k xs

/-- stable sort by decreasing length (Python: `sort(key=len, reverse=True)` is stable) -/
def sortByLenDesc (ks : List String) : List String :=
  ks.foldr (fun k acc => insertByLenDesc k acc) []

def matchingDescriptors (keys : List String) (ev : String) : List String :=
  if keys.isEmpty || ev = "" then [] else
  let exact := if keys.contains ev then [ev] else []
  if internalPrefixes.any (fun p => sStartsWith ev p) then exact else
  let partials := keys.filter (fun k =>
    k != "*" && sEndsWith k ".*" &&
      (let pre := sDropRight k 2; ev == pre || sStartsWith ev (pre ++ ".")))
  exact ++ sortByLenDesc partials ++ (if keys.contains "*" then ["*"] else [])

end XSM
