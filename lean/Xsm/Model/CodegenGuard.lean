import Xsm.Model.Parse
/-!
Code generator, guard fragment of the IR: `cli/ir.py` `parse_guard` (JSON → `GuardIR`) and
`cli/emit.py` `render_guard` AS DATA: the Python value the emitted literal denotes, as a `J`
(the text itself — `repr()`, quoting — is not modelled).

    def parse_guard(raw):                                   -- `irGuard`
        if raw is None: return None
        if isinstance(raw, str): return GuardIR(type=raw)
        if not isinstance(raw, dict): return None
        guard_type = raw.get("type")
        if not isinstance(guard_type, str): return None
        params = raw.get("params"); children = []
        if isinstance(params, dict):
            for nested in _as_list(params.get("guards")):   -- `nestedGuards`
                parsed = parse_guard(nested)
                if parsed is not None: children.append(parsed)
        return GuardIR(type=guard_type, children=tuple(children),
                       params=params if isinstance(params, dict) else None)

    def render_guard(guard):                                -- `renderGuard`
        if not guard.is_composite:                          -- is_composite = bool(children)
            return literal(guard.type)
        children = ", ".join(_render_guard_value(child) for child in guard.children)
        return "{'type': <type>, 'params': {'guards': [<children>]}}"
-/
namespace XSM.Codegen

inductive GuardIR where
  | mk (type : String) (children : List GuardIR) (params : Option J)
deriving Inhabited

/-- `_as_list(params.get("guards"))` when `params` is a dict, else nothing -/
def nestedGuards (o : J) : List J :=
  match o.get? "params" with
  | some (.obj pk) =>
    (match (J.obj pk).get? "guards" with
     | some v => ensureList v
     | none => [])
  | _ => []

theorem nestedGuards_sizeOf_lt (o c : J) (h : c ∈ nestedGuards o) : sizeOf c < sizeOf o := by
  unfold nestedGuards at h
  split at h
  · rename_i pk hp
    split at h
    · rename_i v hv
      have h1 := ensureList_sizeOf_le v c h
      have h2 := J.get?_sizeOf_lt _ _ v hv
      have h3 := J.get?_sizeOf_lt o _ _ hp
      omega
    · cases h
  · cases h

/-- `params if isinstance(params, dict) else None` -/
def dictParams (o : J) : Option J :=
  match o.get? "params" with
  | some (.obj pk) => some (.obj pk)
  | _ => none

/-- `ir.parse_guard`; total, by recursion on the size of the JSON value -/
def irGuard (j : J) : Option GuardIR :=
  match j with
  | .str s => some (.mk s [] none)
  | .obj kvs =>
    match (J.obj kvs).get? "type" with
    | some (.str ty) =>
      some (.mk ty ((nestedGuards (.obj kvs)).attach.filterMap (fun c => irGuard c.1)) (dictParams (.obj kvs)))
    | _ => none
  | _ => none
termination_by sizeOf j
decreasing_by exact nestedGuards_sizeOf_lt (J.obj kvs) c.1 c.2

mutual
/-- `emit.render_guard`, as the value the emitted literal denotes -/
def renderGuard : GuardIR → J
  | .mk ty kids _ =>
    match kids with
    | [] => .str ty
    | k :: ks => .obj [("type", .str ty), ("params", .obj [("guards", .arr (renderGuards (k :: ks)))])]
def renderGuards : List GuardIR → List J
  | [] => []
  | g :: gs => renderGuard g :: renderGuards gs
end

/-- JSON text of a `J` (for the driver) -/
partial def jtext : J → String
  | .null => "null"
  | .bool b => if b then "true" else "false"
  | .num n => toString n
  | .str s => "\"" ++ s.foldl (fun acc c =>
      if c = '"' then acc ++ "\\\"" else if c = '\\' then acc ++ "\\\\"
      else if c = '\n' then acc ++ "\\n" else if c = '\t' then acc ++ "\\t" else if c = '\r' then acc ++ "\\r"
      else if c.toNat < 32 then acc ++ "\\u00" ++ (String.singleton (Nat.digitChar (c.toNat / 16))) ++ (String.singleton (Nat.digitChar (c.toNat % 16)))
      else acc.push c) "" ++ "\""
  | .arr xs => "[" ++ ",".intercalate (xs.map jtext) ++ "]"
  | .obj kvs => "{" ++ ",".intercalate (kvs.map (fun kv => jtext (.str kv.1) ++ ":" ++ jtext kv.2)) ++ "}"

end XSM.Codegen
