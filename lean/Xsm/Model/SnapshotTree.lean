/-
Persisted actor TREES: the `actors` / `system` part of `get_persisted_snapshot` / `from_snapshot`
(base_interpreter.py), for hierarchies of any depth and width.

Parametric in the per-interpreter payload `σ` (status, context, configuration, history, output, error: what
`Xsm/Model/Snapshot.lean` models for ONE interpreter), so this file does not depend on the engine model.

* `Snap σ`  — a persisted snapshot: `own`, `actors` (the dict of records in insertion order: actor id, the
              record's `src`, the child's snapshot) and `system` (systemId -> actor id).
* `Live σ`  — an interpreter object with everything below it: `own`, `kids` (`_actors`: id, `_actor_sources.get(id)`,
              child), `parked` (`_pending_actor_snapshots`: records kept verbatim because their service was not
              registered when this interpreter was restored), `sys` (`_system`: systemId -> the id of the registered
              actor object) and `pend` (`_pending_system_ids`, repair F62: systemIds that name a parked actor or an
              actor inside a parked record).
* `snapTree`     = `get_persisted_snapshot` (`_persist_actors`: live records first, then `setdefault` of the parked
                   ones; `system` = `{**pending, **live}`).
* `restoreV v svc` = `from_snapshot` with `services` abstracted to `svc : String → Bool` ("the key resolves to a
                   machine": `_resolve_actor_machine`; a record without `src` never resolves — that is what happens to
                   a child started by machine-`invoke` on the async engine). A record that resolves is rebuilt
                   recursively and its `src` recorded (`if record.get("src")`: a non-empty string), one that does not is
                   parked. Then every `system` entry whose actor is found is registered; `v : Variant` says HOW it is
                   looked up and what happens to the others:
     `deep`     : in the whole restored tree (`_find_actor_by_id`, repair F60) / among the direct children only
                  (`interpreter._actors.get(actor_id)`, the code before F60);
     `keepPend` : an entry that names a parked actor (or an actor inside a parked record) is kept in `pend`
                  (repair F62) / dropped (the code before F62).
  `restoreTree` is the repaired code (`deep`, `keepPend`), `restoreAsIs` the code at /repo HEAD a8e5c14.
-/
namespace XSM.SnapTree

inductive Snap (σ : Type) where
  | mk (own : σ) (actors : List (String × Option String × Snap σ)) (system : List (String × String))

inductive Live (σ : Type) where
  | mk (own : σ) (kids : List (String × Option String × Live σ))
       (parked : List (String × Option String × Snap σ))
       (sys : List (String × String)) (pend : List (String × String))

abbrev SRec (σ : Type) := String × Option String × Snap σ
abbrev LKid (σ : Type) := String × Option String × Live σ

namespace Snap
variable {σ : Type}
def own : Snap σ → σ | mk o _ _ => o
def actors : Snap σ → List (SRec σ) | mk _ a _ => a
def system : Snap σ → List (String × String) | mk _ _ s => s
end Snap

namespace Live
variable {σ : Type}
def own : Live σ → σ | mk o _ _ _ _ => o
def kids : Live σ → List (LKid σ) | mk _ k _ _ _ => k
def parked : Live σ → List (SRec σ) | mk _ _ p _ _ => p
def sys : Live σ → List (String × String) | mk _ _ _ s _ => s
def pend : Live σ → List (String × String) | mk _ _ _ _ p => p
end Live

variable {σ : Type}

/-- `key in dict` for a dict kept as an association list -/
def hasKey {β : Type} (k : String) (l : List (String × β)) : Bool := l.any (fun e => e.1 == k)

/-- `actor_id == parked_id or actor_id.startswith(f"{parked_id}:")` -/
def under (pid aid : String) : Bool := aid == pid || (pid ++ ":").isPrefixOf aid

/-- `{**pend, **live}`: the keys of `pend` first (a live registration overrides the value), then the new live keys -/
def mergeSys (pend live : List (String × String)) : List (String × String) :=
  pend.map (fun e => (e.1, ((live.find? (fun x => x.1 == e.1)).map (·.2)).getD e.2))
    ++ live.filter (fun e => !hasKey e.1 pend)

-- snapshot --------------------------------------------------------------------------------------------
mutual
/-- `get_persisted_snapshot` -/
def snapTree : Live σ → Snap σ
  | .mk own kids parked sys pend =>
    .mk own (snapKids kids ++ parked.filter (fun r => !hasKey r.1 kids)) (mergeSys pend sys)
/-- the records of the live children (`_persist_actors`, first part) -/
def snapKids : List (LKid σ) → List (SRec σ)
  | [] => []
  | (id, src, c) :: rest => (id, src, snapTree c) :: snapKids rest
end

-- restore ---------------------------------------------------------------------------------------------
/-- `_resolve_actor_machine(record.get("src")) is not None` -/
def avail (svc : String → Bool) : Option String → Bool
  | none => false
  | some k => svc k

/-- `if record.get("src"): _actor_sources[actor_id] = record["src"]` -/
def recSrc : Option String → Option String
  | none => none
  | some k => if k = "" then none else some k

/-- the records that are parked: `_pending_actor_snapshots[actor_id] = record` -/
def parkedOf (svc : String → Bool) (recs : List (SRec σ)) : List (SRec σ) :=
  recs.filter (fun r => !avail svc r.2.1)

mutual
/-- is there a live actor with this id anywhere below (`_find_actor_by_id`) -/
def Live.has : Live σ → String → Bool
  | .mk _ kids _ _ _, aid => hasIn kids aid
def hasIn : List (LKid σ) → String → Bool
  | [], _ => false
  | (id, _, c) :: rest, aid => id == aid || c.has aid || hasIn rest aid
end

/-- is there a DIRECT child with this id (`_actors.get(actor_id)`: the lookup before repair F60) -/
def hasDirect (kids : List (LKid σ)) (aid : String) : Bool := hasKey aid kids

mutual
/-- `_is_parked`: the id names a record parked by this interpreter or by a live descendant, or an actor inside one -/
def Live.isParked : Live σ → String → Bool
  | .mk _ kids parked _ _, aid => parked.any (fun r => under r.1 aid) || parkedInKids kids aid
def parkedInKids : List (LKid σ) → String → Bool
  | [], _ => false
  | (_, _, c) :: rest, aid => c.isParked aid || parkedInKids rest aid
end

structure Variant where
  deep : Bool
  keepPend : Bool
deriving DecidableEq, Repr

def repaired : Variant := ⟨true, true⟩
def asIs : Variant := ⟨false, false⟩

def found (v : Variant) (kids : List (LKid σ)) (aid : String) : Bool :=
  if v.deep then hasIn kids aid else hasDirect kids aid

mutual
/-- `from_snapshot` -/
def restoreV (v : Variant) (svc : String → Bool) : Snap σ → Live σ
  | .mk own actors system =>
    .mk own (restoreKids v svc actors) (parkedOf svc actors)
      (system.filter (fun e => found v (restoreKids v svc actors) e.2))
      (if v.keepPend then
         system.filter (fun e => !found v (restoreKids v svc actors) e.2 &&
           ((parkedOf svc actors).any (fun r => under r.1 e.2) || parkedInKids (restoreKids v svc actors) e.2))
       else [])
def restoreKids (v : Variant) (svc : String → Bool) : List (SRec σ) → List (LKid σ)
  | [] => []
  | (id, src, s) :: rest =>
    if avail svc src then (id, recSrc src, restoreV v svc s) :: restoreKids v svc rest
    else restoreKids v svc rest
end

/-- `from_snapshot` with the repairs F60 and F62 -/
def restoreTree (svc : String → Bool) (s : Snap σ) : Live σ := restoreV repaired svc s
/-- `from_snapshot` at /repo HEAD (before F60 / F62) -/
def restoreAsIs (svc : String → Bool) (s : Snap σ) : Live σ := restoreV asIs svc s

/-- one save/restore cycle seen from the persisted side -/
def cycle (svc : String → Bool) (s : Snap σ) : Snap σ := snapTree (restoreTree svc s)

-- what a snapshot says about liveness (no reference to `restore`) ------------------------------------------
mutual
/-- the record of `aid` and the records of all its ancestors resolve: the actor comes back alive -/
def liveIn (svc : String → Bool) : List (SRec σ) → String → Bool
  | [], _ => false
  | (id, src, s) :: rest, aid =>
    (avail svc src && (id == aid || liveInSnap svc s aid)) || liveIn svc rest aid
def liveInSnap (svc : String → Bool) : Snap σ → String → Bool
  | .mk _ actors _, aid => liveIn svc actors aid
end

mutual
/-- `aid` is (inside) a record that does not resolve while all the records above it do: it is parked -/
def parkedIn (svc : String → Bool) : List (SRec σ) → String → Bool
  | [], _ => false
  | (id, src, s) :: rest, aid =>
    (if avail svc src then parkedInSnap svc s aid else under id aid) || parkedIn svc rest aid
def parkedInSnap (svc : String → Bool) : Snap σ → String → Bool
  | .mk _ actors _, aid => parkedIn svc actors aid
end

-- well-formedness ----------------------------------------------------------------------------------------
mutual
/-- a live hierarchy as `from_snapshot` leaves it and as a run keeps it: every child's service key is recorded and
    resolves, parked records do not resolve and do not collide with a child, every registered id is a live actor of the
    tree (C15's `RegLive`), every pending systemId names a parked actor and no live one, no systemId is both live and
    pending -/
def WFLive (svc : String → Bool) : Live σ → Prop
  | .mk _ kids parked sys pend =>
    WFKids svc kids ∧
    (∀ r ∈ parked, avail svc r.2.1 = false ∧ hasKey r.1 kids = false) ∧
    (∀ e ∈ sys, hasIn kids e.2 = true) ∧
    (∀ e ∈ pend, hasIn kids e.2 = false ∧ (parked.any (fun r => under r.1 e.2) || parkedInKids kids e.2) = true) ∧
    (∀ e ∈ sys, hasKey e.1 pend = false)
def WFKids (svc : String → Bool) : List (LKid σ) → Prop
  | [] => True
  | (_, src, c) :: rest => (∃ k, src = some k ∧ k ≠ "" ∧ svc k = true) ∧ WFLive svc c ∧ WFKids svc rest
end

mutual
/-- a decoded snapshot: the record ids of one `actors` object are pairwise different and so are the keys of one
    `system` object (JSON objects decode to dicts), no record has the empty string as `src`; at every level -/
def WFSnap : Snap σ → Prop
  | .mk _ actors system => WFRecs actors ∧ (actors.map (·.1)).Nodup ∧ (system.map (·.1)).Nodup
def WFRecs : List (SRec σ) → Prop
  | [] => True
  | (_, src, s) :: rest => src ≠ some "" ∧ WFSnap s ∧ WFRecs rest
end

mutual
/-- every record resolves, at every level (no documented exception applies) -/
def AllAvail (svc : String → Bool) : Snap σ → Prop
  | .mk _ actors _ => AllAvailRecs svc actors
def AllAvailRecs (svc : String → Bool) : List (SRec σ) → Prop
  | [] => True
  | (_, src, s) :: rest => avail svc src = true ∧ AllAvail svc s ∧ AllAvailRecs svc rest
end

mutual
/-- every `system` entry, at every level, names an actor of that level's subtree that comes back alive -/
def SysLive (svc : String → Bool) : Snap σ → Prop
  | .mk _ actors system => (∀ e ∈ system, liveIn svc actors e.2 = true) ∧ SysLiveRecs svc actors
def SysLiveRecs (svc : String → Bool) : List (SRec σ) → Prop
  | [] => True
  | (_, _, s) :: rest => SysLive svc s ∧ SysLiveRecs svc rest
end

end XSM.SnapTree
