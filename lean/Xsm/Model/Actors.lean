/-
  Actors — an abstract, executable model of the actor SYSTEM of xstate-statemachine at the message
  level (property C15).  An actor is not an embedded interpreter: it is the data the messaging and
  supervision code reads and writes.

  Modelled code (src/xstate_statemachine):
    base_interpreter.py  `_resolve_actor_target`, `_system_registry`, `_register_in_system`,
                         `_cancel_scheduled_send`, the `cancel` branch of `_collect_builtin_followups`
    interpreter.py       `_execute_builtin_action` (sendTo / sendParent / forwardTo / escalate / stopChild /
                         spawnChild), `_deliver`, `_stop_child_actor`, `_spawn_actor`, `stop`, `send`,
                         `_run_event_loop` (what a queue hand-over means), `_spawn_and_manage_actor`
    sync_interpreter.py  the same functions of the thread-based engine (`_deliver` with timer threads,
                         `_spawn_actor` with its watcher thread, `stop`, `send`)

  Abstractions: `uuid4()` is a counter; an interpreter OBJECT is a `uid` (its index in `Sys.actors`:
  two objects may carry the same id string); a machine's behaviour is reduced to "it records what it
  receives" (`received`); Python dicts are insertion-ordered association lists (`dinsert` replaces in
  place, as `d[k] = v` does); time is a natural number of milliseconds.

  The two engines differ where the code differs:
    sync   `send` processes at once (or queues when the recipient is inside its own macrostep);
           a non-blocking spawn starts the child on a watcher thread: with `eager = false` the child is
           still `uninit` while the spawning action list continues (a legal schedule of the real threads);
           the watcher later pops the child's ID from the parent's map.
    async  `send` puts the event into the recipient's queue; the recipient's run loop takes it over at
           the next point where the sending task really suspends (`drainAll`): the end of the macrostep,
           and the `await`s inside `stop()`.  A run loop woken for a queued event re-checks the status after
           `get()`: when it has meanwhile become `stopped` the event is discarded and the loop ends.

  The model follows the library WITH the repairs of F14 (every `stop()` drops the actor's systemIds), F50 (the
  status re-check just described), F51 (a spawn under an id in use first stops and unlinks the previous
  holder; a sync watcher pops only its own entry), F53 (the source-key fallback counts its matches) and F54
  (the bare-key match looks only at the id segments after the parent's own id).  F52 (sync engine: a
  non-blocking spawn returns before the child is started) is unchanged: `eager = false`.
-/
namespace XSM.Actors

inductive Flavor | sync | async
  deriving DecidableEq, Repr, Inhabited

inductive Status | uninit | running | stopped
  deriving DecidableEq, Repr, Inhabited

/-! ### insertion-ordered dictionaries -/

def dlookup (k : String) : List (String × α) → Option α
  | [] => none
  | kv :: r => if kv.1 = k then some kv.2 else dlookup k r

/-- `d[k] = v`: replaces in place, else appends -/
def dinsert (k : String) (v : α) : List (String × α) → List (String × α)
  | [] => [(k, v)]
  | kv :: r => if kv.1 = k then (k, v) :: r else kv :: dinsert k v r

/-- `d.pop(k, None)` -/
def derase (k : String) (l : List (String × α)) : List (String × α) :=
  l.filter (fun kv => kv.1 ≠ k)

def modifyAt (f : α → α) : Nat → List α → List α
  | _, [] => []
  | 0, a :: r => f a :: r
  | n + 1, a :: r => a :: modifyAt f n r

/-- Python `str.split(":")` -/
def splitColonL : List Char → List (List Char)
  | [] => [[]]
  | c :: cs =>
    match splitColonL cs with
    | [] => [[]]
    | seg :: rest => if c = ':' then [] :: seg :: rest else (c :: seg) :: rest

def segs (s : String) : List String := (splitColonL s.toList).map String.ofList

/-! ### state -/

structure Actor where
  id : String := ""
  key : String := ""                       -- the `services` key (machine kind) it runs
  parent : Option Nat := none
  status : Status := .uninit
  alive : Bool := false                    -- async: the run-loop task can still dequeue
  busy : Bool := false                     -- sync: `_is_processing`
  inbox : List String := []
  received : List String := []
  kids : List (String × Nat) := []         -- `_actors`
  sources : List (String × String) := []   -- `_actor_sources`
  sends : List (String × Nat) := []        -- `_scheduled_sends`: send id -> timer
  inInv : Bool := false                    -- the machine is in its invoking state
  deriving Repr, Inhabited, DecidableEq

structure Timer where
  owner : Nat
  target : Nat
  ev : String
  due : Nat
  live : Bool
  deriving Repr, Inhabited, DecidableEq

/-- background watcher: the thread of a non-blocking sync spawn, or the managing task of an async invoke -/
structure Watch where
  parent : Nat
  cid : String
  child : Nat
  invoke : Bool
  live : Bool
  deriving Repr, Inhabited, DecidableEq

structure Sys where
  flavor : Flavor := .sync
  eager : Bool := true
  invoke : List (String × String) := []     -- machine kind -> `src` of its `invoke`
  actors : List Actor := []
  registry : List (String × Nat) := []      -- the root's `_system`
  timers : List Timer := []
  watches : List Watch := []
  fresh : Nat := 0
  now : Nat := 0
  warns : List String := []
  oos : Bool := false                        -- the run left the modelled fragment (self/ancestor stop)
  deriving Repr, Inhabited

namespace Sys

def get (s : Sys) (u : Nat) : Actor := (s.actors[u]?).getD default

def upd (s : Sys) (u : Nat) (f : Actor → Actor) : Sys := { s with actors := modifyAt f u s.actors }

def warn (s : Sys) (w : String) : Sys := { s with warns := s.warns ++ [w] }

def n (s : Sys) : Nat := s.actors.length

end Sys

/-- an actor whose `stop()` has completed: status `stopped` and (async engine) no run loop left -/
def Dead (s : Sys) (u : Nat) : Prop :=
  (s.get u).status = .stopped ∧ (s.flavor = .async → (s.get u).alive = false)

/-! ### delivery -/

/-- `actor.send(event)` as called by `_deliver` / a fired timer / the harness -/
def deliverNow (s : Sys) (t : Nat) (ev : String) : Sys :=
  match s.flavor with
  | .sync =>
    if (s.get t).status = .running then
      if (s.get t).busy then s.upd t (fun a => { a with inbox := a.inbox ++ [ev] })
      else s.upd t (fun a => { a with received := a.received ++ [ev] })
    else s.warn "notrunning"
  | .async =>
    if (s.get t).status = .stopped then s.warn "notrunning"
    else s.upd t (fun a => { a with inbox := a.inbox ++ [ev] })

def mapIdxFrom (f : Nat → α → α) : Nat → List α → List α
  | _, [] => []
  | i, a :: r => f i a :: mapIdxFrom f (i + 1) r

/-- async: what the run loop of actor `u` does when the current task really suspends: a running actor
    takes over everything queued; an actor whose status is no longer `running` but whose loop was woken
    for a queued event takes that event off the queue, DISCARDS it and leaves the loop (the status
    re-check after `get()`); nothing is ever processed by an actor that is not running -/
def drainActor (busy : Option Nat) (u : Nat) (a : Actor) : Actor :=
  if busy = some u ∨ a.alive = false then a
  else if a.status = .running then { a with received := a.received ++ a.inbox, inbox := [] }
  else
    match a.inbox with
    | [] => a
    | _ :: r => { a with inbox := r, alive := false }

def drainAll (busy : Option Nat) (s : Sys) : Sys :=
  { s with actors := mapIdxFrom (drainActor busy) 0 s.actors }

/-! ### target resolution (`_resolve_actor_target`) -/

inductive Res | found (u : Nat) | ambiguous | none
  deriving DecidableEq, Repr

/-- the segments of the child id `cid` that come AFTER the id `pid` of the parent holding it
    (`actor_id[len(own_prefix):].split(":")`); an id that does not start with `pid:` (never produced by a
    spawn) falls back to "every segment after the first" -/
def ownSegsL (pid cid : List Char) : List (List Char) :=
  if (pid ++ [':']).isPrefixOf cid then splitColonL (cid.drop (pid.length + 1)) else (splitColonL cid).drop 1

def ownSegs (pid cid : String) : List String := (ownSegsL pid.toList cid.toList).map String.ofList

/-- children (of the actor whose id is `pid`) whose id has `spec` among its own segments -/
def segMatches (pid : String) (kids : List (String × Nat)) (spec : String) : List Nat :=
  (kids.filter (fun kv => (ownSegs pid kv.1).contains spec)).map (·.2)

/-- every child still in the children map whose recorded source key is `spec` -/
def sourceMatches (a : Actor) (spec : String) : List Nat :=
  (a.sources.filter (fun kv => kv.2 = spec)).filterMap (fun kv => dlookup kv.1 a.kids)

def parentMatch (a : Actor) (spec : String) : Res :=
  if spec = "parent" ∨ spec = "#parent" then
    match a.parent with
    | some q => .found q
    | none => .none
  else .none

def resolve (s : Sys) (p : Nat) (spec : String) : Res :=
  match dlookup spec s.registry with
  | some u => .found u
  | none =>
    match dlookup spec (s.get p).kids with
    | some u => .found u
    | none =>
      match segMatches (s.get p).id (s.get p).kids spec with
      | [u] => .found u
      | _ :: _ :: _ => .ambiguous
      | [] =>
        match sourceMatches (s.get p) spec with
        | [u] => .found u
        | _ :: _ :: _ => .ambiguous
        | [] => parentMatch (s.get p) spec

/-! ### stop -/

def killTimer (s : Sys) (i : Nat) : Sys :=
  { s with timers := modifyAt (fun t => { t with live := false }) i s.timers }

/-- every pending delayed send of `x` is cancelled (`task_manager.cancel_all` / the cancel flags) and,
    in the async engine, the managing tasks of its invoked machines -/
def killTasks (s : Sys) (x : Nat) : Sys :=
  { s with timers := s.timers.map (fun t => if t.owner = x then { t with live := false } else t),
           watches := s.watches.map (fun w => if w.parent = x ∧ w.invoke then { w with live := false } else w) }

def hasLiveTasks (s : Sys) (x : Nat) : Bool :=
  s.timers.any (fun t => t.owner = x && t.live) || s.watches.any (fun w => w.parent = x && w.invoke && w.live)

/-- async `stop()`: `await self.task_manager.cancel_all()` really suspends only if there are live tasks -/
def stopTasks (busy : Option Nat) (s : Sys) (x : Nat) : Sys :=
  if hasLiveTasks s x then drainAll busy (killTasks s x) else s

/-- async `stop()`: cancel the run loop and wait for it (everybody else's loop runs meanwhile) -/
def stopLoop (busy : Option Nat) (s : Sys) (x : Nat) : Sys :=
  if (s.get x).alive then drainAll busy (s.upd x (fun a => { a with alive := false })) else s

/-- what `stop()` does after the children have been stopped and the map cleared -/
def stopTail (busy : Option Nat) (s : Sys) (x : Nat) : Sys :=
  match s.flavor with
  | .sync => killTasks (s.upd x (fun a => { a with sends := [] })) x
  | .async => stopLoop busy (stopTasks busy s x) x

def markStopped (s : Sys) (x : Nat) : Sys := s.upd x (fun a => { a with status := .stopped })

/-- every systemId of `x` is dropped from the registry (`_unregister_from_system`) -/
def unregister (s : Sys) (x : Nat) : Sys := { s with registry := s.registry.filter (fun kv => kv.2 ≠ x) }

def clearKids (s : Sys) (x : Nat) : Sys := s.upd x (fun a => { a with kids := [] })

/-- `stop()` of actor `x`: `status = "stopped"`, its systemIds leave the registry, then the children are
    stopped, the map is cleared, tasks and run loop end; the fuel is a bound on the depth of the tree
    (`Sys.n` always suffices) -/
def stopA (busy : Option Nat) : Nat → Sys → Nat → Sys
  | 0, s, _ => s
  | fuel + 1, s, x =>
    if (s.get x).status = .running then
      stopTail busy (clearKids ((s.get x).kids.foldl (fun acc kv => stopA busy fuel acc kv.2)
        (unregister (markStopped s x) x)) x) x
    else s

def stop (busy : Option Nat) (s : Sys) (x : Nat) : Sys := stopA busy s.actors.length s x

/-- is `x` the actor `p` itself or one of its ancestors? (fuel = number of actors) -/
def isAncestorOrSelf (s : Sys) (x : Nat) : Nat → Nat → Bool
  | 0, p => x = p
  | f + 1, p => x = p || (match (s.get p).parent with | some q => isAncestorOrSelf s x f q | none => false)

/-- `del self._actors[actor_id]; self._actor_sources.pop(actor_id)` for the first entry holding `x` -/
def unlinkChild (s : Sys) (p x : Nat) : Sys :=
  match (s.get p).kids.find? (fun kv => kv.2 = x) with
  | some kv => s.upd p (fun a => { a with kids := derase kv.1 a.kids, sources := derase kv.1 a.sources })
  | none => s

def markOos (s : Sys) (b : Bool) : Sys := if b then { s with oos := true } else s

/-- `_stop_child_actor` once the target has resolved to `x` (it unregisters `x` itself, also when `x` is
    not running and its `stop()` is a no-op) -/
def stopChildTo (busy : Option Nat) (s : Sys) (p x : Nat) : Sys :=
  stop busy (markOos (unregister (unlinkChild s p x) x) (isAncestorOrSelf s x s.actors.length p)) x

/-! ### spawn -/

def mkId (pid key : String) (eid : Option String) (fresh : Nat) : String :=
  match eid with
  | some e => pid ++ ":" ++ e
  | none => pid ++ ":" ++ key ++ ":u" ++ toString (fresh + 1)

/-- `_register_in_system` -/
def register (s : Sys) (sid : Option String) (u : Nat) : Sys :=
  match sid with
  | none => s
  | some x =>
    match dlookup x s.registry with
    | some v =>
      if v = u then { s with registry := dinsert x u s.registry }
      else { s with registry := dinsert x u s.registry, warns := s.warns ++ ["sysid-replaced"] }
    | none => { s with registry := dinsert x u s.registry }

def startedAtSpawn (s : Sys) (blocking : Bool) : Bool :=
  match s.flavor with
  | .async => true
  | .sync => blocking || s.eager

def newActor (s : Sys) (p : Nat) (cid key : String) (started : Bool) : Actor :=
  { id := cid, key := key, parent := some p,
    status := if started then .running else .uninit,
    alive := (match s.flavor with | .async => true | .sync => false) }

def addActor (s : Sys) (c : Actor) (fr : Nat) : Sys := { s with actors := s.actors ++ [c], fresh := fr }

/-- `self._actors[id] = child; self._actor_sources[id] = key` -/
def linkChild (s : Sys) (p : Nat) (cid key : String) (u : Nat) : Sys :=
  s.upd p (fun a => { a with kids := dinsert cid u a.kids, sources := dinsert cid key a.sources })

def addWatch (s : Sys) (w : Watch) : Sys := { s with watches := s.watches ++ [w] }

def freshAfter (s : Sys) (eid : Option String) : Nat :=
  match eid with
  | some _ => s.fresh
  | none => s.fresh + 1

def popKid (s : Sys) (p : Nat) (cid : String) : Sys := s.upd p (fun a => { a with kids := derase cid a.kids })

/-- an id that is still in use: `previous = self._actors.pop(actor_id); previous.stop()` -/
def evict (busy : Option Nat) (s : Sys) (p : Nat) (cid : String) : Sys :=
  match dlookup cid (s.get p).kids with
  | some old => stop busy (popKid s p cid) old
  | none => s

/-- everything `_spawn_actor` does once the id is free, except the watcher thread of a non-blocking sync spawn -/
def spawnCore (s : Sys) (p : Nat) (key : String) (eid sid : Option String) (blocking : Bool) : Sys :=
  linkChild
    (register
      (addActor s (newActor s p (mkId (s.get p).id key eid s.fresh) key (startedAtSpawn s blocking)) (freshAfter s eid))
      sid s.actors.length)
    p (mkId (s.get p).id key eid s.fresh) key s.actors.length

/-- `_spawn_actor` on a free id -/
def spawnFresh (s : Sys) (p : Nat) (key : String) (eid sid : Option String) (blocking : Bool) : Sys :=
  match s.flavor, blocking with
  | .sync, false =>
    addWatch (spawnCore s p key eid sid blocking)
      { parent := p, cid := mkId (s.get p).id key eid s.fresh, child := s.actors.length, invoke := false, live := true }
  | _, _ => spawnCore s p key eid sid blocking

/-- `_spawn_actor` (the action `spawn_<key>` / `spawn_blocking_<key>` and what `spawnChild` builds): the
    previous holder of the id, if any, is stopped and unlinked first -/
def spawn (busy : Option Nat) (s : Sys) (p : Nat) (key : String) (eid sid : Option String) (blocking : Bool) : Sys :=
  spawnFresh (evict busy s p (mkId (s.get p).id key eid s.fresh)) p key eid sid blocking

/-- async `_spawn_and_manage_actor`: auto id, children map only (no source key, no systemId) -/
def spawnInvokeAsync (s : Sys) (p : Nat) (key : String) : Sys :=
  addWatch
    ((addActor s (newActor s p (mkId (s.get p).id key none s.fresh) key true) (s.fresh + 1)).upd p
      (fun a => { a with kids := dinsert (mkId (s.get p).id key none s.fresh) s.actors.length a.kids }))
    { parent := p, cid := mkId (s.get p).id key none s.fresh, child := s.actors.length, invoke := true, live := true }

/-! ### delayed sends -/

def addTimer (s : Sys) (t : Timer) : Sys := { s with timers := s.timers ++ [t] }

def setSend (s : Sys) (p : Nat) (k : String) (i : Nat) : Sys :=
  s.upd p (fun a => { a with sends := dinsert k i a.sends })

/-- a delayed send with an id: a pending send under the same id is superseded -/
def schedule (s : Sys) (p : Nat) (k : String) (i : Nat) : Sys :=
  match dlookup k (s.get p).sends with
  | some j => setSend (killTimer s j) p k i
  | none => setSend s p k i

def deliver (s : Sys) (p t : Nat) (ev : String) (delay : Nat) (sid : Option String) : Sys :=
  if delay = 0 then deliverNow s t ev
  else
    match sid with
    | none => addTimer s { owner := p, target := t, ev := ev, due := s.now + delay, live := true }
    | some k => schedule (addTimer s { owner := p, target := t, ev := ev, due := s.now + delay, live := true }) p k s.timers.length

/-- the `cancel` built-in -/
def cancelSend (s : Sys) (p : Nat) (k : String) : Sys :=
  match dlookup k (s.get p).sends with
  | some j => killTimer (s.upd p (fun a => { a with sends := derase k a.sends })) j
  | none => s

/-! ### actions -/

inductive Action
  | spawn (key : String) (eid sid : Option String) (blocking : Bool)
  | sendTo (target ev : String) (delay : Nat) (sid : Option String)
  | sendParent (ev : String) (delay : Nat) (sid : Option String)
  | forwardTo (target : String)
  | escalate
  | cancel (sid : String)
  | stopChild (target : String)
  deriving Repr, Inhabited, DecidableEq

/-- one action of actor `p` while it handles the event `cur` -/
def runAction (busy : Option Nat) (cur : String) (p : Nat) (s : Sys) : Action → Sys
  | .spawn key eid sid blocking => spawn busy s p key eid sid blocking
  | .sendTo target ev delay sid =>
    match resolve s p target with
    | .found t => deliver s p t ev delay sid
    | .ambiguous => (s.warn "ambiguous").warn "unresolved"
    | .none => s.warn "unresolved"
  | .sendParent ev delay sid =>
    match (s.get p).parent with
    | some q => deliver s p q ev delay sid
    | none => s.warn "noparent"
  | .forwardTo target =>
    match resolve s p target with
    | .found t => deliverNow s t cur
    | .ambiguous => (s.warn "ambiguous").warn "unresolved"
    | .none => s.warn "unresolved"
  | .escalate =>
    match (s.get p).parent with
    | some q => deliverNow s q ("ESC<" ++ (s.get p).id ++ ">")
    | none => s.warn "noparent"
  | .cancel sid => cancelSend s p sid
  | .stopChild target =>
    match resolve s p target with
    | .found x => stopChildTo busy s p x
    | .ambiguous => (s.warn "ambiguous").warn "unresolved"
    | .none => s.warn "unresolved"

def runActions (busy : Option Nat) (cur : String) (p : Nat) (s : Sys) (acts : List Action) : Sys :=
  acts.foldl (runAction busy cur p) s

/-! ### observation points -/

/-- the end of a harness operation: every pending thread start / queue hand-over has happened -/
def settle (s : Sys) : Sys :=
  match s.flavor with
  | .sync => { s with actors := s.actors.map (fun a => if a.status = .uninit then { a with status := .running } else a) }
  | .async => drainAll none s

/-- preorder walk of the children maps from `u` (fuel = number of actors) -/
def dfs (s : Sys) : Nat → Nat → Nat → List (Nat × Nat)
  | 0, _, _ => []
  | f + 1, d, u => (d, u) :: (s.get u).kids.flatMap (fun kv => dfs s f (d + 1) kv.2)

def tree (s : Sys) : List (Nat × Nat) := dfs s (s.actors.length + 1) 0 0

def findActor (s : Sys) (aid : String) : Option Nat :=
  ((tree s).find? (fun du => (s.get du.2).id = aid)).map (·.2)

/-- the sync macrostep ends: `_is_processing` is reset and self-addressed events are processed -/
def syncFinish (s : Sys) (p : Nat) : Sys :=
  s.upd p (fun a =>
    if a.status = .running then { a with busy := false, received := a.received ++ a.inbox, inbox := [] }
    else { a with busy := false, inbox := [] })

def beginSync (s : Sys) (p : Nat) (name : String) : Sys :=
  s.upd p (fun a => { a with received := a.received ++ [name], busy := true })

def beginAsync (s : Sys) (p : Nat) (name : String) : Sys :=
  s.upd p (fun a => { a with received := a.received ++ [name] })

/-- the harness sends the event `name` to the actor `p`, whose machine reacts with `body` -/
def handle (s : Sys) (p : Nat) (name : String) (body : Option Nat → Sys → Sys) : Sys :=
  match s.flavor with
  | .sync =>
    if (s.get p).status = .running then settle (syncFinish (body none (beginSync s p name)) p)
    else s.warn "notrunning"
  | .async =>
    if (s.get p).status = .stopped then s.warn "notrunning"
    else settle (body (some p) (beginAsync s p name))

def cmdOp (s : Sys) (p : Nat) (name : String) (acts : List Action) : Sys :=
  handle s p name (fun busy s1 => runActions busy name p s1 acts)

def setInv (s : Sys) (p : Nat) (b : Bool) : Sys := s.upd p (fun a => { a with inInv := b })

/-- entering the invoking state: `_invoke_service` with a machine as `src` -/
def invokeBody (p : Nat) (s1 : Sys) : Sys :=
  if (s1.get p).inInv then s1
  else
    match dlookup (s1.get p).key s1.invoke with
    | none => setInv s1 p true
    | some src =>
      match s1.flavor with
      | .sync => spawn none (setInv s1 p true) p src (some "iv") none false
      | .async => spawnInvokeAsync (setInv s1 p true) p src

def goInv (s : Sys) (p : Nat) : Sys := handle s p "GOINV" (fun _ s1 => invokeBody p s1)

def killWatch (s : Sys) (i : Nat) : Sys :=
  { s with watches := modifyAt (fun w => { w with live := false }) i s.watches }

/-- async: leaving the invoking state cancels the managing task, which stops the child and pops it -/
def leaveWatch (busy : Option Nat) (p : Nat) (s : Sys) (iw : Nat × Watch) : Sys :=
  if iw.2.parent = p ∧ iw.2.invoke ∧ iw.2.live then
    popKid (stop busy (drainAll busy (killWatch s iw.1)) iw.2.child) p iw.2.cid
  else s

def leaveBody (busy : Option Nat) (p : Nat) (s1 : Sys) : Sys :=
  if (s1.get p).inInv then
    match s1.flavor with
    | .sync => setInv s1 p false
    | .async => ((List.range s1.watches.length).zip s1.watches).foldl (leaveWatch busy p) (setInv s1 p false)
  else s1

def leaveInv (s : Sys) (p : Nat) : Sys := handle s p "LEAVE" (fun busy s1 => leaveBody busy p s1)

/-! ### time -/

def timerAt (s : Sys) (i : Nat) : Timer := s.timers[i]?.getD default

def insertDue (s : Sys) (i : Nat) : List Nat → List Nat
  | [] => [i]
  | j :: r => if (timerAt s i).due < (timerAt s j).due then i :: j :: r else j :: insertDue s i r

/-- live timers due by `t`, in firing order (due time, then creation order) -/
def dueLive (s : Sys) (t : Nat) : List Nat :=
  ((List.range s.timers.length).filter (fun i => (timerAt s i).live && (timerAt s i).due ≤ t)).foldr (insertDue s) []

/-- the id registration of a send is dropped when it fires (if it still points at this send) -/
def dropSend (s : Sys) (p i : Nat) : Sys := s.upd p (fun a => { a with sends := a.sends.filter (fun kv => kv.2 ≠ i) })

def fireTimer (s : Sys) (i : Nat) : Sys :=
  settle (deliverNow (dropSend (killTimer s i) (timerAt s i).owner i) (timerAt s i).target (timerAt s i).ev)

def notifyDone (s : Sys) (w : Watch) : Sys := if w.invoke then deliverNow s w.parent "done.invoke.iv" else s

/-- sync watcher thread: `if self._actors.get(actor_id) is child: self._actors.pop(actor_id)` (the id may
    meanwhile name a newer actor); the async managing task of an invoke (auto id) pops by id -/
def popOwnKid (s : Sys) (w : Watch) : Sys :=
  if w.invoke = true ∨ dlookup w.cid (s.get w.parent).kids = some w.child then popKid s w.parent w.cid else s

/-- a watcher notices that its child no longer runs -/
def runWatch (s : Sys) (iw : Nat × Watch) : Sys :=
  if iw.2.live ∧ (s.get iw.2.child).status ≠ .running then
    popOwnKid (notifyDone (killWatch s iw.1) iw.2) iw.2
  else s

def runWatches (s : Sys) : Sys := ((List.range s.watches.length).zip s.watches).foldl runWatch s

def tick (s : Sys) (dt : Nat) : Sys := { s with now := s.now + dt }

def fireDue (s : Sys) (dt : Nat) : Sys := (dueLive s (s.now + dt)).foldl fireTimer s

def advance (s : Sys) (dt : Nat) : Sys := settle (tick (fireDue (settle (runWatches s)) dt) dt)

/-! ### harness operations -/

inductive Op
  | cmd (aid name : String)
  | adv (dt : Nat)
  | stop (aid : String)
  deriving Repr, Inhabited

def clearWarns (s : Sys) : Sys := { s with warns := [] }

def stepOn (cmds : List (String × List Action)) (s : Sys) : Op → Sys
  | .cmd aid name =>
    match findActor s aid with
    | none => s
    | some p =>
      if name = "GOINV" then goInv s p
      else if name = "LEAVE" then leaveInv s p
      else cmdOp s p name ((dlookup name cmds).getD [])
  | .adv dt => advance s dt
  | .stop aid =>
    match findActor s aid with
    | none => s
    | some x => settle (stop none s x)

def step (cmds : List (String × List Action)) (s0 : Sys) (op : Op) : Sys := stepOn cmds (clearWarns s0) op

/-! ### the hypotheses of the supervision theorems, as a check the driver evaluates at every observation -/

def runningB (a : Actor) : Bool := a.status = .running

def deadB (s : Sys) (a : Actor) : Bool :=
  a.status = .stopped && (match s.flavor with | .async => !a.alive | .sync => true)

/-- children are later, existing actors; every actor is running or completely stopped; a completely
    stopped actor has an empty children map (`WF`, `Settled`, `Tidy` of `Xsm/Proofs/ActorsStop.lean`) -/
def invB (s : Sys) : Bool :=
  (List.range s.actors.length).all (fun u =>
    (s.get u).kids.all (fun kv => u < kv.2 && kv.2 < s.actors.length) &&
    (runningB (s.get u) || deadB s (s.get u)) &&
    (!deadB s (s.get u) || (s.get u).kids.isEmpty))

/-- the started root interpreter -/
def init (fl : Flavor) (eager : Bool) (invoke : List (String × String)) : Sys :=
  { flavor := fl, eager := eager, invoke := invoke,
    actors := [{ id := "r", key := "r", status := .running, alive := (match fl with | .async => true | .sync => false) }] }

def run (cmds : List (String × List Action)) (s : Sys) (ops : List Op) : Sys := ops.foldl (step cmds) s

end XSM.Actors
