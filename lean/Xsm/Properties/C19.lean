import Xsm.Proofs.Pythonic
import Xsm.Proofs.PyTarget
import Xsm.Model.Engine
/-!
# C19 — Python-defined machines and discovered logic equal their JSON counterparts

"A machine defined through the class-based, builder or functional Python API is the same machine —
same structure and the same behaviour for all event sequences — as create_machine() applied to the
config that definition denotes, and repeated builds from one definition are independent of one
another. Logic auto-discovery (logic_modules / logic_providers / MachineLogic subclass methods) binds
every action, guard and service name the config references, under either snake_case or camelCase
spelling and excluding built-ins, spawn_ directives and composite guards, or fails at creation with
ImplementationMissingError; an implementation the user supplies always takes precedence over a
built-in of the same name."

Statements about the executable model `Xsm/Model/Pythonic.lean` (helper lemmas in
`Xsm/Proofs/Pythonic.lean`) and, for the last clause, `actStep` of `Xsm/Model/Engine.lean`.

## What is PROVED here (for all inputs, no bounds)

1. `snakeToCamel` (= both copies of `_snake_to_camel`, ASCII): underscore-free names are fixed points,
   the result never contains an underscore, the function is idempotent, exactly the underscores
   disappear (`snakeToCamel_length`), the part before the first underscore is copied. It is NOT
   injective and NOT "camelCase as a person would write it" (`decide`d examples: `a__b`/`a_b`,
   `_foo` ↦ `Foo`, `foo_` ↦ `foo`, `get_userID` ↦ `getUserid`, `x_2nd` ↦ `x2Nd`,
   `fetch_user2data` ↦ `fetchUser2Data`).
2. `snake_camel_lookup`: the loader's `logic_map` binds a referenced name `n` iff some PUBLIC callable is
   called `n` or has camelCase form `n`; what it binds is such a callable; a later callable wins.
3. `discover_binds_all_or_raises`: on the name sets the loader extracts, discovery either returns
   bindings for EVERY demanded action / guard / service or raises, and it raises exactly when some
   demanded name has no implementation. `referenced_*_demanded`: every action / guard-leaf / service
   referenced anywhere in the parsed machine is demanded, with the exceptions the theorems name.
4. `excludes_builtins_spawn_composites`: no demanded action is a key of the regenerated
   `Tables.builtinAliases`; no demanded guard name comes from anywhere but a `named` leaf (the operators
   `and`/`or`/`not` in object form and `stateIn` are never demanded; a BARE STRING `"and"` is a user
   predicate by design and is demanded); no demanded action is a `spawn_*` directive (`excludes_spawn`):
   in entry/exit/transition action lists AND in an invocation's onDone/onError lists the directive is
   routed to the services (`referenced_service_demanded`, `spawn_in_invoke_routed`; the second routing
   is the repair of finding F19e — before it the directive was demanded as an action there).
5. `user_action_before_builtin`: in both engines' action executor a user implementation registered
   under a built-in's name runs and the built-in does not. But (finding F19d, `discover_never_binds_builtin`)
   auto-discovery never registers such an implementation, because built-in names are not demanded.
6. `arity_table`: a `MachineLogic` subclass method lands in guards / services / actions by arity 2 / 3 / 4,
   private names and other arities nowhere, explicit entries are kept.
7. `object_target_reaches_object`: a bare state name borne by exactly one state resolves to that state
   from every source (so compiling a target OBJECT to its name loses nothing when names are unique).
8. `compile_eq_denote`: for a Python definition whose State objects have pairwise different bare names
   and whose `Transition`s are declared on State objects of the definition, `_compile_config` produces
   EXACTLY the config in which every transition is attached to the State object it was declared on
   (hence the same parsed machine: `parse_compile_eq_denote`). With two states of the same name it does
   not (`compile_ne_denote_same_name`, finding F17). `buildStates_*`: `MachineBuilder.build` touches
   only the state a transition names. `state_on_entry_overwritten` / `builder_keeps_both`: the two
   compilers follow DIFFERENT merge rules when a state declares one event both in `on={...}` and through
   a transition (finding F19b: the repository's tests pin "replace" for `_compile_config`; the builder
   appends).

## What is only VALIDATED (harness/xsmverif/c19*.py, against the real code)

* that the model IS the code: `_snake_to_camel` (exhaustive small alphabet + random), `logic_map`
  lookup, the demanded name sets, subclass registration, and the config dict each Python style hands to
  `create_machine` (byte-for-byte, key order included) are compared with the driver `driver_py`;
* the step from "same config" to "same machine": deep structural fingerprints (ids, kinds, initial,
  history, RESOLVED targets, guards, actions+params, delays, invokes, tags, meta, context) and
  SyncInterpreter traces of the four machines (JSON denotation, class-based, functional, builder);
* that a transition TARGET given as a State object reaches that object in the RUNNING engines: `denote`
  here writes the target's bare name exactly as the code does; `object_target_reaches_object` PROVES,
  about the model of the interpreters' target resolution (`Xsm/Model/Resolve.lean`, tied to the code by
  the C01/C02 correspondence), that a bare name borne by exactly one state resolves to that state from
  every source; the harness' JSON denotation writes the absolute id and compares resolved targets on
  the real code (equal whenever names are unique; part of F17 otherwise);
* independence of repeated builds (definitional in the model — the compilers are functions — and
  false of the code below the top level: finding F19c);
* the metaclass / decorators / `MachineBuilder.state()` keyword handling, which the model takes as
  already collected (`PyDef`, `BDef`) — tied through the captured configs.

## What the model cannot exhibit

Non-ASCII identifiers (Python's `str.title()` is Unicode-aware; `Char.toUpper` is ASCII); `after`
keys that are Python ints (JSON keys are strings; the parser converts both the same way); a State
object listed under two parents; `stateIn` guards carrying `children`; callables as context.
-/
namespace XSM.C19
open XSM XSM.Py XSM.Py.Ex

/-! ## 1. `_snake_to_camel` -/

/-- an already-camelCase (underscore-free) name is left alone -/
theorem snakeToCamel_of_no_underscore (s : List Char) (h : '_' ∉ s) : snakeToCamel s = s :=
  Py.snakeToCamel_of_no_underscore s h

theorem snakeToCamel_no_underscore (s : List Char) : '_' ∉ snakeToCamel s :=
  Py.snakeToCamel_no_underscore s

theorem snakeToCamel_idem (s : List Char) : snakeToCamel (snakeToCamel s) = snakeToCamel s :=
  Py.snakeToCamel_idem s

/-- exactly the underscores disappear (so leading, trailing and doubled underscores leave no trace) -/
theorem snakeToCamel_length (s : List Char) : (snakeToCamel s).length + s.count '_' = s.length :=
  Py.snakeToCamel_length s

/-- the text before the first underscore is copied unchanged (no capitalisation of the first word) -/
theorem snakeToCamel_prefix (h t : List Char) (hh : '_' ∉ h) :
    snakeToCamel (h ++ '_' :: t) = h ++ snakeToCamel ('_' :: t) :=
  Py.snakeToCamel_prefix h t hh

theorem snakeToCamelS_idem (s : String) : snakeToCamelS (snakeToCamelS s) = snakeToCamelS s := by
  unfold snakeToCamelS
  rw [String.toList_ofList, Py.snakeToCamel_idem]

theorem snakeToCamelS_of_no_underscore (s : String) (h : '_' ∉ s.toList) : snakeToCamelS s = s := by
  unfold snakeToCamelS
  rw [Py.snakeToCamel_of_no_underscore _ h, String.ofList_toList]

/-- the intended use -/
theorem snakeToCamel_examples :
    snakeToCamelS "my_action_name" = "myActionName" ∧ snakeToCamelS "is_valid_email" = "isValidEmail"
    ∧ snakeToCamelS "a_b_c" = "aBC" := by decide

/-- NOT injective: different Python names share one key of `logic_map` (the later write wins) -/
theorem snakeToCamel_not_injective :
    snakeToCamelS "a__b" = snakeToCamelS "a_b" ∧ snakeToCamelS "do_it" = snakeToCamelS "doIt"
    ∧ snakeToCamelS "foo_" = snakeToCamelS "foo" ∧ snakeToCamelS "_foo" = snakeToCamelS "Foo" := by decide

/-- `str.title()` semantics: a leading underscore capitalises, inner capitals are LOWERED, a letter after a
    digit is capitalised -/
theorem snakeToCamel_title_quirks :
    snakeToCamelS "_foo" = "Foo" ∧ snakeToCamelS "get_userID" = "getUserid" ∧ snakeToCamelS "is_HTTP_ok" = "isHttpOk"
    ∧ snakeToCamelS "x_2nd" = "x2Nd" ∧ snakeToCamelS "fetch_user2data" = "fetchUser2Data"
    ∧ snakeToCamelS "my_actionName" = "myActionname" := by decide

/-! ## 2. the lookup rule of the loader -/

/-- *A referenced name `n` is bound iff a public callable named `n`, or whose camelCase form is `n`, exists.* -/
theorem snake_camel_lookup (scan : List String) (n : String) :
    (lookupImpl scan n).isSome = true ↔ ∃ c ∈ scan, isPublic c = true ∧ (c = n ∨ snakeToCamelS c = n) := by
  constructor
  · intro h
    obtain ⟨c, hc⟩ := Option.isSome_iff_exists.mp h
    exact ⟨c, (lookupImpl_sound hc).1, (lookupImpl_sound hc).2⟩
  · rintro ⟨c, hc, hp, h⟩
    exact lookupImpl_complete hc hp h

/-- what is bound is such a callable -/
theorem lookup_sound (scan : List String) (n c : String) (h : lookupImpl scan n = some c) :
    c ∈ scan ∧ isPublic c = true ∧ (c = n ∨ snakeToCamelS c = n) := lookupImpl_sound h

/-- both spellings of a public callable are bound -/
theorem lookup_both_spellings (scan : List String) (c : String) (hc : c ∈ scan) (hp : isPublic c = true) :
    (lookupImpl scan c).isSome = true ∧ (lookupImpl scan (snakeToCamelS c)).isSome = true :=
  ⟨lookupImpl_complete hc hp (Or.inl rfl), lookupImpl_complete hc hp (Or.inr rfl)⟩

/-- a private callable binds nothing -/
theorem lookup_private (scan : List String) (n c : String) (h : lookupImpl scan n = some c) : isPublic c = true :=
  (lookupImpl_sound h).2.1

/-- the callable scanned last wins (providers after modules, a later module after an earlier one) -/
theorem lookup_last_wins (scan : List String) (n c : String) (hp : isPublic c = true)
    (h : c = n ∨ snakeToCamelS c = n) : lookupImpl (scan ++ [c]) n = some c := lookupImpl_last hp h

/-- only snake → camel: a camelCase callable does not bind a snake_case reference; and the exact spelling has
    no priority over a converted one scanned later (`inspect.getmembers` order: `doIt` before `do_it`) -/
theorem lookup_one_way :
    lookupImpl ["myAction"] "my_action" = none ∧ lookupImpl ["doIt", "do_it"] "doIt" = some "do_it" := by decide

/-! ## 3. discovery binds everything it demands, or raises -/

/-- *Discovery returns bindings for every demanded name, each to a callable of that name or of its snake_case
    spelling.* -/
theorem discover_binds_all (scan : List String) (m : Machine) (b : Bindings) (h : discover scan m = .ok b) :
    (b.actions.map (·.1) = (required m).actions ∧ b.guards.map (·.1) = (required m).guards
      ∧ b.services.map (·.1) = (required m).services)
    ∧ ∀ kv ∈ b.actions ++ b.guards ++ b.services,
        kv.2 ∈ scan ∧ isPublic kv.2 = true ∧ (kv.2 = kv.1 ∨ snakeToCamelS kv.2 = kv.1) := by
  unfold discover at h
  split at h
  · cases h
  · rename_i a ha
    split at h
    · cases h
    · rename_i g hg
      split at h
      · cases h
      · rename_i s hs
        cases h
        obtain ⟨a1, a2⟩ := bindAll_ok ha
        obtain ⟨g1, g2⟩ := bindAll_ok hg
        obtain ⟨s1, s2⟩ := bindAll_ok hs
        refine ⟨⟨a1, g1, s1⟩, ?_⟩
        intro kv hkv
        simp only [List.mem_append] at hkv
        rcases hkv with (h | h) | h
        · exact lookupImpl_sound (a2 kv h)
        · exact lookupImpl_sound (g2 kv h)
        · exact lookupImpl_sound (s2 kv h)

/-- *…or raises `ImplementationMissingError`, exactly when some demanded name has no implementation* -/
theorem discover_binds_all_or_raises (scan : List String) (m : Machine) :
    (∃ e, discover scan m = .error e) ↔
      ∃ n ∈ (required m).actions ++ (required m).guards ++ (required m).services, lookupImpl scan n = none := by
  simp only [List.mem_append, or_and_right, exists_or]
  rw [← bindAll_error_iff, ← bindAll_error_iff, ← bindAll_error_iff]
  unfold discover
  cases ha : bindAll scan (required m).actions with
  | error e => simp
  | ok a =>
    cases hg : bindAll scan (required m).guards with
    | error e => simp
    | ok g =>
      cases hs : bindAll scan (required m).services with
      | error e => simp
      | ok s => simp

/-- the name reported is a demanded, unbound one -/
theorem discover_error_names (scan : List String) (m : Machine) (e : String) (h : discover scan m = .error e) :
    e ∈ (required m).actions ++ (required m).guards ++ (required m).services ∧ lookupImpl scan e = none := by
  unfold discover at h
  simp only [List.mem_append]
  split at h
  · rename_i e' he
    cases h
    exact ⟨Or.inl (Or.inl (bindAll_error_mem he).1), (bindAll_error_mem he).2⟩
  · split at h
    · rename_i e' he
      cases h
      exact ⟨Or.inl (Or.inr (bindAll_error_mem he).1), (bindAll_error_mem he).2⟩
    · split at h
      · rename_i e' he
        cases h
        exact ⟨Or.inr (bindAll_error_mem he).1, (bindAll_error_mem he).2⟩
      · cases h

/-- every action reference of a state: entry, exit, the actions of `on` / `always` / `after` / `onDone`
    transitions and of every invocation's onDone / onError transitions -/
def allActs (d : StateDef) : List ActionRef := mainActs d ++ (invTrans d).flatMap (·.actions)

/-- *Every referenced action that is neither a built-in nor a spawn directive is demanded* (anywhere in the tree) -/
theorem referenced_action_demanded (m : Machine) (x : SNode) (hx : Sub m.root x) (a : ActionRef)
    (ha : a ∈ allActs x.d) (hb : isBuiltin a.type = false) (hs : isSpawn a.type = false) :
    a.type ∈ (required m).actions := by
  rw [mem_required_actions]
  refine ⟨x.d, mem_subDefs_of_sub hx, ?_⟩
  rw [mem_defActions]
  unfold allActs at ha
  rcases List.mem_append.mp ha with h | h
  · exact Or.inl ⟨a, h, rfl, hs, hb⟩
  · obtain ⟨t, ht, hat⟩ := List.mem_flatMap.mp h
    exact Or.inr ⟨t, ht, a, hat, rfl, hs, hb⟩

/-- the same for a state addressed by its path -/
theorem referenced_action_demanded_at (m : Machine) (p : Path) (x : SNode) (hx : m.root.at p = some x) (a : ActionRef)
    (ha : a ∈ allActs x.d) (hb : isBuiltin a.type = false) (hs : isSpawn a.type = false) :
    a.type ∈ (required m).actions :=
  referenced_action_demanded m x (sub_of_at p m.root x hx) a ha hb hs

/-- *Every user predicate below the composites of any transition's guard is demanded* -/
theorem referenced_guard_demanded (m : Machine) (x : SNode) (hx : Sub m.root x) (t : Trans)
    (ht : t ∈ mainTrans x.d ++ invTrans x.d) (g : GuardExpr) (hg : t.guard = some g) (n : String) (hn : NamedLeaf n g) :
    n ∈ (required m).guards := by
  rw [mem_required_guards]
  exact ⟨x.d, mem_subDefs_of_sub hx, mem_defGuards.mpr ⟨t, ht, g, hg, hn⟩⟩

/-- *Every invoked service, and the service key of every spawn directive of ANY action list — entry / exit /
    transition lists and the onDone / onError lists of the invocations alike (`allActs`) — is demanded* -/
theorem referenced_service_demanded (m : Machine) (x : SNode) (hx : Sub m.root x) (n : String)
    (h : (∃ i ∈ x.d.invoke, i.src = some n ∧ n ≠ "") ∨ (∃ a ∈ allActs x.d, isSpawn a.type = true ∧ spawnKey a.type = n)) :
    n ∈ (required m).services := by
  rw [mem_required_services]
  refine ⟨x.d, mem_subDefs_of_sub hx, mem_defServices.mpr ?_⟩
  rcases h with h | ⟨a, ha, hs, hk⟩
  · exact Or.inr (Or.inl h)
  · unfold allActs at ha
    rcases List.mem_append.mp ha with h | h
    · exact Or.inl ⟨a, h, hs, hk⟩
    · obtain ⟨t, ht, hat⟩ := List.mem_flatMap.mp h
      exact Or.inr (Or.inr ⟨t, ht, a, hat, hs, hk⟩)

/-- … and nothing else is: a demanded service is an invoked source or the key of a spawn directive -/
theorem demanded_service_referenced (m : Machine) (n : String) (h : n ∈ (required m).services) :
    ∃ d ∈ subDefs m.root, (∃ i ∈ d.invoke, i.src = some n ∧ n ≠ "")
      ∨ (∃ a ∈ allActs d, isSpawn a.type = true ∧ spawnKey a.type = n) := by
  obtain ⟨d, hd, hn⟩ := mem_required_services.mp h
  refine ⟨d, hd, ?_⟩
  unfold allActs
  rcases mem_defServices.mp hn with ⟨a, ha, hs, hk⟩ | h | ⟨t, ht, a, ha, hs, hk⟩
  · exact Or.inr ⟨a, List.mem_append_left _ ha, hs, hk⟩
  · exact Or.inl h
  · exact Or.inr ⟨a, List.mem_append_right _ (List.mem_flatMap.mpr ⟨t, ht, ha⟩), hs, hk⟩

/-! ## 4. built-ins, spawn directives and composite guards are not demanded -/

/-- the loader's `is_builtin` is the engine's built-in table (both read `BUILTIN_ACTION_ALIASES`, regenerated) -/
theorem isBuiltin_eq_canonical (ty : String) : isBuiltin ty = (canonicalBuiltin ty).isSome := by
  unfold isBuiltin canonicalBuiltin
  rw [Option.isSome_map, Bool.eq_iff_iff, List.find?_isSome, List.any_eq_true]

/-- *No demanded action is a built-in* (over the regenerated alias table) -/
theorem excludes_builtins (m : Machine) (n : String) (h : n ∈ (required m).actions) :
    isBuiltin n = false ∧ canonicalBuiltin n = none := by
  have hb : isBuiltin n = false := by
    obtain ⟨d, _, hd⟩ := mem_required_actions.mp h
    rcases mem_defActions.mp hd with ⟨_, _, _, _, hb⟩ | ⟨_, _, _, _, _, _, hb⟩ <;> exact hb
  refine ⟨hb, ?_⟩
  have := isBuiltin_eq_canonical n
  rw [hb] at this
  cases hc : canonicalBuiltin n with
  | none => rfl
  | some c => simp [hc] at this

theorem builtin_table_sample :
    isBuiltin "assign" = true ∧ isBuiltin "log" = true ∧ isBuiltin "raise" = true ∧ isBuiltin "sendTo" = true
    ∧ isBuiltin "xstate.choose" = true ∧ isBuiltin "spawn_child" = false ∧ isBuiltin "myAction" = false := by decide

/-- *No demanded action is a spawn directive*: in entry / exit / `on` / `always` / `after` / `onDone` lists and in
    the onDone / onError lists of the invocations `spawn_*` is routed to the services instead
    (`referenced_service_demanded`). -/
theorem excludes_spawn (m : Machine) (n : String) (h : n ∈ (required m).actions) : isSpawn n = false := by
  obtain ⟨d, _, hn⟩ := mem_required_actions.mp h
  rcases mem_defActions.mp hn with ⟨_, _, _, hs, _⟩ | ⟨_, _, _, _, _, hs, _⟩ <;> exact hs

/-- the witness of finding F19e, the state `{"invoke": {"src": "svc", "onDone": {"actions": ["spawn_worker"]}}}` -/
def spawnInInvoke : StateDef :=
  { (default : StateDef) with
    invoke := [{ id := "m.a", src := some "svc"
                 onDone := [{ tid := 0, event := "done.invoke.m.a", target := none, guard := none,
                              actions := [{ type := "spawn_worker" }], reenter := false, forbidden := false }]
                 onError := [] }] }

/-- … with the repaired routing: no action is demanded, the services `svc` and `worker` are (before the repair of
    F19e: the action `spawn_worker` and the service `svc` only) -/
theorem spawn_in_invoke_routed :
    defActions spawnInInvoke = [] ∧ defServices spawnInInvoke = ["svc", "worker"]
    ∧ isSpawn "spawn_worker" = true ∧ spawnKey "spawn_worker" = "worker" := by decide

/-- the same directive in an entry list is routed correctly -/
theorem spawn_in_entry_routed :
    defActions { (default : StateDef) with entry := [{ type := "spawn_worker" }, { type := "spawn_blocking_w2" }] } = []
    ∧ defServices { (default : StateDef) with entry := [{ type := "spawn_worker" }, { type := "spawn_blocking_w2" }] } = ["worker", "w2"] := by
  decide

/-- *Composite operators and `stateIn` are never demanded*: the guard names demanded for a guard are exactly its
    `named` leaves. -/
theorem excludes_composites (g : GuardExpr) (n : String) : n ∈ Py.guardNames g ↔ NamedLeaf n g :=
  mem_guardNames_iff g n

theorem guardNames_example :
    Py.guardNames (.and [.named "a" none, .or [.not (.named "b" none), .stateIn none], .named "and" none]) = ["a", "b", "and"] := by
  decide

/-- all three exclusions at once, for a demanded name of each kind -/
theorem excludes_builtins_spawn_composites (m : Machine) :
    (∀ n ∈ (required m).actions, isBuiltin n = false)
    ∧ (∀ n ∈ (required m).actions, isSpawn n = false)
    ∧ (∀ n ∈ (required m).guards, ∃ d ∈ subDefs m.root, ∃ t ∈ mainTrans d ++ invTrans d, ∃ g, t.guard = some g ∧ NamedLeaf n g) := by
  refine ⟨fun n h => (excludes_builtins m n h).1, fun n h => excludes_spawn m n h, ?_⟩
  intro n h
  obtain ⟨d, hd, hn⟩ := mem_required_guards.mp h
  exact ⟨d, hd, mem_defGuards.mp hn⟩

/-! ## 5. a user implementation wins over a built-in of the same name -/

/-- *In the action executor (`_execute_actions` of both engines) an implementation registered under the name of
    a built-in runs, and the built-in does not*: the result is the user action's, whatever `canonicalBuiltin` says. -/
theorem user_action_before_builtin (h : Hooks) (nested : List ActionRef → String → St → St) (cut : Bool)
    (evType : String) (s : St) (a : ActionRef) (c : Ctx)
    (hrun : s.err.isSome = false) (huser : h.act a.type s.ctx evType = .ok c) :
    actStep h nested cut evType (s, false) a = (emit s!"{a.type}@{evType}" { s with ctx := c }, false) := by
  unfold actStep
  simp [hrun, huser]

/-- in particular for `assign`: the context is the user's, not the assignment's -/
theorem user_assign_wins (h : Hooks) (nested : List ActionRef → String → St → St) (evType : String) (s : St)
    (params : Option J) (c : Ctx) (hrun : s.err.isSome = false) (huser : h.act "assign" s.ctx evType = .ok c) :
    (actStep h nested false evType (s, false) { type := "assign", params := params }).1.ctx = c := by
  rw [user_action_before_builtin h nested false evType s _ c hrun huser]
  rfl

/-- the built-in runs only when nothing is registered under the name -/
theorem builtin_only_when_missing (h : Hooks) (nested : List ActionRef → String → St → St) (cut : Bool)
    (evType : String) (s : St) (a : ActionRef) (canon : String)
    (hrun : s.err.isSome = false) (hmiss : h.act a.type s.ctx evType = .missing) (hc : canonicalBuiltin a.type = some canon) :
    actStep h nested cut evType (s, false) a = builtinStep h nested cut evType canon a s := by
  unfold actStep
  simp [hrun, hmiss, hc]

/-- BUT auto-discovery never registers such an implementation (finding F19d): a name bound by `discover` is
    never a built-in, whatever callables the user supplied. -/
theorem discover_never_binds_builtin (scan : List String) (m : Machine) (b : Bindings) (h : discover scan m = .ok b)
    (n : String) (hb : isBuiltin n = true) : n ∉ b.actions.map (·.1) := by
  rw [(discover_binds_all scan m b h).1.1]
  intro hn
  have := (excludes_builtins m n hn).1
  rw [hb] at this
  cases this

/-! ## 6. `MachineLogic` subclass methods -/

theorem arity_table :
    arityRegistry 2 = some .guard ∧ arityRegistry 3 = some .service ∧ arityRegistry 4 = some .action
    ∧ ∀ k, k ≠ 2 → k ≠ 3 → k ≠ 4 → arityRegistry k = none := by
  refine ⟨rfl, rfl, rfl, ?_⟩
  intro k h2 h3 h4
  match k with
  | 0 | 1 => rfl
  | 2 => exact absurd rfl h2
  | 3 => exact absurd rfl h3
  | 4 => exact absurd rfl h4
  | _ + 5 => rfl

/-- a public method of a contract arity is registered under ITS OWN name (no snake → camel) unless bound already -/
theorem registerOne_registers (r : Regs) (n : String) (k : Nat) (kind : LogicKind)
    (hp : isPublic n = true) (hk : arityRegistry k = some kind) : n ∈ (registerOne r (n, k)).of kind := by
  unfold registerOne
  simp only [hp, Bool.not_true, Bool.false_eq_true, if_false, hk]
  split
  · rename_i h; simpa using h
  · cases kind <;> simp [Regs.add, Regs.of]

/-- private methods and other arities register nothing -/
theorem registerOne_skips (r : Regs) (n : String) (k : Nat)
    (h : isPublic n = false ∨ arityRegistry k = none) : registerOne r (n, k) = r := by
  unfold registerOne
  rcases h with h | h
  · simp [h]
  · by_cases hp : isPublic n = true <;> simp [hp, h]

/-- explicitly supplied entries are never removed -/
theorem registerOne_keeps (r : Regs) (mth : String × Nat) (kind : LogicKind) (n : String) (h : n ∈ r.of kind) :
    n ∈ (registerOne r mth).of kind := by
  unfold registerOne
  split
  · exact h
  · split
    · exact h
    · rename_i k' _
      split
      · exact h
      · cases k' <;> cases kind <;> simp_all [Regs.add, Regs.of]

theorem registerSubclass_keeps (explicit : Regs) (methods : List (String × Nat)) (kind : LogicKind) (n : String)
    (h : n ∈ explicit.of kind) : n ∈ (registerSubclass explicit methods).of kind := by
  unfold registerSubclass
  induction methods generalizing explicit with
  | nil => exact h
  | cons mth rest ih => exact ih (registerOne explicit mth) (registerOne_keeps explicit mth kind n h)

/-- the method `my_action` binds `my_action`, not `myAction` (finding F19f, structural side) -/
theorem subclass_verbatim_names :
    (registerSubclass ⟨[], [], []⟩ [("my_action", 4), ("is_ok", 2), ("_hidden", 4), ("helper", 1)]).actions = ["my_action"]
    ∧ (registerSubclass ⟨[], [], []⟩ [("my_action", 4), ("is_ok", 2), ("_hidden", 4), ("helper", 1)]).guards = ["is_ok"] := by
  decide

/-! ## 7. the compiled config is the denoted config -/

/-- *`_compile_config` (class-based and functional style) attaches every `Transition` to the State object it was
    declared on, PROVIDED the State objects have pairwise different names* and every transition's source is one of
    them: the compiled JSON is identical to the denotation. -/
theorem compile_eq_denote (d : PyDef) (hu : UniqueNames d) (hs : SourcesDeclared d) : compileImpl d = Py.denote d :=
  compileImpl_eq_denote d hu hs

/-- … hence `create_machine` builds the same machine from both (or rejects both alike) -/
theorem parse_compile_eq_denote (d : PyDef) (hu : UniqueNames d) (hs : SourcesDeclared d) :
    (compileImpl d).bind (fun j => parseMachine j) = (Py.denote d).bind (fun j => parseMachine j) := by
  rw [compile_eq_denote d hu hs]

/-- the theorem is not vacuous: a nested definition with unique names and a cross-level transition -/
theorem compile_eq_denote_example : UniqueNames f17ok ∧ SourcesDeclared f17ok ∧
    onKeysAt (compileImpl f17ok) ["idle"] = ["GO"] ∧ onKeysAt (compileImpl f17ok) ["a", "idle2"] = [] := by
  refine ⟨by unfold UniqueNames; decide, by unfold SourcesDeclared; decide, by decide, by decide⟩

/-- **F17.** With two State objects called `idle` (one top-level, one inside `a`) the transition declared on the
    top-level one is ALSO compiled into `a.idle`; the denotation has it only where it was declared. -/
theorem compile_ne_denote_same_name :
    ¬ UniqueNames f17 ∧ SourcesDeclared f17
    ∧ onKeysAt (compileImpl f17) ["idle"] = ["GO"] ∧ onKeysAt (compileImpl f17) ["a", "idle"] = ["GO"]
    ∧ onKeysAt (Py.denote f17) ["idle"] = ["GO"] ∧ onKeysAt (Py.denote f17) ["a", "idle"] = []
    ∧ compileImpl f17 ≠ Py.denote f17 := by
  refine ⟨by unfold UniqueNames; decide, by unfold SourcesDeclared; decide, by decide, by decide, by decide, by decide, ?_⟩
  intro h
  have h1 : onKeysAt (compileImpl f17) ["a", "idle"] = ["GO"] := by decide
  have h2 : onKeysAt (Py.denote f17) ["a", "idle"] = [] := by decide
  rw [h] at h1
  rw [h1] at h2
  cases h2

/-- *A `Transition` whose TARGET is given as a State object reaches that object.* The code compiles the object to
    its bare name `k`; in the interpreters' resolution (`_resolve_target_state_robustly`: `resolve_target_state` from
    the source, its parent, the root, the `<id>.`-qualified spelling, then root lookups and the tree walk) a name
    borne by exactly one state `q` resolves to `q` from EVERY source state — provided keys are dot-free, and `k` is a
    non-empty dot-free name not starting with `#`, different from the machine id and from `"machine"`. -/
theorem object_target_reaches_object (m : Machine) (k : String) (q src : Path)
    (hid : SimpleName m.id) (hk : SimpleName k) (hkid : k ≠ m.id) (hkm : k ≠ "machine")
    (hq : q ∈ m.root.allPaths []) (hql : q.getLast? = some k)
    (hu : ∀ p ∈ m.root.allPaths [], p.getLast? = some k → p = q)
    (hdf : ∀ p ∈ m.root.allPaths [], ∀ key ∈ p, '.' ∉ key.toList) :
    resolveRobust m src k = some q :=
  bare_name_resolves m k q src hid hk hkid hkm hq hql hu hdf

/-- the machine of `f17` as the parser builds it: `a{idle, other}`, `idle` -/
def f17Machine : Machine :=
  { id := "m", maxIterations := 1000, customIds := []
    root := .mk { (default : StateDef) with kind := .compound, initial := some "a" }
      [("a", .mk { (default : StateDef) with kind := .compound, initial := some "idle" }
          [("idle", .mk default []), ("other", .mk default [])]),
       ("idle", .mk default [])] }

/-- without uniqueness the bare name depends on where it is resolved FROM (the target half of F17): `idle` written on
    a transition of `a.other` reaches `a.idle`, written on a top-level state it reaches the top-level `idle` -/
theorem bare_target_depends_on_source :
    resolveRobust f17Machine ["a", "other"] "idle" = some ["a", "idle"]
    ∧ resolveRobust f17Machine ["idle"] "idle" = some ["idle"]
    ∧ resolveRobust f17Machine ["a", "other"] "other" = some ["a", "other"]
    ∧ resolveRobust f17Machine ["idle"] "other" = some ["a", "other"] := by decide

/-- the hypotheses are what the generic statement needs: attachment by name and by object agree on every state -/
theorem attach_by_name_eq_by_object (d : PyDef) (hu : UniqueNames d) (hs : SourcesDeclared d) (p : Path) (hp : p ∈ d.paths) :
    attByName d.transitions p = attByObj d.transitions p := att_agree d hu hs p hp

/-- **F19b.** `State("a", on={"GO": "b"})` plus `a.to(c, event="GO", guard="never")`: the compiled state has ONE
    transition for GO (the `on` entry is replaced — the rule `tests/test_pythonic.py::TestMergeRules` pins) … -/
theorem state_on_entry_overwritten : nTransAt (compileImpl overlap) ["a"] "GO" = 1 := by decide

/-- … while `MachineBuilder.build` given the same two declarations keeps both, so the styles disagree -/
theorem builder_keeps_both : nTransAt (buildImpl overlapB) ["a"] "GO" = 2 := by decide

theorem filter_map_other (g : String × J → String × J) (src k : String) (hne : src ≠ k) (hg : ∀ kv, (g kv).1 = kv.1) :
    ∀ (states : List (String × J)),
      (states.map (fun kv => if kv.1 = src then g kv else kv)).filter (fun kv => kv.1 = k) = states.filter (fun kv => kv.1 = k)
  | [] => rfl
  | kv :: rest => by
    have ih := filter_map_other g src k hne hg rest
    by_cases e : kv.1 = src
    · have h1 : kv.1 ≠ k := fun e' => hne (e ▸ e')
      have h2 : (g kv).1 ≠ k := by rw [hg]; exact h1
      have d1 : decide ((g kv).1 = k) = false := by simpa using h2
      have d2 : decide (kv.1 = k) = false := by simpa using h1
      rw [List.map_cons, if_pos e, List.filter_cons, List.filter_cons]
      simp only [d1, d2, Bool.false_eq_true, if_false]
      exact ih
    · simp only [List.map_cons, e, if_false, List.filter_cons, ih]

/-- *`MachineBuilder.build` merges a transition into the state it names and into no other*: the configs of all
    other states are untouched, for every list of transitions. -/
theorem buildStates_other_untouched : ∀ (ts : List BTrans) (states out : List (String × J)) (k : String),
    buildStates states ts = .ok out → (∀ t ∈ ts, t.source ≠ k) →
    out.filter (fun kv => kv.1 = k) = states.filter (fun kv => kv.1 = k)
  | [], states, out, k, h, _ => by
    simp [buildStates] at h
    rw [h]
  | t :: ts, states, out, k, h, hk => by
    unfold buildStates at h
    split at h
    · have ih := buildStates_other_untouched ts _ out k h (fun t' ht' => hk t' (List.mem_cons_of_mem _ ht'))
      rw [ih]
      exact filter_map_other (fun kv => (kv.1, J.obj (bMergeOne (objPairs kv.2) t))) t.source k (hk t (by simp)) (fun _ => rfl) states
    · cases h

/-- the state names (and their order) are what `.state()` declared -/
theorem buildStates_names : ∀ (ts : List BTrans) (states out : List (String × J)),
    buildStates states ts = .ok out → out.map (·.1) = states.map (·.1)
  | [], states, out, h => by
    simp [buildStates] at h
    rw [h]
  | t :: ts, states, out, h => by
    unfold buildStates at h
    split at h
    · rw [buildStates_names ts _ out h, List.map_map]
      apply List.map_congr_left
      intro kv _
      by_cases e : kv.1 = t.source <;> simp [e]
    · cases h

/-- a transition from an undeclared state is rejected (`InvalidConfigError`) -/
theorem buildStates_unknown_source (t : BTrans) (ts : List BTrans) (states : List (String × J))
    (h : ∀ kv ∈ states, kv.1 ≠ t.source) : ∃ e, buildStates states (t :: ts) = .error e := by
  unfold buildStates
  have : states.any (fun kv => decide (kv.1 = t.source)) = false := by
    rw [List.any_eq_false]
    intro kv hkv
    simpa using h kv hkv
  simp [this]

end XSM.C19
