import Xsm.Proofs.History
/-!
# C11 — history pseudo-states restore what was remembered

"A transition that targets a history pseudo-state activates, for shallow history, the child of its
parent that was active when the parent was last exited (followed by that child's normal initial
descent) and, for deep history, exactly the set of descendant leaves that were active then, entering
each restored state once. If the parent has never been exited, the history state's default target, or
else the parent's normal entry (initial child of a compound parent, every region of a parallel
parent), is used. The outcome is the same whether the history was recorded in this interpreter or
restored from a snapshot."  Scope: transitions whose source lies OUTSIDE the history state's parent.

Statements only; the proofs live in `Xsm/Proofs/History.lean` (namespace `XSM.Hist`) (on top of the configuration-level core
in `Xsm/Proofs/Legal.lean`).  Vocabulary:

* `histGet hist P` — the remembered list stored for owner `P` (`hist.find?` on the key, as
  `_resolve_history_target` reads it); `recRem m cfg P` — the list `_record_history` computes for `P`:
  the strict descendants of `P` in `cfg`, sorted by `(depth, id)` (`depthIdLe`).
* `HistFire m s c h hn` — candidate `c` fires in state `s`, machine `WF`/`InitOK`, `s.cfg` `Legal`,
  `c.src ∈ s.cfg`, its target resolves to the history node `h` (node `hn`), and the owner
  `h.dropLast` is inactive (source outside the owner: the property's scope).
* `HistInv m.root P R` — `R` is a legal selection of the subtree of `P` (what `recRem_inv` /
  `histAll_recordHistory` establish for everything `_record_history` stores from a legal configuration).
* `HistNodeOK m h` — static sanity of the history node, used only while nothing is recorded: a default
  target that resolves is a non-history state inside the owner; a parallel owner has a real region
  (and an `initial`, if it declares one, names a real region).
* `RegOK root` — every parallel state with children has a non-history child (needed for "exactly the
  recorded leaves": otherwise an active parallel state without regions is not a leaf for
  `_resolve_history_target` and is silently dropped from a deep restore).

The `example`s use the machine `XSM.C11.Ex.hM` below.
-/
namespace XSM.C11
open XSM XSM.Spec XSM.Hist

-- 1. recording ----------------------------------------------------------------------------------------------------

/-- **recorded at exit**: an owner `P` (ancestor-or-self of an exited state, names a state with a
    history child, has an active strict descendant) gets as its entry exactly the strict descendants
    of `P` in the configuration, sorted by `(depth, id)` -/
theorem history_recorded_at_exit (m : Machine) (exits : List Path) (s : St) (P : Path) (n : SNode)
    (hex : ∃ e ∈ exits, P <+: e) (hat : m.root.at P = some n) (hk : hasHistoryKid n = true)
    (hact : ∃ q ∈ s.cfg, P <+: q ∧ q ≠ P) :
    ∃ rem, histGet (recordHistory m exits s).hist P = some rem ∧
      (∀ q, q ∈ rem ↔ q ∈ s.cfg ∧ P <+: q ∧ q ≠ P) ∧
      rem.Pairwise (fun a b => depthIdLe m a b = true) ∧ rem = recRem m s.cfg P := by
  refine ⟨recRem m s.cfg P, ?_, fun q => mem_recRem, recRem_sorted m s.cfg P, rfl⟩
  rw [histGet_recordHistory, if_pos ⟨hex, ⟨n, hat, hk⟩, recRem_ne_nil_iff.2 hact⟩]

/-- **the recorded list does not depend on the order in which the configuration is held** (ids are
    injective on the configuration: true when keys contain no '.') -/
theorem recorded_order_independent (m : Machine) (exits : List Path) (s : St) (cfg' : List Path)
    (hp : s.cfg.Perm cfg') (hinj : ∀ a b, a ∈ s.cfg → b ∈ s.cfg → m.idOf a = m.idOf b → a = b) (P : Path) :
    recRem m s.cfg P = recRem m cfg' P ∧
      histGet (recordHistory m exits { s with cfg := cfg' }).hist P =
        histGet (recordHistory m exits s).hist P := by
  have hr : recRem m s.cfg P = recRem m cfg' P := recRem_perm m s.cfg cfg' P hp hinj
  refine ⟨hr, ?_⟩
  rw [histGet_recordHistory, histGet_recordHistory]
  by_cases hc : (∃ e ∈ exits, P <+: e) ∧ Records m s.cfg P
  · have hc' : (∃ e ∈ exits, P <+: e) ∧ Records m cfg' P := ⟨hc.1, hc.2.1, hr ▸ hc.2.2⟩
    rw [if_pos hc, if_pos hc', hr]
  · have hc' : ¬ ((∃ e ∈ exits, P <+: e) ∧ Records m cfg' P) :=
      fun x => hc ⟨x.1, x.2.1, hr.symm ▸ x.2.2⟩
    rw [if_neg hc, if_neg hc']

/-- **kept otherwise**: an owner not touched by the exit, without a history child, or without an
    active strict descendant keeps its old entry -/
theorem history_kept_otherwise (m : Machine) (exits : List Path) (s : St) (P : Path)
    (hno : (∀ e ∈ exits, ¬ P <+: e) ∨ (∀ n, m.root.at P = some n → hasHistoryKid n = false) ∨
      (∀ q ∈ s.cfg, P <+: q → q = P)) :
    histGet (recordHistory m exits s).hist P = histGet s.hist P := by
  rw [histGet_recordHistory, if_neg]
  rintro ⟨⟨e, he, hPe⟩, ⟨n, hn, hk⟩, hne⟩
  rcases hno with h | h | h
  · exact h e he hPe
  · rw [h n hn] at hk; cases hk
  · obtain ⟨q, hq, hPq, hqP⟩ := recRem_ne_nil_iff.1 hne
    exact hqP (h q hq hPq)

/-- recording from a legal configuration keeps every remembered list a legal selection of its owner -/
theorem recording_keeps_invariant (m : Machine) (hwf : WF m.root) (exits : List Path) (s : St)
    (hL : Legal m.root s.cfg) (hex : ∀ e ∈ exits, e ∈ s.cfg) (hA : HistAll m s.hist) :
    HistAll m (recordHistory m exits s).hist :=
  histAll_recordHistory m hwf exits s hL hex hA

-- 2. `_resolve_history_target`, case by case ---------------------------------------------------------------------------
section resolve
variable (m : Machine) (hist : List (Path × List Path)) (h : Path) (hn pn : SNode)
  (hat : m.root.at h = some hn) (hpat : m.root.at h.dropLast = some pn)
include hat hpat

/-- nothing recorded, the history node declares a default target that resolves to `r`: `[r]` -/
theorem unvisited_default_target
    (hg : histGet hist h.dropLast = none ∨ histGet hist h.dropLast = some [])
    (t : String) (r : Path) (ht : hn.d.historyTarget = some t) (hne : t ≠ "")
    (hr : resolveTarget m t h = some r) : resolveHistoryTarget m hist h = [r] := by
  rw [resolve_unvisited m hist h hn pn hat hpat hg]
  simp [unvisitedTargets, histDefault, ht, hne, hr]

/-- nothing recorded, no (resolvable) default, the owner names an existing initial child `i` -/
theorem unvisited_compound_initial
    (hg : histGet hist h.dropLast = none ∨ histGet hist h.dropLast = some [])
    (hd : histDefault m h hn = none) (i : String) (hi : pn.d.initial = some i) (hine : i ≠ "")
    (ci : SNode) (hci : findKid i pn.kids = some ci) :
    resolveHistoryTarget m hist h = [h.dropLast ++ [i]] := by
  rw [resolve_unvisited m hist h hn pn hat hpat hg]
  simp [unvisitedTargets, hd, ownerEntry, hi, hine, hci]

/-- nothing recorded, no (resolvable) default, parallel owner without `initial`: its non-history
    children in document order -/
theorem unvisited_parallel_regions
    (hg : histGet hist h.dropLast = none ∨ histGet hist h.dropLast = some [])
    (hd : histDefault m h hn = none) (hp : pn.kind = .parallel) (hi : pn.d.initial = none) :
    resolveHistoryTarget m hist h =
      (pn.kids.filter (fun kc => kc.2.kind != .history)).map (fun kc => h.dropLast ++ [kc.1]) := by
  rw [resolve_unvisited m hist h hn pn hat hpat hg]
  simp [unvisitedTargets, hd, ownerEntry, hi, ownerRegions, hp]

/-- recorded, shallow: the remembered children of the owner (all of `rem` if there is none) -/
theorem shallow_restores_children (rem : List Path) (hg : histGet hist h.dropLast = some rem)
    (hne : rem ≠ []) (hs : hn.d.deep = false) :
    resolveHistoryTarget m hist h =
      if (rem.filter (fun q => q != [] && q.dropLast == h.dropLast)).isEmpty then rem
      else rem.filter (fun q => q != [] && q.dropLast == h.dropLast) := by
  rw [resolve_recorded m hist h hn pn hat hpat rem hg hne, hs]
  rfl

/-- recorded, deep: the remembered leaves of the tree (all of `rem` if there is none) -/
theorem deep_restores_leaves (rem : List Path) (hg : histGet hist h.dropLast = some rem)
    (hne : rem ≠ []) (hdeep : hn.d.deep = true) :
    resolveHistoryTarget m hist h =
      if (rem.filter (leafAt m)).isEmpty then rem else rem.filter (leafAt m) := by
  rw [resolve_recorded m hist h hn pn hat hpat rem hg hne, if_pos hdeep]
  rfl

end resolve

/-- `leafAt` is `_resolve_history_target`'s leaf test: atomic, final, or without children -/
theorem leafAt_iff (m : Machine) (q : Path) :
    leafAt m q = true ↔ ∃ n, m.root.at q = some n ∧ isLeafNode n = true := by
  unfold leafAt
  cases m.root.at q <;> simp

-- 3. the restore, configuration level ------------------------------------------------------------------------------------

/-- **C01 extended to history targets** (source outside the owner): whatever the transition's actions
    do — succeed, raise, be missing — the configuration afterwards is legal -/
theorem legal_microstep_history (h : Hooks) (hok : HooksOK h) (fl : Flavor) (m : Machine) (ev : Ev)
    (c : Cand) (s : St) (hh : Path) (hn : SNode) (hf : HistFire m s c hh hn)
    (hI : ∀ R, histGet s.hist hh.dropLast = some R → R ≠ [] → HistInv m.root hh.dropLast R)
    (hOK : HistNodeOK m hh) :
    Legal m.root (execute h fl m ev (planTransition m s.cfg s.hist c) s).cfg := by
  obtain ⟨tstr, ht, hne, hres⟩ := hf.target
  exact XSM.Hist.legal_microstep_history h hok fl m ev c s hf.wf hf.init hf.legal hf.src tstr ht hne hh hres hn
    hf.node hf.kind hf.outside hI hOK

/-- **deep history restores exactly the recorded selection**: after a successful transition the
    configuration restricted to the owner's subtree is the owner plus the recorded list — the recorded
    leaves and every state between the owner and them, no default extras -/
theorem deep_restores_exact (h : Hooks) (hok : HooksOK h) (fl : Flavor) (m : Machine) (ev : Ev)
    (c : Cand) (s : St) (hh : Path) (hn : SNode) (hf : HistFire m s c hh hn) (hreg : RegOK m.root)
    (R : List Path) (hg : histGet s.hist hh.dropLast = some R) (hR : R ≠ [])
    (hI : HistInv m.root hh.dropLast R) (hdeep : hn.d.deep = true)
    (herr : (execute h fl m ev (planTransition m s.cfg s.hist c) s).err = none) :
    ∀ q, hh.dropLast <+: q →
      (q ∈ (execute h fl m ev (planTransition m s.cfg s.hist c) s).cfg ↔ q = hh.dropLast ∨ q ∈ R) :=
  XSM.Hist.deep_restores_exact h hok fl m ev c s hh hn hf hreg R hg hR hI hdeep herr

/-- the recorded list is the closure of its leaves: every recorded state lies between the owner and a
    recorded leaf, and deep history targets exactly those leaves -/
theorem deep_targets_cover (m : Machine) (hwf : WF m.root) (hreg : RegOK m.root) (P : Path) (R : List Path)
    (hI : HistInv m.root P R) : ∀ r ∈ R, ∃ t ∈ deepTargets m R, r <+: t ∧ leafAt m t = true :=
  deep_cover m hwf hreg P R hI

/-- **shallow history restores the recorded child(ren) of the owner, then the default descent**: the
    configuration restricted to the owner's subtree is the owner, its recorded children, and below each
    of them `enterDefault` -/
theorem shallow_restores_child_then_default (h : Hooks) (hok : HooksOK h) (fl : Flavor) (m : Machine)
    (ev : Ev) (c : Cand) (s : St) (hh : Path) (hn : SNode) (hf : HistFire m s c hh hn)
    (R : List Path) (hg : histGet s.hist hh.dropLast = some R) (hR : R ≠ [])
    (hI : HistInv m.root hh.dropLast R) (hshallow : hn.d.deep = false)
    (herr : (execute h fl m ev (planTransition m s.cfg s.hist c) s).err = none) :
    ∀ q, hh.dropLast <+: q →
      (q ∈ (execute h fl m ev (planTransition m s.cfg s.hist c) s).cfg ↔
        q = hh.dropLast ∨ ∃ t ∈ R, t.dropLast = hh.dropLast ∧
          ∃ nt, m.root.at t = some nt ∧ q ∈ enterDefault t nt) :=
  XSM.Hist.shallow_restores_child_then_default h hok fl m ev c s hh hn hf R hg hR hI hshallow herr

/-- **never visited**: with a default target `r` the owner's subtree holds what `_enter_states` makes
    of the owner followed by the path from the owner to `r` (default descents included); without one it
    holds the owner's normal entry `enterDefault` (initial child of a compound owner, every region of a
    parallel owner) -/
theorem unvisited_uses_default_else_normal_entry (h : Hooks) (hok : HooksOK h) (fl : Flavor) (m : Machine)
    (ev : Ev) (c : Cand) (s : St) (hh : Path) (hn : SNode) (hf : HistFire m s c hh hn)
    (hg : histGet s.hist hh.dropLast = none ∨ histGet s.hist hh.dropLast = some [])
    (hOK : HistNodeOK m hh)
    (herr : (execute h fl m ev (planTransition m s.cfg s.hist c) s).err = none) :
    (∀ r, histDefault m hh hn = some r → ∀ q, hh.dropLast <+: q →
      (q ∈ (execute h fl m ev (planTransition m s.cfg s.hist c) s).cfg ↔
        q ∈ enterStates m.root (hh.dropLast :: pathToEnter hh.dropLast r))) ∧
    (histDefault m hh hn = none → ∀ pn, m.root.at hh.dropLast = some pn → ∀ q, hh.dropLast <+: q →
      (q ∈ (execute h fl m ev (planTransition m s.cfg s.hist c) s).cfg ↔ q ∈ enterDefault hh.dropLast pn)) :=
  XSM.Hist.unvisited_uses_default_else_normal_entry h hok fl m ev c s hh hn hf hg hOK herr

-- 4. entered once ------------------------------------------------------------------------------------------------------------

/-- **each restored state is entered once**: the entry list of the plan has no duplicates -/
theorem restored_entered_once (m : Machine) (s : St) (c : Cand) (hh : Path) (hn : SNode)
    (hf : HistFire m s c hh hn)
    (hI : ∀ R, histGet s.hist hh.dropLast = some R → R ≠ [] → HistInv m.root hh.dropLast R)
    (hOK : HistNodeOK m hh) :
    ((planTransition m s.cfg s.hist c).entries.map (·.path)).Nodup :=
  XSM.Hist.restored_entered_once m s c hh hn hf hI hOK

-- 5. snapshot ------------------------------------------------------------------------------------------------------------------

/-- `histGet` is the lookup `_resolve_history_target` performs -/
theorem histGet_def (hist : List (Path × List Path)) (P : Path) :
    histGet hist P = (hist.find? (fun kv => kv.1 = P)).map (·.2) := rfl

/-- **recorded here or restored from a snapshot**: the plan reads the history only as a finite map -/
theorem snapshot_history_equiv (m : Machine) (cfg : List Path) (hist hist' : List (Path × List Path))
    (c : Cand) (hg : ∀ P, histGet hist P = histGet hist' P) :
    planTransition m cfg hist c = planTransition m cfg hist' c :=
  planTransition_hist_congr m cfg hist hist' c hg

/-- hence the whole transition is the same when the two states differ only in how the map is stored -/
theorem snapshot_execute_equiv (h : Hooks) (fl : Flavor) (m : Machine) (ev : Ev) (s : St)
    (hist' : List (Path × List Path)) (c : Cand) (hg : ∀ P, histGet s.hist P = histGet hist' P) :
    planTransition m s.cfg hist' c = planTransition m s.cfg s.hist c ∧
    (execute h fl m ev (planTransition m s.cfg hist' c) s).cfg =
      (execute h fl m ev (planTransition m s.cfg s.hist c) s).cfg := by
  have := planTransition_hist_congr m s.cfg s.hist hist' c hg
  exact ⟨this.symm, by rw [this]⟩

-- examples ------------------------------------------------------------------------------------------------------------------------
namespace Ex
/-
m (compound, initial A)        on toB: → #m.B
├─ A (compound, initial a1)
│  ├─ a1
│  ├─ a2 (compound, initial x) ── x, y
│  └─ hist (history, shallow)
├─ Pl (parallel)
│  ├─ r1 (compound, initial u) ── u, v
│  ├─ r2 (compound, initial w) ── w, z
│  └─ hd (history, deep)
└─ B                            on toA: → #m.A.hist    on toP: → #m.Pl.hd
-/
def mkT (tid : Nat) (event : String) (target : Option String) : Trans :=
  { tid, event, target, guard := none, actions := [], reenter := false, forbidden := false }
def mkD (kind : Kind) (initial : Option String := none) (on : List (String × List Trans) := [])
    (deep := false) : StateDef :=
  { kind, initial, entry := [], exit := [], on, onDone := none, after := [], invoke := [], deep,
    historyTarget := none, customId := none, tags := [] }
def leaf : SNode := .mk (mkD .atomic) []

def tA := mkT 0 "toA" (some "#m.A.hist")
def tP := mkT 1 "toP" (some "#m.Pl.hd")
def tB := mkT 2 "toB" (some "#m.B")

def hM : Machine :=
  { id := "m", maxIterations := 10, customIds := [],
    root := .mk (mkD .compound (some "A") [("toB", [tB])]) [
      ("A", .mk (mkD .compound (some "a1")) [
        ("a1", leaf),
        ("a2", .mk (mkD .compound (some "x")) [("x", leaf), ("y", leaf)]),
        ("hist", .mk (mkD .history) [])]),
      ("Pl", .mk (mkD .parallel) [
        ("r1", .mk (mkD .compound (some "u")) [("u", leaf), ("v", leaf)]),
        ("r2", .mk (mkD .compound (some "w")) [("w", leaf), ("z", leaf)]),
        ("hd", .mk (mkD .history none [] true) [])]),
      ("B", .mk (mkD .atomic none [("toA", [tA]), ("toP", [tP])]) [])] }

def exU : UEnv := { g := fun _ _ _ => .missing, a := fun _ c _ => .ok c }
def hk : Hooks := hooksFlagged exU hM

/-- in `A.a2.y`, leaving `A` -/
def sInA : St := { cfg := [[], ["A"], ["A", "a2", "y"], ["A", "a2"]], status := "running" }
/-- in `Pl.r1.v`, `Pl.r2.z`, leaving `Pl` (configuration held in an arbitrary order) -/
def sInP : St :=
  { cfg := [["Pl", "r2", "z"], [], ["Pl", "r1"], ["Pl"], ["Pl", "r1", "v"], ["Pl", "r2"]], status := "running" }

def histA : List (Path × List Path) := [(["A"], [["A", "a2"], ["A", "a2", "y"]])]
def histP : List (Path × List Path) :=
  [(["Pl"], [["Pl", "r1"], ["Pl", "r2"], ["Pl", "r1", "v"], ["Pl", "r2", "z"]])]
/-- in `B`, with history `hist` -/
def sB (hist : List (Path × List Path)) : St := { cfg := [[], ["B"]], hist, status := "running" }

-- 1. recording: sorted by (depth, id), independent of the order of the configuration
example : (recordHistory hM [["A", "a2", "y"], ["A", "a2"], ["A"]] sInA).hist = histA := by decide
example : (recordHistory hM [["Pl", "r2", "z"], ["Pl", "r1", "v"], ["Pl", "r2"], ["Pl", "r1"], ["Pl"]] sInP).hist =
    histP := by decide
example : histGet (recordHistory hM [["A", "a2", "y"], ["A", "a2"], ["A"]] sInA).hist ["Pl"] = none := by decide

-- 2. resolve: shallow → the child; deep → the leaves; unvisited → initial child / every region
example : resolveHistoryTarget hM histA ["A", "hist"] = [["A", "a2"]] := by decide
example : resolveHistoryTarget hM histP ["Pl", "hd"] = [["Pl", "r1", "v"], ["Pl", "r2", "z"]] := by decide
example : resolveHistoryTarget hM [] ["A", "hist"] = [["A", "a1"]] := by decide
example : resolveHistoryTarget hM [] ["Pl", "hd"] = [["Pl", "r1"], ["Pl", "r2"]] := by decide

-- 3./4. the restore: compound owner, shallow history — the child `a2`, then ITS default descent (`x`, not `y`)
example : (planTransition hM (sB histA).cfg histA ⟨["B"], tA⟩).entries.map (·.path) =
    [["A"], ["A", "a2"], ["A", "a2", "x"]] := by decide
example : (execute hk .sync hM (.user "toA") (planTransition hM (sB histA).cfg histA ⟨["B"], tA⟩) (sB histA)).cfg =
    [[], ["A"], ["A", "a2"], ["A", "a2", "x"]] := by decide
-- parallel owner, deep history — exactly the recorded leaves, each state entered once
example : (planTransition hM (sB histP).cfg histP ⟨["B"], tP⟩).entries.map (·.path) =
    [["Pl"], ["Pl", "r1"], ["Pl", "r1", "v"], ["Pl", "r2"], ["Pl", "r2", "z"]] := by decide
example : (execute hk .sync hM (.user "toP") (planTransition hM (sB histP).cfg histP ⟨["B"], tP⟩) (sB histP)).cfg =
    [[], ["Pl"], ["Pl", "r1"], ["Pl", "r1", "v"], ["Pl", "r2"], ["Pl", "r2", "z"]] := by decide
-- never visited: the owner's normal entry
example : (execute hk .sync hM (.user "toA") (planTransition hM (sB []).cfg [] ⟨["B"], tA⟩) (sB [])).cfg =
    [[], ["A"], ["A", "a1"]] := by decide
example : (execute hk .sync hM (.user "toP") (planTransition hM (sB []).cfg [] ⟨["B"], tP⟩) (sB [])).cfg =
    [[], ["Pl"], ["Pl", "r1"], ["Pl", "r1", "u"], ["Pl", "r2"], ["Pl", "r2", "w"]] := by decide

-- 5. a snapshot stores the same map with the owners in another order
example : planTransition hM (sB []).cfg (histP ++ histA) ⟨["B"], tA⟩ =
    planTransition hM (sB []).cfg (histA ++ histP) ⟨["B"], tA⟩ :=
  snapshot_history_equiv hM _ _ _ _ (by
    intro P
    by_cases h1 : ["A"] = P
    · subst h1; decide
    · by_cases h2 : ["Pl"] = P
      · subst h2; decide
      · simp [histGet, histA, histP, List.find?, h1, h2])

-- why the hypotheses -------------------------------------------------------------------------------------------------------------
/-
`RegOK` (every parallel state with children has a real region) in `deep_restores_exact`:
m ── O (parallel) ── r1 (compound, initial c1) ── c1 | c2 (parallel, only child: a history node)
  │               ├─ r2 (compound, initial z) ── z
  │               └─ hd (deep history)
  └─ S   on BACK: → #m.O.hd
`c2` is active but is no leaf for `_resolve_history_target` (it has a child); it is not on the way to
any leaf either, so the deep restore forgets it and region `r1` is entered by default: `c1`, not `c2`.
The library does the same.
-/
def tBack := mkT 0 "BACK" (some "#m.O.hd")
def hM2 : Machine :=
  { id := "m", maxIterations := 10, customIds := [],
    root := .mk (mkD .compound (some "O")) [
      ("O", .mk (mkD .parallel) [
        ("r1", .mk (mkD .compound (some "c1")) [
          ("c1", leaf),
          ("c2", .mk (mkD .parallel) [("hh", .mk (mkD .history) [])])]),
        ("r2", .mk (mkD .compound (some "z")) [("z", leaf)]),
        ("hd", .mk (mkD .history none [] true) [])]),
      ("S", .mk (mkD .atomic none [("BACK", [tBack])]) [])] }
def hist2 : List (Path × List Path) :=
  [(["O"], [["O", "r1"], ["O", "r2"], ["O", "r1", "c2"], ["O", "r2", "z"]])]
def s2 : St := { cfg := [[], ["S"]], hist := hist2, status := "running" }

example : (recordHistory hM2 [["O", "r1", "c2"], ["O", "r2", "z"], ["O", "r1"], ["O", "r2"], ["O"]]
    { cfg := [[], ["O"], ["O", "r1"], ["O", "r1", "c2"], ["O", "r2"], ["O", "r2", "z"]] }).hist = hist2 := by decide
example : resolveHistoryTarget hM2 hist2 ["O", "hd"] = [["O", "r2", "z"]] := by decide
example : (execute (hooksFlagged exU hM2) .sync hM2 (.user "BACK")
    (planTransition hM2 s2.cfg s2.hist ⟨["S"], tBack⟩) s2).cfg =
    [[], ["O"], ["O", "r1"], ["O", "r1", "c1"], ["O", "r2"], ["O", "r2", "z"]] := by decide

/-
`HistNodeOK.default_inside` (the default target lies inside the owner) in `legal_microstep_history`:
m ── X (compound, initial s) ── s   on GO: → #m.X.A.h
  │                          └─ A (compound, initial a1) ── a1 | h (history, target "#m.B")
  └─ B
The transition domain is `X`; the default target `B` is not below it, so `_get_path_to_state` walks to
the root: `m` and `B` are entered while `X` stays active without a child — not a legal configuration.
The library does the same.
-/
def tGo := mkT 0 "GO" (some "#m.X.A.h")
def hM3 : Machine :=
  { id := "m", maxIterations := 10, customIds := [],
    root := .mk (mkD .compound (some "X")) [
      ("X", .mk (mkD .compound (some "s")) [
        ("s", .mk (mkD .atomic none [("GO", [tGo])]) []),
        ("A", .mk (mkD .compound (some "a1")) [
          ("a1", leaf),
          ("h", .mk { mkD .history with historyTarget := some "#m.B" } [])])]),
      ("B", leaf)] }
def s3 : St := { cfg := [[], ["X"], ["X", "s"]], status := "running" }

example : resolveHistoryTarget hM3 [] ["X", "A", "h"] = [["B"]] := by decide
example : (execute (hooksFlagged exU hM3) .sync hM3 (.user "GO")
    (planTransition hM3 s3.cfg s3.hist ⟨["X", "s"], tGo⟩) s3).cfg = [[], ["X"], ["B"]] := by decide

end Ex
end XSM.C11
