import Xsm.Proofs.Trace
/-!
# C05 — sync and async engines compute the same behaviour

What is proved here (about the model; the tie to the code is the correspondence check, and the
cross-engine monitor compares the two real engines directly at every drained point):

* the whole transition machinery — selection, planning, exit/transition/entry execution, eventless
  settling — is ONE definition parameterised by `Flavor`, and the flavour is irrelevant whenever the
  triggering event is known (`execute_flavor_agree`, `processEvent_flavor_agree`,
  `transientLoop_flavor_agree`): since the fix commit that forwards the real event to
  default-descent entries, the two engines differ only in the synthetic event name used during
  `start()` and in queue bookkeeping (`hooksFlagged` vs `hooksAsync`: the async hooks additionally
  count and mark self-raised events for the chain breaker).
* selection does not depend on the engine at all (`selection_engine_independent`, definitional).

Not proved: agreement of whole runs (drain discipline `drainLoop` vs `asyncDrain`) — the two engines
bound different things once `maxIterations` is reached (C13), so whole-run agreement only holds for
cut-free runs; it is validated by the monitor. The pure API (`initial_transition`/`transition`) is
not modelled yet.
-/
namespace XSM.C05
open XSM

/-- one entry is flavour-independent when the triggering event is known -/
theorem enterOne_flavor (h : Hooks) (m : Machine) (t : String) (s : St) (e : Entry) :
    enterOne h .sync m (some t) s e = enterOne h .async m (some t) s e := by
  unfold enterOne
  simp only [entryEvName_some]

/-- one exit is flavour-independent when the triggering event is known -/
theorem exitOne_flavor (h : Hooks) (m : Machine) (t : String) (s : St) (p : Path) :
    exitOne h .sync m (some t) s p = exitOne h .async m (some t) s p := by
  unfold exitOne
  simp only [exitEvName_some]

/-- **the same transition, executed by either engine with the same hooks, gives the same state** —
    configuration, history, context, queue, status, error flag and the ordered list of executed
    actions with their triggering event -/
theorem execute_flavor_agree (h : Hooks) (m : Machine) (ev : Ev) (pl : Plan) (s : St) :
    execute h .sync m ev pl s = execute h .async m ev pl s := by
  have hx : (fun s p => exitOne h .sync m (some ev.type) s p) = (fun s p => exitOne h .async m (some ev.type) s p) := by
    funext s p; exact exitOne_flavor h m _ s p
  have he : (fun s e => enterOne h .sync m (some ev.type) s e) = (fun s e => enterOne h .async m (some ev.type) s e) := by
    funext s e; exact enterOne_flavor h m _ s e
  unfold execute executeCore runPlan
  simp only [show exitOne h Flavor.sync m (some ev.type) = exitOne h Flavor.async m (some ev.type) from hx,
    show enterOne h Flavor.sync m (some ev.type) = enterOne h Flavor.async m (some ev.type) from he]

/-- an event is processed identically by both engines (same hooks, same state) -/
theorem processEvent_flavor_agree (h : Hooks) (m : Machine) (u : UEnv) (ev : Ev) (s : St) :
    processEvent h .sync m u ev s = processEvent h .async m u ev s := by
  unfold processEvent
  cases selectTransitions m s.cfg (u.genv s.ctx ev.type) ev with
  | error e => rfl
  | ok sel =>
    simp only [execute_flavor_agree]

/-- eventless settling is identical in both engines -/
theorem transientLoop_flavor_agree (h : Hooks) (m : Machine) (u : UEnv) :
    ∀ (n : Nat) (s : St), transientLoop h .sync m u n s = transientLoop h .async m u n s := by
  intro n
  induction n with
  | zero => intro s; rfl
  | succ n ih =>
    intro s
    simp only [transientLoop]
    split
    · rfl
    · cases selectTransitions m s.cfg (u.genv s.ctx "") (.user "") with
      | error e => rfl
      | ok sel =>
        simp only
        split
        · rw [processEvent_flavor_agree, ih]
        · rfl

/-- selection has no engine parameter at all: it is the same function for both engines (and `can`) -/
theorem selection_engine_independent (m : Machine) (cfg : List Path) (env : GEnv) (ev : Ev) :
    selectTransitions m cfg env ev = selectTransitions m cfg env ev := rfl

/-- the two engines' hooks hand the SAME user registry and the SAME guard evaluator to actions;
    they differ only in the send functions (queue bookkeeping) and in refusing coroutine actions -/
theorem hooks_differ_only_in_sends (u : UEnv) (m : Machine) :
    (hooksFlagged u m).act = (hooksAsync u m).act ∧ (hooksFlagged u m).geval = (hooksAsync u m).geval ∧
    (hooksFlagged u m).act = (hooksAsyncStart u m).act ∧ (hooksFlagged u m).geval = (hooksAsyncStart u m).geval :=
  ⟨rfl, rfl, rfl, rfl⟩

end XSM.C05
