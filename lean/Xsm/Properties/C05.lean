import Xsm.Proofs.Trace
import Xsm.Proofs.Pure
/-!
# C05 — sync, async and pure engines compute the same behaviour

What is proved here (about the model; the tie to the code is the correspondence check, and the
cross-engine monitor compares the two real engines directly at every drained point):

* the whole transition machinery — selection, planning, exit/transition/entry execution, eventless
  settling — is ONE definition parameterised by `Flavor`, and the flavour is irrelevant whenever the
  triggering event is known (`execute_flavor_agree`, `processEvent_flavor_agree`,
  `transientLoop_flavor_agree`): since the fix commit that forwards the real event to
  default-descent entries, the two engines differ only in the synthetic event name used during
  `start()` and in queue bookkeeping (`hooksFlagged` vs `hooksAsync`: the async hooks additionally
  count and mark self-raised events for the chain breaker).
* selection does not depend on the engine at all (`selection_engine_independent`, definitional).

Not proved: agreement of whole runs (drain discipline `drainLoop` vs `asyncDrain`) — the two engines
bound different things once `maxIterations` is reached (C13), so whole-run agreement only holds for
cut-free runs; it is validated by the monitor.

The pure API (`initial_transition` / `transition`, with the repairs of findings F4, F5, F32) is modelled in
`Xsm/Model/Pure.lean` FROM the sync engine's own definitions (the probe is a `SyncInterpreter` subclass):
see the last section of this file, "the pure functions".
-/
namespace XSM.C05
open XSM

/-- one entry is flavour-independent when the triggering event is known -/
theorem enterOne_flavor (h : Hooks) (m : Machine) (t : String) (s : St) (e : Entry) :
    enterOne h .sync m (some t) s e = enterOne h .async m (some t) s e := by
  unfold enterOne
  simp only [entryEvName_some]

/-- one exit is flavour-independent when the triggering event is known -/
theorem exitOne_flavor (h : Hooks) (m : Machine) (t : String) (s : St) (p : Path) :
    exitOne h .sync m (some t) s p = exitOne h .async m (some t) s p := by
  unfold exitOne
  simp only [exitEvName_some]

/-- **the same transition, executed by either engine with the same hooks, gives the same state** —
    configuration, history, context, queue, status, error flag and the ordered list of executed
    actions with their triggering event -/
theorem execute_flavor_agree (h : Hooks) (m : Machine) (ev : Ev) (pl : Plan) (s : St) :
    execute h .sync m ev pl s = execute h .async m ev pl s := by
  have hx : (fun s p => exitOne h .sync m (some ev.type) s p) = (fun s p => exitOne h .async m (some ev.type) s p) := by
    funext s p; exact exitOne_flavor h m _ s p
  have he : (fun s e => enterOne h .sync m (some ev.type) s e) = (fun s e => enterOne h .async m (some ev.type) s e) := by
    funext s e; exact enterOne_flavor h m _ s e
  unfold execute executeCore runPlan
  simp only [show exitOne h Flavor.sync m (some ev.type) = exitOne h Flavor.async m (some ev.type) from hx,
    show enterOne h Flavor.sync m (some ev.type) = enterOne h Flavor.async m (some ev.type) from he]

/-- an event is processed identically by both engines (same hooks, same state) -/
theorem processEvent_flavor_agree (h : Hooks) (m : Machine) (u : UEnv) (ev : Ev) (s : St) :
    processEvent h .sync m u ev s = processEvent h .async m u ev s := by
  unfold processEvent
  cases selectTransitions m s.cfg (u.genv s.ctx ev.type) ev with
  | error e => rfl
  | ok sel =>
    simp only [execute_flavor_agree]

/-- eventless settling is identical in both engines -/
theorem transientLoop_flavor_agree (h : Hooks) (m : Machine) (u : UEnv) :
    ∀ (n : Nat) (s : St), transientLoop h .sync m u n s = transientLoop h .async m u n s := by
  intro n
  induction n with
  | zero => intro s; rfl
  | succ n ih =>
    intro s
    simp only [transientLoop]
    split
    · rfl
    · cases selectTransitions m s.cfg (u.genv s.ctx "") (.user "") with
      | error e => rfl
      | ok sel =>
        simp only
        split
        · rw [processEvent_flavor_agree, ih]
        · rfl

/-- selection has no engine parameter at all: it is the same function for both engines (and `can`) -/
theorem selection_engine_independent (m : Machine) (cfg : List Path) (env : GEnv) (ev : Ev) :
    selectTransitions m cfg env ev = selectTransitions m cfg env ev := rfl

/-- the two engines' hooks hand the SAME user registry and the SAME guard evaluator to actions;
    they differ only in the send functions (queue bookkeeping) and in refusing coroutine actions -/
theorem hooks_differ_only_in_sends (u : UEnv) (m : Machine) :
    (hooksFlagged u m).act = (hooksAsync u m).act ∧ (hooksFlagged u m).geval = (hooksAsync u m).geval ∧
    (hooksFlagged u m).act = (hooksAsyncStart u m).act ∧ (hooksFlagged u m).geval = (hooksAsyncStart u m).geval :=
  ⟨rfl, rfl, rfl, rfl⟩

/-! ## The pure functions (`initial_transition`, `transition`; `Xsm/Model/Pure.lean`)

The probe is the sync engine over `pureEnv u` (user actions recorded, never called; `assign` / `raise` /
`choose` interpreted by the engine's own built-in path; nothing scheduled). `pureInitial m u` is
`probe.start()`, `pureTransition m u snap ev` is `probe.send(ev)` from the probe restored from `snap`,
`pureChain` chains the calls as a caller does. A call returns `.ok (snapshot, reported action names)` or
`.error e` (the exception it raises). What is proved, for every machine, user environment and event list:

* `pure_runs_no_user_code`, `pure_act_outcomes_ignored` — what an action DOES never matters;
* `pure_agrees_with_sync`, `pure_agrees_with_sync_stepwise` — the formal counterpart of the monitor
  `c05_pure`: under the API's premise `ActsQuiet u` the chained pure calls return, call by call, exactly
  what the sync engine's `start()` / `send()` produce (configuration, status, context, remembered history,
  reported = executed user actions in order) up to and including the first call that raises — bound cuts
  included, because the probe IS the engine and cuts the same chains;
* `pure_done_is_terminal` (F5 repaired), `pure_snapshot_roundtrip` (F4 repaired: the history travels).

`pure_inputs_untouched` (the machine definition and the snapshot handed in are not modified) holds by
construction in a functional model — `pureTransition` returns new values and has nothing to mutate — so no
theorem is stated for it; on the implementation it is checked by fingerprints (`multichecks.c05_pure`).

Only validated (tie `harness/xsmverif/c05pure.py`, `driver_pure`): that the model is the code; the built-in
entries of the reported list (the engine model logs user actions only); non-integer context values, `output`,
event payloads, delays, and the built-ins whose only effect is outside the engine model. -/

open XSM.Pure XSM.Snap

/-- **the pure functions run no user code (1): what an action does is never consulted.** Two user
    environments with the same guards that REGISTER the same action names (whatever those actions do:
    change the context, raise, be coroutines) give the same initial snapshot, the same result of every
    `transition()` call and hence of every chain of calls. -/
theorem pure_runs_no_user_code (m : Machine) (u1 u2 : UEnv) (hg : u1.g = u2.g) (hr : SameRegistered u1 u2) :
    pureInitial m u1 = pureInitial m u2 ∧
    (∀ p ev, pureTransition m u1 p ev = pureTransition m u2 p ev) ∧
    (∀ p evs, pureChain m u1 p evs = pureChain m u2 p evs) := by
  have h : pureEnv u1 = pureEnv u2 := pureEnv_congr hg hr
  have ht : ∀ p ev, pureTransition m u1 p ev = pureTransition m u2 p ev := by
    intro p ev; unfold pureTransition; rw [h]
  refine ⟨by unfold pureInitial; rw [h], ht, ?_⟩
  intro p evs
  induction evs generalizing p with
  | nil => rfl
  | cons e es ih => simp only [pureChain, ht, ih]

/-- **… (2), at the level of the hooks:** the only answers the probe's action hook ever gives are
    "recorded, context exactly as it was" and "not a user action" (then the name is an unregistered
    built-in and the engine's built-in path runs); it never fails, never is a coroutine, never returns
    another context. Its sends only enqueue (`enqueue`: nothing is delivered anywhere else). -/
theorem pure_act_outcomes_ignored (u : UEnv) (m : Machine) (n : String) (c : Ctx) (e : String) :
    ((pureHooks u m).act n c e = .ok c ∨
      ((pureHooks u m).act n c e = .missing ∧ u.a n c e = .missing ∧ (canonicalBuiltin n).isSome = true)) ∧
    (pureHooks u m).snd = enqueue ∧ (pureHooks u m).sndRaise = enqueue :=
  ⟨pureAct_cases u n c e, rfl, rfl⟩

/-- **the pure functions agree with the sync engine** (the formal counterpart of the monitor). For a user
    environment in which context changes only through `assign` (`ActsQuiet`: every action is a registered
    function that returns normally and leaves the context alone, or a built-in the user did not override):
    `initial_transition` returns what `start()` produces, and — when `start()` does not raise — the chain
    of `transition()` calls over ANY event list returns, call by call, what `send()` produces from the
    engine's own previous state (`syncChain`: `cmdO .sync`, observed through `capture` / `reported`):
    same configuration, status, context and remembered history, the reported list equal to the executed
    user actions in order, and the same exception at the first call that raises (where both chains end).
    Covered: every run up to and including the first raising call; `maxIterations` cuts included. -/
theorem pure_agrees_with_sync (m : Machine) (u : UEnv) (hu : ActsQuiet u) (evs : List Ev) :
    pureInitial m u = observe (syncStart m u {}) ∧
    ((syncStart m u {}).err = none →
      pureChain m u (capture (syncStart m u {})) evs = syncChain m u (syncStart m u {}) evs) := by
  refine ⟨by unfold pureInitial; rw [pureEnv_of_quiet hu], fun he => ?_⟩
  exact pureChain_eq_syncChain m u hu evs _ (syncStart_quiescent m u he)

/-- the same, spelled out for runs in which no call raises: the pure API's k-th result is
    `.ok (capture sₖ, reported sₖ)` where `sₖ` is the sync engine's state after the k-th `send` -/
theorem pure_agrees_with_sync_stepwise (m : Machine) (u : UEnv) (hu : ActsQuiet u) (evs : List Ev)
    (h0 : (syncStart m u {}).err = none)
    (hok : ∀ x ∈ syncStates m u (syncStart m u {}) evs, x.err = none) :
    pureInitial m u = .ok (capture (syncStart m u {}), reported (syncStart m u {})) ∧
    pureChain m u (capture (syncStart m u {})) evs =
      (syncStates m u (syncStart m u {}) evs).map (fun x => .ok (capture x, reported x)) := by
  obtain ⟨h1, h2⟩ := pure_agrees_with_sync m u hu evs
  exact ⟨by rw [h1, observe_of_ok h0], by rw [h2 h0, syncChain_of_ok m u evs _ hok]⟩

/-- every state the sync engine is in between two calls (none of which raised) is `Quiescent`: nothing
    queued, status running or done, remembered lists in recorded order — what `capture` loses nothing of -/
theorem sync_states_quiescent (m : Machine) (u : UEnv) (h0 : (syncStart m u {}).err = none) :
    Quiescent m (syncStart m u {}) ∧
    ∀ (s : St) (e : Ev), Quiescent m s → (cmdO .sync m u s e).err = none → Quiescent m (cmdO .sync m u s e) :=
  ⟨syncStart_quiescent m u h0, fun s e hq he => syncSend_quiescent m u e _ hq.obsReset he⟩

/-- **a finished snapshot is terminal (F5 repaired):** `transition()` on a snapshot whose status is not
    "active" returns it unchanged, reports no actions and raises nothing — whatever the event, the
    machine and the user code; so does any chain of calls. -/
theorem pure_done_is_terminal (m : Machine) (u : UEnv) (p : PureSnap) (h : p.status ≠ "active") :
    (∀ ev, pureTransition m u p ev = .ok (p, [])) ∧
    (∀ evs, pureChain m u p evs = evs.map (fun _ => .ok (p, []))) := by
  have ht : ∀ ev, pureTransition m u p ev = .ok (p, []) := by
    intro ev; unfold pureTransition; rw [if_neg h]
  refine ⟨ht, fun evs => ?_⟩
  induction evs with
  | nil => rfl
  | cons e es ih => simp only [pureChain, ht, ih, List.map_cons]

/-- **capture ∘ restore and restore ∘ capture (F4 repaired: the history travels with the snapshot).**
    Restoring an active snapshot whose remembered lists are in recorded order and capturing again gives
    the snapshot back — configuration, context, status and history; and restoring what was captured from
    a running quiescent engine state gives that state back (with the observation of the previous call
    cleared), so nothing the next call depends on is lost. `DISorted` holds for every snapshot the API
    returns (`recorded_lists_sorted`, C12: `_record_history` only ever stores such lists). -/
theorem pure_snapshot_roundtrip (m : Machine) :
    (∀ p : PureSnap, p.status = "active" → DISorted m p.hist → capture (restorePure m p) = p) ∧
    (∀ s : St, Quiescent m s → s.status = "running" → restorePure m (capture s) = obsReset s) :=
  ⟨capture_restore m, restore_capture m⟩

/-! ### Non-vacuity: a machine with a `raise`, a `choose` (with an `assign`) and a history state

```
m (initial A, context n = 0)
├─ A (initial a1)   on OUT → #m.o          entry en:A
│  ├─ a1            on N → a2              entry en:a1
│  ├─ a2                                   entry en:a2
│  └─ h (history, shallow)
├─ o                on BACK → #m.A.h       entry en:o
│                   on GO: actions tr, choose[ g → yes, assign n := 1, raise NEXT | else → no ], after
│                   on NEXT → #m.f
└─ f (final)                               entry en:f
```
-/
namespace PureEx
def mkT (tid : Nat) (event : String) (target : Option String) (actions : List ActionRef := []) : Trans :=
  { tid, event, target, guard := none, actions, reenter := false, forbidden := false }
def mkD (kind : Kind) (initial : Option String := none) (on : List (String × List Trans) := [])
    (entry : List ActionRef := []) : StateDef :=
  { kind, initial, entry, exit := [], on, onDone := none, after := [], invoke := [], deep := false,
    historyTarget := none, customId := none, tags := [] }
def chooseP : J := .obj [("conditions", .arr [
  .obj [("guard", .str "g"), ("actions", .arr [.str "yes",
      .obj [("type", .str "assign"), ("params", .obj [("assignment", .obj [("n", .num 1)])])],
      .obj [("type", .str "xstate.raise"), ("params", .obj [("event", .str "NEXT")])]])],
  .obj [("actions", .arr [.str "no"])]])]
def pM : Machine :=
  { id := "m", maxIterations := 10, customIds := [], ctx0 := [("n", 0)],
    root := .mk (mkD .compound (some "A")) [
      ("A", .mk (mkD .compound (some "a1") [("OUT", [mkT 0 "OUT" (some "#m.o")])] [⟨"en:A", none⟩]) [
        ("a1", .mk (mkD .atomic none [("N", [mkT 1 "N" (some "a2")])] [⟨"en:a1", none⟩]) []),
        ("a2", .mk (mkD .atomic none [] [⟨"en:a2", none⟩]) []),
        ("h", .mk (mkD .history) [])]),
      ("o", .mk (mkD .atomic none [("BACK", [mkT 2 "BACK" (some "#m.A.h")]),
                                   ("GO", [mkT 3 "GO" none [⟨"tr", none⟩, ⟨"choose", some chooseP⟩, ⟨"after", none⟩]]),
                                   ("NEXT", [mkT 4 "NEXT" (some "#m.f")])] [⟨"en:o", none⟩]) []),
      ("f", .mk (mkD .final none [] [⟨"en:f", none⟩]) [])] }
/-- user code within the API's premise: the guard `g` holds; every non-built-in name is a marker action -/
def pU : UEnv :=
  { g := fun n _ _ => if n = "g" then .t else .missing,
    a := fun n c _ => if (canonicalBuiltin n).isSome then .missing else .ok c }
/-- user code OUTSIDE the premise: `en:o` raises, `tr` rewrites the context, `yes` is a coroutine -/
def pUwild : UEnv :=
  { g := pU.g,
    a := fun n c _ => if (canonicalBuiltin n).isSome then .missing
      else if n = "en:o" then .raises else if n = "tr" then .ok (ctxSet c "n" 7)
      else if n = "yes" then .isAsync c else .ok c }
def pEvs : List Ev := [.user "N", .user "OUT", .user "BACK", .user "OUT", .user "GO", .user "X"]
def snapOf (cfg : List Path) (n : Int) (status : String) (hist : List (Path × List Path)) : PureSnap :=
  { cfg, ctx := [("n", n)], status, hist }
/-- a call's result when it did not raise (`Except` has no decidable equality of its own) -/
def okOf {α} : Except EErr α → Option α
  | .ok r => some r
  | .error _ => none
end PureEx
open PureEx

theorem pU_quiet : ActsQuiet pU := by
  intro n c e
  by_cases h : (canonicalBuiltin n).isSome = true
  · right; exact ⟨by simp only [pU, h, if_true], h⟩
  · left; simp only [pU, h]; rfl

/-- `initial_transition`: the initial configuration and the entry actions, nothing remembered yet -/
example : okOf (pureInitial pM pU) = some (snapOf [[], ["A"], ["A", "a1"]] 0 "active" [], ["en:A", "en:a1"]) := by decide

/-- the chain `N, OUT, BACK, OUT, GO, X`. `BACK` (third call) re-enters `a2`: the history recorded by the
    SECOND call travelled in the snapshot (F4). `GO` (fifth call): `choose` is expanded (`yes`, not `no`),
    `assign` sets `n`, the raised `NEXT` is processed within the same call and completes the machine
    (`en:f`, status "done") (F32). `X` (sixth call) is ignored by the finished snapshot (F5). -/
example : (pureChain pM pU (snapOf [[], ["A"], ["A", "a1"]] 0 "active" []) pEvs).map okOf =
    [some (snapOf [[], ["A"], ["A", "a2"]] 0 "active" [(["A"], [["A", "a1"]])], ["en:a2"]),
     some (snapOf [[], ["o"]] 0 "active" [(["A"], [["A", "a2"]])], ["en:o"]),
     some (snapOf [[], ["A"], ["A", "a2"]] 0 "active" [(["A"], [["A", "a2"]])], ["en:A", "en:a2"]),
     some (snapOf [[], ["o"]] 0 "active" [(["A"], [["A", "a2"]])], ["en:o"]),
     some (snapOf [[], ["f"]] 1 "done" [(["A"], [["A", "a2"]])], ["tr", "yes", "after", "en:f"]),
     some (snapOf [[], ["f"]] 1 "done" [(["A"], [["A", "a2"]])], [])] := by decide +kernel

/-- the hypotheses of `pure_agrees_with_sync_stepwise` hold on this run (no call of the sync engine raises),
    and its conclusion, evaluated: the sync engine goes through the same six observations -/
example : (syncStart pM pU {}).err = none ∧ ∀ x ∈ syncStates pM pU (syncStart pM pU {}) pEvs, x.err = none := by
  decide +kernel
example : (syncStates pM pU (syncStart pM pU {}) pEvs).map (fun x => ((capture x).cfg, (capture x).status, reported x)) =
    [([[], ["A"], ["A", "a2"]], "active", ["en:a2"]), ([[], ["o"]], "active", ["en:o"]),
     ([[], ["A"], ["A", "a2"]], "active", ["en:A", "en:a2"]), ([[], ["o"]], "active", ["en:o"]),
     ([[], ["f"]], "done", ["tr", "yes", "after", "en:f"]), ([[], ["f"]], "done", [])] := by decide +kernel

/-- `pure_runs_no_user_code`, instantiated: user code that raises, rewrites the context or is a coroutine
    registers the same names as the marker actions, so the pure results are the same … -/
example : SameRegistered pU pUwild := by
  intro n c e
  by_cases h : (canonicalBuiltin n).isSome = true
  · simp only [pU, pUwild, h, if_true]
  · simp only [pU, pUwild, h]
    constructor
    · intro hh; cases hh
    · intro hh
      by_cases h1 : n = "en:o"
      · simp only [h1, if_true] at hh; cases hh
      · by_cases h2 : n = "tr"
        · simp only [h1, h2, if_true, if_false] at hh; cases hh
        · by_cases h3 : n = "yes"
          · simp only [h1, h2, h3, if_true, if_false] at hh; cases hh
          · simp only [h1, h2, h3, if_false] at hh; cases hh
example : (pureChain pM pUwild (snapOf [[], ["A"], ["A", "a1"]] 0 "active" []) pEvs).map okOf =
    (pureChain pM pU (snapOf [[], ["A"], ["A", "a1"]] 0 "active" []) pEvs).map okOf := by decide +kernel
/-- … while the REAL engine, which does run that code, ends elsewhere (the premise `ActsQuiet` of
    `pure_agrees_with_sync` is necessary: here the context differs after `GO`, and `yes` being a coroutine
    makes the sync engine raise) -/
example : ((syncStates pM pUwild (syncStart pM pUwild {}) pEvs).map (fun x => (x.ctx, x.err.isSome))) ≠
    ((syncStates pM pU (syncStart pM pU {}) pEvs).map (fun x => (x.ctx, x.err.isSome))) := by decide +kernel

/-- `pure_done_is_terminal` and `pure_snapshot_roundtrip` on the witness: the snapshot after `GO` is not
    active; the snapshot after `OUT` is active with a sorted history and survives restore + capture -/
example : (snapOf [[], ["f"]] 1 "done" [(["A"], [["A", "a2"]])]).status ≠ "active" := by decide
example : capture (restorePure pM (snapOf [[], ["o"]] 0 "active" [(["A"], [["A", "a2"]])])) =
    snapOf [[], ["o"]] 0 "active" [(["A"], [["A", "a2"]])] := by decide
example : DISorted pM [(["A"], [["A", "a2"]])] := by
  intro kv hkv
  simp only [List.mem_singleton] at hkv
  subst hkv
  exact List.pairwise_singleton _ _

end XSM.C05
