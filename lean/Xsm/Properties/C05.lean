import Xsm.Proofs.Trace
import Xsm.Proofs.Pure
import Xsm.Proofs.Agree
/-!
# C05 — sync, async and pure engines compute the same behaviour

What is proved here (about the model; the tie to the code is the correspondence check, and the
cross-engine monitor compares the two real engines directly at every drained point):

* the whole transition machinery — selection, planning, exit/transition/entry execution, eventless
  settling — is ONE definition parameterised by `Flavor`, and the flavour is irrelevant whenever the
  triggering event is known (`execute_flavor_agree`, `processEvent_flavor_agree`,
  `transientLoop_flavor_agree`): since the fix commit that forwards the real event to
  default-descent entries, the two engines differ only in the synthetic event name used during
  `start()` and in queue bookkeeping (`hooksFlagged` vs `hooksAsync`: the async hooks additionally
  count and mark self-raised events for the chain breaker).
* selection does not depend on the engine at all (`selection_engine_independent`, definitional).

Agreement of whole runs (drain discipline `drainLoop` vs `asyncDrain`) is proved in the section "whole
runs" at the end of this file (`send_agree`, `start_agree`, `run_agree`): the two engines bound different
things once `maxIterations` is reached (C13), so whole-run agreement holds for cut-free runs only (and the
side condition is necessary: see the last example); the monitor validates it on the real engines.

The pure API (`initial_transition` / `transition`, with the repairs of findings F4, F5, F32) is modelled in
`Xsm/Model/Pure.lean` FROM the sync engine's own definitions (the probe is a `SyncInterpreter` subclass):
see the last section of this file, "the pure functions".
-/
namespace XSM.C05
open XSM

/-- one entry is flavour-independent when the triggering event is known -/
theorem enterOne_flavor (h : Hooks) (m : Machine) (t : String) (s : St) (e : Entry) :
    enterOne h .sync m (some t) s e = enterOne h .async m (some t) s e := by
  unfold enterOne
  simp only [entryEvName_some]

/-- one exit is flavour-independent when the triggering event is known -/
theorem exitOne_flavor (h : Hooks) (m : Machine) (t : String) (s : St) (p : Path) :
    exitOne h .sync m (some t) s p = exitOne h .async m (some t) s p := by
  unfold exitOne
  simp only [exitEvName_some]

/-- **the same transition, executed by either engine with the same hooks, gives the same state** —
    configuration, history, context, queue, status, error flag and the ordered list of executed
    actions with their triggering event -/
theorem execute_flavor_agree (h : Hooks) (m : Machine) (ev : Ev) (pl : Plan) (s : St) :
    execute h .sync m ev pl s = execute h .async m ev pl s := by
  have hx : (fun s p => exitOne h .sync m (some ev.type) s p) = (fun s p => exitOne h .async m (some ev.type) s p) := by
    funext s p; exact exitOne_flavor h m _ s p
  have he : (fun s e => enterOne h .sync m (some ev.type) s e) = (fun s e => enterOne h .async m (some ev.type) s e) := by
    funext s e; exact enterOne_flavor h m _ s e
  unfold execute executeCore runPlan
  simp only [show exitOne h Flavor.sync m (some ev.type) = exitOne h Flavor.async m (some ev.type) from hx,
    show enterOne h Flavor.sync m (some ev.type) = enterOne h Flavor.async m (some ev.type) from he]

/-- an event is processed identically by both engines (same hooks, same state) -/
theorem processEvent_flavor_agree (h : Hooks) (m : Machine) (u : UEnv) (ev : Ev) (s : St) :
    processEvent h .sync m u ev s = processEvent h .async m u ev s := by
  unfold processEvent
  cases selectTransitions m s.cfg (u.genv s.ctx ev.type) ev with
  | error e => rfl
  | ok sel =>
    simp only [execute_flavor_agree]

/-- eventless settling is identical in both engines -/
theorem transientLoop_flavor_agree (h : Hooks) (m : Machine) (u : UEnv) :
    ∀ (n : Nat) (s : St), transientLoop h .sync m u n s = transientLoop h .async m u n s := by
  intro n
  induction n with
  | zero => intro s; rfl
  | succ n ih =>
    intro s
    simp only [transientLoop]
    split
    · rfl
    · cases selectTransitions m s.cfg (u.genv s.ctx "") (.user "") with
      | error e => rfl
      | ok sel =>
        simp only
        split
        · rw [processEvent_flavor_agree, ih]
        · rfl

/-- selection has no engine parameter at all: it is the same function for both engines (and `can`) -/
theorem selection_engine_independent (m : Machine) (cfg : List Path) (env : GEnv) (ev : Ev) :
    selectTransitions m cfg env ev = selectTransitions m cfg env ev := rfl

/-- the two engines' hooks hand the SAME user registry and the SAME guard evaluator to actions;
    they differ only in the send functions (queue bookkeeping) and in refusing coroutine actions -/
theorem hooks_differ_only_in_sends (u : UEnv) (m : Machine) :
    (hooksFlagged u m).act = (hooksAsync u m).act ∧ (hooksFlagged u m).geval = (hooksAsync u m).geval ∧
    (hooksFlagged u m).act = (hooksAsyncStart u m).act ∧ (hooksFlagged u m).geval = (hooksAsyncStart u m).geval :=
  ⟨rfl, rfl, rfl, rfl⟩

/-! ## The pure functions (`initial_transition`, `transition`; `Xsm/Model/Pure.lean`)

The probe is the sync engine over `pureEnv u` (user actions recorded, never called; `assign` / `raise` /
`choose` interpreted by the engine's own built-in path; nothing scheduled). `pureInitial m u` is
`probe.start()`, `pureTransition m u snap ev` is `probe.send(ev)` from the probe restored from `snap`,
`pureChain` chains the calls as a caller does. A call returns `.ok (snapshot, reported action names)` or
`.error e` (the exception it raises). What is proved, for every machine, user environment and event list:

* `pure_runs_no_user_code`, `pure_act_outcomes_ignored` — what an action DOES never matters;
* `pure_agrees_with_sync`, `pure_agrees_with_sync_stepwise` — the formal counterpart of the monitor
  `c05_pure`: under the API's premise `ActsQuiet u` the chained pure calls return, call by call, exactly
  what the sync engine's `start()` / `send()` produce (configuration, status, context, remembered history,
  reported = executed user actions in order) up to and including the first call that raises — bound cuts
  included, because the probe IS the engine and cuts the same chains;
* `pure_done_is_terminal` (F5 repaired), `pure_snapshot_roundtrip` (F4 repaired: the history travels).

`pure_inputs_untouched` (the machine definition and the snapshot handed in are not modified) holds by
construction in a functional model — `pureTransition` returns new values and has nothing to mutate — so no
theorem is stated for it; on the implementation it is checked by fingerprints (`multichecks.c05_pure`).

Only validated (tie `harness/xsmverif/c05pure.py`, `driver_pure`): that the model is the code; the built-in
entries of the reported list (the engine model logs user actions only); non-integer context values, `output`,
event payloads, delays, and the built-ins whose only effect is outside the engine model. -/

open XSM.Pure XSM.Snap

/-- **the pure functions run no user code (1): what an action does is never consulted.** Two user
    environments with the same guards that REGISTER the same action names (whatever those actions do:
    change the context, raise, be coroutines) give the same initial snapshot, the same result of every
    `transition()` call and hence of every chain of calls. -/
theorem pure_runs_no_user_code (m : Machine) (u1 u2 : UEnv) (hg : u1.g = u2.g) (hr : SameRegistered u1 u2) :
    pureInitial m u1 = pureInitial m u2 ∧
    (∀ p ev, pureTransition m u1 p ev = pureTransition m u2 p ev) ∧
    (∀ p evs, pureChain m u1 p evs = pureChain m u2 p evs) := by
  have h : pureEnv u1 = pureEnv u2 := pureEnv_congr hg hr
  have ht : ∀ p ev, pureTransition m u1 p ev = pureTransition m u2 p ev := by
    intro p ev; unfold pureTransition; rw [h]
  refine ⟨by unfold pureInitial; rw [h], ht, ?_⟩
  intro p evs
  induction evs generalizing p with
  | nil => rfl
  | cons e es ih => simp only [pureChain, ht, ih]

/-- **… (2), at the level of the hooks:** the only answers the probe's action hook ever gives are
    "recorded, context exactly as it was" and "not a user action" (then the name is an unregistered
    built-in and the engine's built-in path runs); it never fails, never is a coroutine, never returns
    another context. Its sends only enqueue (`enqueueQ true`: marked, as every send the sync engine makes while
    `_is_processing` is set; nothing is delivered anywhere else). -/
theorem pure_act_outcomes_ignored (u : UEnv) (m : Machine) (n : String) (c : Ctx) (e : String) :
    ((pureHooks u m).act n c e = .ok c ∨
      ((pureHooks u m).act n c e = .missing ∧ u.a n c e = .missing ∧ (canonicalBuiltin n).isSome = true)) ∧
    (pureHooks u m).snd = enqueueQ true ∧ (pureHooks u m).sndRaise = enqueueQ true :=
  ⟨pureAct_cases u n c e, rfl, rfl⟩

/-- **the pure functions agree with the sync engine** (the formal counterpart of the monitor). For a user
    environment in which context changes only through `assign` (`ActsQuiet`: every action is a registered
    function that returns normally and leaves the context alone, or a built-in the user did not override):
    `initial_transition` returns what `start()` produces, and — when `start()` does not raise — the chain
    of `transition()` calls over ANY event list returns, call by call, what `send()` produces from the
    engine's own previous state (`syncChain`: `cmdO .sync`, observed through `capture` / `reported`):
    same configuration, status, context and remembered history, the reported list equal to the executed
    user actions in order, and the same exception at the first call that raises (where both chains end).
    Covered: every run up to and including the first raising call; `maxIterations` cuts included. -/
theorem pure_agrees_with_sync (m : Machine) (u : UEnv) (hu : ActsQuiet u) (evs : List Ev) :
    pureInitial m u = observe (syncStart m u {}) ∧
    ((syncStart m u {}).err = none →
      pureChain m u (capture (syncStart m u {})) evs = syncChain m u (syncStart m u {}) evs) := by
  refine ⟨by unfold pureInitial; rw [pureEnv_of_quiet hu], fun he => ?_⟩
  exact pureChain_eq_syncChain m u hu evs _ (syncStart_quiescent m u he)

/-- the same, spelled out for runs in which no call raises: the pure API's k-th result is
    `.ok (capture sₖ, reported sₖ)` where `sₖ` is the sync engine's state after the k-th `send` -/
theorem pure_agrees_with_sync_stepwise (m : Machine) (u : UEnv) (hu : ActsQuiet u) (evs : List Ev)
    (h0 : (syncStart m u {}).err = none)
    (hok : ∀ x ∈ syncStates m u (syncStart m u {}) evs, x.err = none) :
    pureInitial m u = .ok (capture (syncStart m u {}), reported (syncStart m u {})) ∧
    pureChain m u (capture (syncStart m u {})) evs =
      (syncStates m u (syncStart m u {}) evs).map (fun x => .ok (capture x, reported x)) := by
  obtain ⟨h1, h2⟩ := pure_agrees_with_sync m u hu evs
  exact ⟨by rw [h1, observe_of_ok h0], by rw [h2 h0, syncChain_of_ok m u evs _ hok]⟩

/-- every state the sync engine is in between two calls (none of which raised) is `Quiescent`: nothing
    queued, status running or done, remembered lists in recorded order — what `capture` loses nothing of -/
theorem sync_states_quiescent (m : Machine) (u : UEnv) (h0 : (syncStart m u {}).err = none) :
    Quiescent m (syncStart m u {}) ∧
    ∀ (s : St) (e : Ev), Quiescent m s → (cmdO .sync m u s e).err = none → Quiescent m (cmdO .sync m u s e) :=
  ⟨syncStart_quiescent m u h0, fun s e hq he => syncSend_quiescent m u e _ hq.obsReset he⟩

/-- **a finished snapshot is terminal (F5 repaired):** `transition()` on a snapshot whose status is not
    "active" returns it unchanged, reports no actions and raises nothing — whatever the event, the
    machine and the user code; so does any chain of calls. -/
theorem pure_done_is_terminal (m : Machine) (u : UEnv) (p : PureSnap) (h : p.status ≠ "active") :
    (∀ ev, pureTransition m u p ev = .ok (p, [])) ∧
    (∀ evs, pureChain m u p evs = evs.map (fun _ => .ok (p, []))) := by
  have ht : ∀ ev, pureTransition m u p ev = .ok (p, []) := by
    intro ev; unfold pureTransition; rw [if_neg h]
  refine ⟨ht, fun evs => ?_⟩
  induction evs with
  | nil => rfl
  | cons e es ih => simp only [pureChain, ht, ih, List.map_cons]

/-- **capture ∘ restore and restore ∘ capture (F4 repaired: the history travels with the snapshot).**
    Restoring an active snapshot whose remembered lists are in recorded order and capturing again gives
    the snapshot back — configuration, context, status and history; and restoring what was captured from
    a running quiescent engine state gives that state back (with the observation of the previous call
    cleared), so nothing the next call depends on is lost. `DISorted` holds for every snapshot the API
    returns (`recorded_lists_sorted`, C12: `_record_history` only ever stores such lists). -/
theorem pure_snapshot_roundtrip (m : Machine) :
    (∀ p : PureSnap, p.status = "active" → DISorted m p.hist → capture (restorePure m p) = p) ∧
    (∀ s : St, Quiescent m s → s.status = "running" → restorePure m (capture s) = obsReset s) :=
  ⟨capture_restore m, restore_capture m⟩

/-! ### Non-vacuity: a machine with a `raise`, a `choose` (with an `assign`) and a history state

```
m (initial A, context n = 0)
├─ A (initial a1)   on OUT → #m.o          entry en:A
│  ├─ a1            on N → a2              entry en:a1
│  ├─ a2                                   entry en:a2
│  └─ h (history, shallow)
├─ o                on BACK → #m.A.h       entry en:o
│                   on GO: actions tr, choose[ g → yes, assign n := 1, raise NEXT | else → no ], after
│                   on NEXT → #m.f
└─ f (final)                               entry en:f
```
-/
namespace PureEx
def mkT (tid : Nat) (event : String) (target : Option String) (actions : List ActionRef := []) : Trans :=
  { tid, event, target, guard := none, actions, reenter := false, forbidden := false }
def mkD (kind : Kind) (initial : Option String := none) (on : List (String × List Trans) := [])
    (entry : List ActionRef := []) : StateDef :=
  { kind, initial, entry, exit := [], on, onDone := none, after := [], invoke := [], deep := false,
    historyTarget := none, customId := none, tags := [] }
def chooseP : J := .obj [("conditions", .arr [
  .obj [("guard", .str "g"), ("actions", .arr [.str "yes",
      .obj [("type", .str "assign"), ("params", .obj [("assignment", .obj [("n", .num 1)])])],
      .obj [("type", .str "xstate.raise"), ("params", .obj [("event", .str "NEXT")])]])],
  .obj [("actions", .arr [.str "no"])]])]
def pM : Machine :=
  { id := "m", maxIterations := 10, customIds := [], ctx0 := [("n", 0)],
    root := .mk (mkD .compound (some "A")) [
      ("A", .mk (mkD .compound (some "a1") [("OUT", [mkT 0 "OUT" (some "#m.o")])] [⟨"en:A", none⟩]) [
        ("a1", .mk (mkD .atomic none [("N", [mkT 1 "N" (some "a2")])] [⟨"en:a1", none⟩]) []),
        ("a2", .mk (mkD .atomic none [] [⟨"en:a2", none⟩]) []),
        ("h", .mk (mkD .history) [])]),
      ("o", .mk (mkD .atomic none [("BACK", [mkT 2 "BACK" (some "#m.A.h")]),
                                   ("GO", [mkT 3 "GO" none [⟨"tr", none⟩, ⟨"choose", some chooseP⟩, ⟨"after", none⟩]]),
                                   ("NEXT", [mkT 4 "NEXT" (some "#m.f")])] [⟨"en:o", none⟩]) []),
      ("f", .mk (mkD .final none [] [⟨"en:f", none⟩]) [])] }
/-- user code within the API's premise: the guard `g` holds; every non-built-in name is a marker action -/
def pU : UEnv :=
  { g := fun n _ _ => if n = "g" then .t else .missing,
    a := fun n c _ => if (canonicalBuiltin n).isSome then .missing else .ok c }
/-- user code OUTSIDE the premise: `en:o` raises, `tr` rewrites the context, `yes` is a coroutine -/
def pUwild : UEnv :=
  { g := pU.g,
    a := fun n c _ => if (canonicalBuiltin n).isSome then .missing
      else if n = "en:o" then .raises else if n = "tr" then .ok (ctxSet c "n" 7)
      else if n = "yes" then .isAsync c else .ok c }
def pEvs : List Ev := [.user "N", .user "OUT", .user "BACK", .user "OUT", .user "GO", .user "X"]
def snapOf (cfg : List Path) (n : Int) (status : String) (hist : List (Path × List Path)) : PureSnap :=
  { cfg, ctx := [("n", n)], status, hist }
/-- a call's result when it did not raise (`Except` has no decidable equality of its own) -/
def okOf {α} : Except EErr α → Option α
  | .ok r => some r
  | .error _ => none
end PureEx
open PureEx

theorem pU_quiet : ActsQuiet pU := by
  intro n c e
  by_cases h : (canonicalBuiltin n).isSome = true
  · right; exact ⟨by simp only [pU, h, if_true], h⟩
  · left; simp only [pU, h]; rfl

/-- `initial_transition`: the initial configuration and the entry actions, nothing remembered yet -/
example : okOf (pureInitial pM pU) = some (snapOf [[], ["A"], ["A", "a1"]] 0 "active" [], ["en:A", "en:a1"]) := by decide

/-- the chain `N, OUT, BACK, OUT, GO, X`. `BACK` (third call) re-enters `a2`: the history recorded by the
    SECOND call travelled in the snapshot (F4). `GO` (fifth call): `choose` is expanded (`yes`, not `no`),
    `assign` sets `n`, the raised `NEXT` is processed within the same call and completes the machine
    (`en:f`, status "done") (F32). `X` (sixth call) is ignored by the finished snapshot (F5). -/
example : (pureChain pM pU (snapOf [[], ["A"], ["A", "a1"]] 0 "active" []) pEvs).map okOf =
    [some (snapOf [[], ["A"], ["A", "a2"]] 0 "active" [(["A"], [["A", "a1"]])], ["en:a2"]),
     some (snapOf [[], ["o"]] 0 "active" [(["A"], [["A", "a2"]])], ["en:o"]),
     some (snapOf [[], ["A"], ["A", "a2"]] 0 "active" [(["A"], [["A", "a2"]])], ["en:A", "en:a2"]),
     some (snapOf [[], ["o"]] 0 "active" [(["A"], [["A", "a2"]])], ["en:o"]),
     some (snapOf [[], ["f"]] 1 "done" [(["A"], [["A", "a2"]])], ["tr", "yes", "after", "en:f"]),
     some (snapOf [[], ["f"]] 1 "done" [(["A"], [["A", "a2"]])], [])] := by decide +kernel

/-- the hypotheses of `pure_agrees_with_sync_stepwise` hold on this run (no call of the sync engine raises),
    and its conclusion, evaluated: the sync engine goes through the same six observations -/
example : (syncStart pM pU {}).err = none ∧ ∀ x ∈ syncStates pM pU (syncStart pM pU {}) pEvs, x.err = none := by
  decide +kernel
example : (syncStates pM pU (syncStart pM pU {}) pEvs).map (fun x => ((capture x).cfg, (capture x).status, reported x)) =
    [([[], ["A"], ["A", "a2"]], "active", ["en:a2"]), ([[], ["o"]], "active", ["en:o"]),
     ([[], ["A"], ["A", "a2"]], "active", ["en:A", "en:a2"]), ([[], ["o"]], "active", ["en:o"]),
     ([[], ["f"]], "done", ["tr", "yes", "after", "en:f"]), ([[], ["f"]], "done", [])] := by decide +kernel

/-- `pure_runs_no_user_code`, instantiated: user code that raises, rewrites the context or is a coroutine
    registers the same names as the marker actions, so the pure results are the same … -/
example : SameRegistered pU pUwild := by
  intro n c e
  by_cases h : (canonicalBuiltin n).isSome = true
  · simp only [pU, pUwild, h, if_true]
  · simp only [pU, pUwild, h]
    constructor
    · intro hh; cases hh
    · intro hh
      by_cases h1 : n = "en:o"
      · simp only [h1, if_true] at hh; cases hh
      · by_cases h2 : n = "tr"
        · simp only [h1, h2, if_true, if_false] at hh; cases hh
        · by_cases h3 : n = "yes"
          · simp only [h1, h2, h3, if_true, if_false] at hh; cases hh
          · simp only [h1, h2, h3, if_false] at hh; cases hh
example : (pureChain pM pUwild (snapOf [[], ["A"], ["A", "a1"]] 0 "active" []) pEvs).map okOf =
    (pureChain pM pU (snapOf [[], ["A"], ["A", "a1"]] 0 "active" []) pEvs).map okOf := by decide +kernel
/-- … while the REAL engine, which does run that code, ends elsewhere (the premise `ActsQuiet` of
    `pure_agrees_with_sync` is necessary: here the context differs after `GO`, and `yes` being a coroutine
    makes the sync engine raise) -/
example : ((syncStates pM pUwild (syncStart pM pUwild {}) pEvs).map (fun x => (x.ctx, x.err.isSome))) ≠
    ((syncStates pM pU (syncStart pM pU {}) pEvs).map (fun x => (x.ctx, x.err.isSome))) := by decide +kernel

/-- `pure_done_is_terminal` and `pure_snapshot_roundtrip` on the witness: the snapshot after `GO` is not
    active; the snapshot after `OUT` is active with a sorted history and survives restore + capture -/
example : (snapOf [[], ["f"]] 1 "done" [(["A"], [["A", "a2"]])]).status ≠ "active" := by decide
example : capture (restorePure pM (snapOf [[], ["o"]] 0 "active" [(["A"], [["A", "a2"]])])) =
    snapOf [[], ["o"]] 0 "active" [(["A"], [["A", "a2"]])] := by decide
example : DISorted pM [(["A"], [["A", "a2"]])] := by
  intro kv hkv
  simp only [List.mem_singleton] at hkv
  subst hkv
  exact List.pairwise_singleton _ _

/-! ## Whole runs: the sync and the async engine agree as long as neither bound is reached

Helper lemmas: `Xsm/Proofs/Agree.lean`. The two engines are ONE set of definitions; they differ in

* **queue bookkeeping** — the async hooks count every self-sent event in `raiseDepth` and flag the queued
  entry `self := true` (for the chain breaker); the sync hooks flag it too (`_raised_in_drain`: also during
  `start()`, where the async engine flags nothing) and the sync drain counts the flagged entries it dequeues
  in a local counter instead. `eraseQ` forgets exactly the counter and the flags. `errors` (the async engine's count of logged failures; the sync
  engine raises to the caller instead) is NOT erased: under the hypotheses below it is equal on both sides.
* **the queue of an interpreter that is no longer running** — `enqueue` refuses, `send` returns at once, so
  it is never read again; the sync drain clears it, the async loop just exits and leaves it. `dropDead`
  forgets it. (`start()` is the one command that would resurrect it; runs start from the empty state.)
* **the synthetic event of `start()`** — entry actions run by `start()` are handed `entry.<state id>` by the
  sync engine and `___xstate_statemachine_init___` by the async one: the records differ in that tag
  (`StartTag`), and user code that looks at the event name could tell them apart (`StartBlind` excludes it).
* **coroutine actions** — refused by the sync engine (`NotSupportedError`; inside a `choose` branch the
  refusal is even contained and only logged), awaited by the async one: `NoCoroutine` excludes them.
* **what happens at the bound and on failure** — the sync drain purges the MARKED events (those enqueued while
  a drain was in flight, or during `start()`) when a marked event is dequeued as the `maxIterations + 1`-st of
  its drain since the last cut, and goes on with the external ones (second repair of F10), the async breaker
  purges the chain once MORE than `maxIterations` self-sent events were counted since the counter was last
  reset — the same policy, but the two counters are not the same number (the async one counts at ENQUEUE time
  and is reset when a chain ends, the sync one counts at DEQUEUE time and is reset by a cut only; the async
  `start()` marks nothing); a failing macrostep aborts the sync drain (the rest stays queued, the error
  is raised) while the async loop logs it and goes on. So agreement is claimed for runs in which neither
  bound is reached (`sendTrips … = 0`, `sendCut … = false`; `CutFree`) and the sync engine raises nothing
  (`(syncSend …).err = none`; `NoFail`) — by `Sim.err` the async engine then logs nothing either.
* **the fuel of the async MODEL** — `asyncDrain` recurses on a fuel constant the code does not have (status
  "HANG" when it runs out, C13 §3). A sync drain may legitimately run longer than that constant (the number
  of events it processes grows with the number of external events queued at its start), so wherever the queue at the start of the
  drain is not known to be empty the statements assume the model's fuel does not run out
  (`… .status ≠ "HANG"`: `send_agree_from`, `start_agree`, last clause of `CutFree`); from an idle state
  (`send_agree`, every command of a whole run) and under `ShortChains` this is proved, not assumed.

All side conditions are decidable predicates over the run; `ShortChains` ("fewer than `maxIterations` events
sent to itself per command") implies `CutFree` (`send_bounds_of_short_chain`, `run_agree_of_short_chains`). -/
section whole_runs
open XSM.Bisim XSM.Term

/-- `eraseQ`-equality, spelled out: everything equal but the counter and the `self` flags -/
theorem eraseQ_eq_iff (a b : St) :
    eraseQ a = eraseQ b ↔
      (a.cfg = b.cfg ∧ a.hist = b.hist ∧ a.status = b.status ∧ a.ctx = b.ctx ∧ a.err = b.err ∧
       a.errors = b.errors ∧ a.trace = b.trace ∧ a.queue.map (·.ev) = b.queue.map (·.ev) ∧
       a.expCut = b.expCut) := by
  rw [← sim_eq_iff]
  exact ⟨fun h => ⟨h.cfg, h.hist, h.status, h.ctx, h.err, h.errors, h.trace, h.queue, h.expCut⟩,
    fun ⟨h1, h2, h3, h4, h5, h6, h7, h8, h9⟩ => ⟨h1, h2, h3, h4, h5, h6, h7, h8, h9⟩⟩

/-- the command-level relation, spelled out: as above, the traces related by `T`, and the queues compared
    only while the interpreter is running -/
theorem agree_spelled (T : List String → List String → Prop) (a b : St) :
    Agrees T a b ↔
      (a.cfg = b.cfg ∧ a.hist = b.hist ∧ a.status = b.status ∧ a.ctx = b.ctx ∧ a.err = b.err ∧
       a.errors = b.errors ∧ T a.trace b.trace ∧
       (a.status = "running" → a.queue.map (·.ev) = b.queue.map (·.ev)) ∧ a.expCut = b.expCut) := agree_iff a b

/-- … and with equal traces it is equality of the erasures of what a caller can see -/
theorem agree_eq_eraseQ (a b : St) : Agrees Eq a b ↔ eraseQ (dropDead a) = eraseQ (dropDead b) :=
  agree_eq_iff a b

/-- **(1a) the hooks differ only in their sends, and those commute with the erasure** (up to the erasure: the
    sync hooks mark what they enqueue, too) -/
theorem sends_commute_with_eraseQ (u : UEnv) (m : Machine) (e : Ev) (s : St) :
    eraseQ ((hooksAsync u m).snd e s) = eraseQ ((hooksFlagged u m).snd e (eraseQ s)) ∧
    eraseQ ((hooksAsync u m).sndRaise e s) = eraseQ ((hooksFlagged u m).sndRaise e (eraseQ s)) ∧
    eraseQ ((hooksAsyncStart u m).snd e s) = eraseQ ((hooksFlagged u m).snd e (eraseQ s)) ∧
    eraseQ ((hooksAsyncStart u m).sndRaise e s) = eraseQ ((hooksFlagged u m).sndRaise e (eraseQ s)) := by
  have h1 : eraseQ (enqueueQ true e { s with raiseDepth := s.raiseDepth + 1 }) = eraseQ (enqueueQ true e (eraseQ s)) := by
    unfold enqueueQ eraseQ
    by_cases hr : s.status = "running"
    · simp [hr]
    · simp [hr]
  have h2 : eraseQ (enqueue e s) = eraseQ (enqueueQ true e (eraseQ s)) := by
    unfold enqueue enqueueQ eraseQ
    by_cases hr : s.status = "running"
    · simp [hr]
    · simp [hr]
  exact ⟨h1, h1, h2, h2⟩

/-- **(1b) hook-level simulation.** With the async engine's hooks (`hooksAsync` while the loop is
    processing, `hooksAsyncStart` during `start()`) on one side and the sync engine's on the other, every
    layer of the EXECUTE side takes `eraseQ`-equal states to `eraseQ`-equal states — for every action list,
    plan, event and fuel (no coroutine actions: the sync engine refuses those). -/
theorem hooks_simulation (u : UEnv) (m : Machine) (hu : NoCoroutine u) (hA : Hooks)
    (hh : hA = hooksAsync u m ∨ hA = hooksAsyncStart u m) {a b : St} (h : eraseQ a = eraseQ b) :
    (∀ as evType, eraseQ (execActions hA as evType a) = eraseQ (execActions (hooksFlagged u m) as evType b)) ∧
    (∀ ev pl, eraseQ (runPlan hA .async m ev pl a) = eraseQ (runPlan (hooksFlagged u m) .sync m ev pl b)) ∧
    (∀ ev pl, eraseQ (execute hA .async m ev pl a) = eraseQ (execute (hooksFlagged u m) .sync m ev pl b)) ∧
    (∀ ev, eraseQ (processEvent hA .async m u ev a) = eraseQ (processEvent (hooksFlagged u m) .sync m u ev b)) ∧
    (∀ n, eraseQ (transientLoop hA .async m u n a) = eraseQ (transientLoop (hooksFlagged u m) .sync m u n b)) := by
  have hT : ∀ (r : String) (l1 l2 : List String), l1 = l2 → r :: l1 = r :: l2 := fun _ _ _ h => by rw [h]
  have hs : ∀ t, HSim Eq Eq hA (hooksFlagged u m) t t := by
    intro t
    rcases hh with rfl | rfl
    · exact hsim_async hT u hu m t
    · exact hsim_asyncStart hT u hu m t
  have h' := (sim_eq_iff a b).2 h
  exact ⟨fun as evType => (sim_eq_iff _ _).1 (execActions_sim (hs evType) as h'),
    fun ev pl => (sim_eq_iff _ _).1 (runPlan_sim _ _ m ev pl (hs _) h'),
    fun ev pl => (sim_eq_iff _ _).1 (execute_sim _ _ m ev pl (hs _) h'),
    fun ev => (sim_eq_iff _ _).1 (processEvent_sim _ _ m u ev (hs _) h'),
    fun n => (sim_eq_iff _ _).1 (transientLoop_sim _ _ m u (hs _) n a b h')⟩

/-- **(2, two states) one `send`.** From `Agrees`-related states (an async one and a sync one — e.g. the
    states two whole runs are in), if the async breaker does not trip while the event is digested, the sync
    drain is not cut (no marked event trips its bound), the sync `send` raises nothing, and the async
    MODEL's fuel does not run out (`hh`; the queues of `a` / `b` are arbitrary here, and the sync drain
    processes all of it), the states after the `send` are `Agrees`-related again. -/
theorem send_agree_from (m : Machine) (u : UEnv) (hu : NoCoroutine u) (T : List String → List String → Prop)
    (hT : ∀ r l1 l2, T l1 l2 → T (r :: l1) (r :: l2)) (e : Ev) {a b : St} (hs : Agrees T a b)
    (hh : (asyncSend m u e a).status ≠ "HANG")
    (ht : sendTrips m u e a = 0) (hc : sendCut m u e b = false) (he : (syncSend m u e b).err = none) :
    Agrees T (asyncSend m u e a) (syncSend m u e b) :=
  send_sim hT hu e hs hh ht hc he

/-- **(2) `send_agree`.** For an idle running state `s` (nothing queued, counter 0): if the breaker does not
    trip during `asyncSend m u e s`, the drain of `syncSend m u e s` is not cut, and the sync
    `send` raises nothing (no macrostep of the drain fails — a failure would abort the sync drain with the rest
    still queued while the async loop logs it and goes on), both engines end with the same configuration,
    history, context, status, error flag and trace (same records, same order); the sync queue is empty; and if
    the machine is still running the states are `eraseQ`-equal outright, the async queue is empty too and its
    counter is back at 0 — the state is idle again. (`s.err = none` is not needed: a pending error makes the
    sync `send` raise.) -/
theorem send_agree (m : Machine) (u : UEnv) (hu : NoCoroutine u) (e : Ev) (s : St)
    (hq : s.queue = []) (hd : s.raiseDepth = 0) (_hr : s.status = "running")
    (ht : sendTrips m u e s = 0) (hc : sendCut m u e s = false) (he : (syncSend m u e s).err = none) :
    eraseQ (dropDead (asyncSend m u e s)) = eraseQ (dropDead (syncSend m u e s)) ∧
    (syncSend m u e s).queue = [] ∧
    ((asyncSend m u e s).status = "running" →
      eraseQ (asyncSend m u e s) = eraseQ (syncSend m u e s) ∧
      (asyncSend m u e s).queue = [] ∧ (asyncSend m u e s).raiseDepth = 0) := by
  have hA : Agrees Eq (asyncSend m u e s) (syncSend m u e s) :=
    send_sim_idle (fun _ _ _ h => by rw [h]) hu e (Sim.refl (fun _ => rfl) s).agree (fun _ => hq) ht hc he
  refine ⟨(agree_eq_iff _ _).1 hA, syncSend_queue_nil e (fun _ => hq) he, fun hra => ?_⟩
  obtain ⟨q1, q2⟩ := asyncSend_quiet m u e s (fun _ => ⟨hq, hd⟩) hra
  exact ⟨(sim_eq_iff _ _).1 (hA.sim hra), q1, q2⟩

/-- **(2, usable form) short chains reach neither bound.** For an idle state: if the machine sends itself
    fewer than `maxIterations` events while `e` is digested (`asyncSelfSends`: every `raise` and every
    `done.state.*` delivered while the async loop is processing, over the whole chain), the breaker does not
    trip and the sync drain is not cut (`e` itself is external and does not count; fewer than `maxIterations`
    marked events come up). -/
theorem send_bounds_of_short_chain (m : Machine) (u : UEnv) (hu : NoCoroutine u) (e : Ev) (s : St)
    (hq : s.queue = []) (hd : s.raiseDepth = 0)
    (hshort : asyncSelfSends m u (asyncFuel m) (pushExt e s) < m.maxIterations) :
    sendTrips m u e s = 0 ∧ sendCut m u e s = false :=
  send_cutFree_of_short (T := Eq) (fun _ _ _ h => by rw [h]) hu e (Sim.refl (fun _ => rfl) s).agree
    (fun _ => ⟨hq, hd⟩) (fun _ => hshort)

/-- **(3) `start_agree`.** `start()` from any state `s`: if the breaker does not trip while the async loop
    digests what the initial entry and settling queued, the sync drain is not cut on it (these events are
    MARKED on the sync engine and count towards its bound), the async MODEL's fuel does not run out
    (`hh`) and the sync `start()` raises nothing, both engines end with the same configuration, history, context, status,
    error flag, (live) queue — and traces that agree record by record up to the start tag (`StartTag`: equal,
    or the same action tagged `___xstate_statemachine_init___` by the async engine and `entry.<state id>` by
    the sync engine). The sync queue is empty; a running async interpreter is idle. -/
theorem start_agree (m : Machine) (u : UEnv) (hu : NoCoroutine u) (hb : StartBlind m u) (s : St)
    (hh : (asyncStart m u s).status ≠ "HANG")
    (ht : asyncTrips m u (asyncFuel m) (asyncStartSettled m u s) = 0)
    (hc : drainCut m u (drainFuel m (syncStartSettled m u s)) 0 (syncStartSettled m u s) = false)
    (he : (syncStart m u s).err = none) :
    Agrees (TrRel (StartTag m)) (asyncStart m u s) (syncStart m u s) ∧
    (syncStart m u s).queue = [] ∧
    (s.raiseDepth = 0 → (asyncStart m u s).status = "running" →
      (asyncStart m u s).queue = [] ∧ (asyncStart m u s).raiseDepth = 0) :=
  ⟨start_sim hu hb (Sim.refl (trRel_refl_startTag m) s) hh ht hc he, syncStart_queue_nil s he,
   fun hd hr => asyncStart_quiet m u s hd hr⟩

/-- **(3, usable form)** what `start()` queues plus what the machine then sends itself fits `maxIterations`:
    neither bound is reached, and (if the sync `start()` raises nothing) the async model's fuel does not run
    out — all the hypotheses of `start_agree` -/
theorem start_bounds_of_short_chain (m : Machine) (u : UEnv) (hu : NoCoroutine u) (hb : StartBlind m u) (s : St)
    (hd : s.raiseDepth = 0)
    (hshort : (asyncStartSettled m u s).queue.length +
      asyncSelfSends m u (asyncFuel m) (asyncStartSettled m u s) ≤ m.maxIterations) :
    asyncTrips m u (asyncFuel m) (asyncStartSettled m u s) = 0 ∧
    drainCut m u (drainFuel m (syncStartSettled m u s)) 0 (syncStartSettled m u s) = false ∧
    ((syncStart m u s).err = none → (asyncStart m u s).status ≠ "HANG") :=
  ⟨(start_cutFree_of_short hu hb (Sim.refl (trRel_refl_startTag m) s) hd hshort).1,
   (start_cutFree_of_short hu hb (Sim.refl (trRel_refl_startTag m) s) hd hshort).2,
   start_noHang_of_short hu hb (Sim.refl (trRel_refl_startTag m) s) hd hshort⟩

/-- **(4) `run_agree`: whole runs.** `start()`, then the events of `evs` sent one by one (each once the
    previous one is digested; `cmd`: the command clears the error flag of the previous one). If neither bound
    is reached at any step (`CutFree`, decidable; it also says that the async MODEL's fuel constant suffices
    for `start()`) and the sync engine raises at no step (`NoFail`, decidable),
    then after `start()` the engines agree up to the start tag, and after EVERY prefix of `evs` they have the
    same configuration, history, context, status, error flag (none) and live queue (empty), and their traces
    are the traces of `start()` with the SAME new records on top (`SplitAt`). The idleness `send_agree` needs
    is derived, not assumed: a running async interpreter has an empty queue and its counter at 0. -/
theorem run_agree (m : Machine) (u : UEnv) (hu : NoCoroutine u) (hb : StartBlind m u) (evs : List Ev)
    (hc : CutFree m u evs) (hf : NoFail m u evs) :
    Agrees (TrRel (StartTag m)) (asyncStart m u {}) (syncStart m u {}) ∧
    ∀ k : Nat,
      Agrees (SplitAt (asyncStart m u {}).trace (syncStart m u {}).trace)
        ((evs.take k).foldl (cmd .async m u) (asyncStart m u {}))
        ((evs.take k).foldl (cmd .sync m u) (syncStart m u {})) ∧
      ((evs.take k).foldl (cmd .sync m u) (syncStart m u {})).err = none ∧
      ((evs.take k).foldl (cmd .sync m u) (syncStart m u {})).queue = [] ∧
      (((evs.take k).foldl (cmd .async m u) (asyncStart m u {})).status = "running" →
        ((evs.take k).foldl (cmd .async m u) (asyncStart m u {})).queue = [] ∧
        ((evs.take k).foldl (cmd .async m u) (asyncStart m u {})).raiseDepth = 0) := by
  refine ⟨start_agree_core hu hb evs hc hf, fun k => ?_⟩
  obtain ⟨h1, h2, h3⟩ := run_agree_core hu hb evs hc hf k
  exact ⟨h1, h2, h3, fun hr => async_run_quiet m u (evs.take k) hr⟩

/-- **(4, usable form)** short chains at every step (`ShortChains`, decidable, counted on the async run) and
    no failure imply `CutFree`, hence the agreement of the whole run -/
theorem run_agree_of_short_chains (m : Machine) (u : UEnv) (hu : NoCoroutine u) (hb : StartBlind m u)
    (evs : List Ev) (hs : ShortChains m u evs) (hf : NoFail m u evs) :
    CutFree m u evs ∧
    ∀ k : Nat,
      Agrees (SplitAt (asyncStart m u {}).trace (syncStart m u {}).trace)
        ((evs.take k).foldl (cmd .async m u) (asyncStart m u {}))
        ((evs.take k).foldl (cmd .sync m u) (syncStart m u {})) :=
  ⟨cutFree_of_shortChains hu hb evs hs hf,
   fun k => (run_agree_core hu hb evs (cutFree_of_shortChains hu hb evs hs hf) hf k).1⟩

/-! ### Non-vacuity: a parallel state, an `always` transition, a `raise`, a final state

```
w (initial P, maxIterations 4)
├─ P (parallel)      entry en:P, raise BOOT          on FIN: fin → f
│  ├─ A (initial a1)
│  │  ├─ a1          entry en:a1                     on GO: go, raise PING → a2
│  │  ├─ a2          entry en:a2                     always: hop → a3
│  │  └─ a3          entry en:a3
│  └─ B (initial b1)
│     ├─ b1          entry en:b1                     on BOOT: boot;  on PING: ping → b2
│     └─ b2          entry en:b2
└─ f (final)         entry en:f
```
-/
namespace WholeEx
def wM : Machine :=
  { id := "w", maxIterations := 4, customIds := [],
    root := .mk (mkD .compound (some "P")) [
      ("P", .mk (mkD .parallel none [("FIN", [mkT 9 "FIN" (some "f") [⟨"fin", none⟩]])]
                  [⟨"en:P", none⟩, XSM.Term.Ex.raiseA "BOOT"]) [
        ("A", .mk (mkD .compound (some "a1")) [
          ("a1", .mk (mkD .atomic none [("GO", [mkT 0 "GO" (some "a2") [⟨"go", none⟩, XSM.Term.Ex.raiseA "PING"]])]
                      [⟨"en:a1", none⟩]) []),
          ("a2", .mk (mkD .atomic none [("", [mkT 1 "" (some "a3") [⟨"hop", none⟩]])] [⟨"en:a2", none⟩]) []),
          ("a3", .mk (mkD .atomic none [] [⟨"en:a3", none⟩]) [])]),
        ("B", .mk (mkD .compound (some "b1")) [
          ("b1", .mk (mkD .atomic none [("BOOT", [mkT 2 "BOOT" none [⟨"boot", none⟩]]),
                                        ("PING", [mkT 3 "PING" (some "b2") [⟨"ping", none⟩]])]
                      [⟨"en:b1", none⟩]) []),
          ("b2", .mk (mkD .atomic none [] [⟨"en:b2", none⟩]) [])])]),
      ("f", .mk (mkD .final none [] [⟨"en:f", none⟩]) [])] }
/-- `GO` (raises `PING`, then the `always` hop), an ignored event, `FIN` (completes the machine), and an
    event sent to the finished machine -/
def wEvs : List Ev := [.user "GO", .user "X", .user "FIN", .user "GO"]
def runA (m : Machine) (u : UEnv) (evs : List Ev) : St := evs.foldl (cmd .async m u) (asyncStart m u {})
def runS (m : Machine) (u : UEnv) (evs : List Ev) : St := evs.foldl (cmd .sync m u) (syncStart m u {})
end WholeEx
open WholeEx

/-- the marker environment of C13 (`u0`: every guard true, every action a marker; `raise` / `assign` /
    `choose` left to the built-ins) registers no coroutine and never looks at the event name -/
theorem u0_noCoroutine : NoCoroutine XSM.Term.Ex.u0 := by
  intro n c e c'
  unfold XSM.Term.Ex.u0
  simp only
  split <;> intro h <;> cases h
theorem u0_startBlind (m : Machine) : StartBlind m XSM.Term.Ex.u0 := fun _ _ _ => ⟨rfl, rfl⟩

/-- the hypotheses of `run_agree` hold on this run … -/
example : CutFree wM XSM.Term.Ex.u0 wEvs := by decide +kernel
example : NoFail wM XSM.Term.Ex.u0 wEvs := by decide +kernel
/-- … also by the usable criterion (`BOOT` queued by `start()`; one self-sent `PING` while `GO` is digested) -/
example : ShortChains wM XSM.Term.Ex.u0 wEvs := by decide +kernel
/-- … so its conclusion holds at every prefix; evaluated, after the whole list: -/
example : (runA wM XSM.Term.Ex.u0 wEvs).cfg = (runS wM XSM.Term.Ex.u0 wEvs).cfg ∧
    (runA wM XSM.Term.Ex.u0 wEvs).status = (runS wM XSM.Term.Ex.u0 wEvs).status ∧
    (runA wM XSM.Term.Ex.u0 wEvs).hist = (runS wM XSM.Term.Ex.u0 wEvs).hist ∧
    (runA wM XSM.Term.Ex.u0 wEvs).ctx = (runS wM XSM.Term.Ex.u0 wEvs).ctx ∧
    (runA wM XSM.Term.Ex.u0 wEvs).errors = (runS wM XSM.Term.Ex.u0 wEvs).errors ∧
    (runS wM XSM.Term.Ex.u0 wEvs).cfg = [[], ["f"]] ∧ (runS wM XSM.Term.Ex.u0 wEvs).status = "done" := by
  decide +kernel
/-- the records of the sends are the same, in the same order, and sit on top of the records of `start()` … -/
example : ∃ new, (runA wM XSM.Term.Ex.u0 wEvs).trace = new ++ (asyncStart wM XSM.Term.Ex.u0 {}).trace ∧
    (runS wM XSM.Term.Ex.u0 wEvs).trace = new ++ (syncStart wM XSM.Term.Ex.u0 {}).trace ∧
    new = ["#t:w,w.f", "en:f@FIN", "fin@FIN", "#recv:FIN", "#recv:X",
           "#t:w,w.P,w.P.A,w.P.B,w.P.A.a3,w.P.B.b2", "en:b2@PING", "ping@PING", "#recv:PING",
           "#t:w,w.P,w.P.A,w.P.B,w.P.B.b1,w.P.A.a3", "en:a3@", "hop@",
           "#t:w,w.P,w.P.A,w.P.B,w.P.B.b1,w.P.A.a2", "en:a2@GO", "go@GO", "#recv:GO"] :=
  ⟨_, by decide +kernel, by decide +kernel, rfl⟩
/-- … which differ in the start tag only (the `BOOT` raised by `P`'s entry is digested by `start()` itself) -/
example : (asyncStart wM XSM.Term.Ex.u0 {}).trace =
      ["#t:w,w.P,w.P.A,w.P.A.a1,w.P.B,w.P.B.b1", "boot@BOOT", "#recv:BOOT", "en:b1@___xstate_statemachine_init___",
       "en:a1@___xstate_statemachine_init___", "en:P@___xstate_statemachine_init___"] ∧
    (syncStart wM XSM.Term.Ex.u0 {}).trace =
      ["#t:w,w.P,w.P.A,w.P.A.a1,w.P.B,w.P.B.b1", "boot@BOOT", "#recv:BOOT", "en:b1@entry.w.P.B.b1",
       "en:a1@entry.w.P.A.a1", "en:P@entry.w.P"] := by decide +kernel

/-- **the side condition is necessary.** `burstM` (C13; bound 3): `E` raises `R` four times in one step. No
    command fails, but `CutFree` does not hold — the async breaker trips on the first `R` and purges all four,
    the sync drain (`E` itself does not count) processes three of them and is cut by the fourth — and the runs
    differ. -/
example : NoFail XSM.Term.Ex.burstM XSM.Term.Ex.u0 [.user "E"] ∧ ¬ CutFree XSM.Term.Ex.burstM XSM.Term.Ex.u0 [.user "E"] ∧
    sendTrips XSM.Term.Ex.burstM XSM.Term.Ex.u0 (.user "E") (asyncStart XSM.Term.Ex.burstM XSM.Term.Ex.u0 {}) = 1 ∧
    sendCut XSM.Term.Ex.burstM XSM.Term.Ex.u0 (.user "E") (syncStart XSM.Term.Ex.burstM XSM.Term.Ex.u0 {}) = true := by
  decide +kernel
example : (runA XSM.Term.Ex.burstM XSM.Term.Ex.u0 [.user "E"]).trace = ["#t:m,m.a", "#recv:E"] ∧
    (runS XSM.Term.Ex.burstM XSM.Term.Ex.u0 [.user "E"]).trace =
      ["#t:m,m.a", "sawR@R", "#recv:R", "#t:m,m.a", "sawR@R", "#recv:R", "#t:m,m.a", "sawR@R", "#recv:R",
       "#t:m,m.a", "#recv:E"] := by decide +kernel

/-- **`StartBlind` is necessary.** `en:P` looks at the event name it is handed and sets `x` under the async
    engine's init event only: neither bound is reached, nothing fails, and yet `start()` leaves different
    contexts. -/
def uTag : UEnv :=
  { g := fun _ _ _ => .t,
    a := fun n c e => if n = "raise" then .missing
      else if n = "en:P" ∧ e = initTag then .ok (ctxSet c "x" 1) else .ok c }
example : CutFree wM uTag wEvs ∧ NoFail wM uTag wEvs ∧
    (asyncStart wM uTag {}).ctx = [("x", 1)] ∧ (syncStart wM uTag {}).ctx = [] := by decide +kernel

/-- **`NoCoroutine` is necessary** (and not implied by `NoFail`). In `pM` (previous section) the `choose`
    branch taken on `GO` starts with `yes`; make `yes` a coroutine: the sync engine refuses it, but INSIDE a
    `choose` the refusal is contained (`#aerr:choose`: the rest of the branch — `assign`, `raise NEXT` — is
    skipped, `send` does not raise), while the async engine runs the branch and completes the machine. -/
def uCo : UEnv :=
  { g := pU.g,
    a := fun n c _ => if (canonicalBuiltin n).isSome then .missing else if n = "yes" then .isAsync c else .ok c }
example : CutFree pM uCo [.user "OUT", .user "GO"] ∧ NoFail pM uCo [.user "OUT", .user "GO"] ∧
    (runA pM uCo [.user "OUT", .user "GO"]).status = "done" ∧ (runS pM uCo [.user "OUT", .user "GO"]).status = "running" ∧
    (runA pM uCo [.user "OUT", .user "GO"]).ctx = [("n", 1)] ∧ (runS pM uCo [.user "OUT", .user "GO"]).ctx = [("n", 0)] := by
  decide +kernel

end whole_runs

end XSM.C05
