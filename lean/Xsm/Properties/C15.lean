import Xsm.Proofs.ActorsProps
/-!
# C15 — actor messaging and supervision are exact

"spawnChild, spawn_<service> actions and invoking a machine each create exactly one started child,
registered under its id and, if given, its systemId; sendTo, sendParent, forwardTo and escalate deliver
each event exactly once to exactly the addressed actor, in sending order, or drop it with a warning when
the target does not resolve or is ambiguous, and cancel(id) prevents that pending delayed send - and only
that one - from being delivered. stopChild and the parent's stop() stop the child and all its descendants
and remove them from the children map and the system registry, so they receive and emit nothing afterwards."

Statements about the executable actor-system model `Xsm/Model/Actors.lean` (namespace `XSM.Actors`): a
message-level model of `_spawn_actor`, `_resolve_actor_target`, `_system_registry`, `_register_in_system`,
`_deliver`, `_cancel_scheduled_send`, the sendTo / sendParent / forwardTo / escalate / stopChild / spawnChild
branches of `_execute_builtin_action`, and `stop()` of BOTH engines (`Flavor.sync` / `Flavor.async`).  The
same definitions are compiled into `driver_actors` and compared with the real engines on every run of
`./check C15` (`harness/xsmverif/c15.py`), observation by observation.

## What is proved (for all systems, all inputs, no bounds)
* §1 `spawn_creates_one_started_registered`, `spawn_leaves_the_rest_alone`
* §2 the resolution order, one theorem per step: `resolve_systemId_first`, `resolve_exact_id_second`,
  `resolve_unique_segment_third`, `ambiguous_is_dropped`, `resolve_source_key_fourth`, `resolve_parent_last`,
  `resolve_nothing`; `sendTo_ambiguous_or_unresolved_changes_nothing`
* §3 `deliver_touches_only_the_recipient`, `deliver_exactly_once_in_order` (sync: processed at once; async:
  queued in order and taken over in order at the next hand-over), `sendTo_actions_deliver_in_order`
* §4 `cancel_cancels_only_that_id`, `cancelled_send_never_fires`, `cancel_unknown_id_is_noop`,
  `reused_id_supersedes`, `fresh_id_disturbs_no_other_send`
* §5 `stop_makes_dead`, `parent_stop_stops_subtree` (every descendant completely stopped, every children
  map in the subtree empty), `stop_child_removes_subtree` (direct child: gone from the children map and
  from the registry under every systemId; whole subtree stopped)
* §6 `nothing_delivered_after_stop`: an actor whose `stop()` has completed receives nothing, whatever
  operations follow (`Quiet` is preserved by every operation of the model)

## What is FALSE of the code, stated as theorems about the model (= the code, by the tie) and registered
## as open findings with replays
* `registry_keeps_stopped_descendant` (F14): the general "…and the system registry" clause fails for
  descendants of the stopChild target and for everything stopped through `stop()`
* `async_stopped_actor_processes_queued_event` (F50): between `status := stopped` and the cancellation of
  its run loop an async actor with children still processes one queued event
* `respawned_id_orphans_previous_actor` (F51): a second spawn under a used explicit id leaves the first
  child running, unlisted, and untouched by the parent's `stop()`
* `sync_lazy_spawn_child_not_started` (F52): sync engine, non-blocking spawn, watcher thread not yet run:
  the child is not started when the spawning action returns, an immediate send is dropped
* `source_key_first_of_many_wins` (F53), `segment_match_sees_parents_own_segments` (F54): the two addressing
  defects (no ambiguity check in the source-key fallback; the parent's own id segments take part in the
  bare-key match)

## Only validated (differentially / by the monitor), not proved
* that the model IS the code (tie: 0 disagreements on every explored op sequence, both engines);
* the hypotheses `WF`, `Settled`, `Tidy` of §5 are invariants of every reachable observation point: the
  driver evaluates their decidable form `invB` (sound by `invB_sound`) at every observation of every
  explored run and the check fails if it is ever false; they are not proved to be inductive;
* exactly-once / addressee-only / warnings at the level of the real interpreters: the monitor of
  `c15_impl.py` (independent reference resolution on the live objects).

## What the model cannot exhibit
Machines are reduced to "records what it receives": an event never triggers a reaction (the harness's
child machines are built that way too). uuid4 is a counter. Only the two thread schedules `eager` /
not `eager` of the sync engine's watcher threads are modelled (start at once / start after the macrostep).
An actor stopping ITSELF or an ANCESTOR through a systemId (`stopChild(systemId)`) leaves the fragment:
the model flags it (`oos`) and the comparison stops there. Delayed sends due at the same millisecond are
not generated (the engines give no order for them).
-/
namespace XSM.C15
open XSM XSM.Actors

/-! ## 1. spawn -/

/-- *spawnChild / spawn_<service> create exactly one started child, registered under its id and systemId.*
    One actor object is added; it runs (`startedAtSpawn`: always in the async engine; sync engine: blocking
    spawn, or the watcher thread scheduled at once), carries the id of the scheme `<parent id>:<explicit id>`
    / `<parent id>:<key>:<fresh>`, is the parent's child under exactly that id, is recorded with its source
    key, and the registry maps the requested systemId to it. -/
theorem spawn_creates_one_started_registered (s : Sys) (p : Nat) (key : String) (eid sid : Option String) (blocking : Bool)
    (hp : p < s.actors.length) (hstart : startedAtSpawn s blocking = true) :
    (spawn s p key eid sid blocking).actors.length = s.actors.length + 1 ∧
    ((spawn s p key eid sid blocking).get s.actors.length).status = .running ∧
    ((spawn s p key eid sid blocking).get s.actors.length).id = mkId (s.get p).id key eid s.fresh ∧
    ((spawn s p key eid sid blocking).get s.actors.length).parent = some p ∧
    ((spawn s p key eid sid blocking).get s.actors.length).received = [] ∧
    dlookup (mkId (s.get p).id key eid s.fresh) ((spawn s p key eid sid blocking).get p).kids = some s.actors.length ∧
    dlookup (mkId (s.get p).id key eid s.fresh) ((spawn s p key eid sid blocking).get p).sources = some key ∧
    (∀ x, sid = some x → dlookup x (spawn s p key eid sid blocking).registry = some s.actors.length) := by
  have ⟨ha, hr⟩ := spawn_actors s p key eid sid blocking
  have hg : ∀ u, (spawn s p key eid sid blocking).get u = (spawnCore s p key eid sid blocking).get u := get_congr ha
  have ⟨c1, c2, c3, c4, c5, _, _⟩ := spawnCore_spec s p key eid sid blocking hp
  rw [ha, hr, hg, hg, c2]
  exact ⟨c1, by simp [newActor, hstart], rfl, rfl, rfl, c3, c4, c5⟩

/-- the id scheme -/
theorem spawn_id_scheme (pid key e : String) (n : Nat) :
    mkId pid key (some e) n = pid ++ ":" ++ e ∧ mkId pid key none n = pid ++ ":" ++ key ++ ":u" ++ toString (n + 1) :=
  ⟨rfl, rfl⟩

/-- *…and nothing else happens*: every other actor is untouched, the spawning parent keeps its status
    and has received nothing. -/
theorem spawn_leaves_the_rest_alone (s : Sys) (p : Nat) (key : String) (eid sid : Option String) (blocking : Bool)
    (hp : p < s.actors.length) :
    (∀ v, v ≠ p → v < s.actors.length → (spawn s p key eid sid blocking).get v = s.get v) ∧
    (∀ v, v < s.actors.length → ((spawn s p key eid sid blocking).get v).status = (s.get v).status ∧
      ((spawn s p key eid sid blocking).get v).received = (s.get v).received) := by
  have ⟨ha, _⟩ := spawn_actors s p key eid sid blocking
  have hg : ∀ u, (spawn s p key eid sid blocking).get u = (spawnCore s p key eid sid blocking).get u := get_congr ha
  have ⟨_, _, _, _, _, c6, c7⟩ := spawnCore_spec s p key eid sid blocking hp
  exact ⟨fun v h1 h2 => by rw [hg]; exact c6 v h1 h2, fun v h => by rw [hg]; exact ⟨(c7 v h).1, (c7 v h).2.1⟩⟩

/-- F52 (sync engine): a non-blocking spawn whose watcher thread has not run yet returns an UNSTARTED
    child; `sendTo` right after the spawn is dropped ("notrunning") and the child has received nothing
    when it finally starts. -/
theorem sync_lazy_spawn_child_not_started :
    let s1 := spawn (init .sync false []) 0 "k1" (some "a") none false
    (s1.get 1).status = .uninit ∧
    (runAction none "C0" 0 s1 (.sendTo "a" "M1" 0 none)).warns = ["notrunning"] ∧
    ((settle (runAction none "C0" 0 s1 (.sendTo "a" "M1" 0 none))).get 1).status = .running ∧
    ((settle (runAction none "C0" 0 s1 (.sendTo "a" "M1" 0 none))).get 1).received = [] := by
  decide

/-- F51: spawning twice under one explicit id. The first child (uid 1) keeps running, is no longer in the
    children map (which holds uid 2 under the id), and is still running after the parent's `stop()`. -/
theorem respawned_id_orphans_previous_actor (fl : Flavor) :
    let s2 := spawn (spawn (init fl true []) 0 "k1" (some "a") none true) 0 "k1" (some "a") none true
    (s2.get 1).id = (s2.get 2).id ∧ (s2.get 0).kids = [("r:a", 2)] ∧ (s2.get 1).status = .running ∧
    ((settle (stop none s2 0)).get 0).status = .stopped ∧ ((settle (stop none s2 0)).get 2).status = .stopped ∧
    ((settle (stop none s2 0)).get 1).status = .running := by
  cases fl <;> decide

/-! ## 2. addressing: the resolution order of `_resolve_actor_target` -/

/-- step 1: a registered systemId wins over everything -/
theorem resolve_systemId_first (s : Sys) (p : Nat) (spec : String) (u : Nat) (h : dlookup spec s.registry = some u) :
    resolve s p spec = .found u := by
  simp [resolve, h]

/-- step 2: then the exact actor id among the sender's children -/
theorem resolve_exact_id_second (s : Sys) (p : Nat) (spec : String) (u : Nat) (h1 : dlookup spec s.registry = none)
    (h2 : dlookup spec (s.get p).kids = some u) : resolve s p spec = .found u := by
  simp [resolve, h1, h2]

/-- step 3: then a UNIQUE child one of whose id segments (after the first) is the key -/
theorem resolve_unique_segment_third (s : Sys) (p : Nat) (spec : String) (u : Nat) (h1 : dlookup spec s.registry = none)
    (h2 : dlookup spec (s.get p).kids = none) (h3 : segMatches (s.get p).kids spec = [u]) : resolve s p spec = .found u := by
  simp [resolve, h1, h2, h3]

/-- …several such children: ambiguous, nothing is addressed -/
theorem ambiguous_is_dropped (s : Sys) (p : Nat) (spec : String) (u v : Nat) (r : List Nat) (h1 : dlookup spec s.registry = none)
    (h2 : dlookup spec (s.get p).kids = none) (h3 : segMatches (s.get p).kids spec = u :: v :: r) : resolve s p spec = .ambiguous := by
  simp [resolve, h1, h2, h3]

/-- step 4: then the first recorded source key whose actor is still a child -/
theorem resolve_source_key_fourth (s : Sys) (p : Nat) (spec : String) (u : Nat) (h1 : dlookup spec s.registry = none)
    (h2 : dlookup spec (s.get p).kids = none) (h3 : segMatches (s.get p).kids spec = [])
    (h4 : sourceMatch (s.get p) spec = some u) : resolve s p spec = .found u := by
  simp [resolve, h1, h2, h3, h4]

/-- step 5: then `parent` / `#parent` -/
theorem resolve_parent_last (s : Sys) (p : Nat) (spec : String) (q : Nat) (h1 : dlookup spec s.registry = none)
    (h2 : dlookup spec (s.get p).kids = none) (h3 : segMatches (s.get p).kids spec = [])
    (h4 : sourceMatch (s.get p) spec = none) (h5 : spec = "parent" ∨ spec = "#parent") (h6 : (s.get p).parent = some q) :
    resolve s p spec = .found q := by
  simp [resolve, h1, h2, h3, h4, parentMatch, h5, h6]

/-- otherwise nothing is addressed -/
theorem resolve_nothing (s : Sys) (p : Nat) (spec : String) (h1 : dlookup spec s.registry = none)
    (h2 : dlookup spec (s.get p).kids = none) (h3 : segMatches (s.get p).kids spec = [])
    (h4 : sourceMatch (s.get p) spec = none) (h5 : ¬ (spec = "parent" ∨ spec = "#parent") ∨ (s.get p).parent = none) :
    resolve s p spec = .none := by
  rcases h5 with h5 | h5
  · simp [resolve, h1, h2, h3, h4, parentMatch, h5]
  · simp [resolve, h1, h2, h3, h4, parentMatch, h5]

/-- *…or drop it with a warning when the target does not resolve or is ambiguous*: `sendTo` / `forwardTo` /
    `stopChild` with such a target change no actor, no timer and no registry entry; they only warn. -/
theorem sendTo_ambiguous_or_unresolved_changes_nothing (busy : Option Nat) (cur : String) (p : Nat) (s : Sys)
    (target ev : String) (delay : Nat) (sid : Option String) (h : ∀ u, resolve s p target ≠ .found u) :
    (runAction busy cur p s (.sendTo target ev delay sid)).actors = s.actors ∧
    (runAction busy cur p s (.sendTo target ev delay sid)).timers = s.timers ∧
    (runAction busy cur p s (.sendTo target ev delay sid)).registry = s.registry ∧
    (runAction busy cur p s (.sendTo target ev delay sid)).warns ≠ s.warns ∧
    (runAction busy cur p s (.forwardTo target)).actors = s.actors ∧
    (runAction busy cur p s (.stopChild target)).actors = s.actors ∧
    (runAction busy cur p s (.stopChild target)).registry = s.registry := by
  cases hr : resolve s p target with
  | found u => exact absurd hr (h u)
  | ambiguous => simp [runAction, hr, Sys.warn]
  | none => simp [runAction, hr, Sys.warn]

/-- F53: two children spawned from the same service under explicit ids: the bare service key is NOT
    reported ambiguous, the first child gets the message. (With auto ids the same key is ambiguous.) -/
theorem source_key_first_of_many_wins (fl : Flavor) :
    let s2 := spawn (spawn (init fl true []) 0 "k1" (some "a") none true) 0 "k1" (some "b") none true
    let s3 := spawn (spawn (init fl true []) 0 "k1" none none true) 0 "k1" none none true
    resolve s2 0 "k1" = .found 1 ∧ resolve s3 0 "k1" = .ambiguous := by
  cases fl <;> decide

/-- F54: `r:a` has the single child `r:a:b`. Nothing is called `a` below `r:a`, yet `sendTo("a")` issued by
    `r:a` resolves to `r:a:b`, because the segment test sees the parent's own segment. -/
theorem segment_match_sees_parents_own_segments (fl : Flavor) :
    let s2 := spawn (spawn (init fl true []) 0 "k1" (some "a") none true) 1 "k2" (some "b") none true
    (s2.get 2).id = "r:a:b" ∧ resolve s2 1 "a" = .found 2 := by
  cases fl <;> decide

/-! ## 3. delivery: exactly once, to the addressee only, in sending order -/

/-- an undelayed delivery touches no actor but the recipient -/
theorem deliver_touches_only_the_recipient (s : Sys) (t : Nat) (ev : String) (v : Nat) (h : v ≠ t) :
    (deliverNow s t ev).get v = s.get v :=
  deliverNow_frame s t ev v h

/-- *each event exactly once, in sending order* (per sender/recipient pair, undelayed sends).
    Sync engine: a running recipient outside its own macrostep has processed exactly the events sent, in
    order, nothing is left queued. Async engine: they are queued in order behind what was queued, and the
    next hand-over (`settle`, the end of the macrostep) moves the whole queue, in order, to the processed
    events of a running recipient. -/
theorem deliver_exactly_once_in_order (s : Sys) (t : Nat) (evs : List String) (ht : t < s.actors.length) :
    (s.flavor = .sync → (s.get t).status = .running → (s.get t).busy = false →
      ((deliverAll s t evs).get t).received = (s.get t).received ++ evs ∧ ((deliverAll s t evs).get t).inbox = (s.get t).inbox) ∧
    (s.flavor = .async → (s.get t).status = .running → (s.get t).alive = true →
      ((deliverAll s t evs).get t).inbox = (s.get t).inbox ++ evs ∧
      ((settle (deliverAll s t evs)).get t).received = (s.get t).received ++ ((s.get t).inbox ++ evs) ∧
      ((settle (deliverAll s t evs)).get t).inbox = []) ∧
    (∀ v, v ≠ t → (deliverAll s t evs).get v = s.get v) := by
  refine ⟨fun hfl hr hb => deliverAll_sync s t evs hfl hr hb ht, fun hfl hr hal => ?_, fun v hv => deliverAll_frame s t evs v hv⟩
  have ⟨i1, i2, i3, i4⟩ := deliverAll_async s t evs hfl (by rw [hr]; decide) ht
  have hfl' : (deliverAll s t evs).flavor = .async := by
    have : Quiet s (deliverAll s t evs) := quiet_foldl _ (fun s e => quiet_deliverNow s t e) evs s
    rw [this.1]; exact hfl
  refine ⟨i1, ?_, ?_⟩
  · unfold settle; simp only [hfl']; rw [get_drainAll]
    simp [drainActor, i1, i2, i3, i4, hr, hal]
  · unfold settle; simp only [hfl']; rw [get_drainAll]
    simp [drainActor, i3, i4, hr, hal]

/-- the same at the level of an action list: consecutive `sendTo` actions to one resolvable target ARE that
    ordered delivery (resolution is not disturbed by the deliveries in between) -/
theorem sendTo_actions_deliver_in_order (busy : Option Nat) (cur : String) (p : Nat) (s : Sys) (tgt : String) (t : Nat)
    (evs : List String) (h : resolve s p tgt = .found t) :
    runActions busy cur p s (evs.map (fun e => Action.sendTo tgt e 0 none)) = deliverAll s t evs :=
  runActions_sendTo busy cur p s tgt t evs h

/-! ## 4. delayed sends: cancel, reused ids -/

/-- *cancel(id) prevents that pending delayed send — and only that one.* The timer registered under the id
    is dead, every other timer is exactly as before, the id is free again. -/
theorem cancel_cancels_only_that_id (s : Sys) (p : Nat) (k : String) (j : Nat) (h : dlookup k (s.get p).sends = some j)
    (hp : p < s.actors.length) :
    (timerAt (cancelSend s p k) j).live = false ∧ (∀ i, i ≠ j → timerAt (cancelSend s p k) i = timerAt s i) ∧
    dlookup k ((cancelSend s p k).get p).sends = none :=
  ⟨(cancelSend_spec s p k j h).1, (cancelSend_spec s p k j h).2.1, cancelSend_sends s p k hp⟩

/-- the timers `advance` fires are the live due ones (`mem_dueLive`): after the cancel the cancelled one is
    never among them, every other one is fired exactly when it would have been -/
theorem cancelled_send_never_fires (s : Sys) (p : Nat) (k : String) (j : Nat) (h : dlookup k (s.get p).sends = some j) (t : Nat) :
    j ∉ dueLive (cancelSend s p k) t ∧ ∀ i, i ≠ j → (i ∈ dueLive (cancelSend s p k) t ↔ i ∈ dueLive s t) := by
  have ⟨c1, c2, c3⟩ := cancelSend_spec s p k j h
  refine ⟨fun hm => ?_, fun i hi => ?_⟩
  · have := ((mem_dueLive _ t j).mp hm).2.1; rw [c1] at this; cases this
  · rw [mem_dueLive, mem_dueLive, c2 i hi, c3]

theorem cancel_unknown_id_is_noop (s : Sys) (p : Nat) (k : String) (h : dlookup k (s.get p).sends = none) :
    cancelSend s p k = s :=
  cancelSend_noop s p k h

/-- *a reused id supersedes*: a delayed send under an id that still has a pending send kills that one,
    creates exactly one new live timer with the new event and due time, registers it under the id, and
    leaves every other timer alone. -/
theorem reused_id_supersedes (s : Sys) (p t : Nat) (ev : String) (delay : Nat) (k : String) (j : Nat) (hd : delay ≠ 0)
    (hj : dlookup k (s.get p).sends = some j) (hjl : j < s.timers.length) (hp : p < s.actors.length) :
    (timerAt (deliver s p t ev delay (some k)) j).live = false ∧
    timerAt (deliver s p t ev delay (some k)) s.timers.length = { owner := p, target := t, ev := ev, due := s.now + delay, live := true } ∧
    (∀ i, i < s.timers.length → i ≠ j → timerAt (deliver s p t ev delay (some k)) i = timerAt s i) ∧
    dlookup k ((deliver s p t ev delay (some k)).get p).sends = some s.timers.length :=
  supersede_spec s p t ev delay k j hd hj hjl hp

theorem fresh_id_disturbs_no_other_send (s : Sys) (p t : Nat) (ev : String) (delay : Nat) (k : String) (hd : delay ≠ 0)
    (hj : dlookup k (s.get p).sends = none) :
    (∀ i, i < s.timers.length → timerAt (deliver s p t ev delay (some k)) i = timerAt s i) ∧
    timerAt (deliver s p t ev delay (some k)) s.timers.length = { owner := p, target := t, ev := ev, due := s.now + delay, live := true } :=
  fresh_send_spec s p t ev delay k hd hj

/-! ## 5. supervision -/

/-- `stop()` of a running actor completes: status `stopped` and (async) no run loop left -/
theorem stop_makes_dead (busy : Option Nat) (s : Sys) (x : Nat) (hwf : WF s) (hx : x < s.actors.length)
    (hr : (s.get x).status = .running) : Dead (stop busy s x) x :=
  (stop_spec busy s x hwf hx hr).1

/-- *the parent's stop() stops the child and all its descendants and removes them from the children map*:
    from an observation point (`WF`, `Settled`, `Tidy`), after `stop()` of a running actor `x` every actor
    `d` below `x` in the children maps — at any depth — is completely stopped and its own children map is
    empty; actors that were already stopped stay so; nobody starts running. -/
theorem parent_stop_stops_subtree (busy : Option Nat) (s : Sys) (x : Nat) (hwf : WF s) (hset : Settled s) (htidy : Tidy s)
    (hx : x < s.actors.length) (hr : (s.get x).status = .running) :
    (∀ d, Desc s x d → Dead (stop busy s x) d ∧ ((stop busy s x).get d).kids = []) ∧
    (∀ u, (s.get u).status = .stopped → ((stop busy s x).get u).status = .stopped) ∧
    (∀ u, ((stop busy s x).get u).status = .running → (s.get u).status = .running) := by
  have ⟨hd, hm, hc⟩ := stop_spec busy s x hwf hx hr
  exact ⟨fun d hdesc => desc_down hwf hset htidy hm hc hdesc hx hd, hm.stopped, hm.run⟩

/-- *stopChild stops the child and all its descendants and removes them from the children map and the
    system registry* — the correct statement for the DIRECT child `x` found under `cid` in the caller's map:
    the entry (and its source record) is gone, no systemId maps to `x` any more, and `x` with everything
    below it is completely stopped with empty children maps. -/
theorem stop_child_removes_subtree (busy : Option Nat) (s : Sys) (p x : Nat) (cid : String)
    (hwf : WF s) (hset : Settled s) (htidy : Tidy s) (hp : p < s.actors.length)
    (hfind : (s.get p).kids.find? (fun kv => kv.2 = x) = some (cid, x)) (hr : (s.get x).status = .running) :
    dlookup cid ((stopChildTo busy s p x).get p).kids = none ∧
    (∀ kv ∈ (stopChildTo busy s p x).registry, kv.2 ≠ x) ∧
    (∀ d, Desc s x d → Dead (stopChildTo busy s p x) d ∧ ((stopChildTo busy s p x).get d).kids = []) := by
  have hmem : (cid, x) ∈ (s.get p).kids := List.mem_of_find?_eq_some hfind
  have hpx := hwf p (cid, x) hmem
  have ⟨t, hta, htf, htr, heq⟩ := stopChildTo_eq busy s p x
  have ⟨w1, w2, w3⟩ := inv_unlinkChild p x hwf hset htidy
  have ⟨c1, c2, c3, c4, c5⟩ := inv_congr (s := unlinkChild s p x) (t := t) hta (htf.trans (unlinkChild_flavor s p x).symm)
  have hxt : x < t.actors.length := by rw [hta, unlinkChild_actors_len]; exact hpx.2
  have hrt : (t.get x).status = .running := by
    apply c5; unfold R; rw [(unlinkChild_status s p x x).1]; exact hr
  have ⟨hd, hm, hc⟩ := stop_spec busy t x (c1 w1) hxt hrt
  rw [heq]
  refine ⟨?_, ?_, fun d hdesc => ?_⟩
  · have hk : dlookup cid (t.get p).kids = none := by
      rw [get_congr hta p]; exact (unlinkChild_removed s p x cid hp hfind).1
    rcases hm.kids p with e | e
    · rw [e]; exact hk
    · rw [e]; rfl
  · intro kv hkv
    have : (stop busy t x).registry = t.registry := registry_stopA busy _ t x
    rw [this, htr] at hkv
    simpa using (List.mem_filter.mp hkv).2
  · exact desc_down (c1 w1) (c2 w2) (c3 w3) hm hc (c4 x d (desc_unlink hwf p x hdesc hpx.1)) hxt hd

/-- F14, the general "…and the system registry" clause is FALSE of the code: `r` spawns `a`, `a` spawns `b`
    with systemId `S2`, `r` does stopChild(`a`). `b` (uid 2) is stopped — and still registered. The same
    after a plain `stop()`: it never unregisters anything. -/
theorem registry_keeps_stopped_descendant (fl : Flavor) :
    let s2 := spawn (spawn (init fl true []) 0 "k1" (some "a") none true) 1 "k2" (some "b") (some "S2") true
    let s3 := settle (runAction none "C2" 0 s2 (.stopChild "a"))
    (s3.get 2).status = .stopped ∧ (s3.get 0).kids = [] ∧ dlookup "S2" s3.registry = some 2 ∧
    dlookup "S2" (settle (stop none s2 0)).registry = some 2 := by
  cases fl <;> decide

/-! ## 6. nothing after stop -/

/-- *…so they receive nothing afterwards.* Whatever operations follow, an actor whose `stop()` has
    completed stays stopped and its record of processed events never changes. -/
theorem nothing_delivered_after_stop (cmds : List (String × List Action)) (s : Sys) (u : Nat) (h : Dead s u) (ops : List Op) :
    Dead (run cmds s ops) u ∧ ((run cmds s ops).get u).received = (s.get u).received :=
  (quiet_run cmds s ops).2.2 u h

/-- …in particular for every actor of a stopped subtree -/
theorem stopped_subtree_receives_nothing (cmds : List (String × List Action)) (busy : Option Nat) (s : Sys) (x : Nat)
    (hwf : WF s) (hset : Settled s) (htidy : Tidy s) (hx : x < s.actors.length) (hr : (s.get x).status = .running)
    (d : Nat) (hd : Desc s x d) (ops : List Op) :
    ((run cmds (stop busy s x) ops).get d).received = ((stop busy s x).get d).received :=
  (nothing_delivered_after_stop cmds _ d ((parent_stop_stops_subtree busy s x hwf hset htidy hx hr).1 d hd).1 ops).2

/-- single operations and single deliveries too (a send to a stopped actor only warns) -/
theorem send_to_dead_actor_is_dropped (s : Sys) (t : Nat) (ev : String) (h : Dead s t) :
    ((deliverNow s t ev).get t).received = (s.get t).received ∧ (deliverNow s t ev).warns = s.warns ++ ["notrunning"] := by
  refine ⟨((quiet_deliverNow s t ev).2.2 t h).2, ?_⟩
  unfold deliverNow
  have hs := h.1
  cases hfl : s.flavor <;> simp [hs, Sys.warn]

/-- F50 (async engine): the clause fails DURING `stop()`. `a` (uid 1) has a child `b`; `r` does
    sendTo(a, M1), sendTo(a, M2), stopChild(a). While `a.stop()` awaits `b.stop()`, a's run loop — already
    woken for M1 — processes M1 although a's status is `stopped` and its stop notification has been
    delivered; M2 is discarded. Without the grandchild both are discarded; the sync engine processes both
    before the stop. -/
theorem async_stopped_actor_processes_queued_event :
    let s2 := spawn (spawn (init .async true []) 0 "k1" (some "a") none true) 1 "k2" (some "b") none true
    let acts := [Action.sendTo "a" "M1" 0 none, Action.sendTo "a" "M2" 0 none, Action.stopChild "a"]
    ((cmdOp s2 0 "C" acts).get 1).status = .stopped ∧ ((cmdOp s2 0 "C" acts).get 1).late = ["M1"] ∧
    ((cmdOp s2 0 "C" acts).get 1).received = ["M1"] ∧
    (let s1 := spawn (init .async true []) 0 "k1" (some "a") none true
     ((cmdOp s1 0 "C" acts).get 1).received = [] ∧ ((cmdOp s1 0 "C" acts).get 1).late = []) := by
  decide

/-! ## non-vacuity: a concrete three-level system satisfies every hypothesis used above -/

/-- `r` with children `a` (systemId S1) and an auto-id `k2`; `a` with child `b` -/
def exSys (fl : Flavor) : Sys :=
  spawn (spawn (spawn (init fl true []) 0 "k1" (some "a") (some "S1") true) 0 "k2" none none true) 1 "k2" (some "b") none true

example (fl : Flavor) : invB (exSys fl) = true := by cases fl <;> decide
example (fl : Flavor) : WF (exSys fl) ∧ Settled (exSys fl) ∧ Tidy (exSys fl) := invB_sound (by cases fl <;> decide)
example (fl : Flavor) : ((exSys fl).get 2).id = "r:k2:u1" ∧ resolve (exSys fl) 0 "S1" = .found 1 ∧ resolve (exSys fl) 0 "k2" = .found 2 ∧
    resolve (exSys fl) 1 "parent" = .found 0 ∧ resolve (exSys fl) 0 "zz" = .none := by cases fl <;> decide
example (fl : Flavor) : Desc (exSys fl) 1 3 :=
  Desc.kid ("r:a:b", 3) (by cases fl <;> decide) (Desc.self 3)
example (fl : Flavor) : Dead (stop none (exSys fl) 1) 3 :=
  ((parent_stop_stops_subtree none (exSys fl) 1 (invB_sound (by cases fl <;> decide)).1 (invB_sound (by cases fl <;> decide)).2.1
    (invB_sound (by cases fl <;> decide)).2.2 (by cases fl <;> decide) (by cases fl <;> decide)).1 3
    (Desc.kid ("r:a:b", 3) (by cases fl <;> decide) (Desc.self 3))).1

end XSM.C15
