import Xsm.Proofs.ActorsInv
import Xsm.Model.ActorsDone
/-!
# C15 — actor messaging and supervision are exact

"spawnChild, spawn_<service> actions and invoking a machine each create exactly one started child,
registered under its id and, if given, its systemId; sendTo, sendParent, forwardTo and escalate deliver
each event exactly once to exactly the addressed actor, in sending order, or drop it with a warning when
the target does not resolve or is ambiguous, and cancel(id) prevents that pending delayed send - and only
that one - from being delivered. stopChild and the parent's stop() stop the child and all its descendants
and remove them from the children map and the system registry, so they receive and emit nothing afterwards."

Statements about the executable actor-system model `Xsm/Model/Actors.lean` (namespace `XSM.Actors`): a
message-level model of `_spawn_actor`, `_resolve_actor_target`, `_system_registry`, `_register_in_system`,
`_deliver`, `_cancel_scheduled_send`, the sendTo / sendParent / forwardTo / escalate / stopChild / spawnChild
branches of `_execute_builtin_action`, and `stop()` of BOTH engines (`Flavor.sync` / `Flavor.async`).  The
same definitions are compiled into `driver_actors` and compared with the real engines on every run of
`./check C15` (`harness/xsmverif/c15.py`), observation by observation.

## What is proved (for all systems, all inputs, no bounds)
* §1 `spawn_creates_one_started_registered` (whether or not the id is free), `spawn_leaves_the_rest_alone` (free
  id), `respawn_stops_and_replaces_previous` (id in use: the previous holder and everything below it is
  completely stopped before the new child exists, the id names the new child, every actor that still runs
  keeps its children map — so no running actor becomes unreachable)
* §2 the resolution order, one theorem per step: `resolve_systemId_first`, `resolve_exact_id_second`,
  `resolve_unique_segment_third`, `ambiguous_is_dropped`, `resolve_source_key_fourth` (UNIQUE source-key match),
  `ambiguous_source_key_is_dropped`, `resolve_parent_last`, `resolve_nothing`;
  `segment_match_looks_only_below_the_parent` (the segments that count are those after the parent's own id);
  `sendTo_ambiguous_or_unresolved_changes_nothing`
* §3 `deliver_touches_only_the_recipient`, `deliver_exactly_once_in_order` (sync: processed at once; async:
  queued in order and taken over in order at the next hand-over), `sendTo_actions_deliver_in_order`
* §4 `cancel_cancels_only_that_id`, `cancelled_send_never_fires`, `cancel_unknown_id_is_noop`,
  `reused_id_supersedes`, `fresh_id_disturbs_no_other_send`
* §5 `stop_makes_dead`, `parent_stop_stops_subtree` (every descendant completely stopped, every children
  map in the subtree empty), `stop_unregisters_subtree` (no registry entry points to the stopped actor or to
  ANY descendant), `stop_child_removes_subtree` (gone from the children map; the whole subtree stopped and
  unregistered), `registry_never_holds_a_stopped_actor` (every reachable state, no hypothesis),
  `systemId_never_addresses_a_stopped_actor`
* §5b `reachable_inv`: the hypotheses `WF`, `Settled`, `Tidy` (and `RegLive`) of the supervision theorems hold at
  EVERY observation point the model reaches from the started root, whatever the commands and operations, as
  long as the run stays inside the modelled fragment (`oos = false`: no actor has stopped itself or an
  ancestor through a systemId); `observation_invariant_is_inductive` (one operation);
  `reachable_stop_stops_and_unregisters_subtree`, `reachable_stop_child_removes_subtree` (the §5 theorems
  without those hypotheses)
* §6 `nothing_delivered_after_stop`: an actor whose status is `stopped` — from the moment `stop()` has set it,
  whatever is still queued for it — processes nothing, whatever operations follow; `stop_discards_the_queue`
  (what is in the inbox when `stop()` is called is never processed), `stopped_actor_is_frozen_inside_a_macrostep`

## Repaired defects, shown on the witnesses that used to exhibit them (`decide`, same inputs as the findings)
* `registry_keeps_stopped_descendant_fixed` (F14), `async_stopped_actor_processes_queued_event_fixed` (F50),
  `respawned_id_orphans_previous_actor_fixed` (F51), `source_key_first_of_many_wins_fixed` (F53),
  `segment_match_sees_parents_own_segments_fixed` (F54)

## What is FALSE of the code, stated as a theorem about the model (= the code, by the tie), open finding
* `sync_lazy_spawn_child_not_started` (F52): sync engine, non-blocking spawn, watcher thread not yet run:
  the child is not started when the spawning action returns, an immediate send is dropped;
  `sync_lazy_respawn_previous_not_started`: for the same reason a spawn under the id of a not-yet-started
  child cannot stop it (the repair of F51 applies to started children)

* `completed_child_leaves_running_descendants` (F71, async engine): an INVOKED child machine that reaches its
  top-level final state (or fails) while it owns a child is dropped from its parent's children map by the managing
  task WITHOUT being stopped; what it had spawned keeps running, registered and addressable by systemId, and the
  parent's `stop()` no longer reaches it. About the extension `Xsm/Model/ActorsDone.lean` (actors that end by
  themselves; `SysD.fixed = false`: the code as it is); the supervision theorems of §5 speak about systems in which
  an actor leaves `running` only through `stop()` and are untouched. The same witness with the repair
  (`SysD.fixed = true`: the task stops the child whatever its status) and on the sync engine (whose watcher thread
  calls `child.stop()`): `completed_child_is_stopped_with_its_descendants`. The check drives the model with the
  variant the ledger says (`F71` open / fixed).

## Only validated (differentially / by the monitor), not proved
* that the model IS the code (tie: 0 disagreements on every explored op sequence, both engines);
* (the hypotheses `WF`, `Settled`, `Tidy` of §5 are now PROVED invariant, `reachable_inv`; the driver still
  evaluates their decidable form `invB` — sound by `invB_sound` — at every observation of every explored run
  and the check fails if it is ever false: a cross-check of the proof's reading of the model against the code);
* exactly-once / addressee-only / warnings at the level of the real interpreters: the monitor of
  `c15_impl.py` (independent reference resolution on the live objects).

## What the model cannot exhibit
Machines are reduced to "records what it receives": an event never triggers a reaction (the harness's
child machines are built that way too). uuid4 is a counter. Only the two thread schedules `eager` /
not `eager` of the sync engine's watcher threads are modelled (start at once / start after the macrostep).
An actor stopping ITSELF or an ANCESTOR through a systemId (`stopChild(systemId)`) leaves the fragment:
the model flags it (`oos`) and the comparison stops there. Delayed sends due at the same millisecond are
not generated (the engines give no order for them).
-/
namespace XSM.C15
open XSM XSM.Actors

/-! ## 1. spawn -/

/-- *spawnChild / spawn_<service> create exactly one started child, registered under its id and systemId.*
    One actor object is added; it runs (`startedAtSpawn`: always in the async engine; sync engine: blocking
    spawn, or the watcher thread scheduled at once), carries the id of the scheme `<parent id>:<explicit id>`
    / `<parent id>:<key>:<fresh>`, is the parent's child under exactly that id, is recorded with its source
    key, and the registry maps the requested systemId to it. Holds whether or not the id was in use. -/
theorem spawn_creates_one_started_registered (busy : Option Nat) (s : Sys) (p : Nat) (key : String) (eid sid : Option String)
    (blocking : Bool) (hp : p < s.actors.length) (hstart : startedAtSpawn s blocking = true) :
    (spawn busy s p key eid sid blocking).actors.length = s.actors.length + 1 ∧
    ((spawn busy s p key eid sid blocking).get s.actors.length).status = .running ∧
    ((spawn busy s p key eid sid blocking).get s.actors.length).id = mkId (s.get p).id key eid s.fresh ∧
    ((spawn busy s p key eid sid blocking).get s.actors.length).parent = some p ∧
    ((spawn busy s p key eid sid blocking).get s.actors.length).received = [] ∧
    dlookup (mkId (s.get p).id key eid s.fresh) ((spawn busy s p key eid sid blocking).get p).kids = some s.actors.length ∧
    dlookup (mkId (s.get p).id key eid s.fresh) ((spawn busy s p key eid sid blocking).get p).sources = some key ∧
    (∀ x, sid = some x → dlookup x (spawn busy s p key eid sid blocking).registry = some s.actors.length) := by
  have ⟨e, hst, _, heq, hid, hsa⟩ := spawn_eq busy s p key eid sid blocking
  have hn : e.actors.length = s.actors.length := hst.2.2.2.1
  have ⟨ha, hr⟩ := spawnFresh_actors e p key eid sid blocking
  have hg : ∀ u, (spawnFresh e p key eid sid blocking).get u = (spawnCore e p key eid sid blocking).get u := get_congr ha
  have ⟨c1, c2, c3, c4, c5, _, _⟩ := spawnCore_spec e p key eid sid blocking (by rw [hn]; exact hp)
  simp only [hn, hid, hsa] at c1 c2 c3 c4 c5
  rw [heq, ha, hr, hg, hg, c2]
  exact ⟨c1, by simp [newActor, hstart], rfl, rfl, rfl, c3, c4, c5⟩

/-- the id scheme -/
theorem spawn_id_scheme (pid key e : String) (n : Nat) :
    mkId pid key (some e) n = pid ++ ":" ++ e ∧ mkId pid key none n = pid ++ ":" ++ key ++ ":u" ++ toString (n + 1) :=
  ⟨rfl, rfl⟩

/-- *…and nothing else happens* (the id is free): every other actor is untouched, the spawning parent keeps
    its status and has received nothing. -/
theorem spawn_leaves_the_rest_alone (busy : Option Nat) (s : Sys) (p : Nat) (key : String) (eid sid : Option String)
    (blocking : Bool) (hp : p < s.actors.length) (hfree : dlookup (mkId (s.get p).id key eid s.fresh) (s.get p).kids = none) :
    (∀ v, v ≠ p → v < s.actors.length → (spawn busy s p key eid sid blocking).get v = s.get v) ∧
    (∀ v, v < s.actors.length → ((spawn busy s p key eid sid blocking).get v).status = (s.get v).status ∧
      ((spawn busy s p key eid sid blocking).get v).received = (s.get v).received) := by
  have heq : spawn busy s p key eid sid blocking = spawnFresh s p key eid sid blocking := by
    unfold spawn; rw [evict_free busy s p _ hfree]
  have ⟨ha, _⟩ := spawnFresh_actors s p key eid sid blocking
  have hg : ∀ u, (spawn busy s p key eid sid blocking).get u = (spawnCore s p key eid sid blocking).get u := by
    intro u; rw [heq]; exact get_congr ha u
  have ⟨_, _, _, _, _, c6, c7⟩ := spawnCore_spec s p key eid sid blocking hp
  exact ⟨fun v h1 h2 => by rw [hg]; exact c6 v h1 h2, fun v h => by rw [hg]; exact ⟨(c7 v h).1, (c7 v h).2.1⟩⟩

/-- F51 repaired — *a spawn under an id that is still in use.* From an observation point, when the id of the
    new child still names the child `old` of the spawning actor `p`:
    * `old` and every actor below it, at any depth, is completely stopped (status, run loop) and has an empty
      children map — `previous.stop()` has completed before the new child is created;
    * the id names the NEW child (uid `s.actors.length`) in `p`'s map; `p` itself keeps running and its map is
      the old one with that one entry re-pointed;
    * no other actor starts running, and every other actor that still runs has exactly the children map it
      had — the only edges that disappear are the one from `p` to `old` and those below `old`, so the only
      actors that are no longer reachable from the root are the stopped ones of `old`'s subtree. -/
theorem respawn_stops_and_replaces_previous (busy : Option Nat) (s : Sys) (p : Nat) (key : String) (eid sid : Option String)
    (blocking : Bool) (old : Nat) (hwf : WF s) (hset : Settled s) (htidy : Tidy s) (hp : p < s.actors.length)
    (hold : dlookup (mkId (s.get p).id key eid s.fresh) (s.get p).kids = some old) :
    (∀ d, Desc s old d → Dead (spawn busy s p key eid sid blocking) d ∧ ((spawn busy s p key eid sid blocking).get d).kids = []) ∧
    dlookup (mkId (s.get p).id key eid s.fresh) ((spawn busy s p key eid sid blocking).get p).kids = some s.actors.length ∧
    (R s p → R (spawn busy s p key eid sid blocking) p ∧ ((spawn busy s p key eid sid blocking).get p).kids =
      dinsert (mkId (s.get p).id key eid s.fresh) s.actors.length (derase (mkId (s.get p).id key eid s.fresh) (s.get p).kids)) ∧
    (∀ u, u < s.actors.length → R (spawn busy s p key eid sid blocking) u → R s u) ∧
    (∀ u, u < s.actors.length → u ≠ p → R (spawn busy s p key eid sid blocking) u →
      ((spawn busy s p key eid sid blocking).get u).kids = (s.get u).kids) := by
  have ⟨h1, h2, h3, h4⟩ := respawn_spec busy s p key eid sid blocking old hwf hset htidy hp hold
  have ⟨e, hst, _, heq, hid, _⟩ := spawn_eq busy s p key eid sid blocking
  have hn : e.actors.length = s.actors.length := hst.2.2.2.1
  have ⟨ha, _⟩ := spawnFresh_actors e p key eid sid blocking
  have c3 := (spawnCore_spec e p key eid sid blocking (by rw [hn]; exact hp)).2.2.1
  rw [hn, hid] at c3
  exact ⟨h1, by rw [heq, get_congr ha]; exact c3,
    fun hr => ⟨respawn_parent_keeps_running busy s p key eid sid blocking old hwf hp hold hr,
      h4 (respawn_parent_keeps_running busy s p key eid sid blocking old hwf hp hold hr)⟩, h2, h3⟩

/-- F51, the former counterexample, repaired: spawning twice under one explicit id. The first child (uid 1) is
    stopped by the second spawn, the children map holds uid 2 under the id, and after the parent's `stop()`
    nothing runs. -/
theorem respawned_id_orphans_previous_actor_fixed (fl : Flavor) :
    let s2 := spawn none (spawn none (init fl true []) 0 "k1" (some "a") none true) 0 "k1" (some "a") none true
    (s2.get 1).id = (s2.get 2).id ∧ (s2.get 0).kids = [("r:a", 2)] ∧ (s2.get 1).status = .stopped ∧
    (s2.get 2).status = .running ∧
    ((settle (stop none s2 0)).get 0).status = .stopped ∧ ((settle (stop none s2 0)).get 2).status = .stopped ∧
    ((settle (stop none s2 0)).get 1).status = .stopped := by
  cases fl <;> decide

/-- F52 (sync engine): a non-blocking spawn whose watcher thread has not run yet returns an UNSTARTED
    child; `sendTo` right after the spawn is dropped ("notrunning") and the child has received nothing
    when it finally starts. -/
theorem sync_lazy_spawn_child_not_started :
    let s1 := spawn none (init .sync false []) 0 "k1" (some "a") none false
    (s1.get 1).status = .uninit ∧
    (runAction none "C0" 0 s1 (.sendTo "a" "M1" 0 none)).warns = ["notrunning"] ∧
    ((settle (runAction none "C0" 0 s1 (.sendTo "a" "M1" 0 none))).get 1).status = .running ∧
    ((settle (runAction none "C0" 0 s1 (.sendTo "a" "M1" 0 none))).get 1).received = [] := by
  decide

/-- F52, another face of it (sync engine, watcher thread not yet run): a spawn under an id whose previous
    holder is still UNSTARTED. `previous.stop()` is a no-op on an unstarted interpreter, so the repair of F51 has
    nothing to stop: the first child (uid 1) is unlinked, still unstarted, and starts running when its thread is
    finally scheduled. (`respawn_stops_and_replaces_previous` speaks about observation points, where every
    child has been started.) -/
theorem sync_lazy_respawn_previous_not_started :
    let s2 := spawn none (spawn none (init .sync false []) 0 "k1" (some "a") none false) 0 "k1" (some "a") none false
    (s2.get 1).status = .uninit ∧ (s2.get 0).kids = [("r:a", 2)] ∧
    ((settle s2).get 1).status = .running ∧ ((settle s2).get 0).kids = [("r:a", 2)] := by
  decide

/-! ## 2. addressing: the resolution order of `_resolve_actor_target` -/

/-- step 1: a registered systemId wins over everything -/
theorem resolve_systemId_first (s : Sys) (p : Nat) (spec : String) (u : Nat) (h : dlookup spec s.registry = some u) :
    resolve s p spec = .found u := by
  simp [resolve, h]

/-- step 2: then the exact actor id among the sender's children -/
theorem resolve_exact_id_second (s : Sys) (p : Nat) (spec : String) (u : Nat) (h1 : dlookup spec s.registry = none)
    (h2 : dlookup spec (s.get p).kids = some u) : resolve s p spec = .found u := by
  simp [resolve, h1, h2]

/-- step 3: then a UNIQUE child one of whose OWN id segments — those after the id of the sender, its parent — is the key -/
theorem resolve_unique_segment_third (s : Sys) (p : Nat) (spec : String) (u : Nat) (h1 : dlookup spec s.registry = none)
    (h2 : dlookup spec (s.get p).kids = none) (h3 : segMatches (s.get p).id (s.get p).kids spec = [u]) :
    resolve s p spec = .found u := by
  simp [resolve, h1, h2, h3]

/-- …several such children: ambiguous, nothing is addressed -/
theorem ambiguous_is_dropped (s : Sys) (p : Nat) (spec : String) (u v : Nat) (r : List Nat) (h1 : dlookup spec s.registry = none)
    (h2 : dlookup spec (s.get p).kids = none) (h3 : segMatches (s.get p).id (s.get p).kids spec = u :: v :: r) :
    resolve s p spec = .ambiguous := by
  simp [resolve, h1, h2, h3]

/-- F54 repaired — *which segments count.* A child takes part in the bare-key match of the actor with id `pid`
    iff the key is among the segments of its id AFTER `pid:`; for the ids a spawn produces
    (`spawn_id_scheme`: `pid:<explicit id>` and `pid:<key>:u<n>`) these are the segments of the explicit id,
    resp. `<key>` and `u<n>` — the segments of `pid` itself play no role, however many it has. -/
theorem segment_match_looks_only_below_the_parent (pid : String) (kids : List (String × Nat)) (spec : String) (u : Nat) :
    (u ∈ segMatches pid kids spec ↔ ∃ kv ∈ kids, spec ∈ ownSegs pid kv.1 ∧ kv.2 = u) ∧
    (∀ rest, ownSegs pid (pid ++ ":" ++ rest) = segs rest) ∧
    (∀ key e n, ownSegs pid (mkId pid key (some e) n) = segs e) ∧
    (∀ key n, ownSegs pid (mkId pid key none n) = segs (key ++ ":u" ++ toString (n + 1))) := by
  refine ⟨mem_segMatches pid kids spec u, ownSegs_prefix pid, fun key e n => ownSegs_prefix pid e, fun key n => ?_⟩
  have : mkId pid key none n = pid ++ ":" ++ (key ++ ":u" ++ toString (n + 1)) := by
    simp [mkId, String.append_assoc]
  rw [this]; exact ownSegs_prefix pid _

/-- step 4: then the UNIQUE child still in the map that was spawned from the service `spec` (F53 repaired:
    the fallback counts its matches) -/
theorem resolve_source_key_fourth (s : Sys) (p : Nat) (spec : String) (u : Nat) (h1 : dlookup spec s.registry = none)
    (h2 : dlookup spec (s.get p).kids = none) (h3 : segMatches (s.get p).id (s.get p).kids spec = [])
    (h4 : sourceMatches (s.get p) spec = [u]) : resolve s p spec = .found u := by
  simp [resolve, h1, h2, h3, h4]

/-- …several children spawned from that service: ambiguous, nothing is addressed; `sendTo` / `forwardTo` /
    `stopChild` then only warn ("ambiguous", "unresolved") and change nothing -/
theorem ambiguous_source_key_is_dropped (s : Sys) (p : Nat) (spec : String) (u v : Nat) (r : List Nat)
    (h1 : dlookup spec s.registry = none) (h2 : dlookup spec (s.get p).kids = none)
    (h3 : segMatches (s.get p).id (s.get p).kids spec = []) (h4 : sourceMatches (s.get p) spec = u :: v :: r) :
    resolve s p spec = .ambiguous ∧
    (∀ busy cur ev delay sid, runAction busy cur p s (.sendTo spec ev delay sid) = (s.warn "ambiguous").warn "unresolved") ∧
    (∀ busy cur, runAction busy cur p s (.forwardTo spec) = (s.warn "ambiguous").warn "unresolved") ∧
    (∀ busy cur, runAction busy cur p s (.stopChild spec) = (s.warn "ambiguous").warn "unresolved") := by
  have hr : resolve s p spec = .ambiguous := by simp [resolve, h1, h2, h3, h4]
  exact ⟨hr, fun _ _ _ _ _ => by simp [runAction, hr], fun _ _ => by simp [runAction, hr], fun _ _ => by simp [runAction, hr]⟩

/-- what the source-key matches are: the children still in the map whose recorded source key is the key -/
theorem source_key_matches (a : Actor) (spec : String) (u : Nat) :
    u ∈ sourceMatches a spec ↔ ∃ kv ∈ a.sources, kv.2 = spec ∧ dlookup kv.1 a.kids = some u :=
  mem_sourceMatches a spec u

/-- step 5: then `parent` / `#parent` -/
theorem resolve_parent_last (s : Sys) (p : Nat) (spec : String) (q : Nat) (h1 : dlookup spec s.registry = none)
    (h2 : dlookup spec (s.get p).kids = none) (h3 : segMatches (s.get p).id (s.get p).kids spec = [])
    (h4 : sourceMatches (s.get p) spec = []) (h5 : spec = "parent" ∨ spec = "#parent") (h6 : (s.get p).parent = some q) :
    resolve s p spec = .found q := by
  simp [resolve, h1, h2, h3, h4, parentMatch, h5, h6]

/-- otherwise nothing is addressed -/
theorem resolve_nothing (s : Sys) (p : Nat) (spec : String) (h1 : dlookup spec s.registry = none)
    (h2 : dlookup spec (s.get p).kids = none) (h3 : segMatches (s.get p).id (s.get p).kids spec = [])
    (h4 : sourceMatches (s.get p) spec = []) (h5 : ¬ (spec = "parent" ∨ spec = "#parent") ∨ (s.get p).parent = none) :
    resolve s p spec = .none := by
  rcases h5 with h5 | h5
  · simp [resolve, h1, h2, h3, h4, parentMatch, h5]
  · simp [resolve, h1, h2, h3, h4, parentMatch, h5]

/-- *…or drop it with a warning when the target does not resolve or is ambiguous*: `sendTo` / `forwardTo` /
    `stopChild` with such a target change no actor, no timer and no registry entry; they only warn. -/
theorem sendTo_ambiguous_or_unresolved_changes_nothing (busy : Option Nat) (cur : String) (p : Nat) (s : Sys)
    (target ev : String) (delay : Nat) (sid : Option String) (h : ∀ u, resolve s p target ≠ .found u) :
    (runAction busy cur p s (.sendTo target ev delay sid)).actors = s.actors ∧
    (runAction busy cur p s (.sendTo target ev delay sid)).timers = s.timers ∧
    (runAction busy cur p s (.sendTo target ev delay sid)).registry = s.registry ∧
    (runAction busy cur p s (.sendTo target ev delay sid)).warns ≠ s.warns ∧
    (runAction busy cur p s (.forwardTo target)).actors = s.actors ∧
    (runAction busy cur p s (.stopChild target)).actors = s.actors ∧
    (runAction busy cur p s (.stopChild target)).registry = s.registry := by
  cases hr : resolve s p target with
  | found u => exact absurd hr (h u)
  | ambiguous => simp [runAction, hr, Sys.warn]
  | none => simp [runAction, hr, Sys.warn]

/-- F53, the former counterexample, repaired: two children spawned from the same service under explicit ids:
    the bare service key is ambiguous (as it always was with auto ids), a `sendTo` only warns and nobody
    receives anything. -/
theorem source_key_first_of_many_wins_fixed (fl : Flavor) :
    let s2 := spawn none (spawn none (init fl true []) 0 "k1" (some "a") none true) 0 "k1" (some "b") none true
    let s3 := spawn none (spawn none (init fl true []) 0 "k1" none none true) 0 "k1" none none true
    resolve s2 0 "k1" = .ambiguous ∧ resolve s3 0 "k1" = .ambiguous ∧
    (runAction none "C" 0 s2 (.sendTo "k1" "M1" 0 none)).warns = ["ambiguous", "unresolved"] ∧
    (runAction none "C" 0 s2 (.sendTo "k1" "M1" 0 none)).actors = s2.actors := by
  cases fl <;> decide

/-- F54, the former counterexample, repaired: `r:a` has the single child `r:a:b`. Nothing is called `a` below
    `r:a`: `sendTo("a")` issued by `r:a` does not resolve (while `b` still does). -/
theorem segment_match_sees_parents_own_segments_fixed (fl : Flavor) :
    let s2 := spawn none (spawn none (init fl true []) 0 "k1" (some "a") none true) 1 "k2" (some "b") none true
    (s2.get 2).id = "r:a:b" ∧ resolve s2 1 "a" = .none ∧ resolve s2 1 "b" = .found 2 := by
  cases fl <;> decide

/-! ## 3. delivery: exactly once, to the addressee only, in sending order -/

/-- an undelayed delivery touches no actor but the recipient -/
theorem deliver_touches_only_the_recipient (s : Sys) (t : Nat) (ev : String) (v : Nat) (h : v ≠ t) :
    (deliverNow s t ev).get v = s.get v :=
  deliverNow_frame s t ev v h

/-- *each event exactly once, in sending order* (per sender/recipient pair, undelayed sends).
    Sync engine: a running recipient outside its own macrostep has processed exactly the events sent, in
    order, nothing is left queued. Async engine: they are queued in order behind what was queued, and the
    next hand-over (`settle`, the end of the macrostep) moves the whole queue, in order, to the processed
    events of a running recipient. -/
theorem deliver_exactly_once_in_order (s : Sys) (t : Nat) (evs : List String) (ht : t < s.actors.length) :
    (s.flavor = .sync → (s.get t).status = .running → (s.get t).busy = false →
      ((deliverAll s t evs).get t).received = (s.get t).received ++ evs ∧ ((deliverAll s t evs).get t).inbox = (s.get t).inbox) ∧
    (s.flavor = .async → (s.get t).status = .running → (s.get t).alive = true →
      ((deliverAll s t evs).get t).inbox = (s.get t).inbox ++ evs ∧
      ((settle (deliverAll s t evs)).get t).received = (s.get t).received ++ ((s.get t).inbox ++ evs) ∧
      ((settle (deliverAll s t evs)).get t).inbox = []) ∧
    (∀ v, v ≠ t → (deliverAll s t evs).get v = s.get v) := by
  refine ⟨fun hfl hr hb => deliverAll_sync s t evs hfl hr hb ht, fun hfl hr hal => ?_, fun v hv => deliverAll_frame s t evs v hv⟩
  have ⟨i1, i2, i3, i4⟩ := deliverAll_async s t evs hfl (by rw [hr]; decide) ht
  have hfl' : (deliverAll s t evs).flavor = .async := by
    have : Quiet s (deliverAll s t evs) := quiet_foldl _ (fun s e => quiet_deliverNow s t e) evs s
    rw [this.1]; exact hfl
  refine ⟨i1, ?_, ?_⟩
  · unfold settle; simp only [hfl']; rw [get_drainAll]
    simp [drainActor, i1, i2, i3, i4, hr, hal]
  · unfold settle; simp only [hfl']; rw [get_drainAll]
    simp [drainActor, i3, i4, hr, hal]

/-- the same at the level of an action list: consecutive `sendTo` actions to one resolvable target ARE that
    ordered delivery (resolution is not disturbed by the deliveries in between) -/
theorem sendTo_actions_deliver_in_order (busy : Option Nat) (cur : String) (p : Nat) (s : Sys) (tgt : String) (t : Nat)
    (evs : List String) (h : resolve s p tgt = .found t) :
    runActions busy cur p s (evs.map (fun e => Action.sendTo tgt e 0 none)) = deliverAll s t evs :=
  runActions_sendTo busy cur p s tgt t evs h

/-! ## 4. delayed sends: cancel, reused ids -/

/-- *cancel(id) prevents that pending delayed send — and only that one.* The timer registered under the id
    is dead, every other timer is exactly as before, the id is free again. -/
theorem cancel_cancels_only_that_id (s : Sys) (p : Nat) (k : String) (j : Nat) (h : dlookup k (s.get p).sends = some j)
    (hp : p < s.actors.length) :
    (timerAt (cancelSend s p k) j).live = false ∧ (∀ i, i ≠ j → timerAt (cancelSend s p k) i = timerAt s i) ∧
    dlookup k ((cancelSend s p k).get p).sends = none :=
  ⟨(cancelSend_spec s p k j h).1, (cancelSend_spec s p k j h).2.1, cancelSend_sends s p k hp⟩

/-- the timers `advance` fires are the live due ones (`mem_dueLive`): after the cancel the cancelled one is
    never among them, every other one is fired exactly when it would have been -/
theorem cancelled_send_never_fires (s : Sys) (p : Nat) (k : String) (j : Nat) (h : dlookup k (s.get p).sends = some j) (t : Nat) :
    j ∉ dueLive (cancelSend s p k) t ∧ ∀ i, i ≠ j → (i ∈ dueLive (cancelSend s p k) t ↔ i ∈ dueLive s t) := by
  have ⟨c1, c2, c3⟩ := cancelSend_spec s p k j h
  refine ⟨fun hm => ?_, fun i hi => ?_⟩
  · have := ((mem_dueLive _ t j).mp hm).2.1; rw [c1] at this; cases this
  · rw [mem_dueLive, mem_dueLive, c2 i hi, c3]

theorem cancel_unknown_id_is_noop (s : Sys) (p : Nat) (k : String) (h : dlookup k (s.get p).sends = none) :
    cancelSend s p k = s :=
  cancelSend_noop s p k h

/-- *a reused id supersedes*: a delayed send under an id that still has a pending send kills that one,
    creates exactly one new live timer with the new event and due time, registers it under the id, and
    leaves every other timer alone. -/
theorem reused_id_supersedes (s : Sys) (p t : Nat) (ev : String) (delay : Nat) (k : String) (j : Nat) (hd : delay ≠ 0)
    (hj : dlookup k (s.get p).sends = some j) (hjl : j < s.timers.length) (hp : p < s.actors.length) :
    (timerAt (deliver s p t ev delay (some k)) j).live = false ∧
    timerAt (deliver s p t ev delay (some k)) s.timers.length = { owner := p, target := t, ev := ev, due := s.now + delay, live := true } ∧
    (∀ i, i < s.timers.length → i ≠ j → timerAt (deliver s p t ev delay (some k)) i = timerAt s i) ∧
    dlookup k ((deliver s p t ev delay (some k)).get p).sends = some s.timers.length :=
  supersede_spec s p t ev delay k j hd hj hjl hp

theorem fresh_id_disturbs_no_other_send (s : Sys) (p t : Nat) (ev : String) (delay : Nat) (k : String) (hd : delay ≠ 0)
    (hj : dlookup k (s.get p).sends = none) :
    (∀ i, i < s.timers.length → timerAt (deliver s p t ev delay (some k)) i = timerAt s i) ∧
    timerAt (deliver s p t ev delay (some k)) s.timers.length = { owner := p, target := t, ev := ev, due := s.now + delay, live := true } :=
  fresh_send_spec s p t ev delay k hd hj

/-! ## 5. supervision -/

/-- `stop()` of a running actor completes: status `stopped` and (async) no run loop left -/
theorem stop_makes_dead (busy : Option Nat) (s : Sys) (x : Nat) (hwf : WF s) (hx : x < s.actors.length)
    (hr : (s.get x).status = .running) : Dead (stop busy s x) x :=
  (stop_spec busy s x hwf hx hr).1

/-- *the parent's stop() stops the child and all its descendants and removes them from the children map*:
    from an observation point (`WF`, `Settled`, `Tidy`), after `stop()` of a running actor `x` every actor
    `d` below `x` in the children maps — at any depth — is completely stopped and its own children map is
    empty; actors that were already stopped stay so; nobody starts running. -/
theorem parent_stop_stops_subtree (busy : Option Nat) (s : Sys) (x : Nat) (hwf : WF s) (hset : Settled s) (htidy : Tidy s)
    (hx : x < s.actors.length) (hr : (s.get x).status = .running) :
    (∀ d, Desc s x d → Dead (stop busy s x) d ∧ ((stop busy s x).get d).kids = []) ∧
    (∀ u, (s.get u).status = .stopped → ((stop busy s x).get u).status = .stopped) ∧
    (∀ u, ((stop busy s x).get u).status = .running → (s.get u).status = .running) := by
  have ⟨hd, hm, hc⟩ := stop_spec busy s x hwf hx hr
  exact ⟨fun d hdesc => desc_down hwf hset htidy hm hc hdesc hx hd, hm.stopped, hm.run⟩

/-- F14 repaired — *…and the system registry*, in full generality: when the registry holds no stopped actor
    (`RegLive`: true of every reachable state, `registry_never_holds_a_stopped_actor`), after `stop()` of a
    running actor `x` NO registry entry points to `x` or to any actor below `x`, at any depth. -/
theorem stop_unregisters_subtree (busy : Option Nat) (s : Sys) (x : Nat) (hwf : WF s) (hset : Settled s) (htidy : Tidy s)
    (hreg : RegLive s) (hx : x < s.actors.length) (hr : (s.get x).status = .running) :
    RegLive (stop busy s x) ∧ ∀ d, Desc s x d → ∀ kv ∈ (stop busy s x).registry, kv.2 ≠ d := by
  have hl : RegLive (stop busy s x) := hreg.step (reg_stop busy s x)
  refine ⟨hl, fun d hd kv hkv e => ?_⟩
  have := ((parent_stop_stops_subtree busy s x hwf hset htidy hx hr).1 d hd).1.1
  exact hl kv hkv (by rw [e]; exact this)

/-- *stopChild stops the child and all its descendants and removes them from the children map and the
    system registry*: for the child `x` found under `cid` in the caller's map, the entry (and its source
    record) is gone, and `x` with EVERYTHING below it is completely stopped, has an empty children map and is
    no longer in the registry under any systemId. -/
theorem stop_child_removes_subtree (busy : Option Nat) (s : Sys) (p x : Nat) (cid : String)
    (hwf : WF s) (hset : Settled s) (htidy : Tidy s) (hreg : RegLive s) (hp : p < s.actors.length)
    (hfind : (s.get p).kids.find? (fun kv => kv.2 = x) = some (cid, x)) (hr : (s.get x).status = .running) :
    dlookup cid ((stopChildTo busy s p x).get p).kids = none ∧
    (∀ d, Desc s x d → Dead (stopChildTo busy s p x) d ∧ ((stopChildTo busy s p x).get d).kids = [] ∧
      ∀ kv ∈ (stopChildTo busy s p x).registry, kv.2 ≠ d) := by
  have hmem : (cid, x) ∈ (s.get p).kids := List.mem_of_find?_eq_some hfind
  have hpx := hwf p (cid, x) hmem
  have hl : RegLive (stopChildTo busy s p x) := hreg.step (reg_stopChildTo busy s p x)
  have ⟨t, hta, htf, _, heq⟩ := stopChildTo_eq busy s p x
  have ⟨w1, w2, w3⟩ := inv_unlinkChild p x hwf hset htidy
  have ⟨c1, c2, c3, c4, c5⟩ := inv_congr (s := unlinkChild s p x) (t := t) hta (htf.trans (unlinkChild_flavor s p x).symm)
  have hxt : x < t.actors.length := by rw [hta, unlinkChild_actors_len]; exact hpx.2
  have hrt : (t.get x).status = .running := by
    apply c5; unfold R; rw [(unlinkChild_status s p x x).1]; exact hr
  have ⟨hd, hm, hc⟩ := stop_spec busy t x (c1 w1) hxt hrt
  have hdown : ∀ d, Desc s x d → Dead (stop busy t x) d ∧ ((stop busy t x).get d).kids = [] := fun d hdesc =>
    desc_down (c1 w1) (c2 w2) (c3 w3) hm hc (c4 x d (desc_unlink hwf p x hdesc hpx.1)) hxt hd
  rw [heq] at hl ⊢
  refine ⟨?_, fun d hdesc => ⟨(hdown d hdesc).1, (hdown d hdesc).2, fun kv hkv e => ?_⟩⟩
  · have hk : dlookup cid (t.get p).kids = none := by
      rw [get_congr hta p]; exact (unlinkChild_removed s p x cid hp hfind).1
    rcases hm.kids p with e | e
    · rw [e]; exact hk
    · rw [e]; rfl
  · exact hl kv hkv (by rw [e]; exact (hdown d hdesc).1.1)

/-- F14 repaired, as an invariant: in EVERY state the model can reach — whatever commands, whatever
    operations, both engines, also in runs that leave the fragment — the system registry holds no stopped
    actor. (`stop()` sets the status and drops the systemIds together; nothing else stops an actor.) -/
theorem registry_never_holds_a_stopped_actor (cmds : List (String × List Action)) (fl : Flavor) (eager : Bool)
    (invoke : List (String × String)) (ops : List Op) : RegLive (run cmds (init fl eager invoke) ops) :=
  (regLive_init fl eager invoke).step (reg_run cmds _ ops)

/-- …and it is an invariant of every single operation and of every action inside a macrostep -/
theorem registry_invariant_is_inductive (cmds : List (String × List Action)) (s : Sys) (h : RegLive s) :
    (∀ op, RegLive (step cmds s op)) ∧ (∀ busy cur p acts, RegLive (runActions busy cur p s acts)) ∧
    (∀ busy x, RegLive (stop busy s x)) :=
  ⟨fun op => h.step (reg_step cmds s op), fun busy cur p acts => h.step (reg_runActions busy cur p s acts),
    fun busy x => h.step (reg_stop busy s x)⟩

/-- hence a systemId never addresses a stopped actor: whatever `resolve` finds through the registry is not stopped -/
theorem systemId_never_addresses_a_stopped_actor (s : Sys) (h : RegLive s) (p : Nat) (spec : String) (u : Nat)
    (hreg : dlookup spec s.registry = some u) : resolve s p spec = .found u ∧ (s.get u).status ≠ .stopped :=
  ⟨resolve_systemId_first s p spec u hreg, h (spec, u) (dlookup_mem hreg)⟩

/-- F14, the former counterexample, repaired: `r` spawns `a`, `a` spawns `b` with systemId `S2`, `r` does
    stopChild(`a`). `b` (uid 2) is stopped — and no longer registered. The same after a plain `stop()`. -/
theorem registry_keeps_stopped_descendant_fixed (fl : Flavor) :
    let s2 := spawn none (spawn none (init fl true []) 0 "k1" (some "a") none true) 1 "k2" (some "b") (some "S2") true
    let s3 := settle (runAction none "C2" 0 s2 (.stopChild "a"))
    dlookup "S2" s2.registry = some 2 ∧
    (s3.get 2).status = .stopped ∧ (s3.get 0).kids = [] ∧ s3.registry = [] ∧
    (settle (stop none s2 0)).registry = [] := by
  cases fl <;> decide

/-! ## 5b. the hypotheses of §5 hold in every reachable state -/

/-- one operation preserves the observation-point invariant `I`: the run has left the fragment (`oos`), or
    `Pre` (`WF`, `Tidy`, parent links = children maps, every actor unstarted / running / completely stopped)
    and `Settled` hold -/
theorem observation_invariant_is_inductive (cmds : List (String × List Action)) (s : Sys) (h : I s) (op : Op) :
    I (step cmds s op) :=
  i_step cmds s op h

/-- *every reachable state*: from the started root, after any operations with any commands, on either engine
    and with either thread schedule, as long as no actor has stopped itself or an ancestor through a systemId
    (`oos`, the one thing the model does not follow), the observation point satisfies `WF`, `Settled`, `Tidy`
    and `RegLive`. -/
theorem reachable_inv (cmds : List (String × List Action)) (fl : Flavor) (eager : Bool) (invoke : List (String × String))
    (ops : List Op) (ho : (run cmds (init fl eager invoke) ops).oos = false) :
    WF (run cmds (init fl eager invoke) ops) ∧ Settled (run cmds (init fl eager invoke) ops) ∧
    Tidy (run cmds (init fl eager invoke) ops) ∧ RegLive (run cmds (init fl eager invoke) ops) :=
  have ⟨a, b, c⟩ := inv_of_I (i_run cmds _ ops (i_init fl eager invoke)) ho
  ⟨a, b, c, registry_never_holds_a_stopped_actor cmds fl eager invoke ops⟩

/-- §5 without hypotheses about the state: in every reachable state, `stop()` of a running actor `x` leaves
    every actor below `x` — at any depth — completely stopped, with an empty children map, and in no registry
    entry. -/
theorem reachable_stop_stops_and_unregisters_subtree (cmds : List (String × List Action)) (fl : Flavor) (eager : Bool)
    (invoke : List (String × String)) (ops : List Op) (busy : Option Nat) (x : Nat)
    (ho : (run cmds (init fl eager invoke) ops).oos = false) (hx : x < (run cmds (init fl eager invoke) ops).actors.length)
    (hr : ((run cmds (init fl eager invoke) ops).get x).status = .running) :
    ∀ d, Desc (run cmds (init fl eager invoke) ops) x d →
      Dead (stop busy (run cmds (init fl eager invoke) ops) x) d ∧
      ((stop busy (run cmds (init fl eager invoke) ops) x).get d).kids = [] ∧
      ∀ kv ∈ (stop busy (run cmds (init fl eager invoke) ops) x).registry, kv.2 ≠ d := by
  have ⟨hwf, hset, htidy, hreg⟩ := reachable_inv cmds fl eager invoke ops ho
  intro d hd
  have h1 := (parent_stop_stops_subtree busy _ x hwf hset htidy hx hr).1 d hd
  exact ⟨h1.1, h1.2, (stop_unregisters_subtree busy _ x hwf hset htidy hreg hx hr).2 d hd⟩

/-- …and `stopChild` of a running child found in the caller's map -/
theorem reachable_stop_child_removes_subtree (cmds : List (String × List Action)) (fl : Flavor) (eager : Bool)
    (invoke : List (String × String)) (ops : List Op) (busy : Option Nat) (p x : Nat) (cid : String)
    (ho : (run cmds (init fl eager invoke) ops).oos = false) (hp : p < (run cmds (init fl eager invoke) ops).actors.length)
    (hfind : ((run cmds (init fl eager invoke) ops).get p).kids.find? (fun kv => kv.2 = x) = some (cid, x))
    (hr : ((run cmds (init fl eager invoke) ops).get x).status = .running) :
    dlookup cid ((stopChildTo busy (run cmds (init fl eager invoke) ops) p x).get p).kids = none ∧
    (∀ d, Desc (run cmds (init fl eager invoke) ops) x d →
      Dead (stopChildTo busy (run cmds (init fl eager invoke) ops) p x) d ∧
      ((stopChildTo busy (run cmds (init fl eager invoke) ops) p x).get d).kids = [] ∧
      ∀ kv ∈ (stopChildTo busy (run cmds (init fl eager invoke) ops) p x).registry, kv.2 ≠ d) := by
  have ⟨hwf, hset, htidy, hreg⟩ := reachable_inv cmds fl eager invoke ops ho
  exact stop_child_removes_subtree busy _ p x cid hwf hset htidy hreg hp hfind hr

/-! ## 6. nothing after stop -/

/-- *…so they receive nothing afterwards.* F50 repaired: the clause holds from the moment `stop()` has set the
    status — not only once `stop()` has completed, and whatever is still in the actor's queue. Whatever
    operations follow, the actor stays stopped, its record of processed events never changes, and once its
    run loop has ended (`Dead`) it stays ended. -/
theorem nothing_delivered_after_stop (cmds : List (String × List Action)) (s : Sys) (u : Nat)
    (h : (s.get u).status = .stopped) (ops : List Op) :
    ((run cmds s ops).get u).status = .stopped ∧ ((run cmds s ops).get u).received = (s.get u).received ∧
    (Dead s u → Dead (run cmds s ops) u) :=
  ⟨((quiet_run cmds s ops).2.2 u h).1, ((quiet_run cmds s ops).2.2 u h).2.1, fun hd => ((quiet_run cmds s ops).dead hd).1⟩

/-- the same INSIDE a macrostep, where the async engine hands queues over (`drainAll`: every `await` that
    really suspends) while some `stop()` is still under way: a stopped actor processes nothing of what is
    queued for it — at a hand-over, during the rest of the action list, during anybody's `stop()` -/
theorem stopped_actor_is_frozen_inside_a_macrostep (s : Sys) (u : Nat) (h : (s.get u).status = .stopped) :
    (∀ busy, ((drainAll busy s).get u).received = (s.get u).received) ∧
    (∀ busy cur p acts, ((runActions busy cur p s acts).get u).received = (s.get u).received) ∧
    (∀ busy x, ((stop busy s x).get u).received = (s.get u).received) :=
  ⟨fun busy => ((quiet_drainAll busy s).2.2 u h).2.1, fun busy cur p acts => ((quiet_runActions busy cur p s acts).2.2 u h).2.1,
    fun busy x => ((quiet_stop busy s x).2.2 u h).2.1⟩

/-- *events already in the inbox at stop time*: `stop()` of a running actor `x` — whatever `x` has in its
    queue, whatever its children do while they are stopped — leaves the record of what `x` has processed
    exactly as it was, and so does everything that follows. -/
theorem stop_discards_the_queue (cmds : List (String × List Action)) (busy : Option Nat) (s : Sys) (x : Nat)
    (hx : x < s.actors.length) (hr : (s.get x).status = .running) (ops : List Op) :
    ((stop busy s x).get x).received = (s.get x).received ∧
    ((run cmds (stop busy s x) ops).get x).received = (s.get x).received := by
  have ⟨h1, h2⟩ := stop_own_queue busy s x hx hr
  exact ⟨h2, (nothing_delivered_after_stop cmds _ x h1 ops).2.1.trans h2⟩

/-- …in particular for every actor of a stopped subtree -/
theorem stopped_subtree_receives_nothing (cmds : List (String × List Action)) (busy : Option Nat) (s : Sys) (x : Nat)
    (hwf : WF s) (hset : Settled s) (htidy : Tidy s) (hx : x < s.actors.length) (hr : (s.get x).status = .running)
    (d : Nat) (hd : Desc s x d) (ops : List Op) :
    ((run cmds (stop busy s x) ops).get d).received = ((stop busy s x).get d).received :=
  (nothing_delivered_after_stop cmds _ d ((parent_stop_stops_subtree busy s x hwf hset htidy hx hr).1 d hd).1.1 ops).2.1

/-- single operations and single deliveries too (a send to a stopped actor only warns) -/
theorem send_to_stopped_actor_is_dropped (s : Sys) (t : Nat) (ev : String) (h : (s.get t).status = .stopped) :
    ((deliverNow s t ev).get t).received = (s.get t).received ∧ (deliverNow s t ev).warns = s.warns ++ ["notrunning"] := by
  refine ⟨((quiet_deliverNow s t ev).2.2 t h).2.1, ?_⟩
  unfold deliverNow
  cases hfl : s.flavor <;> simp [h, Sys.warn]

/-- F50, the former counterexample, repaired (async engine). `a` (uid 1) has a child `b`; `r` does
    sendTo(a, M1), sendTo(a, M2), stopChild(a). While `a.stop()` awaits `b.stop()`, a's run loop — already woken
    for M1 — finds the status `stopped` after `get()`, discards M1 and ends: `a` has processed nothing, exactly
    as without the grandchild. -/
theorem async_stopped_actor_processes_queued_event_fixed :
    let s2 := spawn none (spawn none (init .async true []) 0 "k1" (some "a") none true) 1 "k2" (some "b") none true
    let acts := [Action.sendTo "a" "M1" 0 none, Action.sendTo "a" "M2" 0 none, Action.stopChild "a"]
    ((cmdOp s2 0 "C" acts).get 1).status = .stopped ∧ ((cmdOp s2 0 "C" acts).get 1).received = [] ∧
    ((cmdOp s2 0 "C" acts).get 1).alive = false ∧ ((cmdOp s2 0 "C" acts).get 2).status = .stopped ∧
    (let s1 := spawn none (init .async true []) 0 "k1" (some "a") none true
     ((cmdOp s1 0 "C" acts).get 1).received = []) := by
  decide

/-! ## 7. actors that end by themselves (`Xsm/Model/ActorsDone.lean`) -/

/-- the commands of the witness: the child spawns `g` under the systemId `S2`; the root sends `M1` to `S2` -/
def doneCmds : List (String × List Action) :=
  [("C0", [Action.spawn "k2" (some "g") (some "S2") false]), ("C1", [Action.sendTo "S2" "M1" 0 none])]

/-- `r` enters its invoking state (`invoke: {src: k1}`), the invoked child `aid` spawns `g`, then the child's machine
    ENDS BY ITSELF (`failed`: in the error status instead of a final state) and the watchers' poll interval passes -/
def doneRun (fl : Flavor) (fixed failed : Bool) (aid : String) : SysD :=
  runD doneCmds (initD fl true [("r", "k1")] fixed) [.base (.cmd "r" "GOINV"), .base (.cmd aid "C0"), .fin aid failed]

/-- F71 (async engine, the code as it is: `fixed = false`). The invoked child (uid 1) has reached its final state
    (resp. failed): the managing task has told the parent (`done.invoke.iv` / `error.platform.iv`) and removed the child
    from the parent's children map — but has NOT stopped it: its status is `done` (`error`), it still lists `g`
    (uid 2), and `g` is still RUNNING and still registered under its systemId.  The root can still reach `g`
    through the systemId (`M1` is delivered), and after `stop()` of the root — which stops everything it lists —
    `g` is STILL running and registered: no `stop()` reaches it any more.  (The run stays inside the modelled
    fragment.) -/
theorem completed_child_leaves_running_descendants (failed : Bool) :
    let d3 := doneRun .async false failed "r:k1:u1"
    let d5 := runD doneCmds d3 [.base (.cmd "r" "C1"), .base (.stop "r")]
    d3.status 1 = (if failed then StatusD.error else StatusD.done) ∧
    (d3.base.get 0).kids = [] ∧ (d3.base.get 0).received = ["GOINV", if failed then "error.platform.iv" else "done.invoke.iv"] ∧
    (d3.base.get 1).kids = [("r:k1:u1:g", 2)] ∧ d3.status 2 = .running ∧ d3.base.registry = [("S2", 2)] ∧
    d5.status 0 = .stopped ∧ d5.status 2 = .running ∧ (d5.base.get 2).received = ["M1"] ∧
    d5.base.registry = [("S2", 2)] ∧ d5.base.oos = false := by
  cases failed <;> decide

/-- the same witness where the child IS stopped when it ends by itself: the async engine with F71 repaired
    (`fixed = true`: the managing task stops the child whatever its status) and the sync engine (the watcher thread
    calls `child.stop()`; there the invoked child is `r:iv`).  The child and `g` are completely stopped, nothing is
    registered, the parent's map is empty; `M1` is not delivered to anybody (the systemId no longer resolves). -/
theorem completed_child_is_stopped_with_its_descendants (failed : Bool) :
    (let d3 := doneRun .async true failed "r:k1:u1"
     let d4 := runD doneCmds d3 [.base (.cmd "r" "C1")]
     d3.status 1 = .stopped ∧ d3.status 2 = .stopped ∧ (d3.base.get 0).kids = [] ∧ (d3.base.get 1).kids = [] ∧
     d3.base.registry = [] ∧ d3.fin = [] ∧ invB d3.base = true ∧
     d4.base.warns = ["unresolved"] ∧ (d4.base.get 2).received = []) ∧
    (∀ fixed, let d3 := doneRun .sync fixed failed "r:iv"
     d3.status 1 = .stopped ∧ d3.status 2 = .stopped ∧ (d3.base.get 0).kids = [] ∧ (d3.base.get 1).kids = [] ∧
     d3.base.registry = [] ∧ d3.fin = [] ∧ invB d3.base = true) := by
  refine ⟨?_, fun fixed => ?_⟩
  · cases failed <;> decide
  · cases failed <;> cases fixed <;> decide

/-! ## non-vacuity: a concrete three-level system satisfies every hypothesis used above -/

/-- `r` with children `a` (systemId S1) and an auto-id `k2`; `a` with child `b` -/
def exSys (fl : Flavor) : Sys :=
  spawn none (spawn none (spawn none (init fl true []) 0 "k1" (some "a") (some "S1") true) 0 "k2" none none true) 1 "k2" (some "b") none true

example (fl : Flavor) : invB (exSys fl) = true := by cases fl <;> decide
example (fl : Flavor) : WF (exSys fl) ∧ Settled (exSys fl) ∧ Tidy (exSys fl) := invB_sound (by cases fl <;> decide)
example (fl : Flavor) : ((exSys fl).get 2).id = "r:k2:u1" ∧ resolve (exSys fl) 0 "S1" = .found 1 ∧ resolve (exSys fl) 0 "k2" = .found 2 ∧
    resolve (exSys fl) 1 "parent" = .found 0 ∧ resolve (exSys fl) 0 "zz" = .none := by cases fl <;> decide
example (fl : Flavor) : Desc (exSys fl) 1 3 :=
  Desc.kid ("r:a:b", 3) (by cases fl <;> decide) (Desc.self 3)
example (fl : Flavor) : Dead (stop none (exSys fl) 1) 3 :=
  ((parent_stop_stops_subtree none (exSys fl) 1 (invB_sound (by cases fl <;> decide)).1 (invB_sound (by cases fl <;> decide)).2.1
    (invB_sound (by cases fl <;> decide)).2.2 (by cases fl <;> decide) (by cases fl <;> decide)).1 3
    (Desc.kid ("r:a:b", 3) (by cases fl <;> decide) (Desc.self 3))).1

end XSM.C15
