import Xsm.Proofs.Lifecycle
import Xsm.Proofs.RuntimeEx
import Xsm.Model.ActorsDone
/-!
# C14 — the interpreter lifecycle is a strict state machine; `stop()` releases everything

"An interpreter's status only ever moves uninitialized -> running -> (done | error) -> stopped (or
running -> stopped); start() is idempotent while running, refuses with a library error to revive a
stopped interpreter, and resumes a snapshot-restored one; send() on an interpreter that is done, failed
or stopped changes nothing and queues nothing. stop() is idempotent, may be called in any status, and
when it returns every timer, delayed send, service task, timer thread and descendant actor that
interpreter created has been cancelled or stopped, and none of them delivers anything afterwards."

Statements about the executable lifecycle model `Xsm/Model/Lifecycle.lean` (an interpreter object
`LSt` = engine state `St` + "a run-loop task is attached"; operations `opStart`, `opSend`,
`opSendMany` (= `send_events`), `opStop`, `opFail` (= `_fail`), `opRestore` (= `from_snapshot` of
`get_snapshot`), sequences `lrun`), for BOTH engines, every machine, every user-code environment `u`,
every interpreter state — no bound on anything. The operations reuse `syncStart/asyncStart`,
`drainLoop/asyncDrain` of `Xsm/Model/Engine.lean`; the status tests of `send`, `send_events`, `stop`,
`_fail` are the GENERATED tables `Tables.syncSendGate` … `Tables.failGate` (re-read from the source on
every run): editing one of those literals in the library breaks `gates_are_what_the_theorems_assume`
and everything below it.

PROVED here (for the model, all inputs):
* `status_edges`, `status_edges_run` — every operation / every sequence of operations moves `status`
  only along the automaton (`Reach`: zero or more `Edge`s), or — async only — to the model's own marker
  `HANG` (the MODEL's fuel for the unbounded run loop ran out: a non-terminating run, C13's subject);
  with the per-operation refinements `start_edges`, `send_edges`, `stop_edges`, `fail_edges`,
  `restore_keeps_status`;
* `start_idempotent_running`, `start_noop_when_finished`, `start_after_stop_raises`,
  `start_resumes_restored`;
* `send_noop_unless_running` (whole interpreter unchanged, both engines, `send` and `send_events`), and
  the exact difference between the engines: `async_send_before_start_is_queued`;
* `stop_idempotent`, `stop_from_any_status`, `stop_detaches_loop`, `stop_keeps_everything_else`;
* `nothing_processed_after_stop` — ANY sequence of start / send / send_events / stop / _fail after a
  `stop()` leaves the whole interpreter object unchanged (with restores in the sequence:
  configuration, context, status unchanged and no trace record added).

NOT in the model, hence only VALIDATED on the real code (harness `xsmverif/c14.py`, every run): timers,
delayed sends, services, timer threads and child actors — "stop() releases everything" is checked by a
census of asyncio tasks / (shimmed) threads / the interpreters' own registries after every `stop()`,
and by a recorder that must stay silent while an hour of virtual time passes. The model observes
interpreters at quiescent points only (after each call the attached run loop has drained): calls
arriving in the middle of a macrostep, and cancellation of a run loop that is suspended inside an
awaiting action, are not exhibited. `error` is reached in the code only through `_fail` (an invoked
service failed with no `onError`); the model has the operation `opFail` but no services, and `_fail`
accepts status `uninitialized` (table `failGate`), an edge uninitialized → error that only `Reach`
(not `Edge`) covers: `fail_edges` states it.

DISPROVED for a `stop()` that lands INSIDE a macrostep — finding F72 (C08: F73, C09: F74). The lifecycle model cannot exhibit it
(quiescent points only), the RUNTIME model (`Xsm/Model/Runtime.lean`: timers, services, suspension windows) can:
`stop_inside_macrostep_releases_not_everything` (`decide`d on the concrete runs of `Xsm/Proofs/RuntimeEx.lean`) — the status is
`stopped` and a timer is armed / a service was started BEHIND the stop. On the real engines: `xsmverif/c14stop.py` (stop() called by
an action of the transition, by a plugin hook, by another task / thread while the interpreter's own task is suspended in the
macrostep), judged at the moment stop() returned.
-/
namespace XSM.C14
open XSM XSM.Done

/-! ## 0. the tie to the source: the status tests -/

/-- what the theorems below use of the generated tables -/
theorem gates_are_what_the_theorems_assume :
    (∀ st, refuses Tables.syncSendGate st = true ↔ st ≠ "running") ∧
    (∀ st, refuses Tables.asyncSendGate st = true ↔ (st = "stopped" ∨ st = "done" ∨ st = "error")) ∧
    (∀ fl st, refuses (stopGate fl) st = true ↔ (st = "uninitialized" ∨ st = "stopped")) ∧
    (∀ st, refuses Tables.failGate st = true ↔ ¬ (st = "running" ∨ st = "uninitialized")) :=
  ⟨syncSendGate_spec, asyncSendGate_spec, stopGate_spec, failGate_spec⟩

/-! ## 1. `stop()` -/

/-- `stop()`: nothing at all when uninitialized or stopped; otherwise status "stopped" and no run loop -/
theorem stop_edges (fl : Flavor) (l : LSt) :
    ((l.st.status = "uninitialized" ∨ l.st.status = "stopped") ∧ opStop fl l = l) ∨
    (¬ (l.st.status = "uninitialized" ∨ l.st.status = "stopped") ∧
      opStop fl l = { st := { l.st with status := "stopped" }, loop := false }) := by
  unfold opStop
  by_cases h : l.st.status = "uninitialized" ∨ l.st.status = "stopped"
  · left; exact ⟨h, by rw [if_pos ((stopGate_spec fl _).2 h)]⟩
  · right
    have : ¬ refuses (stopGate fl) l.st.status = true := fun hh => h ((stopGate_spec fl _).1 hh)
    exact ⟨h, by rw [if_neg this]⟩

/-- *"stop() may be called in any status"*: it always returns; afterwards the interpreter is stopped —
    unless it was never started, which it then still is -/
theorem stop_from_any_status (fl : Flavor) (l : LSt) :
    (opStop fl l).st.status = "stopped" ∨ (l.st.status = "uninitialized" ∧ opStop fl l = l) := by
  rcases stop_edges fl l with ⟨h, e⟩ | ⟨_, e⟩
  · rcases h with h | h
    · exact Or.inr ⟨h, e⟩
    · left; rw [e]; exact h
  · left; rw [e]

/-- *"stop() is idempotent"* -/
theorem stop_idempotent (fl : Flavor) (l : LSt) : opStop fl (opStop fl l) = opStop fl l := by
  rcases stop_edges fl l with ⟨_, e⟩ | ⟨_, e⟩
  · rw [e, e]
  · rw [e]
    rcases stop_edges fl { st := { l.st with status := "stopped" }, loop := false } with ⟨_, e2⟩ | ⟨h2, _⟩
    · exact e2
    · exact absurd (Or.inr rfl) h2

/-- after `stop()` no run loop is attached (async: the loop task was cancelled and awaited) … -/
theorem stop_detaches_loop (fl : Flavor) (l : LSt) (h : (opStop fl l).st.status = "stopped")
    (hs : l.st.status ≠ "stopped") : (opStop fl l).loop = false := by
  rcases stop_edges fl l with ⟨h1, e⟩ | ⟨_, e⟩
  · rcases h1 with h1 | h1
    · rw [e, h1] at h; exact absurd h (by decide)
    · exact absurd h1 hs
  · rw [e]

/-- … and `stop()` touches nothing else: configuration, history, context, trace, QUEUE (neither engine
    clears it; nothing will ever drain it: see `nothing_processed_after_stop`) -/
theorem stop_keeps_everything_else (fl : Flavor) (l : LSt) :
    (opStop fl l).st.cfg = l.st.cfg ∧ (opStop fl l).st.hist = l.st.hist ∧ (opStop fl l).st.ctx = l.st.ctx ∧
    (opStop fl l).st.trace = l.st.trace ∧ (opStop fl l).st.queue = l.st.queue := by
  rcases stop_edges fl l with ⟨_, e⟩ | ⟨_, e⟩ <;> rw [e] <;> exact ⟨rfl, rfl, rfl, rfl, rfl⟩

/-! ## 2. `start()` -/

/-- *"refuses with a library error to revive a stopped interpreter"*: `start()` raises
    (`startRaises`, rendered `InvalidConfigError` by the driver) and changes nothing -/
theorem start_after_stop_raises (fl : Flavor) (m : Machine) (u : UEnv) (l : LSt) (h : l.st.status = "stopped") :
    startRaises l = true ∧ opStart fl m u l = l := by
  have hr : startRaises l = true := by simp [startRaises, h]
  refine ⟨hr, ?_⟩
  cases fl with
  | sync => simp [opStart, hr]
  | async =>
    have : asyncResumes l = false := by simp [asyncResumes, h]
    simp [opStart, hr, this]

/-- … in particular right after a `stop()` of an interpreter that had been started -/
theorem start_right_after_stop_raises (fl : Flavor) (m : Machine) (u : UEnv) (l : LSt)
    (h : l.st.status ≠ "uninitialized") :
    startRaises (opStop fl l) = true ∧ opStart fl m u (opStop fl l) = opStop fl l := by
  apply start_after_stop_raises
  rcases stop_from_any_status fl l with h1 | ⟨h1, _⟩
  · exact h1
  · exact absurd h1 h

/-- *"start() is idempotent while running"*: sync — always; async — when its run loop is attached -/
theorem start_idempotent_running (fl : Flavor) (m : Machine) (u : UEnv) (l : LSt) (h : l.st.status = "running")
    (hl : fl = .async → l.loop = true) : opStart fl m u l = l := by
  cases fl with
  | sync => simp [opStart, startRaises, h]
  | async =>
    have : asyncResumes l = false := by simp [asyncResumes, hl rfl]
    simp [opStart, startRaises, h, this]

/-- a finished interpreter (`done` / `error`) is not restarted either: `start()` changes nothing -/
theorem start_noop_when_finished (fl : Flavor) (m : Machine) (u : UEnv) (l : LSt)
    (h : l.st.status = "done" ∨ l.st.status = "error") : opStart fl m u l = l := by
  cases fl with
  | sync => rcases h with h | h <;> simp [opStart, startRaises, h]
  | async =>
    by_cases hr : asyncResumes l = true
    · rcases h with h | h <;> simp [opStart, hr, h]
    · rcases h with h | h <;> simp [opStart, startRaises, hr, h]

/-- *"and resumes a snapshot-restored one"* (async: status "running", no run loop): `start()` attaches a
    loop, which then processes whatever was queued meanwhile — no initial entry is run again -/
theorem start_resumes_restored (m : Machine) (u : UEnv) (l : LSt) (h : l.st.status = "running")
    (hl : l.loop = false) :
    opStart .async m u l = { st := asyncDrain m u (asyncFuel m) l.st, loop := true } := by
  have : asyncResumes l = true := by simp [asyncResumes, h, hl]
  simp [opStart, this, h, lsettle]

/-- the sync engine needs no resumption: a restored running interpreter processes sends at once, and
    `start()` is the no-op of `start_idempotent_running` -/
theorem sync_restored_needs_no_start (m : Machine) (u : UEnv) (l : LSt) :
    (opRestore m l).st.status = l.st.status ∧ (opRestore m l).loop = false ∧ (opRestore m l).st.queue = [] ∧
    (opRestore m l).st.cfg = l.st.cfg ∧ (opRestore m l).st.ctx = l.st.ctx := ⟨rfl, rfl, rfl, rfl, rfl⟩

/-- where `start()` can leave the status -/
theorem start_edges (fl : Flavor) (m : Machine) (u : UEnv) (l : LSt) :
    (opStart fl m u l).st.status = l.st.status ∨
    (l.st.status = "uninitialized" ∧
      ((opStart fl m u l).st.status = "running" ∨ (opStart fl m u l).st.status = "done" ∨
       (fl = .async ∧ (opStart fl m u l).st.status = "stopped"))) ∨
    (fl = .async ∧ l.st.status = "running" ∧ l.loop = false ∧ (opStart fl m u l).st.status = "done") ∨
    (fl = .async ∧ (opStart fl m u l).st.status = "HANG") := by
  cases fl with
  | sync =>
    unfold opStart
    simp only
    split
    · exact Or.inl rfl
    · split
      · exact Or.inl rfl
      · rename_i _ hu
        have hu' : l.st.status = "uninitialized" := by simpa using hu
        right; left
        refine ⟨hu', ?_⟩
        rcases syncStart_status m u l.st with h | ⟨_, h⟩
        · exact Or.inl h
        · exact Or.inr (Or.inl h)
  | async =>
    by_cases hres : asyncResumes l = true
    · by_cases hrun : l.st.status = "running"
      · have hl : l.loop = false := by
          simp only [asyncResumes, Bool.and_eq_true, Bool.not_eq_true'] at hres; exact hres.2
        have e : opStart .async m u l = { st := asyncDrain m u (asyncFuel m) l.st, loop := true } :=
          start_resumes_restored m u l hrun hl
        rw [e]
        rcases asyncDrain_status m u (asyncFuel m) l.st with h | h
        · rcases h with h | ⟨_, h⟩
          · exact Or.inl h
          · exact Or.inr (Or.inr (Or.inl ⟨rfl, hrun, hl, h⟩))
        · exact Or.inr (Or.inr (Or.inr ⟨rfl, h⟩))
      · left; simp [opStart, hres, hrun]
    · by_cases hs : startRaises l = true
      · left; simp [opStart, hres, hs]
      · by_cases hu : l.st.status = "uninitialized"
        · have e : opStart .async m u l = { st := asyncStart m u l.st, loop := asyncLoopCreated m u l.st } := by
            simp [opStart, hres, hs, hu]
          rw [e]
          rcases asyncStart_status m u l.st with h | h | h
          · right; left
            refine ⟨hu, ?_⟩
            rcases h with h | ⟨_, h⟩
            · exact Or.inl h
            · exact Or.inr (Or.inl h)
          · right; left; exact ⟨hu, Or.inr (Or.inr ⟨rfl, h⟩)⟩
          · exact Or.inr (Or.inr (Or.inr ⟨rfl, h⟩))
        · left; simp [opStart, hres, hs, hu]

/-! ## 3. `send()` / `send_events()` -/

/-- *"send() on an interpreter that is done, failed or stopped changes nothing and queues nothing"* — the
    WHOLE interpreter object is unchanged; for the sync engine the same holds before `start()` -/
theorem send_noop_unless_running (fl : Flavor) (m : Machine) (u : UEnv) (es : List Ev) (e : Ev) (l : LSt)
    (h : l.st.status = "stopped" ∨ l.st.status = "done" ∨ l.st.status = "error" ∨
         (fl = .sync ∧ l.st.status ≠ "running")) :
    opSend fl m u e l = l ∧ opSendMany fl m u es l = l := by
  have hg : refuses (sendGate fl) l.st.status = true := by
    cases fl with
    | sync =>
      apply (syncSendGate_spec _).2
      rcases h with h | h | h | ⟨_, h⟩
      · rw [h]; decide
      · rw [h]; decide
      · rw [h]; decide
      · exact h
    | async =>
      apply (asyncSendGate_spec _).2
      rcases h with h | h | h | ⟨h, _⟩
      · exact Or.inl h
      · exact Or.inr (Or.inl h)
      · exact Or.inr (Or.inr h)
      · exact absurd h (by decide)
  unfold opSend opSendMany
  simp only [hg, if_true, and_self]

/-- the one status in which the engines differ: before `start()` the async engine QUEUES the event (it is
    processed right after the initial entry, `async_presend_processed_at_start`), the sync engine drops it -/
theorem async_send_before_start_is_queued (m : Machine) (u : UEnv) (e : Ev) (l : LSt)
    (h : l.st.status = "uninitialized") :
    opSend .async m u e l = { l with st := { l.st with queue := l.st.queue ++ [⟨e, false⟩] } } ∧
    opSend .sync m u e l = l := by
  constructor
  · have hg : ¬ refuses (sendGate .async) l.st.status = true := by
      intro hh; have := (asyncSendGate_spec _).1 hh; rw [h] at this; revert this; decide
    unfold opSend opSendMany
    rw [if_neg hg]
    have hnr : ¬ (l.loop = true ∧ l.st.status = "running") := by rw [h]; simp
    simp only [lsettle, if_neg hnr, pushAll, List.map_cons, List.map_nil]
  · exact (send_noop_unless_running .sync m u [] e l (Or.inr (Or.inr (Or.inr ⟨rfl, by rw [h]; decide⟩)))).1

theorem async_presend_processed_at_start (m : Machine) (u : UEnv) (l : LSt) (h : l.st.status = "uninitialized") :
    opStart .async m u l = { st := asyncStart m u l.st, loop := asyncLoopCreated m u l.st } := by
  have : asyncResumes l = false := by simp [asyncResumes, h]
  simp [opStart, startRaises, this, h]

/-- the run-loop task is created by `start()` only once the initial entry and the eventless settling are
    over, and only if the interpreter is still running then: a `start()` that failed ("stopped") or that
    completed the machine at once ("done") attaches none -/
theorem start_attaches_loop_iff_running_after_settling (m : Machine) (u : UEnv) (l : LSt)
    (h : l.st.status = "uninitialized") :
    ((opStart .async m u l).loop = true ↔ (asyncStartSettle m u l.st).status = "running") ∧
    ((opStart .async m u l).loop = false → (opStart .async m u l).st = asyncStartSettle m u l.st) := by
  rw [async_presend_processed_at_start m u l h]
  refine ⟨by simp [asyncLoopCreated], ?_⟩
  intro hl
  have hnr : ¬ (asyncStartSettle m u l.st).status = "running" := by simpa [asyncLoopCreated] using hl
  show asyncStart m u l.st = _
  unfold asyncStart
  rw [if_neg hnr]

/-- where a send can leave the status: unchanged, or running → done (or the model's `HANG`) -/
theorem send_edges (fl : Flavor) (m : Machine) (u : UEnv) (es : List Ev) (l : LSt) :
    StatusStep l.st.status (opSendMany fl m u es l).st.status ∨
    (fl = .async ∧ (opSendMany fl m u es l).st.status = "HANG") := by
  unfold opSendMany
  split
  · exact Or.inl (Or.inl rfl)
  · cases fl with
    | sync => exact Or.inl (drainLoop_status m u _ _ (pushAll es l.st))
    | async =>
      simp only [lsettle]
      split
      · rcases asyncDrain_status m u (asyncFuel m) (pushAll es l.st) with h | h
        · exact Or.inl h
        · exact Or.inr ⟨trivial, h⟩
      · exact Or.inl (Or.inl rfl)

/-! ## 4. `_fail` and snapshot-restore -/

/-- `_fail`: running → error; also uninitialized → error (the code's own gate allows it; no service can
    fail before `start()`, and the harness never observed it); otherwise nothing -/
theorem fail_edges (l : LSt) :
    ((l.st.status = "running" ∨ l.st.status = "uninitialized") ∧ (opFail l).st.status = "error") ∨
    (¬ (l.st.status = "running" ∨ l.st.status = "uninitialized") ∧ opFail l = l) := by
  unfold opFail
  by_cases h : l.st.status = "running" ∨ l.st.status = "uninitialized"
  · left
    have : ¬ refuses Tables.failGate l.st.status = true := fun hh => (failGate_spec _).1 hh h
    exact ⟨h, by rw [if_neg this]⟩
  · right; exact ⟨h, by rw [if_pos ((failGate_spec _).2 h)]⟩

theorem restore_keeps_status (m : Machine) (l : LSt) : (opRestore m l).st.status = l.st.status := rfl

/-! ## 5. the automaton -/

/-- **every operation moves `status` only along uninitialized → running → (done | error) → stopped,
    running → stopped** (`Reach`: zero or more `Edge`s of that automaton; async: or to the model's
    non-termination marker). `Known5`: the status is one of the library's five. -/
theorem status_edges (fl : Flavor) (m : Machine) (u : UEnv) (l : LSt) (op : LOp) (hk : Known5 l.st.status) :
    Reach l.st.status (lstep fl m u l op).st.status ∨ (fl = .async ∧ (lstep fl m u l op).st.status = "HANG") := by
  cases op with
  | start =>
    show Reach l.st.status (opStart fl m u l).st.status ∨ _
    rcases start_edges fl m u l with h | ⟨hu, h⟩ | ⟨_, hr, _, h⟩ | h
    · left; rw [h]; exact Reach.refl _
    · left
      refine Or.inr (Or.inl ⟨hu, ?_⟩)
      rcases h with h | h | ⟨_, h⟩
      · exact Or.inl h
      · exact Or.inr (Or.inl h)
      · exact Or.inr (Or.inr (Or.inr h))
    · left; exact Or.inr (Or.inr (Or.inl ⟨hr, Or.inl h⟩))
    · exact Or.inr h
  | send e =>
    show Reach l.st.status (opSendMany fl m u [e] l).st.status ∨ _
    rcases send_edges fl m u [e] l with h | h
    · exact Or.inl (Reach.of_statusStep h)
    · exact Or.inr h
  | sendMany es =>
    show Reach l.st.status (opSendMany fl m u es l).st.status ∨ _
    rcases send_edges fl m u es l with h | h
    · exact Or.inl (Reach.of_statusStep h)
    · exact Or.inr h
  | stop =>
    left
    show Reach l.st.status (opStop fl l).st.status
    rcases stop_edges fl l with ⟨_, e⟩ | ⟨hn, e⟩
    · rw [e]; exact Reach.refl _
    · rw [e]
      show Reach l.st.status "stopped"
      rcases hk with h | h | h | h | h
      · exact absurd (Or.inl h) hn
      · exact Or.inr (Or.inr (Or.inl ⟨h, Or.inr (Or.inr rfl)⟩))
      · exact Or.inr (Or.inr (Or.inr ⟨Or.inl h, rfl⟩))
      · exact Or.inr (Or.inr (Or.inr ⟨Or.inr h, rfl⟩))
      · exact absurd (Or.inr h) hn
  | fail =>
    left
    show Reach l.st.status (opFail l).st.status
    rcases fail_edges l with ⟨h, e⟩ | ⟨_, e⟩
    · rw [e]
      rcases h with h | h
      · exact Or.inr (Or.inr (Or.inl ⟨h, Or.inr (Or.inl rfl)⟩))
      · exact Or.inr (Or.inl ⟨h, Or.inr (Or.inr (Or.inl rfl))⟩)
    · rw [e]; exact Reach.refl _
  | restore => left; exact Reach.refl _

/-- the sync engine has no marker: always along the automaton -/
theorem status_edges_sync (m : Machine) (u : UEnv) (l : LSt) (op : LOp) (hk : Known5 l.st.status) :
    Reach l.st.status (lstep .sync m u l op).st.status := by
  rcases status_edges .sync m u l op hk with h | ⟨h, _⟩
  · exact h
  · exact absurd h (by decide)

/-- **whole call sequences** (any length, any order, repeated calls): from a fresh interpreter — or any
    interpreter in one of the five statuses — the status after the sequence is reachable along the
    automaton from the status before it, and so is every intermediate one from its predecessor (apply the
    theorem to the prefixes); async: unless some prefix of the sequence ends in the model's `HANG` -/
theorem status_edges_run (fl : Flavor) (m : Machine) (u : UEnv) : ∀ (ops : List LOp) (l : LSt), Known5 l.st.status →
    (Reach l.st.status (lrun fl m u ops l).st.status ∧ Known5 (lrun fl m u ops l).st.status) ∨
    (fl = .async ∧ ∃ pre post, ops = pre ++ post ∧ (lrun fl m u pre l).st.status = "HANG") := by
  intro ops
  induction ops with
  | nil => intro l hk; exact Or.inl ⟨Reach.refl _, hk⟩
  | cons op ops ih =>
    intro l hk
    rcases status_edges fl m u l op hk with h | ⟨hf, h⟩
    · rcases ih (lstep fl m u l op) (h.known hk) with ⟨h2, k2⟩ | ⟨hf, pre, post, e, hh⟩
      · exact Or.inl ⟨h.trans h2, k2⟩
      · exact Or.inr ⟨hf, op :: pre, post, by rw [e]; rfl, hh⟩
    · exact Or.inr ⟨hf, [op], ops, rfl, h⟩

theorem status_edges_run_sync (m : Machine) (u : UEnv) (ops : List LOp) (l : LSt) (hk : Known5 l.st.status) :
    Reach l.st.status (lrun .sync m u ops l).st.status ∧ Known5 (lrun .sync m u ops l).st.status := by
  rcases status_edges_run .sync m u ops l hk with h | ⟨h, _⟩
  · exact h
  · exact absurd h (by decide)

/-- a fresh interpreter is `uninitialized` -/
theorem new_is_known (m : Machine) : Known5 (LSt.new m).st.status := Or.inl rfl

/-! ## 6. nothing happens after `stop()` -/

/-- one call on a stopped interpreter (anything but building a NEW interpreter from its snapshot): the
    whole object is unchanged -/
theorem step_on_stopped (fl : Flavor) (m : Machine) (u : UEnv) (l : LSt) (op : LOp) (h : l.st.status = "stopped")
    (hnr : op ≠ LOp.restore) : lstep fl m u l op = l := by
  cases op with
  | start => exact (start_after_stop_raises fl m u l h).2
  | send e => exact (send_noop_unless_running fl m u [] e l (Or.inl h)).1
  | sendMany es => exact (send_noop_unless_running fl m u es (.user "") l (Or.inl h)).2
  | stop =>
    rcases stop_edges fl l with ⟨_, e⟩ | ⟨hn, _⟩
    · exact e
    · exact absurd (Or.inr h) hn
  | fail =>
    rcases fail_edges l with ⟨hh, _⟩ | ⟨_, e⟩
    · rcases hh with hh | hh <;> rw [h] at hh <;> exact absurd hh (by decide)
    · exact e
  | restore => exact absurd rfl hnr

/-- **nothing is processed after `stop()`**: any sequence of start / send / send_events / stop / _fail
    calls on a stopped interpreter leaves the whole interpreter object — configuration, context, history,
    trace (no user code ran), queue, status — exactly as `stop()` left it -/
theorem nothing_processed_after_stop (fl : Flavor) (m : Machine) (u : UEnv) : ∀ (ops : List LOp) (l : LSt),
    l.st.status = "stopped" → (∀ op ∈ ops, op ≠ LOp.restore) → lrun fl m u ops l = l := by
  intro ops
  induction ops with
  | nil => intro l _ _; rfl
  | cons op ops ih =>
    intro l h hno
    have e : lstep fl m u l op = l :=
      step_on_stopped fl m u l op h (hno op (List.mem_cons_self ..))
    show lrun fl m u ops (lstep fl m u l op) = l
    rw [e]
    exact ih l h (fun o ho => hno o (List.mem_cons_of_mem _ ho))

/-- the same stated from the call of `stop()` itself, for an interpreter that had been started -/
theorem nothing_processed_after_the_stop_call (fl : Flavor) (m : Machine) (u : UEnv) (ops : List LOp) (l : LSt)
    (hs : l.st.status ≠ "uninitialized") (hno : ∀ op ∈ ops, op ≠ LOp.restore) :
    lrun fl m u (LOp.stop :: ops) l = opStop fl l := by
  show lrun fl m u ops (opStop fl l) = opStop fl l
  apply nothing_processed_after_stop fl m u ops _ _ hno
  rcases stop_from_any_status fl l with h | ⟨h, _⟩
  · exact h
  · exact absurd h hs

/-- with snapshot-restores in the sequence (each builds a NEW, equally stopped interpreter): the
    configuration, the context and the status never change, and no trace record is ever added -/
theorem nothing_processed_after_stop_restores (fl : Flavor) (m : Machine) (u : UEnv) : ∀ (ops : List LOp) (l : LSt),
    l.st.status = "stopped" →
    (lrun fl m u ops l).st.status = "stopped" ∧ (lrun fl m u ops l).st.cfg = l.st.cfg ∧
    (lrun fl m u ops l).st.ctx = l.st.ctx ∧
    ((lrun fl m u ops l).st.trace = l.st.trace ∨ (lrun fl m u ops l).st.trace = []) := by
  intro ops
  induction ops with
  | nil => intro l h; exact ⟨h, rfl, rfl, Or.inl rfl⟩
  | cons op ops ih =>
    intro l h
    by_cases hr : op = LOp.restore
    · subst hr
      obtain ⟨h1, h2, h3, h4⟩ := ih (opRestore m l) h
      refine ⟨h1, h2, h3, ?_⟩
      rcases h4 with h4 | h4
      · exact Or.inr h4
      · exact Or.inr h4
    · have e : lstep fl m u l op = l := step_on_stopped fl m u l op h hr
      show (lrun fl m u ops (lstep fl m u l op)).st.status = _ ∧ (lrun fl m u ops (lstep fl m u l op)).st.cfg = _ ∧
        (lrun fl m u ops (lstep fl m u l op)).st.ctx = _ ∧
        ((lrun fl m u ops (lstep fl m u l op)).st.trace = _ ∨ (lrun fl m u ops (lstep fl m u l op)).st.trace = _)
      rw [e]; exact ih l h

/-! ## 7. the theorems are not vacuous: a concrete machine, both engines -/

open XSM.Done.Ex in
/-- `goM` (start in `a`, `GO` reaches the top-level final state `f`): out-of-order calls on both engines -/
example :
    let ops : List LOp := [.stop, .send (.user "GO"), .start, .start, .send (.user "GO"), .send (.user "GO"),
                           .start, .stop, .stop, .start, .send (.user "GO"), .restore, .start]
    ((lrun .sync goM exU ops (LSt.new goM)).st.status, (lrun .sync goM exU ops (LSt.new goM)).st.cfg) =
      ("stopped", [[], ["f"]]) := by decide

open XSM.Done.Ex in
/-- statuses after each call of the same sequence — sync: the send before `start()` is dropped … -/
example :
    ([[LOp.stop], [.stop, .send (.user "GO")], [.stop, .send (.user "GO"), .start],
      [.stop, .send (.user "GO"), .start, .send (.user "GO")],
      [.stop, .send (.user "GO"), .start, .send (.user "GO"), .stop]].map
        (fun ops => (lrun .sync goM exU ops (LSt.new goM)).st.status)) =
      ["uninitialized", "uninitialized", "running", "done", "stopped"] := by decide

open XSM.Done.Ex in
/-- … async: it is queued and processed by `start()`, which therefore already returns `done` -/
example :
    ([[LOp.stop], [.stop, .send (.user "GO")], [.stop, .send (.user "GO"), .start],
      [.stop, .send (.user "GO"), .start, .stop]].map
        (fun ops => (lrun .async goM exU ops (LSt.new goM)).st.status)) =
      ["uninitialized", "uninitialized", "done", "stopped"] := by decide

open XSM.Done.Ex in
/-- a restored running async interpreter queues sends until `start()` attaches a loop -/
example :
    ((lrun .async goM exU [.start, .restore, .send (.user "GO")] (LSt.new goM)).st.status,
     (lrun .async goM exU [.start, .restore, .send (.user "GO")] (LSt.new goM)).loop,
     (lrun .async goM exU [.start, .restore, .send (.user "GO")] (LSt.new goM)).st.queue.length,
     (lrun .async goM exU [.start, .restore, .send (.user "GO")] (LSt.new goM)).st.cfg) =
      ("running", false, 1, [[], ["a"]]) := by decide
open XSM.Done.Ex in
example :
    ((lrun .async goM exU [.start, .restore, .send (.user "GO"), .start] (LSt.new goM)).st.status,
     (lrun .async goM exU [.start, .restore, .send (.user "GO"), .start] (LSt.new goM)).loop,
     (lrun .async goM exU [.start, .restore, .send (.user "GO"), .start] (LSt.new goM)).st.queue.length,
     (lrun .async goM exU [.start, .restore, .send (.user "GO"), .start] (LSt.new goM)).st.cfg) =
      ("done", true, 0, [[], ["f"]]) := by decide

open XSM.Done.Ex in
/-- a machine whose initial state is the top-level final state completes inside `start()`: the async
    interpreter is "done" once entry and settling are over, so NO run-loop task is created (the loop is
    created after the settling and only for a running interpreter); `goM` itself is still running then and
    gets one -/
example :
    let finM : Machine := { goM with root := .mk (mkD .compound (some "f")) [("f", .mk (mkD .final) [])] }
    ((opStart .async finM exU (LSt.new finM)).st.status, (opStart .async finM exU (LSt.new finM)).loop,
     (opStart .async goM exU (LSt.new goM)).st.status, (opStart .async goM exU (LSt.new goM)).loop) =
      ("done", false, "running", true) := by decide

/-! ## stop() inside a macrostep (finding F72) — on the runtime model -/

set_option maxRecDepth 100000 in
/-- **F72.** *"when it returns every timer … service task, timer thread … has been cancelled or stopped"* is FALSE of model and code
    when `stop()` arrives while the interpreter's own task is suspended INSIDE a macrostep: `stopRT` clears everything that exists
    (`C08.never_after_stop`), and the rest of the macrostep then enters its target states and schedules their tasks on the stopped
    interpreter. sync (`RTEx.runStopSync`: `stop` from another thread at t = 120 while the exit action of `a` blocks until 150): the
    status is `stopped`, yet `b`'s timer is armed at 150 and `b`'s service was called at 150. async (`RTEx.runStopInside`, no slow
    action: the stop shares the instant of `R` and lands in the `await` of `cancel_by_owner`): `stopped` with a live timer armed
    at the instant of the stop; (`RTEx.runStopSvc`) the service of the state entered behind the stop is called, runs and has its
    completion refused. A stop BETWEEN macrosteps (`RTEx.runStopBetween`) leaves nothing. -/
theorem stop_inside_macrostep_releases_not_everything :
    (XSM.RTEx.runStopSync.st.status = "stopped" ∧ XSM.RTEx.runStopSync.timers.map (fun t => (t.owner, t.armed)) = [(["b"], 150)] ∧
     XSM.RTEx.runStopSync.started = [(["b"], "ib0", 1)]) ∧
    (XSM.RTEx.runStopInside.st.status = "stopped" ∧ XSM.RTEx.runStopInside.timers.map (fun t => (t.owner, t.armed)) = [(["s"], 50)]) ∧
    (XSM.RTEx.runStopSvc.st.status = "stopped" ∧ XSM.RTEx.runStopSvc.started = [(["b"], "i", 1)] ∧
     (XSM.RTEx.runStopSvc.flush.log.reverse.filter (fun r => r.1 = 150)).map (·.2) = ["svc-end:i:ok", "send:done.invoke.i:stopped"]) ∧
    (XSM.RTEx.runStopBetween.st.status = "stopped" ∧ XSM.RTEx.runStopBetween.timers.length = 0 ∧ XSM.RTEx.runStopBetween.invs.length = 0) := by
  decide

/-! ## descendants that FINISHED BY THEMSELVES — on the actor-system model (`Model/ActorsDone.lean`)

`stop()` returns early only for `uninitialized` / `stopped`; a child that reached its final state (`done`) or failed
(`error`) and is still listed in its parent's children map is torn down like a running one, with everything below it
(`stopD`: the finished actors at and below the stopped one are first seen as `stop()` sees them, `reviveSub`). The
subtree part of the clause for RUNNING descendants is `C15.parent_stop_stops_subtree` /
`reachable_stop_stops_and_unregisters_subtree`. -/

open XSM.Actors in
/-- after `stop()` of `x`, no actor at or below `x` in the children maps still shows `done` or `error` -/
theorem stop_leaves_no_finished_status_below (busy : Option Nat) (d : SysD) (x u : Nat) (hu : u ∈ subtreeOf d.base x) :
    (stopD busy d x).status u ≠ .done ∧ (stopD busy d x).status u ≠ .error := by
  have hfin : (stopD busy d x).fin.any (fun kv => decide (kv.1 = u)) = false := by
    simp only [stopD, reviveSub, List.any_eq_false, List.mem_filter, decide_eq_true_eq]
    rintro ⟨a, b⟩ ⟨_, hnot⟩ heq
    simp only at heq
    subst heq
    simp [hu] at hnot
  have hfail : (stopD busy d x).fin.any (fun kv => decide (kv.1 = u) && kv.2) = false := by
    rw [List.any_eq_false] at hfin ⊢
    intro kv hkv
    have := hfin kv hkv
    simp only [Bool.not_eq_true] at this
    simp [this]
  unfold SysD.status SysD.failed SysD.isFin
  simp only [hfin, hfail]
  constructor <;> (cases ((stopD busy d x).base.get u).status <;> simp)

open XSM.Actors in
/-- … and the finished-actor list keeps nothing of the stopped subtree: a later observation cannot report a finished
    child there -/
theorem stop_forgets_finished_below (busy : Option Nat) (d : SysD) (x u : Nat) (hu : u ∈ subtreeOf d.base x) (f : Bool) :
    (u, f) ∉ (stopD busy d x).fin := by
  simp only [stopD, reviveSub, List.mem_filter, not_and]
  intro _
  simp [hu]

open XSM.Actors in
/-- the scenario in full (sync engine): `r` spawns the BLOCKING child `a`; `a` spawns `g` (systemId `S2`) and then its
    machine reaches its final state - `a` stays in `r`'s children map with status `done` while `g` keeps running;
    `stop()` of `r` stops `a` and `g`, empties the registry and the children maps, and `g` receives nothing afterwards -/
theorem finished_blocking_child_is_stopped_with_its_subtree :
    let cmds : List (String × List Action) :=
      [("C0", [Action.spawn "k1" (some "a") none true]), ("C1", [Action.spawn "k2" (some "g") (some "S2") false]),
       ("C2", [Action.sendTo "S2" "M1" 0 none])]
    let d3 := runD cmds (initD .sync true [] false) [.base (.cmd "r" "C0"), .base (.cmd "r:a" "C1"), .fin "r:a" false]
    let d5 := runD cmds d3 [.base (.cmd "r" "C2"), .base (.stop "r")]
    d3.status 1 = .done ∧ d3.status 2 = .running ∧ (d3.base.get 0).kids.map (·.2) = [1] ∧ d3.base.oos = false ∧
    d5.status 0 = .stopped ∧ d5.status 1 = .stopped ∧ d5.status 2 = .stopped ∧ d5.base.registry = [] ∧ d5.fin = [] ∧
    (d5.base.get 2).received = ["M1"] ∧ d5.base.oos = false := by
  decide

end XSM.C14
