import Xsm.Proofs.Runtime
import Xsm.Proofs.RuntimeEx
/-!
# C09 — invoked services: one start per activation, one outcome, no zombie results

"Each entry into a state starts each of its invoked services exactly once, with the declared input;
if that activation is still current when the service returns or raises, exactly one completion event
is processed — done carrying the return value or error carrying the exception, driving the declared
onDone or onError handler — and a failure with no onError handler puts the interpreter into the error
status with the exception recorded. A result produced by an activation that has since been exited —
even if the same state has been re-entered — is discarded, and once the state is exited or the
interpreter stopped no task, thread or child interpreter started for it remains alive."

Statements about the runtime model `Xsm/Model/Runtime.lean` (see the header of `Properties/C08.lean`
for what it is and how it is tied to the code). An `Invocation` is a service task: created by the
schedule step of its owner (async: it runs at the interpreter's next suspension point — `startPending`;
sync: the service is called inside the schedule step — `runSvcsSync`), completed by `completeInv`
(exactly one `done.invoke.<id>` / `error.platform.<id>` event with `src = id`; `_fail` when the
failure is unhandled), removed by the owner's `cancelOwner` or by `stopRT`.

## Proved (all machines, all user code, all timing data, all agendas)

* `invocations_current` — after every run every live service task belongs to the current activation
  of an active owner.
* `one_start_per_entry` — async: the schedule step creates exactly one not-yet-started task per
  declared `invoke` (for the current activation); `startOne` calls the service of a task and marks it
  started / completes it, so no task with that identity is unstarted afterwards, and after
  `startPending` NO task is unstarted; `startPending` only ever touches unstarted tasks. sync: the
  schedule step calls each declared (plain) service exactly once, in declaration order.
* `one_completion_if_current` — a completion is delivered only for a live (hence current) task: it
  queues exactly one completion event and the task is gone, so it cannot complete twice.
* `completion_event_shape` — the event is `done.invoke.<id>` / `error.platform.<id>` with `src = id`.
* `unhandled_error_fails` — a failure of a service whose invoke declares no `onError` sets the status
  to `error` (and nothing else does: `handled_keeps_status`).
* `none_alive_after_exit_or_stop` — the owner's cancel removes all its tasks; `stop()` all tasks.

## Disproved — finding F7

`stale_done_event_fires` (`decide`d on `RTEx.mInvoke`, reproduced on the real code): a completion
event already QUEUED when its state is exited and re-entered is matched by the new activation (a
`DoneEvent` carries the invoke id, not the activation): the stale result drives `onDone` of activation 2
and the fresh invocation of activation 2 is cancelled before it ever started.

## Weaker than the statement, and why

* "exactly once per entry" is proved per service TASK; that a task which is cancelled before the
  interpreter next yields never calls its service is what the async code does (an activation that is
  left in the very instant it was entered starts nothing) — the monitor accepts exactly that.
* "with the declared input", "done carrying the return value / error carrying the exception",
  "the exception recorded": the model's events carry no data; these clauses are checked by the monitor
  on the real code only.
* Child machines as `src` (`_spawn_and_manage_actor`, sync `_spawn_actor(on_complete)`) are not in the
  model and not in the generator: the claims above are about callables and coroutine functions.
* `cancelled mid-await` is "the owner is exited (or `stop()`) before the service's completion time":
  covered by `none_alive_after_exit_or_stop` + the census of the monitor.
-/
namespace XSM.C09
open XSM XSM.RTP

/-- after every run, every live service task belongs to the current activation of an active owner -/
theorem invocations_current (fl : Flavor) (m : Machine) (u : UEnv) (r : REnv) (agenda : List (Nat × ExtOp)) (horizon fuel : Nat)
    (hc : (runRT fl m u r agenda horizon fuel).clean = true) :
    ∀ i ∈ (runRT fl m u r agenda horizon fuel).invs,
      i.owner ∈ (runRT fl m u r agenda horizon fuel).st.cfg ∧ i.act = actOf (runRT fl m u r agenda horizon fuel).acts i.owner :=
  (inv_runRT fl m u r agenda horizon fuel hc).curI

/-- task identities are unique: no two live tasks are the same task -/
theorem invocations_distinct (fl : Flavor) (m : Machine) (u : UEnv) (r : REnv) (agenda : List (Nat × ExtOp)) (horizon fuel : Nat)
    (hc : (runRT fl m u r agenda horizon fuel).clean = true) :
    ((runRT fl m u r agenda horizon fuel).invs.map (·.seq)).Nodup :=
  (inv_runRT fl m u r agenda horizon fuel hc).ndI

/-- *Clause "each entry starts each of its invoked services exactly once".* (async) One schedule step
    creates exactly one unstarted task per declared invocation, for the owner's current activation … -/
theorem one_task_per_invoke (r : REnv) (p : Path) (a : Nat) (is : List Invoke) (rt : RT)
    (hall : ∀ i ∈ is, (svcOf r i).isSome = true) :
    (schedInvsAsync r p a is rt).invs.map (fun j => (j.owner, j.id, j.act, j.started)) =
      rt.invs.map (fun j => (j.owner, j.id, j.act, j.started)) ++ is.map (fun i => (p, i.id, a, false)) :=
  schedInvsAsync_invs r p a is rt hall

/-- `rt` after its newly created timer tasks went to sleep (first half of `startPending`) -/
def afterTimersSleep (rt : RT) : RT :=
  { rt with timers := (startTimersL rt.timers rt.nextId).1, nextId := (startTimersL rt.timers rt.nextId).2 }

/-- … the service of a task is called by `startOne`, after which no task with that identity is
    unstarted; when the interpreter's task yields, `startPending` leaves NO task unstarted and calls
    `startOne` for unstarted tasks only — so a task's service is called at most once, and exactly once
    if the task survives until the next yield. -/
theorem one_start_per_entry (rt : RT) :
    (∀ i, ∀ j ∈ (startOne rt i).invs, j.seq = i.seq → j.started = true) ∧
    (∀ j ∈ (startPending rt).invs, j.started = true) ∧
    startPending rt = ((afterTimersSleep rt).invs.filter (fun i => !i.started)).foldl startOne (afterTimersSleep rt) :=
  ⟨fun i j hj hs => startOne_marks rt i j hj hs, startPending_all_started rt, rfl⟩

/-- (sync) the schedule step calls every declared plain service exactly once, in declaration order -/
theorem one_start_per_entry_sync (r : REnv) (h : Hooks) (p : Path) (a : Nat) (is : List Invoke) (rt : RT)
    (hall : ∀ i ∈ is, ∃ sp, svcOf r i = some sp ∧ sp.coro = false) :
    (runSvcsSync r h p a is rt).started = (is.map (fun i => (p, i.id, a))).reverse ++ rt.started :=
  runSvcsSync_started r h p a is rt hall

/-- *Clause "exactly one completion event is processed if that activation is still current".* The
    completion picked by the loops is a live, started task (current by `invocations_current`); it queues
    exactly one event and the task is gone (it cannot complete a second time). -/
theorem one_completion_if_current (rt : RT) (i : Invocation) (hrun : rt.st.status = "running") :
    (minWake rt = some (.iv i) → i ∈ rt.invs ∧ i.started = true) ∧
    (completeInv i rt).st.queue = rt.st.queue ++ [⟨doneEvOf i, false⟩] ∧
    (∀ j ∈ (completeInv i rt).invs, j.seq ≠ i.seq) ∧ (completeInv i rt).st.cfg = rt.st.cfg :=
  ⟨minWake_iv rt i, completeInv_queue i rt hrun, completeInv_gone i rt, (shrink_completeInv rt i).cfg⟩

/-- the completion event: type by outcome, source = the invoke id -/
theorem completion_event_shape (i : Invocation) :
    doneEvOf i = if i.spec.ok then Ev.done ("done.invoke." ++ i.id) i.id else Ev.done ("error.platform." ++ i.id) i.id := rfl

/-- *Clause "a failure with no onError handler puts the interpreter into the error status".* -/
theorem unhandled_error_fails (i : Invocation) (rt : RT) (hrun : rt.st.status = "running")
    (hbad : i.spec.ok = false) (hun : i.handled = false) : (completeInv i rt).st.status = "error" :=
  completeInv_unhandled i rt hrun hbad hun

/-- … and only that does: a success, or a failure whose invoke declares `onError`, leaves the status -/
theorem handled_keeps_status (i : Invocation) (rt : RT) (h : i.spec.ok = true ∨ i.handled = true) :
    (completeInv i rt).st.status = rt.st.status := by
  unfold completeInv
  have : (i.spec.ok = true ∨ i.handled = true) := h
  simp only [this, if_true]
  simp [deliver, rlog, enqueue, enqueueQ]
  split <;> rfl

/-- *Clause "once the state is exited or the interpreter stopped no task … remains alive".* -/
theorem none_alive_after_exit_or_stop (c : RCx) (hw : WndOK c) (p : Path) (rt : RT) :
    (∀ i ∈ (cancelOwner c p rt).invs, i.owner ≠ p) ∧
    (rt.st.status ≠ "uninitialized" → rt.st.status ≠ "stopped" → (stopRT rt).invs = [] ∧ (stopRT rt).timers = []) :=
  ⟨(cancelOwner_none c hw p rt).2, fun h1 h2 => ⟨(stop_clears rt h1 h2).2.1, (stop_clears rt h1 h2).1⟩⟩

open XSM.RTEx

set_option maxRecDepth 100000 in
/-- **F7.** `s` invokes a 100 ms service with `onDone → d`. `X` (t = 60) keeps the interpreter busy
    until t = 110; `R` (t = 70, re-enter `s`) and the completion (t = 100) queue up behind it. At
    t = 110 `R` re-enters `s` (activation 2, a fresh service task is created), then the STALE completion
    of activation 1 is matched by invoke id: `onDone` runs, `s` is left for `d`, and the fresh task is
    cancelled before it ever started (the only service call ever made is the one of activation 1). -/
theorem stale_done_event_fires :
    (runInvoke.flush.log.reverse.filter (fun r => r.1 = 110)).map (·.2) =
      ["slow@X", "#t:m,m.s", "#recv:R", "#t:m,m.s", "#recv:done.invoke.i", "handled@done.invoke.i", "#t:m,m.d"] ∧
    runInvoke.st.cfg = [[], ["d"]] ∧ runInvoke.started = [(["s"], "i", 1)] ∧
    actOf runInvoke.acts ["s"] = 2 ∧ runInvoke.invs = [] := by decide

set_option maxRecDepth 100000 in
/-- **F74 / F74s (C14: F72) — a service started on a STOPPED interpreter.** `none_alive_after_exit_or_stop` is about `stopRT` itself.
    When `stop()` arrives inside a macrostep (see `C08.stop_inside_macrostep_arms_tasks`) the rest of the macrostep runs on the
    stopped interpreter and `scheduleRT` creates the service tasks of the states it enters.
    async (`RTEx.mStopSvc`): `GO` and `stop` at t = 50; `s` owns a timer, so its exit suspends in `cancel_by_owner` and the stop lands
    there; `b` is entered behind it, its service task is created, the service is CALLED at t = 50 (after the stop), runs its 100 ms
    and its completion is refused by `send` (status `stopped`).
    sync (`RTEx.mStopSync`): the service of `b` is called inside the entry at t = 150, 30 ms after `stop()` returned.
    Reproduced on the real engines with identical record lists (`findings/F74_*.json`, `F74s_*.json`). -/
theorem stop_inside_macrostep_starts_service :
    ((runStopSvc.flush.log.reverse.filter (fun r => 50 ≤ r.1)).map (fun r => (r.1, r.2)) =
      [(50, "send:GO:running"), (50, "#recv:GO"), (50, "stop"), (50, "ex:s@GO"), (50, "t:s:GO@GO"), (50, "en:b@GO"), (50, "#t:m,m.b"),
       (50, "svc-start:i"), (150, "svc-end:i:ok"), (150, "send:done.invoke.i:stopped")] ∧
     runStopSvc.st.status = "stopped" ∧ runStopSvc.started = [(["b"], "i", 1)] ∧ runStopSvc.st.cfg = [[], ["b"]]) ∧
    (runStopSync.started = [(["b"], "ib0", 1)] ∧ runStopSync.st.status = "stopped" ∧
     (runStopSync.flush.log.reverse.filter (fun r => r.2 = "stop" || r.2 = "svc-start:ib0")).map (·.1) = [120, 150]) := by decide

end XSM.C09
