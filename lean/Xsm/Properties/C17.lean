import Xsm.Proofs.Codegen
import Xsm.Proofs.CodegenGuard
/-!
# C17 — code generator: the output rebuilds the source machine exactly, or nothing is written

"For every machine JSON, `xsm generate-template` with a pythonic template either exits non-zero having
written no file, or writes modules that are valid Python, import without side effects, and build a
machine behaviourally identical to create_machine(json) … Arbitrary strings in the JSON (ids, state
names, action/guard/service names) reach generated files only as data, never as code, and
regenerating from unchanged input is byte-identical so --check reports no drift."

## What is PROVED here (for all inputs, no bounds)

The part of the generator that turns untrusted strings into CODE positions — Python bindings — is
`cli/naming.py`: `to_identifier` and `IdentifierAllocator` (every other occurrence of a JSON string
in a generated file goes through `repr()` or `docstring_safe`).  `Xsm/Model/Codegen.lean` models both
exactly; the Unicode step `_transliterate` is a parameter `tr : Char → List Char` of the model and
every theorem quantifies over it (so nothing depends on the Unicode tables); the word lists are the
tables regenerated from the source and from `keyword.kwlist` on every run
(`Xsm/Generated/CodegenTables.lean`), so a keyword list in which some keyword ends in `_` or a
digit makes `keywords_end_in_letter` — hence this file — stop building.

* `identifier_safe`, `identifier_starts_with_letter`, `identifier_not_a_reserved_word`
* `identifier_deterministic` (the fallback is consulted only when the name yields nothing; a
  repeated request returns the same binding and leaves the allocator unchanged)
* `allocator_injective`, `allocator_stable`, `allocator_avoids_reserved`, `allocator_valid`,
  `allocator_one_binding_per_request` — for EVERY reserved set and EVERY request sequence
* `fresh_terminates_free`: the suffix loop, bounded by `|taken|` iterations, always ends on a free name

## What is only VALIDATED (harness/xsmverif/c17.py, on every run)

* model = code: `to_identifier` / `IdentifierAllocator.allocate` of /repo/src against `drivergen`
  on hostile + random Unicode strings (tie `c17_naming`);
* everything else the property says, on the REAL CLI run in a scratch directory: a refusal writes no
  file; written modules parse, import without touching the file system or stdout, and build a
  machine with the same DEEP fingerprint as `create_machine(json)` and the same traces; the
  JSON-loading templates bind every referenced name; regeneration is byte-identical and `--check`
  is silent; JSON strings occur only inside `ast.Constant` nodes and the state bindings in the AST are
  exactly the model allocator's outputs.

* the GUARD fragment of the data round trip (`Xsm/Model/CodegenGuard.lean`: `ir.parse_guard` and
  `emit.render_guard` as data, against the engine's own `parseGuard` of `Xsm/Model/Parse.lean`):
  `guard_roundtrip` on the fragment "names, and and/or/not with operands under params.guards";
  `guard_rendered_as_bare_name` (every other guard object is emitted as its bare type name) and the
  three counter-examples `guard_roundtrip_fails_*` — the Lean side of finding F16.

## What the model cannot exhibit

The rest of the IR → emitted objects → compiled config pipeline (states, transitions, targets,
actions, invokes, the pythonic compiler) is NOT modelled: `codegen_roundtrip_statement` below is a
statement only (no theorem) and is validated by the fingerprint comparison.  It is FALSE of the
code today (F16: params of non-composite guards and operands written under `children` are dropped
by `ir.parse_guard` / `emit.render_guard`; a stub named `stateIn` replaces the built-in) — see
known_findings.json; F45–F49 concern the JSON-loading templates, the files written without
being parsed (runner, merged single-file module) and stub-name collisions, which have no Lean
counterpart.  Python's `repr()`, tokenizer and `black` are outside the
model (DESIGN §3.4).
-/
namespace XSM.C17
open XSM XSM.Codegen

/-- a valid Python identifier (ASCII fragment: first character a letter or `_`, the rest letters,
    digits or `_`) that is not one of the keywords `kw` -/
def ValidIdent (kw : List (List Char)) (l : List Char) : Prop :=
  (∃ c cs, l = c :: cs ∧ isIdStart c = true ∧ ∀ x ∈ cs, isIdChar x = true) ∧ l ∉ kw

theorem validIdent_of_startsLetter {kw : List (List Char)} {l : List Char} (h : StartsLetter l) (hk : l ∉ kw) :
    ValidIdent kw l := by
  obtain ⟨c, cs, rfl, hc, hcs⟩ := h
  exact ⟨⟨c, cs, rfl, by simp [isIdStart, hc], hcs⟩, hk⟩

/-! ## the regenerated tables -/

/-- every Python keyword ends in a letter: appending `_` or `_<n>` to anything never yields a keyword -/
theorem keywords_end_in_letter : EndsInLetter CodegenTables.pyKeywords :=
  endsInLetter_of_B (by decide)

/-- the words `to_identifier` steers clear of, other than the soft keyword `_` itself -/
def avoidedWords : List (List Char) :=
  CodegenTables.pyKeywords ++ CodegenTables.softKeywords.filter (· ≠ ['_']) ++ CodegenTables.shadowRisk

theorem avoided_end_in_letter : EndsInLetter avoidedWords := endsInLetter_of_B (by decide)

/-! ## `to_identifier` -/

/-- **identifier_safe** — whatever the name, the fallback and the transliteration, the result is a
    valid Python identifier and not a keyword. -/
theorem identifier_safe (tr : Char → List Char) (name fallback : List Char) :
    ValidIdent CodegenTables.pyKeywords (toIdentifierWith pyTables tr name fallback) :=
  validIdent_of_startsLetter (toIdentifierWith_startsLetter pyTables tr name fallback)
    (toIdentifierWith_not_mem pyTables tr name fallback _ keywords_end_in_letter (fun _ hw => Or.inl hw))

/-- the same for ANY word lists whose keywords end in a letter -/
theorem identifier_safe_general (T : NameTables) (hT : EndsInLetter T.keywords) (tr : Char → List Char)
    (name fallback : List Char) : ValidIdent T.keywords (toIdentifierWith T tr name fallback) :=
  validIdent_of_startsLetter (toIdentifierWith_startsLetter T tr name fallback)
    (toIdentifierWith_not_mem T tr name fallback _ hT (fun _ hw => Or.inl hw))

/-- instance for the driver's transliteration (the one the tie compares with the code) -/
theorem toIdentifier_safe (name fallback : List Char) :
    ValidIdent CodegenTables.pyKeywords (toIdentifier name fallback) := identifier_safe pyTranslit name fallback

/-- stronger than validity: the first character is an ASCII letter (never `_`, so the result is
    neither a private nor a dunder name and never the soft keyword `_`) and all characters are ASCII -/
theorem identifier_starts_with_letter (T : NameTables) (tr : Char → List Char) (name fallback : List Char) :
    ∃ c cs, toIdentifierWith T tr name fallback = c :: cs ∧ isAsciiLetter c = true ∧
      ∀ x ∈ cs, isIdChar x = true :=
  toIdentifierWith_startsLetter T tr name fallback

/-- the result is none of the keywords, soft keywords (`match`, `case`, `type`, `_`) or shadow-risk
    built-ins (`id`, `type`, `input`, …) of the source -/
theorem identifier_not_a_reserved_word (tr : Char → List Char) (name fallback : List Char) :
    toIdentifierWith pyTables tr name fallback ∉ CodegenTables.pyKeywords ∧
    toIdentifierWith pyTables tr name fallback ∉ CodegenTables.softKeywords ∧
    toIdentifierWith pyTables tr name fallback ∉ CodegenTables.shadowRisk := by
  have hav : toIdentifierWith pyTables tr name fallback ∉ avoidedWords := by
    apply toIdentifierWith_not_mem pyTables tr name fallback _ avoided_end_in_letter
    intro w hw
    simp only [avoidedWords, List.mem_append, List.mem_filter] at hw
    rcases hw with (hw | hw) | hw
    · exact Or.inl hw
    · exact Or.inr (Or.inl hw.1)
    · exact Or.inr (Or.inr hw)
  refine ⟨fun h => hav ?_, fun h => hav ?_, fun h => hav ?_⟩
  · simp only [avoidedWords, List.mem_append]; exact Or.inl (Or.inl h)
  · have hne : toIdentifierWith pyTables tr name fallback ≠ ['_'] := by
      intro he
      obtain ⟨c, cs, hc, hl, _⟩ := toIdentifierWith_startsLetter pyTables tr name fallback
      rw [he] at hc
      cases hc
      revert hl; decide
    simp only [avoidedWords, List.mem_append, List.mem_filter]
    exact Or.inl (Or.inr ⟨h, by simpa using hne⟩)
  · simp only [avoidedWords, List.mem_append]; exact Or.inr h

/-- **identifier_deterministic (1)** — the identifier is a function of the name alone whenever the
    name contains anything usable: the fallback (which callers derive from positions) is consulted
    only when the sanitised name is empty. -/
theorem identifier_deterministic (T : NameTables) (tr : Char → List Char) (name fb fb' : List Char)
    (h : sanitize tr name ≠ []) : toIdentifierWith T tr name fb = toIdentifierWith T tr name fb' := by
  unfold toIdentifierWith
  rw [baseCandidate_fallback_irrelevant tr name fb fb' h]

/-- **identifier_deterministic (2)** — asking the allocator again for a name it has seen returns
    the same binding and changes nothing (whatever fallback the second request carries). -/
theorem allocate_again (T : NameTables) (tr : Char → List Char) (a : Alloc) (name fb fb' : List Char) :
    allocate T tr (allocate T tr a name fb).1 name fb' = allocate T tr a name fb := by
  rw [allocate_hit T tr _ name fb' _ (allocate_lookup T tr a name fb)]

/-! ## `IdentifierAllocator` -/

/-- the suffix loop is bounded by `|taken|` iterations in the model; the bound is never what stops
    it: the name returned is free -/
theorem fresh_terminates_free (taken : List (List Char)) (base : List Char) : fresh taken base ∉ taken :=
  fresh_not_taken taken base

/-- one log entry per request, in order, carrying the requested name -/
theorem allocator_one_binding_per_request (T : NameTables) (tr : Char → List Char) (reserved : List (List Char))
    (reqs : List (List Char × List Char)) :
    (allocateAll T tr (Alloc.init reserved) reqs).2.map (·.1) = reqs.map (·.1) :=
  allocateAll_log_names T tr _ reqs

/-- **allocator_injective** — for every reserved set and every request sequence: two requests that
    received the same binding asked for the same source name. -/
theorem allocator_injective (T : NameTables) (tr : Char → List Char) (reserved : List (List Char))
    (reqs : List (List Char × List Char)) (n1 o1 n2 o2 : List Char)
    (h1 : (n1, o1) ∈ (allocateAll T tr (Alloc.init reserved) reqs).2)
    (h2 : (n2, o2) ∈ (allocateAll T tr (Alloc.init reserved) reqs).2) (ho : o1 = o2) : n1 = n2 :=
  (allocateAll_inv T tr _ reqs (inv_init reserved)).inj n1 o1 n2 o2
    (allocateAll_log T tr _ reqs n1 o1 h1) (allocateAll_log T tr _ reqs n2 o2 h2) ho

/-- **allocator_stable** — the same source name always receives the same binding. -/
theorem allocator_stable (T : NameTables) (tr : Char → List Char) (reserved : List (List Char))
    (reqs : List (List Char × List Char)) (n o1 o2 : List Char)
    (h1 : (n, o1) ∈ (allocateAll T tr (Alloc.init reserved) reqs).2)
    (h2 : (n, o2) ∈ (allocateAll T tr (Alloc.init reserved) reqs).2) : o1 = o2 := by
  have a := allocateAll_log T tr _ reqs n o1 h1
  have b := allocateAll_log T tr _ reqs n o2 h2
  rw [a] at b
  exact Option.some.inj b

/-- **allocator_avoids_reserved** — no binding is one of the names reserved for the module's own
    imports and helpers. -/
theorem allocator_avoids_reserved (T : NameTables) (tr : Char → List Char) (reserved : List (List Char))
    (reqs : List (List Char × List Char)) (n o : List Char)
    (h : (n, o) ∈ (allocateAll T tr (Alloc.init reserved) reqs).2) : o ∉ reserved :=
  (allocateAll_avoids T tr reserved _ reqs (avoids_init reserved)).none n o (allocateAll_log T tr _ reqs n o h)

/-- **allocator_valid** — every binding handed out (suffixed or not) is a valid non-keyword identifier. -/
theorem allocator_valid (tr : Char → List Char) (reserved : List (List Char))
    (reqs : List (List Char × List Char)) (n o : List Char)
    (h : (n, o) ∈ (allocateAll pyTables tr (Alloc.init reserved) reqs).2) :
    ValidIdent CodegenTables.pyKeywords o := by
  refine allocateAll_shape pyTables tr (Alloc.init reserved) reqs (ValidIdent CodegenTables.pyKeywords) ?_ ?_ ?_ n o h
  · intro k v hk; simp [Alloc.init, lookup] at hk
  · intro n f; exact identifier_safe tr n f
  · intro n f i
    exact validIdent_of_startsLetter (suffixed_startsLetter (toIdentifierWith_startsLetter pyTables tr n f) i)
      (suffixed_not_mem keywords_end_in_letter _ i)

/-! ## non-vacuity: concrete runs of the model (the same inputs are in the tie's fixed list) -/

example : toIdentifier "class".toList stateWord = "class_".toList := by decide
example : toIdentifier "1st-state".toList stateWord = "s_1st_state".toList := by decide
example : toIdentifier "__import__('os')".toList stateWord = "import___os".toList := by decide
example : toIdentifier "id".toList stateWord = "id_".toList := by decide
example : toIdentifier "---".toList "a.b".toList = "a_b".toList := by decide
example : toIdentifier [] [] = stateWord := by decide
/-- `my-state` and `my_state` collide; the second is suffixed; asking again is stable; `State` is reserved -/
example : pyAllocateAll ["State".toList] [("my-state".toList, stateWord), ("my_state".toList, stateWord),
      ("my-state".toList, stateWord), ("State".toList, stateWord), ("my.state".toList, stateWord)]
    = ["my_state".toList, "my_state_2".toList, "my_state".toList, "State_2".toList, "my_state_3".toList] := by decide

/-! ## the data round trip, guard fragment (the tie `c17_guard_ir` compares `irGuard`/`renderGuard` with the code) -/

/-- **guard_roundtrip** — for a guard that is a name, or `and`/`or`/`not` whose operands are written under
    `params.guards` (recursively), the guard the generated module spells parses — with the engine's own
    `GuardDefinition` parser — to exactly what the source guard parses to. -/
theorem guard_roundtrip (j : J) (h : RepGuard j) :
    ∃ g, irGuard j = some g ∧ parseGuard (renderGuard g) = parseGuard j := guard_roundtrip_rep j h

/-- the fragment is not empty of interest: a nested composite in it -/
example : RepGuard (opJ "and" [("params", .obj [("guards", .arr [.str "ready",
    opJ "not" [("params", .obj [("guards", .arr [.str "busy"])])]])])]) := by
  refine .comp "and" _ (by simp [IsCompositeOp]) (by simp) ?_
  intro c hc
  simp at hc
  rcases hc with rfl | rfl
  · exact .name _
  · exact .comp "not" _ (by simp [IsCompositeOp]) (by simp) (by intro c hc; simp at hc; subst hc; exact .name _)

/-- **outside the fragment (F16):** a guard object without `params.guards` — whatever else it carries — is emitted
    as its bare type name. -/
theorem guard_rendered_as_bare_name (kvs : List (String × J)) (ty : String)
    (hty : (J.obj kvs).get? "type" = some (.str ty)) (hn : nestedGuards (.obj kvs) = []) :
    ∃ g, irGuard (.obj kvs) = some g ∧ renderGuard g = .str ty := render_bare_name kvs ty hty hn

/-- F16 (a): `{"type":"inRange","params":{"min":1}}` comes back as the parameterless guard `inRange`. -/
theorem guard_roundtrip_fails_params :
    ∃ g, irGuard exParamGuard = some g ∧ parseGuard (renderGuard g) ≠ parseGuard exParamGuard := by
  obtain ⟨g, hg, hp⟩ := exParamGuard_generated
  exact ⟨g, hg, by rw [hp, exParamGuard_source]; simp⟩

/-- F16 (b): `{"type":"not","children":["busy"]}` comes back as a USER guard named `not`. -/
theorem guard_roundtrip_fails_children :
    ∃ g, irGuard exChildrenGuard = some g ∧ parseGuard (renderGuard g) ≠ parseGuard exChildrenGuard := by
  obtain ⟨g, hg, hp⟩ := exChildrenGuard_generated
  exact ⟨g, hg, by rw [hp, exChildrenGuard_source]; simp⟩

/-- F16 (c): `{"type":"stateIn","params":{"state":"#m.a"}}` comes back as `stateIn` with no state to test. -/
theorem guard_roundtrip_fails_stateIn :
    ∃ g, irGuard exStateInGuard = some g ∧ parseGuard (renderGuard g) ≠ parseGuard exStateInGuard := by
  obtain ⟨g, hg, hp⟩ := exStateInGuard_generated
  exact ⟨g, hg, by rw [hp, exStateInGuard_source]; simp⟩

/-! ## the whole data round trip: STATEMENT ONLY (validated by the fingerprint comparison, false today: F16) -/

/-- `parse (compile (emitObjects (irOfJson j))) ≈ parse j` for every JSON the generator accepts,
    where `≈` is the deep fingerprint.  The four functions are parameters: the IR and emitters are not
    modelled in this round. No theorem is claimed. -/
def codegen_roundtrip_statement {J IR Obj M FP : Type} (irOfJson : J → IR) (representable : IR → Prop)
    (emitObjects : IR → Obj) (compile : Obj → M) (parse : J → M) (fingerprint : M → FP) : Prop :=
  ∀ j, representable (irOfJson j) → fingerprint (compile (emitObjects (irOfJson j))) = fingerprint (parse j)

end XSM.C17
