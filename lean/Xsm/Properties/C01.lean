import Xsm.Proofs.SelSound
/-!
# C01 — the active configuration is always a legal statechart configuration

Statements only; the proofs live in `Xsm/Proofs`. `Legal` is the property's own wording
(`Xsm/Proofs/Legal.lean`, `structure Legal`): root active, every active id names a non-history
state, parent of an active state active, an active compound state with children has exactly one
active child, an active parallel state has every non-history child active.
-/
namespace XSM.C01
open XSM XSM.Spec

/-- one selected transition of the executable model (any flavour, any enqueue-only hooks) keeps the
    configuration legal and does not fail -/
theorem legal_microstep (h : Hooks) (hok : HooksOK h) (fl : Flavor) (m : Machine) (ev : Ev)
    (c : Cand) (s : St) (hwf : WF m.root) (hi : InitOK m.root) (hinv : Inv m s)
    (hc : CandOK m c) (hsrc : c.src ∈ s.cfg) :
    Inv m (execute h fl m ev (planTransition m s.cfg s.hist c) s) :=
  XSM.legal_microstep h hok fl m ev c s hwf hi hinv hc hsrc

/-- whole runs of the async engine model: legal after `start()` and after every event -/
theorem legal_async_run (m : Machine) (env : GEnv) (hwf : WF m.root) (hi : InitOK m.root)
    (hk : m.root.kind ≠ .history) (ht : TargetsOK m) (evs : List Ev) :
    RInv m (evs.foldl (fun s e => asyncSend m env e s) (asyncStart m env {})) :=
  XSM.legal_async_run' m env hwf hi hk ht evs

end XSM.C01
