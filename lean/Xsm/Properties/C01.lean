import Xsm.Proofs.SelSound
import Xsm.Properties.C11
/-!
# C01 — the active configuration is always a legal statechart configuration

Statements only; the proofs live in `Xsm/Proofs`. `Legal` is the property's own wording
(`Xsm/Proofs/Legal.lean`, `structure Legal`): root active, every active id names a non-history
state, parent of an active state active, an active compound state with children has exactly one
active child, an active parallel state has every non-history child active.

Hypotheses: `WF` (sibling keys distinct, kinds consistent with children), `InitOK` (a compound
state with children names an existing non-history initial child — what the library itself checks
when the state is entered), `TargetsOK` (every declared transition is target-less, or resolves to a
state that is not a history pseudo-state — the machine root included).
History targets: `legal_microstep_history` covers a history target fired while the history state's
parent is inactive (the documented "resume" use, C11's scope) under `HistNodeOK` (the history node's
default target, if any, lies below its parent and is not itself a history node; a parallel parent has
a real region); it is a per-transition theorem, because whether the parent is active is a property
of the run, not of the machine. A history target fired from INSIDE its parent, and the three
degenerate shapes `HistNodeOK` excludes, are covered by the correspondence check and the monitor only.
-/
namespace XSM.C01
open XSM XSM.Spec

/-- one selected transition of the executable model (either engine, any enqueue-only hooks) keeps
    the configuration legal whether its actions succeed, raise or are missing -/
theorem legal_microstep (h : Hooks) (hok : HooksOK h) (fl : Flavor) (m : Machine) (ev : Ev)
    (c : Cand) (s : St) (hwf : WF m.root) (hi : InitOK m.root) (hl : Legal m.root s.cfg)
    (hc : CandOK m c) (hsrc : c.src ∈ s.cfg) :
    Legal m.root (execute h fl m ev (planTransition m s.cfg s.hist c) s).cfg :=
  XSM.legal_microstep h hok fl m ev c s hwf hi hl hc hsrc

/-- a transition to a history pseudo-state, fired while the history state's parent is inactive:
    the restored (or default) configuration is legal — or the transition failed and nothing changed -/
theorem legal_microstep_history (h : Hooks) (hok : HooksOK h) (fl : Flavor) (m : Machine) (ev : Ev)
    (c : Cand) (s : St) (hh : Path) (hn : SNode) (hf : Hist.HistFire m s c hh hn)
    (hI : ∀ R, Hist.histGet s.hist hh.dropLast = some R → R ≠ [] → HistInv m.root hh.dropLast R)
    (hOK : Hist.HistNodeOK m hh) :
    Legal m.root (execute h fl m ev (planTransition m s.cfg s.hist c) s).cfg :=
  XSM.C11.legal_microstep_history h hok fl m ev c s hh hn hf hI hOK

/-- a failed transition (missing action or service, unresolvable target, failing entry) leaves the
    configuration exactly as it was -/
theorem failed_transition_restores (h : Hooks) (fl : Flavor) (m : Machine) (ev : Ev) (pl : Plan) (s : St)
    (hint : pl.internal = false) (he : (execute h fl m ev pl s).err ≠ none) :
    (execute h fl m ev pl s).cfg = s.cfg :=
  XSM.execute_rollback h fl m ev pl s hint he

/-- every event processed (all selected transitions, stale ones skipped) keeps the configuration
    legal: this is the configuration `on_transition` hooks and subscribers observe -/
theorem legal_event (h : Hooks) (hok : HooksOK h) (fl : Flavor) (m : Machine) (u : UEnv) (ev : Ev)
    (hwf : WF m.root) (hi : InitOK m.root) (ht : TargetsOK m) (s : St) (hl : Legal m.root s.cfg) :
    Legal m.root (processEvent h fl m u ev s).cfg :=
  XSM.processEvent_inv h hok fl m u ev hwf hi (selSound_of_targetsOK m ht) s hl

/-- `start()` either refuses the machine (an error reaches the caller) or returns a legal configuration -/
theorem legal_start (fl : Flavor) (m : Machine) (u : UEnv) (hwf : WF m.root) (hi : InitOK m.root)
    (hk : m.root.kind ≠ .history) (ht : TargetsOK m) : StartOK m (start fl m u {}) := by
  cases fl with
  | sync => exact syncStart_ok m u hwf hi hk (selSound_of_targetsOK m ht)
  | async => exact asyncStart_ok m u hwf hi hk (selSound_of_targetsOK m ht)

/-- **whole runs, both engines**: after `start()` and after every one of any finite sequence of
    events, for every user environment (actions and guards may succeed, raise, be missing) -/
theorem legal_run (fl : Flavor) (m : Machine) (u : UEnv) (hwf : WF m.root) (hi : InitOK m.root)
    (hk : m.root.kind ≠ .history) (ht : TargetsOK m) (hstart : (start fl m u {}).err = none)
    (evs : List Ev) : Legal m.root (evs.foldl (cmd fl m u) (start fl m u {})).cfg :=
  XSM.legal_run' fl m u hwf hi hk ht hstart evs

end XSM.C01
