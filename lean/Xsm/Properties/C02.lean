import Xsm.Proofs.Select
/-!
# C02 — transition selection

"For an event delivered in a given configuration each active atomic state nominates at most one
transition: the first candidate in declaration order whose guard passes, taken from the nearest
ancestor-or-self that has any enabled candidate for that event; exactly the nominated transitions
fire (one declared on an ancestor shared by several regions fires once, and one whose source was
exited by an earlier winner of the same step is skipped), and no other transition's actions run.
An event with no nominee is a no-op, and `can(event)` is true exactly when a nominee exists while
itself changing nothing."

Statements about the executable model (`Xsm/Model/Select.lean`, `Engine.processEvent`); helper
definitions and lemmas live in `Xsm/Proofs/Select.lean`. Everything is for arbitrary machines,
configurations, guard environments and guard caches; nothing bounds the size or depth of the tree.

Vocabulary (all from `Xsm/Proofs/Select.lean`):
* `gOf m cfg env t` — the value of `t`'s guard (`false` when evaluating it raises);
* `TidOK m` — declared transitions with the same identity have the same guard (the parser hands out
  fresh identities; `tidOK_of_nodup` is a checkable sufficient condition). Needed only where a
  statement speaks about *guards*: the model, like the code, memoises guard results by identity;
* `enabledAt g src ts` — the members of `ts` whose guard passes, in order, as candidates of `src`;
* `onTrans d keys` — the `on` lists of the matching descriptors, concatenated, most specific first;
  `bucketTrans d ev itc` — eventless bucket (only when `itc`), `onDone`, `after`, invoke handlers;
* `nodeSpec g m ev itc iet cur` — candidates contributed by state `cur` and whether the walk stops;
  `chainSpec` — their concatenation from the leaf upward; `nomineeSpec` — its head;
* `eligLoop` — the eligible lists of the leaves with the guard cache threaded as in `selectLoop`;
* `dedupSeen seen ws` — drop a candidate whose identity was seen, keeping first occurrences;
* `firedOf h fl m ev multi sel s` — the members of `sel` that `processEvent` really executes.

The `example`s use the machine `XSM.SelEx.exM` (end of `Xsm/Proofs/Select.lean`), in configuration
`exCfg = {m, P, A, a1, B, b1}`; `exEnv` implements guard `g1` as false, `exEnvMissing` not at all:
```
m (compound, initial P)
├─ P (parallel)   on E: t0    on K: t8
│  ├─ A (compound, initial a1)   on F: t6
│  │  ├─ a1   on F: [t1 (guard g1), t2]   on X: t4 → #m.Q   on K: t7 (forbidden)
│  │  └─ a2
│  └─ B (compound, initial b1)
│     └─ b1   on F: t3   on X: t5
└─ Q
```
-/
namespace XSM.C02
open XSM XSM.SelEx

/-! ## 1. candidate order along the chain -/

/-- *Clause "the first candidate in declaration order whose guard passes, taken from the nearest
    ancestor-or-self" — the list it is taken from.* Whenever the walk from `leaf` does not raise, the
    eligible list is `chainSpec`: node contributions concatenated from `leaf` upward. (`c0` is any
    guard cache that agrees with the guards, e.g. `[]` — `agree_nil` — or the cache left by the
    walks of earlier leaves.) -/
theorem chain_order (m : Machine) (cfg : List Path) (env : GEnv) (htid : TidOK m) (leaf : Path) (ev : Ev)
    (c0 : GCache) (hc0 : Agree (gOf m cfg env) (DeclT m) c0) (elig : List Cand) (c1 : GCache)
    (h : collectEligible m cfg env leaf ev c0 = .ok (elig, c1)) :
    elig = chainSpec (gOf m cfg env) m ev (itcOf ev) (ietOf ev) (chainUp leaf) ∧
      Agree (gOf m cfg env) (DeclT m) c1 :=
  collectChain_spec (oracleOK_gOf m cfg env htid) (declT_cover m) ev _ _ (chainUp leaf) c0 elig c1 hc0 h

/-- the hypotheses are met on `exM`: identities are pairwise distinct, the empty cache agrees -/
example : TidOK exM := tidOK_of_nodup exM (by decide)
example : Agree (gOf exM exCfg exEnv) (DeclT exM) [] := agree_nil _ _
/-- `a1`'s eligible list for `F` is `[t2@a1, t6@A]` (`t1`'s guard fails), and so says `chainSpec` -/
example : (match collectEligible exM exCfg exEnv ["P", "A", "a1"] (.user "F") [] with
    | .ok (elig, _) => some (elig.map (fun c => (c.t.tid, c.src.length))) | .error _ => none) =
      some [(2, 3), (6, 2)] := by decide
example : (eligSpec (gOf exM exCfg exEnv) exM (.user "F") ["P", "A", "a1"]).map (·.t.tid) = [2, 6] := by
  decide

/-- *The concatenation, and where it stops:* a state that is missing or blocks ends the list. -/
theorem chain_concat (g : Trans → Bool) (m : Machine) (ev : Ev) (itc iet : Bool) (cur : Path) (ups : List Path) :
    chainSpec g m ev itc iet (cur :: ups) =
      if (nodeSpec g m ev itc iet cur).2 then (nodeSpec g m ev itc iet cur).1
      else (nodeSpec g m ev itc iet cur).1 ++ chainSpec g m ev itc iet ups := rfl

/-- *Candidate order inside one state:* the `on` lists of the matching descriptors (most specific
    first, each in declaration order) up to the first forbidden transition; if none is forbidden, then
    the eventless bucket (ordinary events only), `onDone`, `after`, invoke handlers. A forbidden
    transition stops the walk: nothing further from this state nor from any ancestor. -/
theorem node_order (g : Trans → Bool) (m : Machine) (ev : Ev) (itc iet : Bool) (cur : Path) (d : StateDef)
    (hd : m.defAt cur = some d) :
    nodeSpec g m ev itc iet cur =
      (if (onPart g cur d ev iet).2 then ((onPart g cur d ev iet).1, true)
       else ((onPart g cur d ev iet).1 ++ enabledAt g cur (bucketTrans d ev itc), false)) ∧
    onPart g cur d ev iet =
      (if iet then ([], false)
       else
        (enabledAt g cur ((onTrans d (matchingDescriptors (d.on.map (·.1)) ev.type)).takeWhile
            (fun t => !t.forbidden)),
         (onTrans d (matchingDescriptors (d.on.map (·.1)) ev.type)).any (fun t => t.forbidden))) := by
  refine ⟨nodeSpec_some hd, ?_⟩
  unfold onPart
  split
  · rfl
  · exact walkSpec_eq _ _ _

/-- `a1` forbids `K`: its contribution is empty and the walk stops there -/
example : ((nodeSpec (gOf exM exCfg exEnv) exM (.user "K") true false ["P", "A", "a1"]).1.map (·.t.tid),
    (nodeSpec (gOf exM exCfg exEnv) exM (.user "K") true false ["P", "A", "a1"]).2) = ([], true) := by
  decide

/-- *Every candidate's source is the state it was declared on, its guard passes, and that state is on
    the leaf's chain.* -/
theorem node_src (g : Trans → Bool) (m : Machine) (ev : Ev) (itc iet : Bool) (cur : Path) (c : Cand)
    (h : c ∈ (nodeSpec g m ev itc iet cur).1) :
    c.src = cur ∧ g c.t = true ∧ ∃ d, m.defAt cur = some d ∧ c.t ∈ allTrans d :=
  nodeSpec_src h

/-- The same without any hypothesis on identities: whatever the cache, what the walk yields is
    declared on a state of the chain (an ancestor-or-self of the leaf). -/
theorem chain_src (m : Machine) (cfg : List Path) (env : GEnv) (leaf : Path) (ev : Ev)
    (c0 : GCache) (elig : List Cand) (c1 : GCache)
    (h : collectEligible m cfg env leaf ev c0 = .ok (elig, c1)) :
    ∀ c ∈ elig, c.src <+: leaf ∧ Declared m c := by
  intro c hc
  obtain ⟨h1, h2⟩ := collectChain_sound m cfg env ev _ _ (chainUp leaf) c0 elig c1 h c hc
  exact ⟨mem_chainUp h1, h2⟩

/-- *Sources appear with non-increasing depth along the eligible list* (no hypothesis at all). -/
theorem chain_depth_antitone (m : Machine) (cfg : List Path) (env : GEnv) (leaf : Path) (ev : Ev)
    (c0 : GCache) (elig : List Cand) (c1 : GCache)
    (h : collectEligible m cfg env leaf ev c0 = .ok (elig, c1)) :
    List.Pairwise (fun a b => b.src.length ≤ a.src.length) elig :=
  collectEligible_antitone m cfg env leaf ev c0 elig c1 h

example : (eligSpec (gOf exM exCfg exEnv) exM (.user "F") ["P", "A", "a1"]).map (·.src.length) = [3, 2] := by
  decide

/-! ## 2. the nominee of one leaf -/

/-- *`max(eligible, key=depth)` keeps the first maximum:* `firstMaxBy f l = some w` exactly when `w`
    sits in `l` with everything before it strictly smaller and nothing after it bigger. -/
theorem firstMaxBy_spec (f : Cand → Nat) (l : List Cand) (w : Cand) :
    firstMaxBy f l = some w ↔
      ∃ pre post, l = pre ++ w :: post ∧ (∀ x ∈ pre, f x < f w) ∧ (∀ x ∈ post, f x ≤ f w) :=
  XSM.firstMaxBy_spec f l w

/-- consequence: the winner is a member and attains the maximum -/
theorem firstMaxBy_max (f : Cand → Nat) (l : List Cand) (w : Cand) (h : firstMaxBy f l = some w) :
    w ∈ l ∧ ∀ x ∈ l, f x ≤ f w :=
  XSM.firstMaxBy_max f l w h

/-- *Clause "each active atomic state nominates at most one transition: the first candidate …".*
    Because depth never increases along the eligible list, "deepest source, first among equals" is
    just the FIRST eligible candidate (no hypothesis on the machine). -/
theorem nominee_is_head (m : Machine) (cfg : List Path) (env : GEnv) (leaf : Path) (ev : Ev)
    (c0 : GCache) (elig : List Cand) (c1 : GCache)
    (h : collectEligible m cfg env leaf ev c0 = .ok (elig, c1)) :
    firstMaxBy (fun x => x.src.length) elig = elig.head? :=
  collectEligible_winner m cfg env leaf ev c0 elig c1 h

/-- *… "whose guard passes, taken from the nearest ancestor-or-self that has any enabled
    candidate".* The winner of `leaf` is `nomineeOf`: see `nominee_nearest` for what that is. -/
theorem nominee_spec (m : Machine) (cfg : List Path) (env : GEnv) (htid : TidOK m) (leaf : Path) (ev : Ev)
    (c0 : GCache) (hc0 : Agree (gOf m cfg env) (DeclT m) c0) (elig : List Cand) (c1 : GCache)
    (h : collectEligible m cfg env leaf ev c0 = .ok (elig, c1)) :
    firstMaxBy (fun x => x.src.length) elig = nomineeOf (gOf m cfg env) m ev leaf := by
  rw [nominee_is_head m cfg env leaf ev c0 elig c1 h,
    (chain_order m cfg env htid leaf ev c0 hc0 elig c1 h).1]
  exact head?_chainSpec _ m ev _ _ _

example : (nomineeOf (gOf exM exCfg exEnv) exM (.user "F") ["P", "A", "a1"]).map (·.t.tid) = some 2 := by
  decide
/-- nothing enabled on `b1` or `B` for `E`: the nominee comes from `P` -/
example : (nomineeOf (gOf exM exCfg exEnv) exM (.user "E") ["P", "B", "b1"]).map (fun c => (c.t.tid, c.src)) =
    some (0, ["P"]) := by decide

/-- *"nearest … that has any":* going up from the leaf, the first state with a non-empty contribution
    supplies its first candidate; a state with an empty contribution passes the search on to its
    parent unless it blocks (forbidden transition) or does not exist. -/
theorem nominee_nearest (g : Trans → Bool) (m : Machine) (ev : Ev) (itc iet : Bool) (cur : Path) (ups : List Path) :
    nomineeSpec g m ev itc iet (cur :: ups) =
      match (nodeSpec g m ev itc iet cur).1 with
      | w :: _ => some w
      | [] => if (nodeSpec g m ev itc iet cur).2 then none else nomineeSpec g m ev itc iet ups := rfl

/-! ## 3. the selected set -/

/-- *Selection factored* (no hypothesis; covers the raising case too): per-leaf eligible lists in
    `leavesSorted` order with one guard cache shared by all leaves, the winner of each non-empty list,
    duplicates (same identity) removed keeping the first, stable sort by descending source depth. -/
theorem select_factored (m : Machine) (cfg : List Path) (env : GEnv) (ev : Ev) :
    selectTransitions m cfg env ev =
      match eligLoop m cfg env ev (leavesSorted m cfg) [] with
      | .error e => .error e
      | .ok es => .ok (sortBy (geKey (fun c : Cand => c.src.length)) (dedupSeen [] (winnersOf es))) :=
  selectTransitions_eq m cfg env ev

/-- *`select_dedup`, closed form:* the selected list is the nominees of the active leaves, in
    `leavesSorted` order, de-duplicated keeping the first, stably sorted deepest-source-first. -/
theorem select_dedup (m : Machine) (cfg : List Path) (env : GEnv) (ev : Ev) (htid : TidOK m)
    (sel : List Cand) (h : selectTransitions m cfg env ev = .ok sel) :
    sel = sortBy (geKey (fun c : Cand => c.src.length))
      (dedupSeen [] ((leavesSorted m cfg).filterMap (nomineeOf (gOf m cfg env) m ev))) :=
  select_closed_form m cfg env ev htid sel h

/-- the two active leaves, deepest first then by id; one nominee per region for `F` -/
example : leavesSorted exM exCfg = [["P", "A", "a1"], ["P", "B", "b1"]] := by decide
example : tidsOf (selectTransitions exM exCfg exEnv (.user "F")) = some [2, 3] := by decide
/-- `a1` forbids `K` (it nominates nothing) but `b1`'s walk still reaches `P` -/
example : nomineeOf (gOf exM exCfg exEnv) exM (.user "K") ["P", "A", "a1"] = none := by decide
example : tidsOf (selectTransitions exM exCfg exEnv (.user "K")) = some [8] := by decide

/-- what "de-duplicated keeping the first" means: a sub-list (order kept), no identity twice, every
    identity still represented -/
theorem dedup_facts (ws : List Cand) :
    (dedupSeen [] ws).Sublist ws ∧ (dedupSeen [] ws).Pairwise (fun a b => a.t.tid ≠ b.t.tid) ∧
      ∀ w ∈ ws, ∃ x ∈ dedupSeen [] ws, x.t.tid = w.t.tid := by
  refine ⟨dedupSeen_sublist ws [], dedupSeen_nodup ws [], ?_⟩
  intro w hw
  rcases dedupSeen_cover ws [] w hw with h | h
  · simp at h
  · exact h

/-- what "stable sort by descending depth" means: a permutation, sorted, and candidates of equal depth
    keep their relative order -/
theorem sort_facts (l : List Cand) :
    (sortBy (geKey (fun c : Cand => c.src.length)) l).Perm l ∧
    (sortBy (geKey (fun c : Cand => c.src.length)) l).Pairwise (fun a b => b.src.length ≤ a.src.length) ∧
    ∀ k, (sortBy (geKey (fun c : Cand => c.src.length)) l).filter (fun c => c.src.length = k) =
      l.filter (fun c => c.src.length = k) :=
  ⟨sortBy_perm _ l, sortBy_sorted _ l, fun k => sortBy_stable (fun c : Cand => c.src.length) k l⟩

/-- *Every selected candidate is some active leaf's nominee* (no hypothesis): it is the head of the
    eligible list of a leaf of the configuration. -/
theorem selected_is_nominee (m : Machine) (cfg : List Path) (env : GEnv) (ev : Ev)
    (sel : List Cand) (h : selectTransitions m cfg env ev = .ok sel) :
    ∀ c ∈ sel, ∃ leaf ∈ leavesSorted m cfg, ∃ c0 elig c1,
      collectEligible m cfg env leaf ev c0 = .ok (elig, c1) ∧ elig.head? = some c := by
  intro c hc
  rw [select_factored] at h
  cases he : eligLoop m cfg env ev (leavesSorted m cfg) [] with
  | error e => simp [he] at h
  | ok es =>
    simp only [he, Except.ok.injEq] at h
    subst h
    rw [mem_sortBy] at hc
    have hc' := (mem_dedupSeen _ _ _ hc).1
    rw [winnersOf_eq_heads m cfg env ev _ _ es he, List.mem_filterMap] at hc'
    obtain ⟨e, he', hhd⟩ := hc'
    obtain ⟨leaf, hl, c0, c1, hce⟩ := (eligLoop_mem m cfg env ev _ _ es he).1 e he'
    exact ⟨leaf, hl, c0, e, c1, hce, hhd⟩

/-- *Clause "one declared on an ancestor shared by several regions fires once".* No identity is
    selected twice (no hypothesis) … -/
theorem selected_nodup (m : Machine) (cfg : List Path) (env : GEnv) (ev : Ev)
    (sel : List Cand) (h : selectTransitions m cfg env ev = .ok sel) :
    sel.Pairwise (fun a b => a.t.tid ≠ b.t.tid) := by
  rw [select_factored] at h
  cases he : eligLoop m cfg env ev (leavesSorted m cfg) [] with
  | error e => simp [he] at h
  | ok es =>
    simp only [he, Except.ok.injEq] at h
    subst h
    exact ((sortBy_perm _ _).pairwise_iff (fun hab => fun e => hab e.symm)).2 (dedupSeen_nodup _ [])

/-- … and the nominee of every active leaf — however many leaves nominate it — occurs exactly once
    among the selected. -/
theorem shared_ancestor_fires_once (m : Machine) (cfg : List Path) (env : GEnv) (ev : Ev) (htid : TidOK m)
    (sel : List Cand) (h : selectTransitions m cfg env ev = .ok sel)
    (leaf : Path) (hl : leaf ∈ leavesSorted m cfg) (w : Cand)
    (hw : nomineeOf (gOf m cfg env) m ev leaf = some w) :
    sel.countP (fun x => x.t.tid = w.t.tid) = 1 := by
  have hnd := selected_nodup m cfg env ev sel h
  have hsel := select_dedup m cfg env ev htid sel h
  have hmem : w ∈ (leavesSorted m cfg).filterMap (nomineeOf (gOf m cfg env) m ev) :=
    List.mem_filterMap.2 ⟨leaf, hl, hw⟩
  obtain ⟨x, hx, hxe⟩ := (dedup_facts _).2.2 w hmem
  have hxs : x ∈ sel := by rw [hsel, mem_sortBy]; exact hx
  have := countP_tid_eq_one sel hnd x hxs
  rw [hxe] at this
  exact this

/-- both regions nominate `t0`, declared on their common ancestor `P`; it is selected once -/
example : ((leavesSorted exM exCfg).filterMap (nomineeOf (gOf exM exCfg exEnv) exM (.user "E"))).map
    (·.t.tid) = [0, 0] := by decide
example : tidsOf (selectTransitions exM exCfg exEnv (.user "E")) = some [0] := by decide

/-- *Nothing selected iff no active leaf has a nominee* (given that selection does not raise). -/
theorem no_nominee_iff (m : Machine) (cfg : List Path) (env : GEnv) (ev : Ev) (htid : TidOK m)
    (sel : List Cand) (h : selectTransitions m cfg env ev = .ok sel) :
    sel = [] ↔ ∀ leaf ∈ leavesSorted m cfg, nomineeOf (gOf m cfg env) m ev leaf = none := by
  rw [select_dedup m cfg env ev htid sel h, sortBy_eq_nil, dedupSeen_nil_eq_nil,
    List.filterMap_eq_nil_iff]

/-- the same in terms of eligible lists, without any hypothesis on identities -/
theorem no_nominee_iff' (m : Machine) (cfg : List Path) (env : GEnv) (ev : Ev) :
    selectTransitions m cfg env ev = .ok [] ↔
      ∃ es, eligLoop m cfg env ev (leavesSorted m cfg) [] = .ok es ∧ ∀ e ∈ es, e = [] := by
  rw [select_factored]
  cases he : eligLoop m cfg env ev (leavesSorted m cfg) [] with
  | error e => simp
  | ok es =>
    simp only [Except.ok.injEq, sortBy_eq_nil, dedupSeen_nil_eq_nil, exists_eq_left']
    simp only [winnersOf, List.filterMap_eq_nil_iff, firstMaxBy_eq_none]

example : selectTransitions exM exCfg exEnv (.user "Z") = .ok [] := by rfl

/-! ## 4. an unhandled event is a no-op -/

/-- *Clause "an event with no nominee is a no-op".* The WHOLE state record is unchanged:
    configuration, history, queue, status, trace (so no action ran), error flag, counters. (The model
    has no context, timers or services of its own: their only trace is `act`/`#t` records and queue
    entries, all part of `St`.) -/
theorem unhandled_is_noop (h : Hooks) (fl : Flavor) (m : Machine) (u : UEnv) (ev : Ev) (s : St)
    (hsel : selectTransitions m s.cfg (u.genv s.ctx ev.type) ev = .ok []) : processEvent h fl m u ev s = s := by
  simp only [processEvent, hsel, List.foldl_nil]

example : processEvent (hooksFlagged exU exM) .sync exM exU (.user "Z") exS = exS :=
  unhandled_is_noop _ _ _ _ _ exS (by rfl)

/-! ## 5. exactly the nominated transitions fire -/

/-- *Clause "exactly the nominated transitions fire … one whose source was exited by an earlier winner
    of the same step is skipped, and no other transition's actions run".* `processEvent` is the
    left-to-right execution of `firedOf … sel s`, a sub-list of the selected list. -/
theorem fired_subset_selected (h : Hooks) (fl : Flavor) (m : Machine) (u : UEnv) (ev : Ev) (s : St)
    (sel : List Cand) (hsel : selectTransitions m s.cfg (u.genv s.ctx ev.type) ev = .ok sel) :
    processEvent h fl m u ev s =
        (firedOf h fl m ev (decide (sel.length > 1)) sel s).foldl
          (fun s c => execute h fl m ev (planTransition m s.cfg s.hist c) s) s ∧
      (firedOf h fl m ev (decide (sel.length > 1)) sel s).Sublist sel := by
  refine ⟨?_, firedOf_sublist h fl m ev _ sel s⟩
  rw [processEvent_ok h fl m u ev s sel hsel, foldl_stepSel_eq]
  rfl

/-- for `X` both `t4` (a1 → Q, leaving `P`) and `t5` (on b1) are selected; executing `t4` exits `b1`, so
    `t5` is skipped and its action never runs -/
example : tidsOf (selectTransitions exM exCfg exEnv (.user "X")) = some [4, 5] := by decide
example : (firedOf (hooksFlagged exU exM) .sync exM (.user "X") true
    [⟨["P", "A", "a1"], t4⟩, ⟨["P", "B", "b1"], t5⟩] exS).map (·.t.tid) = [4] := by decide
example : (processEvent (hooksFlagged exU exM) .sync exM exU (.user "X") exS).trace =
    ["#t:m,m.Q", "leave@X"] := by decide

/-- which ones: scanning the selected list, stop at a pending error, stop once the machine has
    finished (an earlier transition of the step completed it: `break`); skip a candidate whose source
    is no longer active (tested only when several were selected); execute the others -/
theorem firedOf_cons (h : Hooks) (fl : Flavor) (m : Machine) (ev : Ev) (multi : Bool) (c : Cand)
    (cs : List Cand) (s : St) :
    firedOf h fl m ev multi (c :: cs) s =
      if s.err.isSome then []
      else if finished s.status then []
      else if multi && !(s.cfg.contains c.src) then firedOf h fl m ev multi cs s
      else c :: firedOf h fl m ev multi cs (execute h fl m ev (planTransition m s.cfg s.hist c) s) := rfl

/-- a single selected transition is always executed (no stale-source test) by a machine that has not
    finished (`_process_event` leaves its loop at once when the status is `done` / `error` / `stopped`;
    the engines only call it while running) -/
theorem fired_single (h : Hooks) (fl : Flavor) (m : Machine) (u : UEnv) (ev : Ev) (s : St) (c : Cand)
    (hsel : selectTransitions m s.cfg (u.genv s.ctx ev.type) ev = .ok [c]) (herr : s.err = none)
    (hrun : finished s.status = false) :
    processEvent h fl m u ev s = execute h fl m ev (planTransition m s.cfg s.hist c) s := by
  rw [(fired_subset_selected h fl m u ev s [c] hsel).1]
  simp [firedOf, herr, hrun]

/-! ## 6. `can` -/

/-- *Clause "`can(event)` is true exactly when a nominee exists":* `can` is "selection succeeds and is
    non-empty". Like the code (`try … except Exception: return False`) it reports `false` when
    selection raises. "While itself changing nothing" is definitional: `can` takes the configuration
    and returns a `Bool`; it neither takes nor returns a `St`. -/
theorem can_iff_select_nonempty (m : Machine) (cfg : List Path) (env : GEnv) (ev : Ev) :
    can m cfg env ev = true ↔ ∃ sel, selectTransitions m cfg env ev = .ok sel ∧ sel ≠ [] := by
  unfold can
  cases selectTransitions m cfg env ev with
  | error e => simp
  | ok sel => cases sel <;> simp

example : can exM exCfg exEnv (.user "E") = true := by decide
example : can exM exCfg exEnv (.user "Z") = false := by decide
/-- a guard without implementation: `can` says `false` (the code swallows the exception) although
    delivering the event is not a no-op — it fails with `missingGuard` -/
example : can exM exCfg exEnvMissing (.user "F") = false := by decide
example : (processEvent (hooksFlagged exUMissing exM) .sync exM exUMissing (.user "F") exS).err.isSome = true := by
  decide

/-- in terms of nominees -/
theorem can_iff_nominee (m : Machine) (cfg : List Path) (env : GEnv) (ev : Ev) (htid : TidOK m) :
    can m cfg env ev = true ↔
      (∃ sel, selectTransitions m cfg env ev = .ok sel) ∧
      ∃ leaf ∈ leavesSorted m cfg, (nomineeOf (gOf m cfg env) m ev leaf).isSome := by
  rw [can_iff_select_nonempty]
  constructor
  · rintro ⟨sel, h, hne⟩
    refine ⟨⟨sel, h⟩, ?_⟩
    apply Classical.byContradiction
    intro hno
    apply hne
    rw [no_nominee_iff m cfg env ev htid sel h]
    intro leaf hl
    cases hn : nomineeOf (gOf m cfg env) m ev leaf with
    | none => rfl
    | some w => exact absurd ⟨leaf, hl, by simp [hn]⟩ hno
  · rintro ⟨⟨sel, h⟩, leaf, hl, hsome⟩
    refine ⟨sel, h, ?_⟩
    intro hnil
    have := (no_nominee_iff m cfg env ev htid sel h).1 hnil leaf hl
    simp [this] at hsome

/-- `can` false and selection not raising: delivering the event changes nothing -/
theorem can_false_noop (h : Hooks) (fl : Flavor) (m : Machine) (u : UEnv) (ev : Ev) (s : St)
    (sel : List Cand) (hsel : selectTransitions m s.cfg (u.genv s.ctx ev.type) ev = .ok sel)
    (hcan : can m s.cfg (u.genv s.ctx ev.type) ev = false) : processEvent h fl m u ev s = s := by
  unfold can at hcan
  rw [hsel] at hcan
  cases sel with
  | nil => exact unhandled_is_noop h fl m u ev s hsel
  | cons c cs => simp at hcan

end XSM.C02
