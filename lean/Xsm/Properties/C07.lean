import Xsm.Proofs.Faults
/-!
# C07 — fault containment

"An exception raised by a user action or a built-in action's callback skips only the remainder of
that action list: the sequence of configurations, the handling of all later events, the running
status and every action outside that list are the same as in the fault-free run, and
on_action_error is notified. An exception raised by a plugin hook, subscriber or emit listener
changes nothing at all. An error that aborts a transition midway (missing action or service,
unresolvable target, async logic under the sync engine) leaves the configuration exactly as it was
before that transition with the exited states' timers and services re-armed, is reported (raised
from send() in the sync engine, logged in the async engine) and the interpreter keeps processing
later events."

Statements about the executable model (`Xsm/Model/Engine.lean`); the proofs are in
`Xsm/Proofs/Faults.lean`. User code is a parameter: `h.act name ctx evType : AOut` says what the
user's action does (`ok ctx'`, `raises`, `missing` = nothing registered under that name,
`isAsync ctx'` = a coroutine function). Everything is for arbitrary hooks, lists, states and depth
budget `fuel` (`fuel` is the code's own `MAX_ACTION_DEPTH` counter, see `execActionsF`).

**What the model cannot say.**
* *Observer failures* ("a plugin hook, subscriber or emit listener raising changes nothing at
  all"): observers have no write access to `St` in the model. The records `#t:…` (on_transition /
  subscribers), `#recv:…` (on_event_received) and `#aerr:…` (on_action_error) are pure outputs
  appended to `trace`; there is no model term for "the observer raised". That clause is carried by
  fault injection on the real code, not by a theorem here.
* *Timers and services re-armed after a rollback*: `St` has no timer / service component; the
  rollback theorem speaks about the configuration only. Carried by the monitor on the real code.
* *Missing service*: services are not modelled; the abort theorems cover every error the model can
  flag (`missingAction`, `notSupported`, `missingGuard`, `stateNotFound`, `invalidConfig`).

Vocabulary (from `Xsm/Proofs/Faults.lean`):
* `actsAcc h fuel as ev s : St × Bool` — the accumulator `_execute_actions` holds after the list
  `as`: the state and the flag "the rest of this list is skipped";
  `execActionsF h fuel as ev s = (actsAcc h fuel as ev s).1` (`execActionsF_fold`);
* `Live acc` — the list is still running: flag `false` and no error flagged;
* `nestedOf h fuel`, `cutOf fuel` — what `execActionsF h fuel` hands to a built-in: the executor one
  level deeper, and whether the depth bound is exhausted;
* `builtinOutcome h cut ev canon a s : BOut` — what `_collect_builtin_followups` produced:
  `.followups fs` or `.failed e` (the callback raised);
* `NoConfigErrors h` — the registry has no *configuration* error: a name it does not implement is
  a built-in, coroutine actions are only met by the async engine. Raising actions are allowed;
* `HooksOK h` (Bridge.lean) — the send hooks leave `cfg` and `err` alone; `HooksQuiet h` — and
  `hist`, `status` too (true of the hooks of both engines: `hooksFlagged_quiet`, `hooksAsync_quiet`);
* `planCfg m pl cfg` — `cfg` minus `pl.exits` (in order) plus `pl.entries` (in order);
* `SameCore a b` — same `cfg`, `hist`, `status`, `err`;
* `StatusStep a b` — `b = a`, or `a = "running"` and `b = "done"`;
* `macrostep h fl m u s e` — one event processed to quiescence: `processEvent`, then `transientLoop`;
* `asyncProcessed m u e s` / `syncProcessed m u e s` — the state after the run loop processed `e`
  and settled the eventless transitions, before it looks at the error flag.
-/
namespace XSM.C07
open XSM

/-! ## Example data: a registry whose action `boom` raises -/

/-- `inc` adds 1 to `x`; `boom` raises; `co` is a coroutine function; anything else is not
    registered. The guard `nog` of a `choose` branch has no implementation. -/
def exAct : String → Ctx → String → AOut := fun n c _ =>
  if n = "boom" then .raises
  else if n = "inc" then .ok (ctxSet c "x" (ctxGet c "x" + 1))
  else if n = "co" then .isAsync c
  else .missing
def exH (sync : Bool := true) : Hooks :=
  { snd := enqueue, sndRaise := enqueue, syncEngine := sync, act := exAct,
    geval := fun g _ _ => match g with | .named "nog" _ => .error (.missing "nog") | _ => .ok true }
/-- the fault-free registry: `boom` behaves like `inc` -/
def okH : Hooks :=
  { snd := enqueue, sndRaise := enqueue, act := fun n c e => if n = "boom" then exAct "inc" c e else exAct n c e }

def A (n : String) : ActionRef := { type := n }
/-- `choose([{guard: g, actions: acts}])`; without `g` the branch is unconditional -/
def chooseOne (g : Option String) (acts : List J) : ActionRef :=
  { type := "choose",
    params := some (.obj [("conditions", .arr [.obj
      ((match g with | some g => [("guard", J.str g)] | none => []) ++ [("actions", .arr acts)])])]) }

def mkD (kind : Kind) (initial : Option String := none) (entry exit : List String := [])
    (on : List (String × List Trans) := []) : StateDef :=
  { kind, initial, entry := entry.map A, exit := exit.map A, on, onDone := none, after := [], invoke := [],
    deep := false, historyTarget := none, customId := none, tags := [] }
def mkT (tid : Nat) (event target : String) (acts : List String) : Trans :=
  { tid, event, target := some target, guard := none, actions := acts.map A, reenter := false, forbidden := false }

/-- `a --GO [boom, inc]--> b`, `b --BAD [nosuch]--> a`, `b --BACK--> a`; leaving `a` runs
    `[inc, boom, inc]`, entering `b` runs `[inc]` -/
def exM : Machine :=
  { id := "m", maxIterations := 10, customIds := [],
    root := .mk (mkD .compound (some "a")) [
      ("a", .mk (mkD .atomic none [] ["inc", "boom", "inc"] [("GO", [mkT 0 "GO" "b" ["boom", "inc"]])]) []),
      ("b", .mk (mkD .atomic none ["inc"] []
        [("BAD", [mkT 1 "BAD" "a" ["nosuch"]]), ("BACK", [mkT 2 "BACK" "a" []])]) [])] }
def exU : UEnv := { g := fun _ _ _ => .missing, a := exAct }
def sA : St := { cfg := [[], ["a"]], status := "running" }
def sB : St := { cfg := [[], ["b"]], status := "running" }
/-- the plan of `a --GO--> b` -/
def plGO : Plan := { exits := [["a"]], actions := [A "boom", A "inc"], entries := [⟨["b"], false⟩] }

/-! ## 1. A raising user action skips only the remainder of its list -/

/-- *Stop lemma.* Once the accumulator says "the rest of this list is skipped" — or the error flag is
    set — folding ANY further list over it changes nothing: no later action of the list runs. -/
theorem foldl_actStep_stopped (h : Hooks) (nested : List ActionRef → String → St → St) (cut : Bool)
    (evType : String) (as : List ActionRef) (acc : St × Bool)
    (hs : acc.2 = true ∨ acc.1.err.isSome = true) : as.foldl (actStep h nested cut evType) acc = acc :=
  XSM.foldl_actStep_stopped h nested cut evType as acc hs

/-- *Clause "an exception raised by a user action … skips only the remainder of that action list" —
    the remainder.* If the action `bad` raises in the state the list reached after `pre`, then running
    `pre ++ bad :: post` is running `pre ++ [bad]`, for EVERY `post`: nothing of `post` runs. -/
theorem action_failure_truncates (h : Hooks) (fuel : Nat) (pre post : List ActionRef) (bad : ActionRef)
    (evType : String) (s : St)
    (hraise : h.act bad.type (execActionsF h fuel pre evType s).ctx evType = .raises) :
    execActionsF h fuel (pre ++ bad :: post) evType s = execActionsF h fuel (pre ++ [bad]) evType s :=
  XSM.action_failure_truncates h fuel pre post bad evType s hraise

/-- *… and what the failing action itself does.* If the list is still running after `pre`, the raising
    action prepends exactly two records to the trace — its own `bad@ev` and the notification
    `#aerr:bad` — and changes NOTHING else: configuration, history, queue, status, context, error
    flag and counters are those `pre` left. -/
theorem raising_action_effect (h : Hooks) (fuel : Nat) (pre : List ActionRef) (bad : ActionRef)
    (evType : String) (s : St) (hlive : Live (actsAcc h fuel pre evType s))
    (hraise : h.act bad.type (execActionsF h fuel pre evType s).ctx evType = .raises) :
    execActionsF h fuel (pre ++ [bad]) evType s =
      { execActionsF h fuel pre evType s with
        trace := ("#aerr:" ++ bad.type) :: (bad.type ++ "@" ++ evType) :: (execActionsF h fuel pre evType s).trace } :=
  XSM.raising_action_effect h fuel pre bad evType s hlive hraise

/-- *Clause "and on_action_error is notified".* The whole list `pre ++ bad :: post`: the result of
    `pre`, then the action's record, then — newest — the `on_action_error` record; every other field
    as `pre` left it. -/
theorem on_action_error_notified (h : Hooks) (fuel : Nat) (pre post : List ActionRef) (bad : ActionRef)
    (evType : String) (s : St) (hlive : Live (actsAcc h fuel pre evType s))
    (hraise : h.act bad.type (execActionsF h fuel pre evType s).ctx evType = .raises) :
    execActionsF h fuel (pre ++ bad :: post) evType s =
      { execActionsF h fuel pre evType s with
        trace := ("#aerr:" ++ bad.type) :: (bad.type ++ "@" ++ evType) :: (execActionsF h fuel pre evType s).trace } := by
  rw [XSM.action_failure_truncates h fuel pre post bad evType s hraise]
  exact XSM.raising_action_effect h fuel pre bad evType s hlive hraise

/-- a returning action, for contrast: its record, its context, and the list goes on -/
theorem ok_action_effect (h : Hooks) (fuel : Nat) (pre : List ActionRef) (a : ActionRef)
    (evType : String) (s : St) (c : Ctx) (hlive : Live (actsAcc h fuel pre evType s))
    (ha : h.act a.type (execActionsF h fuel pre evType s).ctx evType = .ok c) :
    execActionsF h fuel (pre ++ [a]) evType s =
        emit (a.type ++ "@" ++ evType) { execActionsF h fuel pre evType s with ctx := c } ∧
      Live (actsAcc h fuel (pre ++ [a]) evType s) :=
  XSM.ok_action_effect h fuel pre a evType s c hlive ha

/-- `[inc, boom, inc]`: the second `inc` does not run, `x = 1`, the failure is notified, no error -/
example : (execActionsF exH 3 [A "inc", A "boom", A "inc"] "E" sA).trace = ["#aerr:boom", "boom@E", "inc@E"] := by
  decide
example : (execActionsF exH 3 [A "inc", A "boom", A "inc"] "E" sA).ctx = [("x", 1)] := by decide
example : (execActionsF exH 3 [A "inc", A "boom", A "inc"] "E" sA).err.isSome = false := by decide
/-- the fault-free run of the same list -/
example : (execActionsF okH 3 [A "inc", A "boom", A "inc"] "E" sA).trace = ["inc@E", "boom@E", "inc@E"] := by
  decide
example : Live (actsAcc exH 3 [A "inc"] "E" sA) := ⟨by decide, by decide⟩

/-! ## 2. A built-in whose callback fails -/

/-- *Clause "or a built-in action's callback" — containment.* Whatever a built-in does — its callback
    raises (`.failed`), its nested list ends with a configuration error, or it ends normally — the
    error flag is clear afterwards: a built-in never makes the transition abort. (`hr`: delivering a
    raised event does not set the flag; true of both engines.) `nested` is arbitrary. -/
theorem builtin_failure_contained (h : Hooks) (hr : ∀ e s, (h.sndRaise e s).err = s.err)
    (nested : List ActionRef → String → St → St) (cut : Bool) (evType canon : String) (a : ActionRef) (s : St)
    (hs : s.err = none) : (builtinStep h nested cut evType canon a s).1.err = none :=
  builtinStep_err_none h hr nested cut evType canon a s hs

/-- *… the stop flag is set exactly in the failure branches*: the callback failed, or the non-empty
    nested list came back with the error flag set. -/
theorem builtin_stop_iff (h : Hooks) (nested : List ActionRef → String → St → St) (cut : Bool)
    (evType canon : String) (a : ActionRef) (s : St) (hs : s.err = none) :
    (builtinStep h nested cut evType canon a s).2 = true ↔
      match builtinOutcome h cut evType canon a s with
      | .failed _ => True
      | .followups fs => fs ≠ [] ∧ (nested fs evType (assignStep canon cut a s)).err.isSome = true :=
  builtinStep_stop_iff h nested cut evType canon a s hs

/-- *… and in those branches `on_action_error` is notified for the built-in.* -/
theorem builtin_stop_notified (h : Hooks) (nested : List ActionRef → String → St → St) (cut : Bool)
    (evType canon : String) (a : ActionRef) (s : St)
    (hstop : (builtinStep h nested cut evType canon a s).2 = true) :
    (builtinStep h nested cut evType canon a s).1.trace.head? = some ("#aerr:" ++ a.type) :=
  builtinStep_stop_notified h nested cut evType canon a s hstop

/-- *In a list.* A built-in met while the list is running leaves the error flag clear; if it stops
    the list, everything after it (`post`, arbitrary) is skipped and the newest record is its
    `on_action_error` notification. -/
theorem builtin_in_list (h : Hooks) (hr : ∀ e s, (h.sndRaise e s).err = s.err) (fuel : Nat)
    (pre post : List ActionRef) (bad : ActionRef) (evType canon : String) (s : St)
    (hlive : Live (actsAcc h fuel pre evType s))
    (hm : h.act bad.type (execActionsF h fuel pre evType s).ctx evType = .missing)
    (hb : canonicalBuiltin bad.type = some canon) :
    (execActionsF h fuel (pre ++ [bad]) evType s).err = none ∧
    ((actsAcc h fuel (pre ++ [bad]) evType s).2 = true →
      execActionsF h fuel (pre ++ bad :: post) evType s = execActionsF h fuel (pre ++ [bad]) evType s ∧
      (execActionsF h fuel (pre ++ [bad]) evType s).trace.head? = some ("#aerr:" ++ bad.type)) :=
  XSM.builtin_in_list h hr fuel pre post bad evType canon s hlive hm hb

/-- *The callback raised* (a `choose` guard that is not implemented, a malformed branch): the whole
    list `pre ++ bad :: post` yields the result of `pre` plus the one record `#aerr:bad`. -/
theorem builtin_failed_effect (h : Hooks) (fuel : Nat) (pre post : List ActionRef) (bad : ActionRef)
    (evType canon : String) (s : St) (e : EErr) (hlive : Live (actsAcc h fuel pre evType s))
    (hm : h.act bad.type (execActionsF h fuel pre evType s).ctx evType = .missing)
    (hb : canonicalBuiltin bad.type = some canon)
    (hf : builtinOutcome h (cutOf fuel) evType canon bad (execActionsF h fuel pre evType s) = .failed e) :
    execActionsF h fuel (pre ++ bad :: post) evType s =
      emit ("#aerr:" ++ bad.type) (execActionsF h fuel pre evType s) :=
  XSM.builtin_failed_effect h fuel pre post bad evType canon s e hlive hm hb hf

/-- *A configuration error inside the nested list* (a missing action in a `choose` branch): contained
    at the built-in. The result is what the nested list left, with the error flag CLEARED and the
    record `#aerr:bad` added; the rest of the outer list is skipped. -/
theorem builtin_nested_error_effect (h : Hooks) (fuel : Nat) (pre post : List ActionRef) (bad : ActionRef)
    (evType canon : String) (s : St) (fs : List ActionRef) (hlive : Live (actsAcc h fuel pre evType s))
    (hm : h.act bad.type (execActionsF h fuel pre evType s).ctx evType = .missing)
    (hb : canonicalBuiltin bad.type = some canon)
    (hf : builtinOutcome h (cutOf fuel) evType canon bad (execActionsF h fuel pre evType s) = .followups fs)
    (hne : fs ≠ [])
    (herr : (nestedOf h fuel fs evType
      (assignStep canon (cutOf fuel) bad (execActionsF h fuel pre evType s))).err ≠ none) :
    execActionsF h fuel (pre ++ bad :: post) evType s =
      emit ("#aerr:" ++ bad.type)
        { nestedOf h fuel fs evType (assignStep canon (cutOf fuel) bad (execActionsF h fuel pre evType s))
          with err := none } :=
  XSM.builtin_nested_error_effect h fuel pre post bad evType canon s fs hlive hm hb hf hne herr

/-- *"only the remainder of THAT action list".* A user action raising inside the nested list of a
    built-in stops the nested list only: with no configuration error in the registry the built-in
    ends normally and the outer list goes on. -/
theorem nested_raise_stays_nested (h : Hooks) (hr : ∀ e s, (h.sndRaise e s).err = s.err) (hn : NoConfigErrors h)
    (fuel : Nat) (evType canon : String) (a : ActionRef) (s : St) (fs : List ActionRef) (hs : s.err = none)
    (hf : builtinOutcome h (cutOf fuel) evType canon a s = .followups fs) :
    (builtinStep h (nestedOf h fuel) (cutOf fuel) evType canon a s).2 = false :=
  builtinStep_continues h hr hn fuel evType canon a s fs hs hf

/-- `parseGuard` is defined by well-founded recursion, which `decide` does not unfold -/
theorem parseGuard_bare (s : String) :
    parseGuard (.str s) = .ok (if s = Tables.stateInGuardType then .stateIn none else .named s none) := by
  rw [parseGuard]

/-- `choose` on a guard without implementation: `_collect_builtin_followups` raises … -/
example : builtinOutcome exH false "E" "xstate.choose" (chooseOne (some "nog") [.str "inc"]) sA =
    .failed (.missingGuard "nog") := by
  simp [builtinOutcome, Tables.act_CHOOSE, pickBranch, chooseBranches, chooseOne, J.get?, J.hasKey, parseGuard_bare,
    Tables.stateInGuardType, exH, sA]
/-- … contained, notified, the `inc` after it skipped, the error flag clear -/
example : (execActionsF exH 3 [A "inc", chooseOne (some "nog") [.str "inc"], A "inc"] "E" sA).trace =
    ["#aerr:choose", "inc@E"] := by
  rw [show [A "inc", chooseOne (some "nog") [.str "inc"], A "inc"] =
    [A "inc"] ++ chooseOne (some "nog") [.str "inc"] :: [A "inc"] from rfl]
  rw [builtin_failed_effect exH 3 [A "inc"] [A "inc"] (chooseOne (some "nog") [.str "inc"]) "E" "xstate.choose" sA
    (.missingGuard "nog") ⟨by decide, by decide⟩ rfl (by decide)
    (by simp [builtinOutcome, cutOf, Tables.act_CHOOSE, pickBranch, chooseBranches, chooseOne, J.get?, J.hasKey,
      parseGuard_bare, Tables.stateInGuardType, exH]; decide)]
  decide
/-- a malformed branch (an action that is neither a string nor a dictionary): the same -/
example : (execActionsF exH 3 [A "inc", chooseOne none [.num 3], A "inc"] "E" sA).trace =
    ["#aerr:choose", "inc@E"] := by decide
example : (execActionsF exH 3 [A "inc", chooseOne none [.num 3], A "inc"] "E" sA).err.isSome = false := by decide
/-- a missing action inside the chosen branch: the nested list stops at it, the error is contained at
    `choose` (flag clear), the outer `inc` is skipped -/
example : (execActionsF exH 3 [chooseOne none [.str "inc", .str "nosuch", .str "inc"], A "inc"] "E" sA).trace =
    ["#aerr:choose", "inc@E"] := by decide
example : (execActionsF exH 3 [chooseOne none [.str "inc", .str "nosuch", .str "inc"], A "inc"] "E" sA).err.isSome =
    false := by decide
/-- a raising action inside the chosen branch: only the branch's remainder is skipped -/
example : (execActionsF exH 3 [chooseOne none [.str "boom", .str "inc"], A "inc"] "E" sA).trace =
    ["inc@E", "#aerr:boom", "boom@E"] := by decide

/-! ## 3. The transition completes, and its outcome does not depend on which actions raised -/

/-- the hooks of both engines are quiet, and their registry is the user's -/
example (u : UEnv) (m : Machine) : HooksQuiet (hooksFlagged u m) := hooksFlagged_quiet u m
example (u : UEnv) (m : Machine) : HooksQuiet (hooksAsync u m) := hooksAsync_quiet u m
/-- a registry that implements every name it is asked for has no configuration error, raising or not -/
def raisingH : Hooks :=
  { snd := enqueue, sndRaise := enqueue, act := fun n c _ => if n = "boom" then .raises else .ok c }
example : NoConfigErrors raisingH := by
  intro n c e
  constructor
  · intro hm; simp only [raisingH] at hm; split at hm <;> cases hm
  · intro c' ha; simp only [raisingH] at ha; split at ha <;> cases ha

/-- *A raising action never sets the error flag*: with no configuration error in the registry, no
    action list does — whatever raises, at any nesting depth. -/
theorem raising_action_never_aborts_list (h : Hooks) (hr : ∀ e s, (h.sndRaise e s).err = s.err)
    (hn : NoConfigErrors h) (fuel : Nat) (as : List ActionRef) (evType : String) (s : St) (hs : s.err = none) :
    (execActionsF h fuel as evType s).err = none :=
  execActionsF_err_none h hr hn fuel as evType s hs

/-- *Clause "the state change still completes".* A transition whose plan carries no error of its own
    (its target resolved) never aborts because of raising actions — exit, transition and entry
    actions alike. -/
theorem raising_action_never_aborts (h : Hooks) (hok : HooksOK h) (hn : NoConfigErrors h) (fl : Flavor)
    (m : Machine) (ev : Ev) (pl : Plan) (s : St) (hp : pl.err = none) (hs : s.err = none) :
    (execute h fl m ev pl s).err = none :=
  execute_err_none h hok hn fl m ev pl s hp hs

/-- *… and the configuration it reaches* is `planCfg`: the exits removed, the entries added, in plan
    order — a function of the plan and the configuration before, in which no action outcome occurs.
    (`execute_cfg` of `Bridge.lean` gives the same as a set: `(cfg \ exits) ∪ entries`.) -/
theorem config_after_transition (h : Hooks) (hok : HooksOK h) (hn : NoConfigErrors h) (fl : Flavor)
    (m : Machine) (ev : Ev) (pl : Plan) (s : St) (hp : pl.err = none) (hs : s.err = none) :
    (execute h fl m ev pl s).cfg = planCfg m pl s.cfg :=
  execute_cfg_exact h hok hn fl m ev pl s hp hs

/-- *Clause "the sequence of configurations [is] the same as in the fault-free run" — one
    transition.* Two executors whose registries behave in any two ways (one may raise where the other
    returns; contexts, traces and queues may differ) take the same plan from the same configuration to
    the same configuration. Any plan, resolvable or not. -/
theorem config_independent_of_action_outcomes (h₁ h₂ : Hooks) (hok₁ : HooksOK h₁) (hok₂ : HooksOK h₂)
    (hn₁ : NoConfigErrors h₁) (hn₂ : NoConfigErrors h₂) (fl : Flavor) (m : Machine) (ev : Ev) (pl : Plan)
    (s₁ s₂ : St) (he₁ : s₁.err = none) (he₂ : s₂.err = none) (hc : s₁.cfg = s₂.cfg) :
    (execute h₁ fl m ev pl s₁).cfg = (execute h₂ fl m ev pl s₂).cfg :=
  execute_cfg_indep h₁ h₂ hok₁ hok₂ hn₁ hn₂ fl m ev pl s₁ s₂ he₁ he₂ hc

/-- *… configuration, history, running status and error flag together.* -/
theorem core_independent_of_action_outcomes (h₁ h₂ : Hooks) (hq₁ : HooksQuiet h₁) (hq₂ : HooksQuiet h₂)
    (hn₁ : NoConfigErrors h₁) (hn₂ : NoConfigErrors h₂) (fl : Flavor) (m : Machine) (ev : Ev) (pl : Plan)
    (s₁ s₂ : St) (hs : SameCore s₁ s₂) :
    SameCore (execute h₁ fl m ev pl s₁) (execute h₂ fl m ev pl s₂) :=
  execute_core h₁ h₂ hq₁ hq₂ hn₁ hn₂ fl m ev pl s₁ s₂ hs

/-- *Clause "the handling of all later events, the running status" — one event.* Two runs with the
    same guards, the guards not reading the context (the faulty run's context differs from the
    fault-free one's: the failing action and the skipped remainder did not update it), processing the
    same event from states with the same core: same selection, same transitions, same core after. -/
theorem event_independent_of_action_outcomes (h₁ h₂ : Hooks) (hq₁ : HooksQuiet h₁) (hq₂ : HooksQuiet h₂)
    (hn₁ : NoConfigErrors h₁) (hn₂ : NoConfigErrors h₂) (fl : Flavor) (m : Machine) (u₁ u₂ : UEnv)
    (hg : u₁.g = u₂.g) (hi : GuardsIgnoreCtx u₁) (ev : Ev) (s₁ s₂ : St) (hs : SameCore s₁ s₂) :
    SameCore (processEvent h₁ fl m u₁ ev s₁) (processEvent h₂ fl m u₂ ev s₂) :=
  processEvent_core h₁ h₂ hq₁ hq₂ hn₁ hn₂ fl m u₁ u₂ hg hi ev s₁ s₂ hs

/-- *… and the eventless transitions settled after it.* -/
theorem settling_independent_of_action_outcomes (h₁ h₂ : Hooks) (hq₁ : HooksQuiet h₁) (hq₂ : HooksQuiet h₂)
    (hn₁ : NoConfigErrors h₁) (hn₂ : NoConfigErrors h₂) (fl : Flavor) (m : Machine) (u₁ u₂ : UEnv)
    (hg : u₁.g = u₂.g) (hi : GuardsIgnoreCtx u₁) (fuel : Nat) (s₁ s₂ : St) (hs : SameCore s₁ s₂) :
    SameCore (transientLoop h₁ fl m u₁ fuel s₁) (transientLoop h₂ fl m u₂ fuel s₂) :=
  transientLoop_core h₁ h₂ hq₁ hq₂ hn₁ hn₂ fl m u₁ u₂ hg hi fuel s₁ s₂ hs

/-- *… any sequence of events, each delivered from outside and processed to quiescence*: after every
    one of them the two runs have the same configuration, history, status and error flag (the
    statement for `evs` covers every prefix of `evs`). What the two runs do NOT share is the internal
    queue — a `raise` in the skipped remainder of a list is not delivered (example below) — which is
    why the statement is about events supplied from outside. -/
theorem events_independent_of_action_outcomes (h₁ h₂ : Hooks) (hq₁ : HooksQuiet h₁) (hq₂ : HooksQuiet h₂)
    (hn₁ : NoConfigErrors h₁) (hn₂ : NoConfigErrors h₂) (fl : Flavor) (m : Machine) (u₁ u₂ : UEnv)
    (hg : u₁.g = u₂.g) (hi : GuardsIgnoreCtx u₁) (evs : List Ev) (s₁ s₂ : St) (hs : SameCore s₁ s₂) :
    SameCore (evs.foldl (macrostep h₁ fl m u₁) s₁) (evs.foldl (macrostep h₂ fl m u₂) s₂) :=
  macrosteps_core h₁ h₂ hq₁ hq₂ hn₁ hn₂ fl m u₁ u₂ hg hi evs s₁ s₂ hs

/-- the remainder that is skipped may contain a `raise`: then the faulty run does not queue the event
    the fault-free run queues -/
def raiseX : ActionRef := { type := "raise", params := some (.obj [("event", .str "X")]) }
example : (execActionsF okH 3 [A "boom", raiseX] "E" sA).queue.map (·.ev.type) = ["X"] := by decide
example : (execActionsF exH 3 [A "boom", raiseX] "E" sA).queue.map (·.ev.type) = [] := by decide

/-- `a --GO--> b` with `boom` raising in the exit list of `a` and in the transition's list: the
    configuration is the one of the fault-free run; the traces differ exactly in the skipped actions -/
example : (execute exH .sync exM (.user "GO") plGO sA).cfg = [[], ["b"]] := by decide
example : (execute okH .sync exM (.user "GO") plGO sA).cfg = [[], ["b"]] := by decide
example : planCfg exM plGO sA.cfg = [[], ["b"]] := by decide
example : (execute exH .sync exM (.user "GO") plGO sA).err.isSome = false := by decide
example : (execute exH .sync exM (.user "GO") plGO sA).trace =
    ["#t:m,m.b", "inc@GO", "#aerr:boom", "boom@GO", "#aerr:boom", "boom@GO", "inc@GO"] := by decide
example : (execute okH .sync exM (.user "GO") plGO sA).trace =
    ["#t:m,m.b", "inc@GO", "inc@GO", "boom@GO", "inc@GO", "boom@GO", "inc@GO"] := by decide
/-- the same through `send` -/
example : (syncSend exM exU (.user "GO") sA).cfg = [[], ["b"]] := by decide

/-! ## 4. A configuration error aborts the transition, is reported, and the interpreter goes on -/

/-- *Clause "leaves the configuration exactly as it was before that transition".* A transition that
    ends with the error flag set — missing action, unresolvable target, coroutine under the sync
    engine; during exit, transition or entry actions — has the configuration it started from. -/
theorem abort_restores_config (h : Hooks) (fl : Flavor) (m : Machine) (ev : Ev) (pl : Plan) (s : St)
    (hint : pl.internal = false) (he : (execute h fl m ev pl s).err ≠ none) :
    (execute h fl m ev pl s).cfg = s.cfg :=
  execute_rollback h fl m ev pl s hint he

/-- *The running status through one transition*, completed or aborted: unchanged, or "running" became
    "done" (a top-level final state was entered). -/
theorem status_running_or_done (h : Hooks) (hq : HooksQuiet h) (fl : Flavor) (m : Machine) (ev : Ev) (pl : Plan)
    (s : St) : StatusStep s.status (execute h fl m ev pl s).status :=
  execute_rel statusRel_eng h hq.status fl m ev pl s

/-- *Clause "the interpreter keeps processing later events" — the transition.* A transition that does
    not enter a top-level final state leaves `status` as it was, whether it completes or aborts. -/
theorem abort_keeps_running (h : Hooks) (hq : HooksQuiet h) (fl : Flavor) (m : Machine) (ev : Ev) (pl : Plan)
    (s : St)
    (hnf : ∀ e ∈ pl.entries, ∀ d, m.defAt e.path = some d → d.kind = .final → e.path.length ≠ 1) :
    (execute h fl m ev pl s).status = s.status :=
  execute_status h hq fl m ev pl s hnf

/-- the hypothesis of `abort_keeps_running` is needed for arbitrary plans: a plan that enters the
    top-level final state `f` and then a state whose entry action is missing ends aborted (flag set,
    configuration restored) with `status = "done"`. (`planTransition` builds no such plan: a top-level
    final state is the last entry of its plan.) -/
def exMF : Machine :=
  { id := "m", maxIterations := 10, customIds := [],
    root := .mk (mkD .compound (some "a")) [
      ("a", .mk (mkD .atomic) []), ("f", .mk (mkD .final) []), ("x", .mk (mkD .atomic none ["nosuch"]) [])] }
def plF : Plan := { exits := [["a"]], entries := [⟨["f"], false⟩, ⟨["x"], false⟩] }
example : (execute exH .sync exMF (.user "GO") plF sA).status = "done" := by decide
example : (execute exH .sync exMF (.user "GO") plF sA).cfg = [[], ["a"]] := by decide
example : (execute exH .sync exMF (.user "GO") plF sA).err.isSome = true := by decide

/-- *… a whole event*, either engine: `status` moves from "running" to "done" at most. -/
theorem event_status (h : Hooks) (hq : HooksQuiet h) (fl : Flavor) (m : Machine) (u : UEnv) (ev : Ev) (s : St) :
    StatusStep s.status (processEvent h fl m u ev s).status :=
  processEvent_rel statusRel_eng h hq.status fl m u ev s

/-- *Clause "logged in the async engine … keeps processing later events".* One iteration of
    `_run_event_loop` (chain breaker not tripped). If processing `q.ev` ended with the error flag set,
    the iteration returns that state with the flag CLEARED and the failure counted — configuration,
    queue, status, context untouched by the handler —, followed by the loop's end-of-chain test
    `asyncChainEnd`, which runs after a failed macrostep as after a successful one and touches the
    chain-breaker counter only (`chain_end_touches_counter_only`). Otherwise the failure count is unchanged. -/
theorem async_error_is_logged_and_loop_survives (m : Machine) (u : UEnv) (q : QEv) (s : St)
    (hd : ¬ s.raiseDepth > m.maxIterations) :
    ((asyncProcessed m u q.ev s).err ≠ none →
        asyncStep m u q s =
          asyncChainEnd s.raiseDepth { asyncProcessed m u q.ev s with err := none, errors := s.errors + 1 }) ∧
    ((asyncProcessed m u q.ev s).err = none →
        (asyncStep m u q s).err = none ∧ (asyncStep m u q s).errors = s.errors) :=
  ⟨asyncStep_failed m u q s hd, fun he => ⟨(asyncStep_succeeded m u q s hd he).1, (asyncStep_succeeded m u q s hd he).2.1⟩⟩

theorem chain_end_touches_counter_only (b : Nat) (s : St) :
    (asyncChainEnd b s).cfg = s.cfg ∧ (asyncChainEnd b s).hist = s.hist ∧ (asyncChainEnd b s).queue = s.queue ∧
    (asyncChainEnd b s).status = s.status ∧ (asyncChainEnd b s).trace = s.trace ∧ (asyncChainEnd b s).err = s.err ∧
    (asyncChainEnd b s).ctx = s.ctx ∧ (asyncChainEnd b s).errors = s.errors := asyncChainEnd_fields b s

/-- the same for an event the loop processes with the chain breaker tripped (an EXTERNAL event: it is
    processed from the purged state) — and in general for `asyncProcess`, whatever the counter -/
theorem async_error_is_logged_whatever_the_counter (m : Machine) (u : UEnv) (e : Ev) (s : St)
    (he : (asyncProcessed m u e s).err ≠ none) :
    asyncProcess m u e s =
      asyncChainEnd s.raiseDepth { asyncProcessed m u e s with err := none, errors := s.errors + 1 } :=
  asyncProcess_failed m u e s he

/-- the async loop never hands on a set error flag, and it leaves `status` "running" unless the
    machine completed: the loop's own condition (`status = "running"`, queue non-empty) is not
    affected by a failure -/
theorem async_loop_survives (m : Machine) (u : UEnv) (q : QEv) (s : St) (hs : s.err = none) :
    (asyncStep m u q s).err = none ∧ StatusStep s.status (asyncStep m u q s).status :=
  ⟨asyncStep_err_none m u q s hs, asyncStep_status m u q s⟩

/-- *Clause "raised from send() in the sync engine".* The drain loop stops at the first event whose
    processing sets the error flag and returns that state as it is: the flag is still set (it reaches
    the caller of `send`), the events queued behind the failing one are still queued, in order
    (`rest` is a prefix of the queue: processing can only append), and `status` is "running" unless
    the machine completed — so later `send`s are processed. (`ht`: the failing event IS processed — it is not
    a marked event that trips the runaway bound, which is discarded unprocessed; `c` is the loop's counter of
    marked events, `fuel + 1` the model's fuel.) -/
theorem drainLoop_error_keeps_queue (m : Machine) (u : UEnv) (fuel c : Nat) (s : St) (q : QEv) (rest : List QEv)
    (hq : s.queue = q :: rest) (hrun : s.status = "running") (ht : syncTrips m c q = false)
    (he : (syncProcessed m u q.ev { s with queue := rest }).err ≠ none) :
    drainLoop m u (fuel + 1) c s = syncProcessed m u q.ev { s with queue := rest } ∧
    (drainLoop m u (fuel + 1) c s).err ≠ none ∧
    rest <+: (drainLoop m u (fuel + 1) c s).queue ∧
    StatusStep s.status (drainLoop m u (fuel + 1) c s).status := by
  have h1 := drainLoop_failed m u fuel c s q rest hq hrun ht he
  rw [h1]
  exact ⟨rfl, he, syncProcessed_queue m u q.ev { s with queue := rest },
    syncProcessed_status m u q.ev { s with queue := rest }⟩

/-- `send()` on an idle running machine whose event fails: what `send` returns is the state the
    failing event left, error flag set (an event sent from outside is never marked, so it is processed
    whatever the bound) -/
theorem sync_error_is_raised (m : Machine) (u : UEnv) (e : Ev) (s : St)
    (hidle : s.queue = []) (hrun : s.status = "running")
    (he : (syncProcessed m u e { s with queue := [] }).err ≠ none) :
    syncSend m u e s = syncProcessed m u e { s with queue := [] } ∧ (syncSend m u e s).err ≠ none := by
  obtain ⟨k, hk⟩ : ∃ k, drainFuel m ({ s with queue := [⟨e, false⟩] } : St) = k + 1 :=
    ⟨2 * m.maxIterations + 3, by unfold drainFuel extCount; simp; omega⟩
  have h1 : syncSend m u e s = drainLoop m u (k + 1) 0 { s with queue := [⟨e, false⟩] } := by
    unfold syncSend sndUnflagged drainFlagged
    rw [if_pos hrun, hidle]
    show drainLoop m u (drainFuel m ({ s with queue := [⟨e, false⟩] } : St)) 0 _ = _
    rw [hk]; rfl
  have h2 := drainLoop_failed m u k 0 { s with queue := [⟨e, false⟩] } ⟨e, false⟩ [] rfl hrun rfl he
  rw [h1, h2]
  exact ⟨rfl, he⟩

/-- `b --BAD [nosuch]--> a`: aborted, the configuration is still `{m, b}`, the caller gets the error … -/
example : (syncSend exM exU (.user "BAD") sB).cfg = [[], ["b"]] := by decide
example : (match (syncSend exM exU (.user "BAD") sB).err with | some (.missingAction n) => n | _ => "") = "nosuch" := by
  decide
example : (syncSend exM exU (.user "BAD") sB).status = "running" := by decide
/-- … and the next `send` is processed normally -/
example : (cmd .sync exM exU (syncSend exM exU (.user "BAD") sB) (.user "BACK")).cfg = [[], ["a"]] := by decide
/-- two events queued, the first fails: the drain stops with the flag set and `BACK` still queued -/
example : ((drainFlagged exM exU { sB with queue := [⟨.user "BAD", false⟩, ⟨.user "BACK", false⟩] }).queue.map
    (·.ev.type)) = ["BACK"] := by decide
example : (drainFlagged exM exU { sB with queue := [⟨.user "BAD", false⟩, ⟨.user "BACK", false⟩] }).err.isSome = true := by
  decide
/-- async engine: the failure is counted, the flag cleared, and `BACK` (queued behind) is processed -/
example : (asyncStep exM exU ⟨.user "BAD", false⟩ sB).errors = 1 := by decide
example : (asyncStep exM exU ⟨.user "BAD", false⟩ sB).err.isSome = false := by decide
example : (asyncStep exM exU ⟨.user "BAD", false⟩ sB).cfg = [[], ["b"]] := by decide
example : (asyncDrain exM exU 5 { sB with queue := [⟨.user "BAD", false⟩, ⟨.user "BACK", false⟩] }).cfg =
    [[], ["a"]] := by decide

/-! ## 5. What counts as a configuration error -/

/-- *Clause "missing action".* A top-level action with no user implementation and no built-in of that
    name: the error flag is set to `missingAction name`, nothing else changes, and the rest of the
    list (`post`, arbitrary) does not run. -/
theorem missing_action_is_config_error (h : Hooks) (fuel : Nat) (pre post : List ActionRef) (bad : ActionRef)
    (evType : String) (s : St) (hlive : Live (actsAcc h fuel pre evType s))
    (hm : h.act bad.type (execActionsF h fuel pre evType s).ctx evType = .missing)
    (hb : canonicalBuiltin bad.type = none) :
    execActionsF h fuel (pre ++ bad :: post) evType s =
      { execActionsF h fuel pre evType s with err := some (.missingAction bad.type) } :=
  missing_action_effect h fuel pre post bad evType s hlive hm hb

/-- *Clause "async logic under the sync engine".* A coroutine action is refused by the sync engine —
    `notSupported name`, nothing else changes, rest of the list skipped — and run like any returning
    action by the async engine. -/
theorem async_action_refused_by_sync (h : Hooks) (fuel : Nat) (pre : List ActionRef) (bad : ActionRef)
    (evType : String) (s : St) (c : Ctx) (hlive : Live (actsAcc h fuel pre evType s))
    (ha : h.act bad.type (execActionsF h fuel pre evType s).ctx evType = .isAsync c) :
    (h.syncEngine = true → ∀ post, execActionsF h fuel (pre ++ bad :: post) evType s =
        { execActionsF h fuel pre evType s with err := some (.notSupported bad.type) }) ∧
    (h.syncEngine = false → execActionsF h fuel (pre ++ [bad]) evType s =
        emit (bad.type ++ "@" ++ evType) { execActionsF h fuel pre evType s with ctx := c }) :=
  async_action_effect h fuel pre bad evType s c hlive ha

example : (match (execActionsF exH 3 [A "inc", A "nosuch", A "inc"] "E" sA).err with
    | some (.missingAction n) => n | _ => "") = "nosuch" := by decide
example : (execActionsF exH 3 [A "inc", A "nosuch", A "inc"] "E" sA).trace = ["inc@E"] := by decide
example : (match (execActionsF (exH true) 3 [A "co", A "inc"] "E" sA).err with
    | some (.notSupported n) => n | _ => "") = "co" := by decide
example : (execActionsF (exH false) 3 [A "co", A "inc"] "E" sA).trace = ["inc@E", "co@E"] := by decide
/-- a configuration error in an exit list aborts the transition: configuration restored -/
example : (execute exH .sync exM (.user "GO") { plGO with actions := [A "nosuch"] } sA).cfg = [[], ["a"]] := by
  decide

end XSM.C07
