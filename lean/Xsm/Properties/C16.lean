import Xsm.Proofs.Perm
/-!
# C16 — behaviour does not depend on the iteration order of the active configuration

"Two runs of the same machine definition with the same logic and the same event sequence yield
identical sequences of configurations, contexts and executed actions - including the order of entry
and exit actions across parallel regions and when history is restored - regardless of hash seed,
object addresses, process, or which interpreter is used. Generated identifiers (actor ids, timer
keys) may differ between runs but never influence ordering or selection."

In the implementation the active configuration is a `set` of node objects hashed by address: its
iteration order is unspecified and changes from run to run. The model keeps it as a `List Path`
(`St.cfg`). The formal counterpart of the property: **every model function that consumes `cfg` gives
the same result on every permutation of `cfg`.** The model is a function, so two runs of the model
on the same inputs are trivially equal; what is proved here is that the one degree of freedom the
implementation has and the model fixes arbitrarily — the order of the configuration — is irrelevant.

Sites that iterate the configuration, and the theorem for each:

| implementation                                   | model                    | theorem                     |
|--------------------------------------------------|--------------------------|-----------------------------|
| `_select_transitions`: `sorted(leaves, (-depth,id))` | `leavesSorted`        | `leavesSorted_perm`         |
| `_is_state_in`: `any(...)`                       | `isStateIn`, `evalGuard` | `isStateIn_perm`, `evalGuard_perm` |
| `_select_transitions` as a whole, `can`          | `selectTransitions`      | `selectTransitions_perm`, `can_perm` |
| `_compute_states_to_exit`: set comprehension     | `exitSet`                | `exitSet_perm`              |
| `_execute_transition`: `sorted(..., (depth,id), reverse=True)` | `sortExit` | `sortExit_perm`           |
| the plan of a transition                         | `planTransition`         | `planTransition_perm`       |
| `_record_history`: `sorted(..., (depth,id))`     | `recordHistory`          | `recordHistory_perm`        |
| `_is_state_done`: `next(active child)`           | `doneNode`, `isStateDone`| `doneNode_perm`, `isStateDone_perm_legal` |
| one transition / one event / the eventless loop  | `execute`, `processEvent`, `transientLoop` | `execute_perm`, `processEvent_perm`, `transientLoop_perm` |

Hypotheses, and why each is needed:

* `IdInj m cfg` — the dotted id is injective on the elements of `cfg`, i.e. the sort key (depth, id) is
  injective. Both sorts are stable (insertion sort here, timsort there), so among states of equal key
  the incoming order survives: without the hypothesis the statements are false (example below).
  `idOf_injective` gives it for keys that contain no `'.'` (`idInj_of_dotFree`).
* `CompUniq cfg p n` — in the subtree `n` at `p` every *compound* state has at most one active child
  (`UniqAt`). `_is_state_done` takes "the" active child of a compound state with `next(...)`; with two
  of them the answer depends on the order (example below). `Legal` (C01) implies it
  (`compUniq_root_of_legal`). The uniqueness is required of compound states only: an active parallel
  state has all its regions active.

**Generated identifiers.** The model state `St` (configuration, history, queue, status, trace, error
flag, integer context, two counters) contains no generated identifier at all: actor ids and timer
keys do not exist in the model, and nothing that selection (`selectTransitions`), planning
(`planTransition`) or execution (`execute`) reads could hold one. Transition identity (`Trans.tid`,
Python `id(transition)`) is used only for equality (`seen`, guard cache), never for ordering. So the
last sentence of the property is true of the model by construction; there is no theorem to state.

Helper definitions and all proofs: `Xsm/Proofs/Perm.lean`.
-/
namespace XSM.C16
open XSM XSM.Spec XSM.SelEx

/-! ## 0. sorting -/

/-- *Two sorted permutations of a list with unique keys are equal.* If `le` is, on the elements of
    `xs`, total, transitive and antisymmetric, sorting any permutation of `xs` gives the same list. -/
theorem sortBy_perm_eq {α : Type} (le : α → α → Bool) {xs ys : List α} (hp : xs.Perm ys)
    (htot : ∀ a ∈ xs, ∀ b ∈ xs, le a b = true ∨ le b a = true)
    (htr : ∀ a ∈ xs, ∀ b ∈ xs, ∀ c ∈ xs, le a b = true → le b c = true → le a c = true)
    (hanti : ∀ a ∈ xs, ∀ b ∈ xs, le a b = true → le b a = true → a = b) :
    sortBy le xs = sortBy le ys :=
  XSM.sortBy_perm_eq le hp htot htr hanti

example : sortBy (fun a b : Nat => decide (a ≤ b)) [3, 1, 2, 5] = sortBy (fun a b : Nat => decide (a ≤ b)) [5, 2, 3, 1] := by
  decide
/-- without antisymmetry the incoming order shows (the sort is stable): key = value / 10 -/
example : sortBy (fun a b : Nat => decide (a / 10 ≤ b / 10)) [11, 12] ≠
    sortBy (fun a b : Nat => decide (a / 10 ≤ b / 10)) [12, 11] := by decide

/-! ## 1. the sort key is injective -/

/-- *`idOf` is injective on paths whose keys contain no dot*, whatever the machine id (it is a common
    prefix). Together with the depth this makes (depth, id) an injective key. -/
theorem idOf_injective (m : Machine) (p q : Path)
    (hp : ∀ k ∈ p, '.' ∉ k.toList) (hq : ∀ k ∈ q, '.' ∉ k.toList)
    (h : m.idOf p = m.idOf q) : p = q :=
  XSM.idOf_injective m p q hp hq h

/-- hence `IdInj` for every configuration with dot-free keys -/
theorem idInj_of_dotFree (m : Machine) (c : List Path) (h : DotFree c) : IdInj m c :=
  XSM.idInj_of_dotFree m c h

example : exM.idOf ["P", "A", "a1"] = "m.P.A.a1" := by decide
example : DotFree exCfg := by decide
/-- keys with dots are outside the theorem: two different states of equal depth and equal id -/
example : exM.idOf ["a.b", "c"] = exM.idOf ["a", "b.c"] ∧ (["a.b", "c"] : Path) ≠ ["a", "b.c"] := by decide

/-- a non-trivial permutation of `exCfg`, used by the examples below -/
def exCfg' : List Path := [["P", "B", "b1"], [], ["P", "A", "a1"], ["P"], ["P", "B"], ["P", "A"]]
example : exCfg.Perm exCfg' := by decide

/-! ## 2. each ordering site -/

/-- *Selection order.* The list of leaves selection walks — deepest first, then by id, with the
    fallback "no leaf: every active state" — is the same for every order of the configuration. -/
theorem leavesSorted_perm (m : Machine) {cfg cfg' : List Path} (hp : cfg.Perm cfg') (hinj : IdInj m cfg) :
    leavesSorted m cfg = leavesSorted m cfg' :=
  XSM.leavesSorted_perm m hp hinj

example : leavesSorted exM exCfg = [["P", "A", "a1"], ["P", "B", "b1"]] ∧
    leavesSorted exM exCfg' = [["P", "A", "a1"], ["P", "B", "b1"]] := by decide
/-- the fallback branch: a configuration without leaves -/
example : leavesSorted exM [[], ["P"], ["P", "A"]] = leavesSorted exM [["P", "A"], [], ["P"]] := by decide

/-- *`stateIn` guards* ask whether some active state has the id: no order involved. -/
theorem isStateIn_perm (m : Machine) {cfg cfg' : List Path} (hp : cfg.Perm cfg') (params : Option J) :
    isStateIn m cfg params = isStateIn m cfg' params :=
  XSM.isStateIn_perm m hp params

/-- *Guard evaluation* (any nesting of `and` / `or` / `not` / `stateIn` / user guards). -/
theorem evalGuard_perm (m : Machine) {cfg cfg' : List Path} (hp : cfg.Perm cfg') (env : GEnv) (g : GuardExpr) :
    evalGuard m cfg env g = evalGuard m cfg' env g :=
  XSM.evalGuard_perm m hp env g

example :
    (evalGuard exM exCfg exEnv (.and [.stateIn (some (.str "P.B.b1")), .not (.stateIn (some (.str "#m.Q")))])).toOption
      = some true ∧
    (evalGuard exM exCfg' exEnv (.and [.stateIn (some (.str "P.B.b1")), .not (.stateIn (some (.str "#m.Q")))])).toOption
      = some true := by
  decide

/-- *Selection as a whole*: the same transitions, in the same order, with the same sources; and the
    same error when a guard has no implementation. -/
theorem selectTransitions_perm (m : Machine) {cfg cfg' : List Path} (hp : cfg.Perm cfg')
    (hinj : IdInj m cfg) (env : GEnv) (ev : Ev) :
    selectTransitions m cfg env ev = selectTransitions m cfg' env ev :=
  XSM.selectTransitions_perm m hp hinj env ev

/-- `can(event)` -/
theorem can_perm (m : Machine) {cfg cfg' : List Path} (hp : cfg.Perm cfg')
    (hinj : IdInj m cfg) (env : GEnv) (ev : Ev) : can m cfg env ev = can m cfg' env ev :=
  XSM.can_perm m hp hinj env ev

example : tidsOf (selectTransitions exM exCfg exEnv (.user "F")) = some [2, 3] ∧
    tidsOf (selectTransitions exM exCfg' exEnv (.user "F")) = some [2, 3] := by decide

/-- *The exit set* of a permuted configuration is a permutation of the exit set. -/
theorem exitSet_perm (m : Machine) {c c' : List Path} (hp : c.Perm c') (dom tgt : Path) :
    (exitSet m c dom tgt).Perm (exitSet m c' dom tgt) :=
  XSM.exitSet_perm m hp dom tgt

/-- *Exit order* — deepest first, ties by id descending — does not depend on the incoming order. -/
theorem sortExit_perm (m : Machine) {xs ys : List Path} (hp : xs.Perm ys) (hinj : IdInj m xs) :
    sortExit m xs = sortExit m ys :=
  XSM.sortExit_perm m hp hinj

example : sortExit exM exCfg' =
    [["P", "B", "b1"], ["P", "A", "a1"], ["P", "B"], ["P", "A"], ["P"], []] ∧
    sortExit exM exCfg = sortExit exM exCfg' := by decide

/-- *The whole plan of a transition* — ordered exits, actions, ordered entries (default descent,
    restored history), pending error — is the same. Entries never read the configuration; history
    targets read `hist` only. -/
theorem planTransition_perm (m : Machine) {cfg cfg' : List Path} (hp : cfg.Perm cfg') (hinj : IdInj m cfg)
    (hist : List (Path × List Path)) (c : Cand) :
    planTransition m cfg hist c = planTransition m cfg' hist c :=
  XSM.planTransition_perm m hp hinj hist c

/-- `a1 --X--> #m.Q` leaves both regions: exits across the parallel state in one fixed order -/
example : (planTransition exM exCfg [] ⟨["P", "A", "a1"], t4⟩).exits =
      [["P", "B", "b1"], ["P", "A", "a1"], ["P", "B"], ["P", "A"], ["P"]] ∧
    (planTransition exM exCfg' [] ⟨["P", "A", "a1"], t4⟩).exits =
      [["P", "B", "b1"], ["P", "A", "a1"], ["P", "B"], ["P", "A"], ["P"]] := by decide

/-! ### history -/

/-- *What is remembered when a state with a history child is left* is EQUAL — as a list, in order —
    for every order of the configuration (with the same list of exiting states, which
    `planTransition_perm` provides). The remembered list is the entry order when the history is
    restored (`resolveHistoryTarget` filters it, `planEnter` walks it). -/
theorem recordHistory_perm (m : Machine) (ex : List Path) (s s' : St) (hp : s.cfg.Perm s'.cfg)
    (hh : s.hist = s'.hist) (hinj : IdInj m s.cfg) :
    (recordHistory m ex s).hist = (recordHistory m ex s').hist :=
  XSM.recordHistory_perm m ex s s' hp hh hinj

/-- a parallel state with two regions and a history child -/
def hM : Machine :=
  { id := "m", maxIterations := 10, customIds := [],
    root := .mk (mkD .compound (some "P")) [
      ("P", .mk (mkD .parallel) [
        ("A", .mk (mkD .compound (some "a1")) [("a1", .mk (mkD .atomic) []), ("a2", .mk (mkD .atomic) [])]),
        ("B", .mk (mkD .compound (some "b1")) [("b1", .mk (mkD .atomic) [])]),
        ("H", .mk { mkD .history with deep := true } [])]),
      ("Q", .mk (mkD .atomic) [])] }

def hEx : List Path := [["P", "B", "b1"], ["P", "A", "a1"], ["P", "B"], ["P", "A"], ["P"]]

example : (recordHistory hM hEx { cfg := exCfg }).hist =
      [(["P"], [["P", "A"], ["P", "B"], ["P", "A", "a1"], ["P", "B", "b1"]])] ∧
    (recordHistory hM hEx { cfg := exCfg' }).hist =
      [(["P"], [["P", "A"], ["P", "B"], ["P", "A", "a1"], ["P", "B", "b1"]])] := by decide

/-- the code before the fix "record history in a deterministic (depth, id) order": the remembered list
    in configuration order -/
def recordHistoryUnsorted (m : Machine) (exiting : List Path) (s : St) : St :=
  let cands := (exiting.flatMap chainUp).eraseDups
  let hist := cands.foldl (fun hist st =>
    match m.root.at st with
    | none => hist
    | some n =>
      if hasHistoryKid n then
        let rem := s.cfg.filter (fun q => q != st && st.isPrefixOf q)
        if rem.isEmpty then hist else (hist.filter (fun kv => kv.1 != st)) ++ [(st, rem)]
      else hist) s.hist
  { s with hist := hist }

/-- for that version the statement of `recordHistory_perm` is false -/
example : (recordHistoryUnsorted hM hEx { cfg := exCfg }).hist ≠
    (recordHistoryUnsorted hM hEx { cfg := exCfg' }).hist := by decide

/-! ### done-ness -/

/-- *`_is_state_done`.* When every compound state below `p` has at most one active child, the answer
    does not depend on the order. -/
theorem doneNode_perm {cfg cfg' : List Path} (hp : cfg.Perm cfg') (p : Path) (n : SNode)
    (hu : CompUniq cfg p n) : doneNode cfg p n = doneNode cfg' p n :=
  XSM.doneNode_perm hp p n hu

/-- the hypothesis in the flat form "every state has at most one active child" (stronger than needed:
    it excludes two active regions of a parallel state) -/
theorem doneNode_perm_of_forall {cfg cfg' : List Path} (hp : cfg.Perm cfg') (p : Path) (n : SNode)
    (hU : ∀ p, ∀ q₁ ∈ cfg, ∀ q₂ ∈ cfg, q₁.dropLast = p → q₂.dropLast = p → q₁ ≠ [] → q₂ ≠ [] → q₁ = q₂) :
    doneNode cfg p n = doneNode cfg' p n :=
  XSM.doneNode_perm hp p n (compUniq_of_forall hU p n)

/-- a legal configuration (C01) of a well-formed machine satisfies the hypothesis -/
theorem compUniq_of_legal (m : Machine) (hwf : WF m.root) {cfg : List Path} (hL : Legal m.root cfg) :
    CompUniq cfg [] m.root :=
  compUniq_root_of_legal hwf hL

/-- *`_is_state_done` on legal configurations*, for any state of the machine -/
theorem isStateDone_perm_legal (m : Machine) (hwf : WF m.root) {cfg cfg' : List Path} (hp : cfg.Perm cfg')
    (hL : Legal m.root cfg) (p : Path) : isStateDone m cfg p = isStateDone m cfg' p :=
  XSM.isStateDone_perm m hp (compUniq_root_of_legal hwf hL) p

/-- a compound state with an atomic and a final child -/
def dM : Machine :=
  { id := "m", maxIterations := 10, customIds := [],
    root := .mk (mkD .compound (some "a")) [("a", .mk (mkD .atomic) []), ("f", .mk (mkD .final) [])] }

example : isStateDone dM [[], ["f"]] [] = true ∧ isStateDone dM [["f"], []] [] = true := by decide
/-- the hypothesis is needed: on an ILLEGAL configuration (both children active) the answer is the
    done-ness of whichever child comes first -/
example : isStateDone dM [[], ["a"], ["f"]] [] = false ∧ isStateDone dM [["f"], ["a"], []] [] = true := by
  decide

/-! ## 3. the step level -/

/-- *One transition, whole state.* `St.equiv m s s'`: the configurations are permutations of each other,
    every other field is equal, and the traces are equal record by record except that a `#t:`
    observer record may list the same configuration in another order (`RecEq`). Executing the same plan
    from equivalent states gives equivalent states: the same context, history, queue (raised and
    `done.state` events in the same order), status, error, and the same executed actions in the same
    order. `hh`: the engine's hooks respect the equivalence (`hooksFlagged_perm`,
    `hooksAsyncStart_perm`, `hooksAsync_perm`); `hu`: at-most-one-active-child in the configuration the
    plan produces (entries only add states, so it then holds wherever done-ness is evaluated). -/
theorem execute_perm {m : Machine} {h : Hooks} (hok : HooksOK h) (hh : HooksPerm m h) (fl : Flavor)
    (ev : Ev) (pl : Plan) {s s' : St} (he : St.equiv m s s') (hinj : IdInj m s.cfg)
    (hu : pl.internal = false → CompUniq (runPlan h fl m ev pl s).cfg [] m.root) :
    St.equiv m (execute h fl m ev pl s) (execute h fl m ev pl s') :=
  execute_equiv hok hh fl ev pl he hinj hu

/-- *Plan and execute* one selected transition, each in its own state. -/
theorem microstep_perm {m : Machine} {h : Hooks} (hok : HooksOK h) (hh : HooksPerm m h) (fl : Flavor)
    (ev : Ev) (c : Cand) {s s' : St} (he : St.equiv m s s') (hinj : IdInj m s.cfg)
    (hu : (planTransition m s.cfg s.hist c).internal = false →
      CompUniq (runPlan h fl m ev (planTransition m s.cfg s.hist c) s).cfg [] m.root) :
    St.equiv m (execute h fl m ev (planTransition m s.cfg s.hist c) s)
      (execute h fl m ev (planTransition m s'.cfg s'.hist c) s') :=
  microstep_equiv hok hh fl ev c he hinj hu

/-- the same from the hypotheses of C01 only, for a transition that completes: well-formed machine,
    legal configuration, keys without dots -/
theorem microstep_perm_legal {m : Machine} {h : Hooks} (hok : HooksOK h) (hh : HooksPerm m h) (fl : Flavor)
    (ev : Ev) (c : Cand) {s s' : St} (he : St.equiv m s s')
    (hwf : WF m.root) (hi : InitOK m.root) (hl : Legal m.root s.cfg) (hc : CandOK m c) (hsrc : c.src ∈ s.cfg)
    (hdf : DotFree s.cfg)
    (herr : (execute h fl m ev (planTransition m s.cfg s.hist c) s).err = none) :
    St.equiv m (execute h fl m ev (planTransition m s.cfg s.hist c) s)
      (execute h fl m ev (planTransition m s'.cfg s'.hist c) s') :=
  microstep_equiv_legal hok hh fl ev c he hwf hi hl hc hsrc hdf herr

/-- *One event* (select, then plan and execute every selected transition, stale ones skipped), for any
    invariant `P` of the run that provides the two hypotheses at every step (`StepInv`). -/
theorem processEvent_perm {m : Machine} {h : Hooks} (hok : HooksOK h) (hh : HooksPerm m h) (fl : Flavor)
    (u : UEnv) (ev : Ev) {P : St → Prop} (hP : StepInv m h fl P) {s s' : St} (he : St.equiv m s s') (hs : P s) :
    St.equiv m (processEvent h fl m u ev s) (processEvent h fl m u ev s') ∧ P (processEvent h fl m u ev s) :=
  processEvent_equiv hok hh fl u ev hP he hs

/-- *The eventless ("always") loop.* -/
theorem transientLoop_perm {m : Machine} {h : Hooks} (hok : HooksOK h) (hh : HooksPerm m h) (fl : Flavor)
    (u : UEnv) {P : St → Prop} (hP : StepInv m h fl P) (fuel : Nat) {s s' : St} (he : St.equiv m s s') (hs : P s) :
    St.equiv m (transientLoop h fl m u fuel s) (transientLoop h fl m u fuel s') ∧
      P (transientLoop h fl m u fuel s) :=
  transientLoop_equiv hok hh fl u hP fuel he hs

/-- the hooks of both engines respect the equivalence -/
example (u : UEnv) (m : Machine) : HooksPerm m (hooksFlagged u m) := hooksFlagged_perm u m
example (u : UEnv) (m : Machine) : HooksPerm m (hooksAsyncStart u m) := hooksAsyncStart_perm u m
example (u : UEnv) (m : Machine) : HooksPerm m (hooksAsync u m) := hooksAsync_perm u m

/-- a transition inside region `A` (`a1 → a2`), run from `exCfg` and from `exCfg'`: same actions; the
    resulting configurations are permutations of each other and so are the two `#t:` records — the one
    place where the order of `cfg` is visible, and the reason `St.equiv` compares traces by `RecEq` -/
def tG : Trans := mkT 9 "G" (some "a2") none ["go"]
example :
    (execute (hooksFlagged exU exM) .sync exM (.user "G") (planTransition exM exCfg [] ⟨["P", "A", "a1"], tG⟩)
        { cfg := exCfg, status := "running" }).trace =
      ["#t:m,m.P,m.P.A,m.P.B,m.P.B.b1,m.P.A.a2", "go@G"] ∧
    (execute (hooksFlagged exU exM) .sync exM (.user "G") (planTransition exM exCfg' [] ⟨["P", "A", "a1"], tG⟩)
        { cfg := exCfg', status := "running" }).trace =
      ["#t:m.P.B.b1,m,m.P,m.P.B,m.P.A,m.P.A.a2", "go@G"] := by decide

end XSM.C16
