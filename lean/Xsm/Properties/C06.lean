import Xsm.Proofs.Guard
/-!
# C06 — a transition is taken only if its guard is true when it is selected

Statements with short proofs; the work is in `Xsm/Proofs/Guard.lean`. Everything is about the
executable model: `evalGuard` (`_is_guard_satisfied`), `isStateIn` (`_is_state_in`), `parseGuard`
(`GuardDefinition.__init__`), `parseTransition` (`TransitionDefinition.__init__`), and the
candidate producers `filterPassing` / `onCands.walk` of the selection. `m` is an arbitrary
machine, `cfg` an arbitrary configuration, `env : GEnv` an arbitrary valuation of the user guards
(`t`, `f`, `raises`, or `missing` = named but not implemented); guard expressions are arbitrary,
at any nesting depth.

Vocabulary defined in `Xsm/Proofs/Guard.lean`:
* `atomVal`, `denote` — the ordinary Boolean meaning (`denote_and = List.all`, `denote_or = List.any`,
  `denote_not = !`);
* `guardNames g` — user guard names occurring in `g`; `reached m cfg env g` — those that evaluation
  actually looks up (short-circuit: `and` moves on only after `ok true`, `or` only after `ok false`);
* `deraise P env` — `env` with the guards selected by `P` returning `False` instead of raising;
* `Confusable m t q` — the suffix test of the built-in `stateIn` answers "yes" for target id `t`
  because of active state `q`;
* `opJ op rest` — the JSON object `{"type": op, ...rest}`; `parseOperands op cs` — parse the
  operands `cs` left to right, then build the composite `op`.
-/
namespace XSM.C06
open XSM

section Evaluator
variable (m : Machine) (cfg : List Path) (env : GEnv)

/-! ## 1. `and` / `or` / `not`: short-circuit evaluation -/

/-- *and/or/not combine their operands …*: `and` is Python's `all` over a generator. Either every
child evaluates to `ok true` and so does the conjunction, or the result IS the result of the first
child that does not evaluate to `ok true` (`ok false`, or the error of a missing guard); the
children after it (`post`, arbitrary) are not consulted. -/
theorem eval_and (cs : List GuardExpr) :
    ((∀ x ∈ cs, evalGuard m cfg env x = .ok true) ∧ evalGuard m cfg env (.and cs) = .ok true) ∨
    (∃ pre c post, cs = pre ++ c :: post ∧ (∀ x ∈ pre, evalGuard m cfg env x = .ok true) ∧
      evalGuard m cfg env c ≠ .ok true ∧
      evalGuard m cfg env (.and cs) = evalGuard m cfg env c ∧
      ∀ post', evalGuard m cfg env (.and (pre ++ c :: post')) = evalGuard m cfg env c) := by
  rcases split_first_not m cfg env (.ok true) cs with h | ⟨pre, c, post, rfl, hpre, hc⟩
  · exact Or.inl ⟨h, by rw [evalGuard_and]; exact evalAll_all_true m cfg env cs h⟩
  · exact Or.inr ⟨pre, c, post, rfl, hpre, hc, by rw [evalGuard_and]; exact evalAll_split m cfg env pre c post hpre hc,
      fun post' => by rw [evalGuard_and]; exact evalAll_split m cfg env pre c post' hpre hc⟩

/-- `and` is true exactly when every operand is true -/
theorem eval_and_true_iff (cs : List GuardExpr) :
    evalGuard m cfg env (.and cs) = .ok true ↔ ∀ x ∈ cs, evalGuard m cfg env x = .ok true := by
  rw [evalGuard_and]; exact evalAll_true_iff m cfg env cs

/-- `or` is Python's `any` over a generator: either every child evaluates to `ok false` and so
does the disjunction, or the result IS the result of the first child that does not evaluate to
`ok false`; the children after it are not consulted. -/
theorem eval_or (cs : List GuardExpr) :
    ((∀ x ∈ cs, evalGuard m cfg env x = .ok false) ∧ evalGuard m cfg env (.or cs) = .ok false) ∨
    (∃ pre c post, cs = pre ++ c :: post ∧ (∀ x ∈ pre, evalGuard m cfg env x = .ok false) ∧
      evalGuard m cfg env c ≠ .ok false ∧
      evalGuard m cfg env (.or cs) = evalGuard m cfg env c ∧
      ∀ post', evalGuard m cfg env (.or (pre ++ c :: post')) = evalGuard m cfg env c) := by
  rcases split_first_not m cfg env (.ok false) cs with h | ⟨pre, c, post, rfl, hpre, hc⟩
  · exact Or.inl ⟨h, by rw [evalGuard_or]; exact evalAny_all_false m cfg env cs h⟩
  · exact Or.inr ⟨pre, c, post, rfl, hpre, hc, by rw [evalGuard_or]; exact evalAny_split m cfg env pre c post hpre hc,
      fun post' => by rw [evalGuard_or]; exact evalAny_split m cfg env pre c post' hpre hc⟩

/-- `or` is false exactly when every operand is false -/
theorem eval_or_false_iff (cs : List GuardExpr) :
    evalGuard m cfg env (.or cs) = .ok false ↔ ∀ x ∈ cs, evalGuard m cfg env x = .ok false := by
  rw [evalGuard_or]; exact evalAny_false_iff m cfg env cs

/-- `not` negates the value of its operand and passes its error on -/
theorem eval_not (c : GuardExpr) :
    evalGuard m cfg env (.not c) =
      (match evalGuard m cfg env c with | .ok b => .ok (!b) | .error e => .error e) :=
  evalGuard_not m cfg env c

/-- short-circuit on concrete data: a false operand hides a later unimplemented one (`and`), a true
one does so for `or`; nested two levels deep -/
example (env : GEnv) (ha : env "a" = .f) (_hb : env "b" = .missing) (_hc : env "c" = .t) :
    evalGuard m cfg env (.or [.and [.named "a" none, .named "b" none],
                              .not (.named "a" none), .named "b" none, .named "c" none]) = .ok true := by
  simp [evalAll_cons, evalAny_cons, evalGuard_not, evalGuard_named, ha]

/-! ## 2. Boolean meaning; a missing implementation is an error iff it is reached -/

/-- *ordinary boolean meaning at any nesting depth*: when no user guard occurring in `g` lacks an
implementation, evaluation returns exactly the Boolean meaning of `g` (a raising guard reads as
false, `stateIn` as in `atomVal`). -/
theorem eval_bool_semantics (g : GuardExpr) (h : ∀ n ∈ guardNames g, env n ≠ .missing) :
    evalGuard m cfg env g = .ok (denote m cfg env g) :=
  eval_implemented_aux m cfg env g h

/-- whenever evaluation returns a value at all, it is the Boolean meaning: unreached atoms
(implemented or not) cannot influence it -/
theorem eval_sound (g : GuardExpr) (b : Bool) (h : evalGuard m cfg env g = .ok b) :
    b = denote m cfg env g :=
  eval_sound_aux m cfg env g b h

/-- the Boolean meaning is the ordinary one -/
theorem denote_is_boolean (cs : List GuardExpr) (c : GuardExpr) :
    denote m cfg env (.and cs) = cs.all (denote m cfg env) ∧
    denote m cfg env (.or cs) = cs.any (denote m cfg env) ∧
    denote m cfg env (.not c) = !(denote m cfg env c) :=
  ⟨denote_and m cfg env cs, denote_or m cfg env cs, denote_not m cfg env c⟩

/-- *a guard that is named but not implemented is reported … rather than decided either way*:
evaluation reports `missing n` exactly for a name `n` that is reached and has no implementation -/
theorem missing_is_error_iff_reached (g : GuardExpr) (n : String) :
    evalGuard m cfg env g = .error (.missing n) ↔ (n ∈ reached m cfg env g ∧ env n = .missing) :=
  error_iff_reached_aux m cfg env g n

/-- evaluation is total: either a Boolean — the Boolean meaning, and then every guard looked up was
implemented — or the error naming a guard of `g` that was reached and is not implemented -/
theorem eval_total (g : GuardExpr) :
    (∃ b, evalGuard m cfg env g = .ok b ∧ b = denote m cfg env g ∧
        ∀ n ∈ reached m cfg env g, env n ≠ .missing) ∨
    (∃ n, evalGuard m cfg env g = .error (.missing n) ∧ n ∈ reached m cfg env g ∧
        n ∈ guardNames g ∧ env n = .missing) := by
  cases h : evalGuard m cfg env g with
  | ok b =>
    refine Or.inl ⟨b, rfl, eval_sound_aux m cfg env g b h, ?_⟩
    intro n hn hmiss
    have := (error_iff_reached_aux m cfg env g n).2 ⟨hn, hmiss⟩
    rw [h] at this; cases this
  | error e =>
    obtain ⟨n⟩ := e
    obtain ⟨hr, hm⟩ := (error_iff_reached_aux m cfg env g n).1 h
    exact Or.inr ⟨n, rfl, hr, reached_subset_names_aux m cfg env g n hr, hm⟩

/-- a named guard without implementation, evaluated on its own, is an error — neither true nor
false -/
theorem missing_guard_is_error (n : String) (p : Option J) (h : env n = .missing) :
    evalGuard m cfg env (.named n p) = .error (.missing n) := by
  rw [evalGuard_named, h]

/-- … and the selection reports it instead of deciding: the candidate producer fails with that
error when it meets such a guard (not yet cached) -/
theorem missing_guard_is_reported (src : Path) (t : Trans) (ts : List Trans) (c : GCache)
    (e : GErr) (hc : c.find? (fun kv => kv.1 = t.tid) = none)
    (h : guardOk m cfg env t.guard = .error e) :
    filterPassing m cfg env src (t :: ts) c = .error e := by
  simp [filterPassing, passes, hc, h, bind, Except.bind]

example (env : GEnv) (ha : env "a" = .t) (hb : env "b" = .missing) :
    evalGuard m cfg env (.and [.named "a" none, .not (.named "b" none)]) = .error (.missing "b") ∧
    reached m cfg env (.and [.named "a" none, .not (.named "b" none)]) = ["a", "b"] := by
  simp [evalAll_cons, evalGuard_not, evalGuard_named, ha, hb, reached, reachedAll]

/-! ## 3. A guard that raises counts as false -/

/-- *a guard that raises counts as false*: turning the outcome `raises` into `f` for any set `P`
of guard names never changes the evaluation of any guard expression -/
theorem raises_is_false (P : String → Bool) (g : GuardExpr) :
    evalGuard m cfg (deraise P env) g = evalGuard m cfg env g :=
  evalGuard_deraise m cfg env P g

/-- *… and the interpreter is undisturbed*: the whole selection for an event is the same whether
guards raise or return `False` -/
theorem raises_is_false_for_selection (P : String → Bool) (ev : Ev) :
    selectTransitions m cfg (deraise P env) ev = selectTransitions m cfg env ev :=
  selectTransitions_deraise m cfg env P ev

example : deraise (fun _ => true) (fun n => if n = "boom" then .raises else .t) "boom" = .f ∧
    evalGuard m cfg (fun n => if n = "boom" then .raises else .t) (.not (.named "boom" none)) = .ok true := by
  constructor
  · decide
  · simp [evalGuard_not, evalGuard_named]

/-! ## 4./5. `stateIn` -/

/-- *stateIn is true exactly when the named state is in the active configuration* — for a target
that spells the full id of state `p` (with or without a leading `#`), no user guard named
`stateIn`, and the hypothesis `hsuf`: if `p` is not active then no active state's id equals the id
of `p` or ends with `"." ++ id p` (the code tests a suffix). `stateIn_hypothesis_necessary` shows
`hsuf` cannot be weakened. -/
theorem stateIn_iff_active (params : Option J) (t : String) (p : Path)
    (ht : stateInTarget params = some t)
    (hid : (t = m.idOf p ∧ sStartsWith t "#" = false) ∨ t = "#" ++ m.idOf p)
    (henv : env "stateIn" = .missing)
    (hsuf : p ∉ cfg → ∀ q ∈ cfg, ¬ Confusable m (m.idOf p) q) :
    evalGuard m cfg env (.stateIn params) = .ok (decide (p ∈ cfg)) := by
  rw [evalGuard_stateIn, henv]
  exact congrArg Except.ok ((stateIn_builtin_iff m cfg params t p ht hid).2 hsuf)

/-- the hypothesis of `stateIn_iff_active` is necessary: it follows from the conclusion -/
theorem stateIn_hypothesis_necessary (params : Option J) (t : String) (p : Path)
    (ht : stateInTarget params = some t)
    (hid : (t = m.idOf p ∧ sStartsWith t "#" = false) ∨ t = "#" ++ m.idOf p)
    (henv : env "stateIn" = .missing)
    (h : evalGuard m cfg env (.stateIn params) = .ok (decide (p ∈ cfg))) :
    p ∉ cfg → ∀ q ∈ cfg, ¬ Confusable m (m.idOf p) q := by
  rw [evalGuard_stateIn, henv] at h
  exact (stateIn_builtin_iff m cfg params t p ht hid).1 (Except.ok.inj h)

/-- a structural condition that implies the hypothesis: the machine id and all state keys involved
are free of `'.'`, the machine id does not start with `'#'`, and no key on an active path equals
the machine id. Then `stateIn` is exactly "the named state is active". -/
theorem stateIn_iff_active_of_dotfree (params : Option J) (t : String) (p : Path)
    (ht : stateInTarget params = some t)
    (hid : t = m.idOf p ∨ t = "#" ++ m.idOf p)
    (henv : env "stateIn" = .missing)
    (hhash : sStartsWith m.id "#" = false)
    (hm : '.' ∉ m.id.toList)
    (hp : ∀ k ∈ p, '.' ∉ k.toList)
    (hcfg : ∀ q ∈ cfg, ∀ k ∈ q, '.' ∉ k.toList ∧ k ≠ m.id) :
    evalGuard m cfg env (.stateIn params) = .ok (decide (p ∈ cfg)) := by
  refine stateIn_iff_active m cfg env params t p ht ?_ henv ?_
  · rcases hid with rfl | rfl
    · exact Or.inl ⟨rfl, idOf_not_hash m p hhash⟩
    · exact Or.inr rfl
  · intro hpn q hq
    exact not_confusable_of_dotfree m p q hm (hcfg q hq) hp (fun e => hpn (e ▸ hq))

/-- *a user implementation named `stateIn` wins*: the built-in test, the configuration and the
params are then irrelevant -/
theorem user_stateIn_wins (params : Option J) (h : env "stateIn" ≠ .missing) :
    evalGuard m cfg env (.stateIn params) = .ok (env "stateIn" == .t) := by
  rw [evalGuard_stateIn]
  cases hv : env "stateIn" <;> simp [hv] at h ⊢ <;> rfl

end Evaluator

/-- a leaf state definition -/
def leafDef : StateDef :=
  { kind := .atomic, initial := none, entry := [], exit := [], on := [], onDone := none, after := [],
    invoke := [], deep := false, historyTarget := none, customId := none, tags := [] }

/-- machine `m` with states `m.a` and `m.m` ⊃ `m.m.a` (a state keyed like the machine) -/
def cexMachine : Machine :=
  { id := "m", maxIterations := 10, customIds := [],
    root := .mk { leafDef with kind := .compound, initial := some "m" }
      [("a", .mk leafDef []),
       ("m", .mk { leafDef with kind := .compound, initial := some "a" } [("a", .mk leafDef [])])] }

/-- its initial configuration: `m`, `m.m`, `m.m.a` -/
def cexCfg : List Path := [[], ["m"], ["m", "a"]]

/-- known corner case of the suffix test: in `cexMachine` the state `m.a` is NOT active, yet
`stateIn "#m.a"` answers true, because the id `m.m.a` of an active state ends with `".m.a"` -/
theorem stateIn_suffix_false_positive :
    cexMachine.idOf ["a"] = "m.a" ∧ (["a"] : Path) ∉ cexCfg ∧
    evalGuard cexMachine cexCfg (fun _ => .missing)
      (.stateIn (some (.obj [("state", .str "#m.a")]))) = .ok true := by
  refine ⟨by decide, by decide, ?_⟩
  rw [evalGuard_stateIn]
  exact congrArg Except.ok (by decide)

/-- the hypotheses of `stateIn_iff_active_of_dotfree` are satisfiable (a state keyed `b` instead) -/
example : evalGuard { cexMachine with id := "m" } [[], ["b"], ["b", "a"]] (fun _ => .missing)
    (.stateIn (some (.obj [("state", .str "#m.a")]))) = .ok (decide ((["a"] : Path) ∈ [[], ["b"], ["b", "a"]])) :=
  stateIn_iff_active_of_dotfree _ _ _ _ "#m.a" ["a"] (by decide) (Or.inr (by decide)) rfl (by decide)
    (by decide) (by decide) (by decide)

example : evalGuard cexMachine cexCfg (fun n => if n = "stateIn" then .f else .missing)
    (.stateIn (some (.str "#m.m"))) = .ok false :=
  user_stateIn_wins _ _ _ _ (by decide)

/-! ## 6. Operand spellings of composite guards -/

/-- *under either operand spelling*: for a composite type and a non-empty operand list the three
spellings `children`, `params.guards`, `params.children` parse to the same thing (namely the
operands parsed left to right and combined by `op`) -/
theorem operand_spellings_equal (op : String) (hop : IsCompositeOp op) (cs : List J) (hcs : cs ≠ []) :
    parseGuard (opJ op [("children", .arr cs)]) = parseOperands op cs ∧
    parseGuard (opJ op [("params", .obj [("guards", .arr cs)])]) = parseOperands op cs ∧
    parseGuard (opJ op [("params", .obj [("children", .arr cs)])]) = parseOperands op cs := by
  refine ⟨?_, ?_, ?_⟩
  · rw [parseGuard_opJ op hop, guardChildrenJ_children op cs hcs]
  · rw [parseGuard_opJ op hop, guardChildrenJ_params_guards op cs hcs]
  · rw [parseGuard_opJ op hop, guardChildrenJ_params_children op cs hcs]

/-- `not` (indeed any composite type) also accepts its single operand as `params.guard` -/
theorem operand_spelling_params_guard (op : String) (hop : IsCompositeOp op) (c : J) (hc : c ≠ .null) :
    parseGuard (opJ op [("params", .obj [("guard", c)])]) = parseOperands op [c] ∧
    parseGuard (opJ op [("children", .arr [c])]) = parseOperands op [c] := by
  refine ⟨?_, ?_⟩
  · rw [parseGuard_opJ op hop, guardChildrenJ_params_guard op c hc]
  · rw [parseGuard_opJ op hop, guardChildrenJ_children op [c] (by simp)]

/-- what the spellings parse to, once the operands parse: the composite of the parsed operands -/
theorem parse_composite (cs : List J) (gs : List GuardExpr) (hcs : cs ≠ [])
    (h : cs.mapM parseGuard = .ok gs) (c : J) (g : GuardExpr) (hc : parseGuard c = .ok g) :
    parseOperands "and" cs = .ok (.and gs) ∧ parseOperands "or" cs = .ok (.or gs) ∧
    parseOperands "not" [c] = .ok (.not g) :=
  ⟨parseOperands_and cs gs hcs h, parseOperands_or cs gs hcs h, parseOperands_not c g hc⟩

/-- *a bare string is never composite*: it is a user guard of that name — also for the names
`and`, `or`, `not` -/
theorem bare_string_never_composite (s : String) (hs : s ≠ Tables.stateInGuardType) :
    parseGuard (.str s) = .ok (.named s none) := by
  rw [parseGuard.eq_1]; simp [hs]

/-- the bare string `"stateIn"` is the built-in state test without params (`is_state_in` is set for
every guard whose type is `stateIn`, bare or not) — still an atom, never a composite -/
theorem bare_stateIn_is_atom : parseGuard (.str Tables.stateInGuardType) = .ok (.stateIn none) := by
  rw [parseGuard.eq_1]; simp

example : parseGuard (.str "and") = .ok (.named "and" none) := bare_string_never_composite "and" (by decide)

/-- a nested composite in mixed spellings, parsed end to end:
`{"type":"and","params":{"guards":["a",{"type":"not","params":{"guard":"b"}}]}}` -/
example : parseGuard (opJ "and" [("params", .obj [("guards", .arr [.str "a",
      opJ "not" [("params", .obj [("guard", .str "b")])]])])]) =
    .ok (.and [.named "a" none, .not (.named "b" none)]) := by
  have hnot : parseGuard (opJ "not" [("params", .obj [("guard", .str "b")])]) = .ok (.not (.named "b" none)) := by
    rw [(operand_spelling_params_guard "not" (by simp [IsCompositeOp]) (.str "b") (by simp)).1]
    exact parseOperands_not _ _ (bare_string_never_composite "b" (by decide))
  rw [(operand_spellings_equal "and" (by simp [IsCompositeOp]) _ (by simp)).2.1]
  apply parseOperands_and _ _ (by simp)
  simp [List.mapM_cons, hnot, parseGuard.eq_1, bind, Except.bind, pure, Except.pure, Tables.stateInGuardType]

/-- *parameterised guards receive their params*: when a guard object parses to a user guard, the
`params` recorded for it are exactly the `params` of the object (nothing is dropped) -/
theorem params_preserved (kvs : List (String × J)) (n : String) (ps : Option J)
    (h : parseGuard (.obj kvs) = .ok (.named n ps)) :
    ps = (J.obj kvs).get? "params" ∧ guardTypeOf (.obj kvs) = .ok n := by
  rw [parseGuard_obj] at h
  simp only [bind, Except.bind] at h
  cases hty : guardTypeOf (.obj kvs) with
  | error e => simp [hty] at h
  | ok ty =>
    simp only [hty] at h
    cases hch : List.mapM parseGuard (guardChildrenJ (J.obj kvs)
        (decide (ty = "and") || decide (ty = "or") || decide (ty = "not"))) with
    | error e => simp [hch] at h
    | ok ch =>
      simp only [hch, finishGuard, pure, Except.pure] at h
      repeat' split at h
      all_goals first
        | (cases h; exact ⟨rfl, rfl⟩)
        | cases h

/-! ## 7. `cond` is `guard` -/

/-- *the v4 `cond` key is equivalent to `guard`* (1): without a `guard` key the raw guard is the
value of `cond` -/
theorem cond_read_when_no_guard_key (cfgJ : J) (h : cfgJ.hasKey "guard" = false) :
    rawGuardOf cfgJ = cfgJ.get? "cond" := by
  simp [rawGuardOf, h]

/-- *the v4 `cond` key is equivalent to `guard`* (2): a transition config in which `"cond": g` stands
where `"guard": g` could (no other `guard`/`cond` key) parses to the very same transition, in
every parser state — so a guarded transition is never silently unguarded -/
theorem cond_eq_guard (ev : String) (pre post : List (String × J)) (g : J)
    (h : ∀ kv ∈ pre ++ post, kv.1 ≠ "guard" ∧ kv.1 ≠ "cond") :
    parseTransition ev (.obj (pre ++ ("cond", g) :: post)) =
      parseTransition ev (.obj (pre ++ ("guard", g) :: post)) := by
  apply parseTransition_congr
  · rw [get?_mid_ne _ _ _ _ _ (by decide), get?_mid_ne _ _ _ _ _ (by decide)]
  · rw [rawGuardOf_cond_mid pre post g h,
      rawGuardOf_guard_mid pre post g (fun kv hkv => (h kv (by simp [hkv])).1)]
  · rw [get?_mid_ne _ _ _ _ _ (by decide), get?_mid_ne _ _ _ _ _ (by decide)]
  · rw [get?_mid_ne _ _ _ _ _ (by decide), get?_mid_ne _ _ _ _ _ (by decide)]
  · rw [get?_mid_ne _ _ _ _ _ (by decide), get?_mid_ne _ _ _ _ _ (by decide)]

/-- the guard of a `cond` transition is the parsed guard — not `none` -/
example : (parseTransition "E" (.obj [("target", .str "x"), ("cond", .str "g")])).run {} =
    .ok ({ tid := 0, event := "E", target := some "x", guard := some (.named "g" none), actions := [],
           reenter := false, forbidden := false }, { nextTid := 1 }) := by
  simp [parseTransition, rawGuardOf, parseGuardOpt, parseGuard.eq_1, parseActions, J.get?, J.hasKey,
    Tables.stateInGuardType, fixBareStateIn, freshTid, StateT.run, bind, StateT.bind, Except.bind, pure, StateT.pure, Except.pure,
    liftM, monadLift, MonadLift.monadLift, StateT.lift, get, getThe, MonadStateOf.get, StateT.get,
    set, StateT.set]

/-- corner case the code has (`config.get("guard", config.get("cond"))`): an explicit
`"guard": null` hides `"cond": g`, and the transition is unguarded -/
theorem explicit_null_guard_hides_cond (g : J) :
    rawGuardOf (.obj [("guard", .null), ("cond", g)]) = some .null ∧
    parseGuardOpt (rawGuardOf (.obj [("guard", .null), ("cond", g)])) = .ok none := by
  simp [rawGuardOf, J.hasKey, J.get?, parseGuardOpt, pure, Except.pure]

/-! ## 8. A raising guard leaves the other candidates alone -/

section Selection
variable (m : Machine) (cfg : List Path) (env : GEnv) (src : Path)

/-- *later candidates … stay eligible*: in `filterPassing` (eventless, `onDone`, `after`, invoke
handlers) a candidate `t` whose guard comes out false — in particular because it raises — is
simply dropped: the candidates produced from `ts1 ++ t :: ts2` are those produced from
`ts1 ++ ts2` (equation on the candidate list, i.e. modulo the guard cache). Hypotheses: a cached
verdict for `t`, if any, is `false`, and transition ids are distinct from `t`'s. -/
theorem raising_guard_keeps_later_candidates (ts1 ts2 : List Trans) (t : Trans) (c : GCache)
    (hfalse : guardOk m cfg env t.guard = .ok false)
    (hcache : ∀ kv, c.find? (fun kv => kv.1 = t.tid) = some kv → kv.2 = false)
    (hts : ∀ t' ∈ ts1 ++ ts2, t'.tid ≠ t.tid) :
    (filterPassing m cfg env src (ts1 ++ t :: ts2) c).map Prod.fst =
      (filterPassing m cfg env src (ts1 ++ ts2) c).map Prod.fst :=
  filterPassing_drop_false m cfg env src ts1 ts2 t c hfalse hcache hts

/-- the same for the walk over an `on` list: candidates and the "blocked by a forbidden
transition" flag are unchanged -/
theorem raising_guard_keeps_later_on_candidates (ts1 ts2 : List Trans) (t : Trans) (c : GCache)
    (hforb : t.forbidden = false)
    (hfalse : guardOk m cfg env t.guard = .ok false)
    (hcache : ∀ kv, c.find? (fun kv => kv.1 = t.tid) = some kv → kv.2 = false)
    (hts : ∀ t' ∈ ts1 ++ ts2, t'.tid ≠ t.tid) :
    (onCands.walk m cfg env src (ts1 ++ t :: ts2) c).map (fun r => (r.1, r.2.1)) =
      (onCands.walk m cfg env src (ts1 ++ ts2) c).map (fun r => (r.1, r.2.1)) :=
  walk_drop_false m cfg env src ts1 ts2 t c hforb hfalse hcache hts

/-- a guard that raises does come out `ok false` (so the two theorems above apply) -/
theorem raising_guard_is_false (n : String) (p : Option J) (h : env n = .raises) :
    guardOk m cfg env (some (.named n p)) = .ok false := by
  simp [guardOk, evalGuard_named, h]

/-- concrete instance: `[boom (raises), fallback (unguarded)]` yields exactly the fallback -/
example (env : GEnv) (h : env "boom" = .raises) :
    let boom : Trans := { tid := 0, event := "E", target := some "x", guard := some (.named "boom" none),
                          actions := [], reenter := false, forbidden := false }
    let fb : Trans := { boom with tid := 1, guard := none }
    (filterPassing m cfg env src [boom, fb] []).map Prod.fst = .ok [{ src, t := fb }] := by
  intro boom fb
  have := raising_guard_keeps_later_candidates m cfg env src [] [fb] boom []
    (raising_guard_is_false m cfg env "boom" none h) (by simp) (by simp [fb, boom])
  rw [List.nil_append] at this
  rw [this]
  simp [filterPassing, passes, guardOk, fb, bind, Except.bind, pure, Except.pure, Except.map]

end Selection

end XSM.C06
