import Xsm.Proofs.Trace
import Xsm.Proofs.SelSound
/-!
# C03 — order of exit / transition / entry actions, event identity, accounting, frame

"While one transition executes, every exit action runs before its transition actions and every
entry action after them; a state's exit actions run before those of its ancestors and its entry
actions after those of its ancestors, and entry/exit/transition actions receive the event that
caused them. Over any processed event, for every state, (times its entry actions ran) minus (times
its exit actions ran) equals its change in activity (+1, 0 or -1), a state is never entered while
already active, and states outside the subtree of the least common ancestor of the transition's
source and target - in particular sibling parallel regions - see no entry, exit, timer cancellation
or service restart at all."

Statements about the executable model (`Xsm/Model/Engine.lean`: `execActions`, `exitOne`, `enterOne`,
`runPlan`, `execute`, `processEvent`; `Xsm/Model/Plan.lean`: `planTransition`, `sortExit`); helper
definitions and proofs live in `Xsm/Proofs/Trace.lean`. Everything is for arbitrary machines, user
environments and hooks that only enqueue (`HooksOK`, `HooksTraceOK` — true of the hooks of both
engines in every phase, see `hooks_ok`).

Vocabulary (all from `Xsm/Proofs/Trace.lean`):
* `St.chron s` — the trace of `s` oldest record first (`St.trace` is newest first);
* `Adds P s s'` — `s'.trace = t ++ s.trace` for some `t` all of whose records satisfy `P`;
* `ActRec evn r` — `r` is `name ++ "@" ++ evn` (an action run with event name `evn`) or `"#aerr:" ++ name`
  (a raising action, contained); `TransRec evn r` — that, or the observer record `"#t:" ++ …`;
* `actRecords h as evn s` — what running the action list `as` with event name `evn` from state `s`
  appends (it depends on `s`: `choose` reads the context, user actions may raise or be missing);
  `exitRecords`/`entryRecords` — the same for the exit/entry list of one state;
  `exitsRecords`/`entriesRecords` — for a list of states, state by state in list order;
  `exitPhase`/`actionPhase`/`entryPhase` — for the three phases of a plan; `obsPart` — `[#t:…]` or `[]`;
* `recOf evn a` — `a.type ++ "@" ++ evn`; `exitNames`/`entryNames` — the declared exit/entry actions of a
  state as such records; `AllActionsOK h` — every action is implemented and returns;
* `NoLaterPrefix l` — no element of `l` is an ancestor-or-self of an earlier element;
* `PlainTarget m c tgt` — candidate `c` has a declared target resolving to the existing, non-history,
  non-root state `tgt` and is external (the hypotheses of `C01`'s plain microstep);
* `regionOf dom tgt` — the child of `dom` on the way to `tgt`; `activity c q` — 1 if `q ∈ c` else 0.

The `example`s use the machine `exM` below, in configuration `exCfg = {m, P, A, a1, B, b1}`; state `n`
has entry action `en<n>` and exit action `ex<n>`; every action is implemented (`exU`) except in
`exUMissing`, which implements none called `nope`:
```
m (compound, initial P)
├─ P (parallel)
│  ├─ A (compound, initial a1)
│  │  ├─ a1   on X → a2 [tx]   on Y → #m.Q [ty]   on I (no target) [ti]   on Z → #m.P.B.b2 [tz]
│  │  │       on W → a2 [nope]
│  │  └─ a2
│  └─ B (compound, initial b1)
│     ├─ b1
│     └─ b2
└─ Q
```
-/
namespace XSM.C03
open XSM XSM.Spec

-- the example machine ----------------------------------------------------------------------------------
def acts (l : List String) : List ActionRef := l.map (fun a => { type := a })
def mkT (tid : Nat) (event : String) (target : Option String) (as : List String) : Trans :=
  { tid, event, target, guard := none, actions := acts as, reenter := false, forbidden := false }
def mkD (kind : Kind) (initial : Option String) (nm : String) (on : List (String × List Trans) := []) : StateDef :=
  { kind, initial, entry := acts ["en" ++ nm], exit := acts ["ex" ++ nm], on, onDone := none, after := [],
    invoke := [], deep := false, historyTarget := none, customId := none, tags := [] }

def tX := mkT 0 "X" (some "a2") ["tx"]
def tY := mkT 1 "Y" (some "#m.Q") ["ty"]
def tI := mkT 2 "I" none ["ti"]
def tZ := mkT 3 "Z" (some "#m.P.B.b2") ["tz"]
def tW := mkT 4 "W" (some "a2") ["nope"]

def exM : Machine :=
  { id := "m", maxIterations := 10, customIds := [],
    root := .mk (mkD .compound (some "P") "M") [
      ("P", .mk (mkD .parallel none "P") [
        ("A", .mk (mkD .compound (some "a1") "A") [
          ("a1", .mk (mkD .atomic none "a1" [("X", [tX]), ("Y", [tY]), ("I", [tI]), ("Z", [tZ]), ("W", [tW])]) []),
          ("a2", .mk (mkD .atomic none "a2") [])]),
        ("B", .mk (mkD .compound (some "b1") "B") [
          ("b1", .mk (mkD .atomic none "b1") []),
          ("b2", .mk (mkD .atomic none "b2") [])])]),
      ("Q", .mk (mkD .atomic none "Q") [])] }

def exCfg : List Path := [[], ["P"], ["P", "A"], ["P", "A", "a1"], ["P", "B"], ["P", "B", "b1"]]
def exS : St := { cfg := exCfg, status := "running" }
def exU : UEnv := { g := fun _ _ _ => .missing, a := fun _ c _ => .ok c }
def exUMissing : UEnv := { g := fun _ _ _ => .missing, a := fun n c _ => if n = "nope" then .missing else .ok c }
def a1 : Path := ["P", "A", "a1"]
def cX : Cand := ⟨a1, tX⟩
def cY : Cand := ⟨a1, tY⟩
def cI : Cand := ⟨a1, tI⟩
def cZ : Cand := ⟨a1, tZ⟩
def cW : Cand := ⟨a1, tW⟩
def planOf (c : Cand) : Plan := planTransition exM exCfg [] c
/-- run candidate `c` for event `e` from `exS` with the sync engine's hooks -/
def run (u : UEnv) (fl : Flavor) (e : String) (c : Cand) : St :=
  execute (hooksFlagged u exM) fl exM (.user e) (planOf c) exS

/-- the hypotheses of the theorems below are met on `exM` / `exCfg` -/
theorem exWF : WF exM.root := by
  simp [exM, WF, WFKids, HasRealKid, mkD, SNode.kind, SNode.d]
theorem exInitOK : InitOK exM.root := by
  simp [exM, InitOK, InitOKKids, mkD, truthyInit]
theorem exLegal : Legal exM.root exCfg := by
  apply legal_of_legalAt exM.root exWF
  · simp [exM, LegalAt, OneKid, AllKids, ClearKids, Clear, mkD, exCfg, SNode.kind, SNode.d]
  · intro q hq
    have : (exM.root.at q).isSome = true := by
      revert q; decide
    exact Option.isSome_iff_exists.1 this
theorem exPlainX : PlainTarget exM cX ["P", "A", "a2"] :=
  ⟨⟨"a2", rfl, by decide, by decide⟩, by decide, ⟨_, rfl, by decide⟩, by decide⟩
theorem exPlainY : PlainTarget exM cY ["Q"] :=
  ⟨⟨"#m.Q", rfl, by decide, by decide⟩, by decide, ⟨_, rfl, by decide⟩, by decide⟩
theorem exPlainZ : PlainTarget exM cZ ["P", "B", "b2"] :=
  ⟨⟨"#m.P.B.b2", rfl, by decide, by decide⟩, by decide, ⟨_, rfl, by decide⟩, by decide⟩
example : exCfg.Nodup := by decide
example : a1 ∈ exCfg := by decide

/-! ## 0. hypotheses on the hooks; the trace only grows -/

/-- the hooks of both engines, in every phase, only enqueue: they touch neither the configuration,
    the error flag, the trace nor the recorded history -/
theorem hooks_ok (u : UEnv) (m : Machine) :
    (HooksOK (hooksFlagged u m) ∧ HooksTraceOK (hooksFlagged u m)) ∧
    (HooksOK (hooksAsync u m) ∧ HooksTraceOK (hooksAsync u m)) ∧
    (HooksOK (hooksAsyncStart u m) ∧ HooksTraceOK (hooksAsyncStart u m)) :=
  ⟨⟨hooksFlagged_ok u m, hooksFlagged_traceOK u m⟩, ⟨hooksAsync_ok u m, hooksAsync_traceOK u m⟩,
   ⟨hooksAsyncStart_ok u m, hooksAsyncStart_traceOK u m⟩⟩

/-- *Key lemma.* The action executor only PREPENDS to the trace (newest first), at every nesting depth,
    and every record it writes carries the event name it was called with. -/
theorem trace_suffix (h : Hooks) (htr : HooksTraceOK h) (fuel : Nat) (as : List ActionRef) (evType : String)
    (s : St) : ∃ t, (execActionsF h fuel as evType s).trace = t ++ s.trace ∧ ∀ r ∈ t, ActRec evType r :=
  execActionsF_adds h htr fuel as evType s

/-- one transition only prepends; each record is an action record of that event, a contained-failure
    marker, or the observer record -/
theorem trace_suffix_execute (h : Hooks) (htr : HooksTraceOK h) (fl : Flavor) (m : Machine) (ev : Ev)
    (pl : Plan) (s : St) :
    ∃ t, (execute h fl m ev pl s).trace = t ++ s.trace ∧ ∀ r ∈ t, TransRec ev.type r :=
  execute_adds h htr fl m ev pl s

/-- a whole processed event (every selected transition, stale ones skipped) only prepends -/
theorem trace_suffix_event (h : Hooks) (htr : HooksTraceOK h) (fl : Flavor) (m : Machine) (u : UEnv) (ev : Ev)
    (s : St) : ∃ t, (processEvent h fl m u ev s).trace = t ++ s.trace ∧ ∀ r ∈ t, TransRec ev.type r :=
  processEvent_adds h htr fl m u ev s

/-! ## 1. exit actions, then transition actions, then entry actions -/

/-- *Clause "every exit action runs before its transition actions and every entry action after them".*
    What `runPlan` appends to the trace is, oldest first, the records of the exit phase, then those of
    the transition's own actions, then those of the entry phase — for every plan, whether or not some
    phase fails (a failed phase makes the later ones empty). -/
theorem trace_shape (h : Hooks) (htr : HooksTraceOK h) (fl : Flavor) (m : Machine) (ev : Ev) (pl : Plan) (s : St) :
    (runPlan h fl m ev pl s).chron =
      s.chron ++ exitPhase h fl m ev pl s ++ actionPhase h fl m ev pl s ++ entryPhase h fl m ev pl s :=
  runPlan_chron h htr fl m ev pl s

/-- the same for `execute` of an external plan: the observer record comes last (only when no phase failed) -/
theorem trace_shape_execute (h : Hooks) (htr : HooksTraceOK h) (fl : Flavor) (m : Machine) (ev : Ev)
    (pl : Plan) (s : St) (hint : pl.internal = false) :
    (execute h fl m ev pl s).chron =
      s.chron ++ exitPhase h fl m ev pl s ++ actionPhase h fl m ev pl s ++ entryPhase h fl m ev pl s
        ++ obsPart h fl m ev pl s :=
  execute_external_chron h htr fl m ev pl s hint

/-- *The phases, unfolded.* The exit phase is one segment per element of `pl.exits`, in that order, each
    segment being the records of that state's `exit` list run with the triggering event's name from
    some intermediate state (empty once an error is pending); the action phase is `pl.actions` run
    after the exits; the entry phase is one segment per element of `pl.entries`, in order. -/
theorem phases_unfold (h : Hooks) (fl : Flavor) (m : Machine) (ev : Ev) (pl : Plan) (s : St) :
    (∃ segs : List (Path × List String), segs.map (·.1) = pl.exits ∧
        exitPhase h fl m ev pl s = segs.flatMap (·.2) ∧
        ∀ x ∈ segs, ∃ s0, x.2 = exitRecords h m ev.type x.1 s0) ∧
    actionPhase h fl m ev pl s = actRecords h pl.actions ev.type (afterExits h fl m ev pl s) ∧
    (∃ segs : List (Entry × List String), segs.map (·.1) = pl.entries ∧
        entryPhase h fl m ev pl s = segs.flatMap (·.2) ∧
        ∀ x ∈ segs, ∃ s0, x.2 = entryRecords h m ev.type x.1 s0) :=
  ⟨exitsRecords_segments h fl m ev.type pl.exits _, rfl, entriesRecords_segments h fl m ev.type pl.entries _⟩

/-- one exit / one entry: `exitOne` (`enterOne`) appends exactly the records of that state's exit
    (entry) list run with the event's name; neither depends on the engine flavour -/
theorem exit_one (h : Hooks) (htr : HooksTraceOK h) (fl : Flavor) (m : Machine) (evn : String) (s : St) (p : Path) :
    (exitOne h fl m (some evn) s p).chron = s.chron ++ exitRecords h m evn p s ∧
    exitRecords h m evn p s =
      (if s.err.isSome then [] else
        match m.defAt p with | none => [] | some d => actRecords h d.exit evn s) :=
  ⟨exitOne_chron h htr fl m evn s p, rfl⟩
theorem enter_one (h : Hooks) (htr : HooksTraceOK h) (fl : Flavor) (m : Machine) (evn : String) (s : St) (e : Entry) :
    (enterOne h fl m (some evn) s e).chron = s.chron ++ entryRecords h m evn e s ∧
    entryRecords h m evn e s =
      (if s.err.isSome then [] else
        match m.defAt e.path with | none => [] | some d => actRecords h d.entry evn (addActive e.path s)) :=
  ⟨enterOne_chron h htr fl m evn s e, rfl⟩

/-- *Fully explicit, when every action is implemented and returns:* the trace of a plan is the declared
    exit actions of `pl.exits` in order, then `pl.actions`, then the declared entry actions of
    `pl.entries` in order, each record tagged with the triggering event. -/
theorem trace_shape_explicit (h : Hooks) (hok : HooksOK h) (htr : HooksTraceOK h) (hall : AllActionsOK h)
    (fl : Flavor) (m : Machine) (ev : Ev) (pl : Plan) (s : St) (he : s.err = none) :
    (runPlan h fl m ev pl s).chron =
      s.chron ++ pl.exits.flatMap (exitNames m ev.type) ++ pl.actions.map (recOf ev.type)
        ++ pl.entries.flatMap (fun e => entryNames m ev.type e.path) :=
  runPlan_chron_ok h hok htr hall fl m ev pl s he

/-- `a1 -Y-> Q` leaves the parallel state: exits deepest first, then `ty`, then the entry of `Q`, then
    the observers; identical in both engines -/
example : (run exU .sync "Y" cY).chron =
    ["exb1@Y", "exa1@Y", "exB@Y", "exA@Y", "exP@Y", "ty@Y", "enQ@Y", "#t:m,m.Q"] := by decide
example : (run exU .async "Y" cY).chron = (run exU .sync "Y" cY).chron := by decide
example : exitPhase (hooksFlagged exU exM) .sync exM (.user "Y") (planOf cY) exS =
    ["exb1@Y", "exa1@Y", "exB@Y", "exA@Y", "exP@Y"] := by decide
example : actionPhase (hooksFlagged exU exM) .sync exM (.user "Y") (planOf cY) exS = ["ty@Y"] := by decide
example : entryPhase (hooksFlagged exU exM) .sync exM (.user "Y") (planOf cY) exS = ["enQ@Y"] := by decide
/-- `a1 -W-> a2` whose action `nope` has no implementation: the exit ran, the action phase and the
    entry phase are empty, no observer record -/
example : (run exUMissing .sync "W" cW).chron = ["exa1@W"] ∧ (run exUMissing .sync "W" cW).err.isSome = true := by
  decide

/-! ## 2. every action receives the triggering event -/

/-- exit actions are handed the triggering event's name, in both engines -/
theorem exitEvName_some (fl : Flavor) (m : Machine) (p : Path) (t : String) : exitEvName fl m p (some t) = t :=
  XSM.exitEvName_some fl m p t
/-- entry actions are handed the triggering event's name, in both engines, also when the state is
    reached by default descent (`e.nested = true`): what the fix "sync engine forwards the triggering
    event to default-descent entries" established -/
theorem entryEvName_some (fl : Flavor) (m : Machine) (e : Entry) (t : String) : entryEvName fl m e (some t) = t :=
  XSM.entryEvName_some fl m e t

/-- *Clause "entry/exit/transition actions receive the event that caused them".* Every record of an
    action list run with event name `evType` is `a ++ "@" ++ evType` or starts with `#aerr:` — including
    the follow-up actions of `choose`, at every depth. -/
theorem event_identity (h : Hooks) (htr : HooksTraceOK h) (as : List ActionRef) (evType : String) (s : St) :
    ∀ r ∈ actRecords h as evType s, (∃ a, r = a ++ "@" ++ evType) ∨ (∃ a, r = "#aerr:" ++ a) :=
  actRecords_event h htr as evType s

/-- all three phases of a transition triggered by `ev` use `ev.type` -/
theorem event_identity_phases (h : Hooks) (htr : HooksTraceOK h) (fl : Flavor) (m : Machine) (ev : Ev)
    (pl : Plan) (s : St) :
    (∀ r ∈ exitPhase h fl m ev pl s, ActRec ev.type r) ∧ (∀ r ∈ actionPhase h fl m ev pl s, ActRec ev.type r) ∧
    (∀ r ∈ entryPhase h fl m ev pl s, ActRec ev.type r) :=
  phases_event h htr fl m ev pl s

/-- `a1 -Z-> b2`: `B` is on the explicit path, `b2` too; `a1 -X-> a2`; every record carries the event -/
example : (run exU .sync "Z" cZ).chron =
    ["exb1@Z", "exB@Z", "tz@Z", "enB@Z", "enb2@Z", "#t:m,m.P,m.P.A,m.P.A.a1,m.P.B,m.P.B.b2"] := by decide
/-- default-descent entries (`nested = true`) get the event as well: re-entering `P` from `Q` -/
example : ((planEnter exM [["P"]]).1.map (fun e => (e.path, e.nested)),
    entriesRecords (hooksFlagged exU exM) .sync exM "GO" (planEnter exM [["P"]]).1 { cfg := [[], ["Q"]] }) =
    ([(["P"], false), (["P", "A"], true), (["P", "A", "a1"], true), (["P", "B"], true), (["P", "B", "b1"], true)],
     ["enP@GO", "enA@GO", "ena1@GO", "enB@GO", "enb1@GO"]) := by decide

/-! ## 3. children exit before parents, parents enter before children -/

/-- *Clause "a state's exit actions run before those of its ancestors".* In `sortExit m xs` (the exit
    list of every external plan, `plan_exits_sorted`) a state never comes before one of its strict
    descendants: the list is ordered by non-increasing depth. -/
theorem exit_children_first (m : Machine) (xs l1 l2 : List Path) (a b : Path)
    (h : sortExit m xs = l1 ++ a :: l2) (hb : b ∈ l2) : ¬ (a <+: b ∧ a ≠ b) :=
  pairwise_split (sortExit_children_first m xs) h hb

theorem exit_depth_order (m : Machine) (xs : List Path) :
    (sortExit m xs).Pairwise (fun a b => b.length ≤ a.length) := sortExit_depth m xs

/-- every plan `planTransition` produces (history targets included) exits in such an order -/
theorem plan_exits_sorted (m : Machine) (cfg : List Path) (hist : List (Path × List Path)) (c : Cand) :
    (planTransition m cfg hist c).exits = [] ∨ ∃ xs, (planTransition m cfg hist c).exits = sortExit m xs :=
  planTransition_exits_sorted m cfg hist c

example : (planOf cY).exits = [["P", "B", "b1"], ["P", "A", "a1"], ["P", "B"], ["P", "A"], ["P"]] := by decide

/-- default descent lists a state before everything below it, and nothing twice -/
theorem enterDefault_parents_first (p : Path) (n : SNode) (hwf : WF n) : NoLaterPrefix (enterDefault p n) :=
  XSM.enterDefault_parents_first p n hwf

/-- *Clause "its entry actions after those of its ancestors".* In the entry list of a transition whose
    explicit path is the chain from the domain down to the target, no state comes before one of its
    strict ancestors. -/
theorem entry_parents_first (root : SNode) (hwf : WF root) (dom tgt : Path) (hd : dom <+: tgt)
    (l1 l2 : List Path) (a b : Path)
    (h : enterStates root (pathToEnter dom tgt) = l1 ++ b :: l2) (ha : a ∈ l2) : ¬ (a <+: b ∧ a ≠ b) :=
  fun hab => pairwise_split (enterStates_chain_parents_first root hwf dom tgt hd) h ha hab.1

/-- the general form (it also covers the combined entry list of a history target, once that list is shown
    parents-first and convex): `_enter_states(L)` is parents-first and duplicate-free whenever `L` is
    parents-first and contains, with two comparable members, every state between them -/
theorem entry_parents_first_general (root : SNode) (hwf : WF root) (L : List Path) (hL : NoLaterPrefix L)
    (hconv : ∀ a ∈ L, ∀ q ∈ L, a <+: q → ∀ p', a <+: p' → p' <+: q → p' ∈ L) :
    NoLaterPrefix (enterStates root L) :=
  enterStates_parents_first root hwf L hL hconv

/-- the same on the plan of a plain-target transition (the plan's entry list *is* `enterStates`, in order) -/
theorem plan_entries_parents_first (m : Machine) (cfg : List Path) (hist : List (Path × List Path)) (c : Cand)
    (tgt : Path) (hwf : WF m.root) (hi : InitOK m.root) (hp : PlainTarget m c tgt) :
    NoLaterPrefix ((planTransition m cfg hist c).entries.map (·.path)) :=
  plain_entries_order m cfg hist c tgt hwf hi hp

example : (planOf cZ).entries.map (·.path) = [["P", "B"], ["P", "B", "b2"]] := by decide
example : enterDefault ["P"] (.mk (mkD .parallel none "P") [
      ("A", .mk (mkD .compound (some "a1") "A") [("a1", .mk (mkD .atomic none "a1") [])]),
      ("B", .mk (mkD .atomic none "B") [])]) = [["P"], ["P", "A"], ["P", "A", "a1"], ["P", "B"]] := by decide

/-! ## 4. never entered while active; entries minus exits = change in activity -/

/-- *Clause "a state is never entered while already active", plan level.* Whatever the configuration,
    every state a plain-target transition enters is either inactive or exited first. -/
theorem never_enter_active (m : Machine) (cfg : List Path) (hist : List (Path × List Path)) (c : Cand)
    (tgt : Path) (hwf : WF m.root) (hi : InitOK m.root) (hp : PlainTarget m c tgt) :
    ∀ e ∈ (planTransition m cfg hist c).entries, e.path ∈ cfg → e.path ∈ (planTransition m cfg hist c).exits :=
  plain_never_enter_active m cfg hist c tgt hwf hi hp

/-- no state is exited twice, none entered twice, only active states are exited -/
theorem exits_entries_nodup (m : Machine) (cfg : List Path) (hist : List (Path × List Path)) (c : Cand)
    (tgt : Path) (hwf : WF m.root) (hi : InitOK m.root) (hp : PlainTarget m c tgt) (hn : cfg.Nodup) :
    (planTransition m cfg hist c).exits.Nodup ∧ ((planTransition m cfg hist c).entries.map (·.path)).Nodup ∧
    ∀ p ∈ (planTransition m cfg hist c).exits, p ∈ cfg :=
  ⟨plain_exits_nodup m cfg hist c tgt hwf hi hp hn, (plain_entries_order m cfg hist c tgt hwf hi hp).nodup,
   plain_exits_active m cfg hist c tgt hwf hi hp⟩

/-- the configuration of the model never holds a state twice (so `cfg.Nodup` above is an invariant) -/
theorem cfg_nodup_preserved (h : Hooks) (hok : HooksOK h) (fl : Flavor) (m : Machine) (ev : Ev) (pl : Plan)
    (s : St) (hn : s.cfg.Nodup) : (execute h fl m ev pl s).cfg.Nodup :=
  execute_nodup h hok fl m ev pl s hn

/-- *The same clause, dynamically.* In a transition that completed, each `enterOne` is applied in a
    state whose configuration does not contain the path being entered. -/
theorem enter_while_inactive (h : Hooks) (hok : HooksOK h) (fl : Flavor) (m : Machine) (ev : Ev) (c : Cand) (s : St)
    (tgt : Path) (hwf : WF m.root) (hi : InitOK m.root) (hp : PlainTarget m c tgt)
    (hst : ∀ q ∈ s.cfg, ∃ n, m.root.at q = some n)
    (hr : (execute h fl m ev (planTransition m s.cfg s.hist c) s).err = none)
    (l1 l2 : List Entry) (e : Entry) (hsplit : (planTransition m s.cfg s.hist c).entries = l1 ++ e :: l2) :
    e.path ∉ (l1.foldl (enterOne h fl m (some ev.type))
      (afterActions h fl m ev (planTransition m s.cfg s.hist c) s)).cfg := by
  obtain ⟨hvx, hve⟩ := plain_valid m s.cfg s.hist c tgt hwf hi hp hst
  exact enter_fresh h hok fl m ev _ s (plain_plan m s.cfg s.hist c tgt hwf hi hp).1 hvx hve hr
    (plain_entries_order m s.cfg s.hist c tgt hwf hi hp).nodup
    (plain_never_enter_active m s.cfg s.hist c tgt hwf hi hp) l1 l2 e hsplit

/-- *Clause "(times its entry actions ran) minus (times its exit actions ran) equals its change in
    activity".* For a plain-target transition that completed, for every state `q`: activity after minus
    activity before = (occurrences of `q` in the entry list) − (occurrences in the exit list); both
    counts are 0 or 1 (`exits_entries_nodup`) and each occurrence is one run of that state's entry
    (exit) list (`phases_unfold`). -/
theorem accounting (h : Hooks) (hok : HooksOK h) (fl : Flavor) (m : Machine) (ev : Ev) (c : Cand) (s : St)
    (tgt : Path) (hwf : WF m.root) (hi : InitOK m.root) (hp : PlainTarget m c tgt)
    (hst : ∀ q ∈ s.cfg, ∃ n, m.root.at q = some n) (hn : s.cfg.Nodup)
    (hr : (execute h fl m ev (planTransition m s.cfg s.hist c) s).err = none) (q : Path) :
    activity (execute h fl m ev (planTransition m s.cfg s.hist c) s).cfg q - activity s.cfg q =
      (((planTransition m s.cfg s.hist c).entries.map (·.path)).count q : Int) -
        ((planTransition m s.cfg s.hist c).exits.count q : Int) :=
  plain_accounting h hok fl m ev c s tgt hwf hi hp hst hn hr q

/-- the set form it is derived from (any external plan that completed) -/
theorem accounting_sets (h : Hooks) (hok : HooksOK h) (fl : Flavor) (m : Machine) (ev : Ev) (pl : Plan) (s : St)
    (hint : pl.internal = false)
    (hvx : ∀ p ∈ pl.exits, (m.defAt p).isSome) (hve : ∀ e ∈ pl.entries, (m.defAt e.path).isSome)
    (hr : (execute h fl m ev pl s).err = none) (q : Path) :
    q ∈ (execute h fl m ev pl s).cfg ↔ (q ∈ s.cfg ∧ q ∉ pl.exits) ∨ q ∈ pl.entries.map (·.path) :=
  (execute_cfg h hok fl m ev pl s hint hvx hve hr).2 q

/-- and the arithmetic step, for arbitrary lists -/
theorem accounting_arith (cfg cfg' X E : List Path)
    (hmem : ∀ q, q ∈ cfg' ↔ (q ∈ cfg ∧ q ∉ X) ∨ q ∈ E)
    (hX : ∀ q ∈ X, q ∈ cfg) (hXn : X.Nodup) (hEn : E.Nodup) (hnea : ∀ q ∈ E, q ∈ cfg → q ∈ X) (q : Path) :
    activity cfg' q - activity cfg q = (E.count q : Int) - (X.count q : Int) :=
  accounting_count cfg cfg' X E hmem hX hXn hEn hnea q

/-- *"Over any processed event".* If an event is processed without error, then for every state the
    change in activity equals `evNet`: entries minus exits of that state summed over the transitions
    the event fires (`evNet_cons`: nothing fires once the machine has finished, stale candidates contribute nothing, every other one contributes
    its plan's counts). `TargetsPlain`: every declared transition is target-less or has a plain target. -/
theorem accounting_event (h : Hooks) (hok : HooksOK h) (fl : Flavor) (m : Machine) (u : UEnv) (ev : Ev)
    (hwf : WF m.root) (hi : InitOK m.root) (ht : TargetsPlain m) (s : St) (hl : Legal m.root s.cfg)
    (hn : s.cfg.Nodup) (sel : List Cand)
    (hs : selectTransitions m s.cfg (u.genv s.ctx ev.type) ev = .ok sel)
    (hr : (processEvent h fl m u ev s).err = none) (q : Path) :
    activity (processEvent h fl m u ev s).cfg q - activity s.cfg q =
      evNet h fl m ev (decide (sel.length > 1)) sel s q :=
  event_accounting h hok fl m u ev hwf hi (selSoundPlain_of_targetsPlain m ht) s hl hn sel hs hr q

theorem evNet_cons (h : Hooks) (fl : Flavor) (m : Machine) (ev : Ev) (multi : Bool) (c : Cand) (cs : List Cand)
    (s : St) (q : Path) :
    evNet h fl m ev multi (c :: cs) s q =
      if s.err.isSome then 0
      else if finished s.status then 0
      else if multi && !(s.cfg.contains c.src) then evNet h fl m ev multi cs s q
      else
        (((planTransition m s.cfg s.hist c).entries.map (·.path)).count q : Int)
          - ((planTransition m s.cfg s.hist c).exits.count q : Int)
          + evNet h fl m ev multi cs (execute h fl m ev (planTransition m s.cfg s.hist c) s) q := rfl

/-- event `Y` in `exCfg`: one transition fires; `b1` is exited once (net −1), `Q` entered once (net +1) -/
example : (match selectTransitions exM exCfg (exU.genv [] "Y") (.user "Y") with
    | .ok sel => some (sel.map (·.t.tid),
        evNet (hooksFlagged exU exM) .sync exM (.user "Y") (decide (sel.length > 1)) sel exS ["P", "B", "b1"],
        evNet (hooksFlagged exU exM) .sync exM (.user "Y") (decide (sel.length > 1)) sel exS ["Q"])
    | .error _ => none) = some ([1], -1, 1) := by decide

/-- `a1 -X-> a2`: `a1` −1, `a2` +1, `B` 0 -/
example : (activity (run exU .sync "X" cX).cfg a1 - activity exCfg a1,
           activity (run exU .sync "X" cX).cfg ["P", "A", "a2"] - activity exCfg ["P", "A", "a2"],
           activity (run exU .sync "X" cX).cfg ["P", "B"] - activity exCfg ["P", "B"]) = (-1, 1, 0) := by decide
/-- **The clause does not hold for a transition that fails** (model and library alike: the rollback
    restores the configuration, but the exit actions have run). `a1 -W-> a2` with the unimplemented
    action `nope`: `a1`'s exit list ran once, no entry list ran, yet `a1`'s activity is unchanged. -/
example : (run exUMissing .sync "W" cW).chron = ["exa1@W"] ∧
    activity (run exUMissing .sync "W" cW).cfg a1 - activity exCfg a1 = 0 := by decide

/-! ## 5. frame: nothing outside the subtree of the least common ancestor is touched -/

/-- *Clause "states outside the subtree of the least common ancestor of the transition's source and
    target see no entry, exit … at all".* In a legal configuration with the source active, every state
    exited or entered by a plain-target transition lies in the inclusive subtree of `lcp src tgt`. -/
theorem frame (m : Machine) (cfg : List Path) (hist : List (Path × List Path)) (c : Cand) (tgt : Path)
    (hwf : WF m.root) (hi : InitOK m.root) (hp : PlainTarget m c tgt)
    (hL : Legal m.root cfg) (hsrc : c.src ∈ cfg) (q : Path)
    (hq : q ∈ (planTransition m cfg hist c).exits ∨ q ∈ (planTransition m cfg hist c).entries.map (·.path)) :
    lcp c.src tgt <+: q :=
  plain_frame m cfg hist c tgt hwf hi hp hL hsrc q hq

/-- the set-level core: it needs legality only when the target is the source or one of its ancestors
    (then the domain is the target's parent and the one-active-child rule is what confines the exits) -/
theorem frame_sets (root : SNode) (hwf : WF root) (c : List Path) (hL : Legal root c) (src tgt : Path)
    (hsrc : src ∈ c) (q : Path)
    (hq : q ∈ Spec.exitSet root c (Spec.domain src tgt) tgt ∨
          q ∈ enterStates root (pathToEnter (Spec.domain src tgt) tgt)) :
    lcp src tgt <+: q :=
  frame_lca root hwf c hL src tgt hsrc q hq

/-- whatever the outcome (completed or rolled back), a state outside that subtree is in no exit or
    entry list and keeps its activity -/
theorem frame_untouched (h : Hooks) (hok : HooksOK h) (fl : Flavor) (m : Machine) (ev : Ev) (c : Cand) (s : St)
    (tgt : Path) (hwf : WF m.root) (hi : InitOK m.root) (hp : PlainTarget m c tgt)
    (hL : Legal m.root s.cfg) (hsrc : c.src ∈ s.cfg) (q : Path) (hq : ¬ lcp c.src tgt <+: q) :
    q ∉ (planTransition m s.cfg s.hist c).exits ∧
    q ∉ (planTransition m s.cfg s.hist c).entries.map (·.path) ∧
    (q ∈ (execute h fl m ev (planTransition m s.cfg s.hist c) s).cfg ↔ q ∈ s.cfg) :=
  plain_untouched h hok fl m ev c s tgt hwf hi hp hL hsrc q hq

/-- *Clause "in particular sibling parallel regions".* When the transition domain is a parallel state,
    everything exited or entered lies in the region leading to the target (no legality needed): sibling
    regions see neither exit nor entry. -/
theorem frame_sibling_regions (m : Machine) (cfg : List Path) (hist : List (Path × List Path)) (c : Cand)
    (tgt : Path) (hwf : WF m.root) (hi : InitOK m.root) (hp : PlainTarget m c tgt)
    (hpar : m.kindAt (Spec.domain c.src tgt) = some .parallel) (q : Path)
    (hq : q ∈ (planTransition m cfg hist c).exits ∨ q ∈ (planTransition m cfg hist c).entries.map (·.path)) :
    regionOf (Spec.domain c.src tgt) tgt <+: q ∧
    ∃ k, regionOf (Spec.domain c.src tgt) tgt = Spec.domain c.src tgt ++ [k] :=
  ⟨plain_region m cfg hist c tgt hwf hi hp hpar q hq,
   regionOf_snoc _ _ (domain_prefix_tgt c.src tgt) (fun e => domain_ne_tgt c.src tgt hp.nonroot e)⟩

/-- the domain is the target's parent when the target is the source or an ancestor of it, and the
    longest common prefix of source and target otherwise -/
theorem domain_is (src tgt : Path) :
    (tgt <+: src ∧ Spec.domain src tgt = tgt.dropLast ∧ lcp src tgt = tgt) ∨
    (¬ tgt <+: src ∧ Spec.domain src tgt = lcp src tgt) := domain_cases src tgt

/-- `frame` instantiated: everything `a1 -X-> a2` exits or enters lies below `A` -/
example : ∀ q, q ∈ (planOf cX).exits ∨ q ∈ (planOf cX).entries.map (·.path) → ["P", "A"] <+: q :=
  fun q hq => frame exM exCfg [] cX ["P", "A", "a2"] exWF exInitOK exPlainX exLegal (by decide) q hq
/-- `a1 -X-> a2` inside region `A`: the least common ancestor is `A`, region `B` is untouched -/
example : lcp a1 ["P", "A", "a2"] = ["P", "A"] ∧ (planOf cX).exits = [a1] ∧
    (planOf cX).entries.map (·.path) = [["P", "A", "a2"]] := by decide
/-- **a transition from one region into another**: the domain is the parallel state `P`, the exit set is
    scoped to the TARGET's region `B` — the source `a1` is not exited and stays active (the library does
    the same: `_compute_states_to_exit` keeps only the branch containing the target) -/
example : Spec.domain a1 ["P", "B", "b2"] = ["P"] ∧ (planOf cZ).exits = [["P", "B", "b1"], ["P", "B"]] ∧
    (run exU .sync "Z" cZ).cfg = [[], ["P"], ["P", "A"], a1, ["P", "B"], ["P", "B", "b2"]] := by decide

/-! ## 6. a target-less (internal) transition runs its actions only -/

/-- for `pl.internal = true`, `execute` changes neither the configuration nor the recorded history, and
    appends only the records of `pl.actions` (none when the plan carries a resolution error) followed by
    the observer record (absent when the transition failed) -/
theorem internal_runs_actions_only (h : Hooks) (hok : HooksOK h) (htr : HooksTraceOK h) (fl : Flavor)
    (m : Machine) (ev : Ev) (pl : Plan) (s : St) (hint : pl.internal = true) :
    (execute h fl m ev pl s).cfg = s.cfg ∧ (execute h fl m ev pl s).hist = s.hist ∧
    (execute h fl m ev pl s).chron =
      s.chron ++ (match pl.err with | some _ => [] | none => actRecords h pl.actions ev.type s)
        ++ obsPart h fl m ev pl s :=
  ⟨execute_internal_cfg h hok fl m ev pl s hint, execute_internal_hist h htr fl m ev pl s hint,
   execute_internal_chron h htr fl m ev pl s hint⟩

example : (planOf cI).internal = true ∧ (run exU .sync "I" cI).cfg = exCfg ∧
    (run exU .sync "I" cI).chron = ["ti@I", "#t:m,m.P,m.P.A,m.P.A.a1,m.P.B,m.P.B.b1"] := by decide

/-! ## 7. the exit set leaves the configuration one state at a time -/

/-- once the error flag is set the rest of the exit set is not processed -/
theorem exits_stop_at_an_error (h : Hooks) (fl : Flavor) (m : Machine) (ev : Option String) :
    ∀ (xs : List Path) (s : St), s.err.isSome = true → xs.foldl (exitOne h fl m ev) s = s := by
  intro xs
  induction xs with
  | nil => intro s _; rfl
  | cons a xs ih =>
    intro s hs
    have h1 : exitOne h fl m ev s a = s := by unfold exitOne; simp [hs]
    rw [List.foldl_cons, h1]
    exact ih s hs

/-- **a state leaves the configuration only after its OWN exit actions ran.** After the first part `pre` of an exit
    set has been processed without an escaping error, the configuration is the one the transition started from minus
    exactly `pre`: every state that is exited later - the ancestors and the sibling regions of what went first - is
    still active, and is what the exit actions of the next state `p` see (`stateIn`, `choose`):
    `exitOne … p` runs `p`'s exit actions in that state and removes `p` afterwards -/
theorem exit_set_leaves_one_by_one (h : Hooks) (hok : HooksOK h) (fl : Flavor) (m : Machine) (ev : Option String) :
    ∀ (pre : List Path) (s : St), (∀ p ∈ pre, (m.defAt p).isSome = true) →
      (pre.foldl (exitOne h fl m ev) s).err = none →
      (pre.foldl (exitOne h fl m ev) s).cfg = s.cfg.filter (fun q => !pre.contains q) := by
  intro pre
  induction pre with
  | nil =>
    intro s _ _
    exact (List.filter_eq_self.2 (fun _ _ => rfl)).symm
  | cons a pre ih =>
    intro s hdef herr
    rw [List.foldl_cons] at herr ⊢
    cases hs : s.err with
    | some e =>
      have hs' : s.err.isSome = true := by simp [hs]
      have h1 : exitOne h fl m ev s a = s := by unfold exitOne; simp [hs']
      rw [h1, exits_stop_at_an_error h fl m ev pre s hs'] at herr
      rw [hs] at herr; cases herr
    | none =>
      obtain ⟨d, hd⟩ := Option.isSome_iff_exists.1 (hdef a (by simp))
      have h1 : exitOne h fl m ev s a = delActive a (execActions h d.exit (exitEvName fl m a ev) s) := by
        unfold exitOne; simp [hs, hd]
      rw [h1] at herr ⊢
      rw [ih _ (fun p hp => hdef p (by simp [hp])) herr]
      simp only [delActive, execActions_cfg h hok, List.filter_filter]
      apply List.filter_congr
      intro q _
      by_cases hqa : q = a
      · subst hqa; simp
      · have : (q != a) = true := by simp [hqa]
        simp [hqa, this]

/-- … in particular the state whose exit actions run next is itself still active then -/
theorem exiting_state_active_during_its_exit_actions (h : Hooks) (hok : HooksOK h) (fl : Flavor) (m : Machine)
    (ev : Option String) (pre : List Path) (p : Path) (s : St) (hdef : ∀ q ∈ pre, (m.defAt q).isSome = true)
    (herr : (pre.foldl (exitOne h fl m ev) s).err = none) (hp : p ∈ s.cfg) (hnew : p ∉ pre) (d : StateDef)
    (hd : m.defAt p = some d) :
    p ∈ (pre.foldl (exitOne h fl m ev) s).cfg ∧
    exitOne h fl m ev (pre.foldl (exitOne h fl m ev) s) p =
      delActive p (execActions h d.exit (exitEvName fl m p ev) (pre.foldl (exitOne h fl m ev) s)) := by
  refine ⟨?_, ?_⟩
  · rw [exit_set_leaves_one_by_one h hok fl m ev pre s hdef herr]
    simp [List.mem_filter, hp, hnew]
  · generalize pre.foldl (exitOne h fl m ev) s = sk at herr
    unfold exitOne
    simp [herr, hd]

/-- the hypotheses are met on the example, and the statement says something: after the two leaves of the exit set of
    `Y` have been exited, the regions `P.A`, `P.B` and `P` itself - exited later in the same transition - are still
    in the configuration their exit actions see -/
example : (((planOf cY).exits.take 2).foldl (exitOne (hooksFlagged exU exM) .sync exM (some "Y")) exS).cfg =
      [[], ["P"], ["P", "A"], ["P", "B"]] ∧
    (((planOf cY).exits.take 2).foldl (exitOne (hooksFlagged exU exM) .sync exM (some "Y")) exS).err.isNone = true ∧
    (∀ p ∈ (planOf cY).exits, (exM.defAt p).isSome = true) := by decide

end XSM.C03
