import Xsm.Proofs.Runtime
import Xsm.Proofs.RuntimeEx
/-!
# C08 — delayed (`after`) transitions fire when due and never after the state was left

"A delayed transition is taken only if its state has been continuously active for at least the whole
delay since its most recent entry (and its guard passes when it elapses), at most once per activation,
and — when nothing else is occupying the interpreter — no later than the delay; re-entering the state
restarts the delay, several delays on one state are independent, and named or computed delays are
resolved at entry. Leaving the state or stopping the interpreter before the delay elapses guarantees
that transition never fires, whatever the interleaving of timer expiry, already-queued events and slow
actions."

## What the statements are about

The executable runtime model `Xsm/Model/Runtime.lean` (namespace `XSM`): an `RT` wraps the engine
state `St` with virtual time, the armed timers, the live service tasks and an agenda of external
inputs. `runRT fl m u r agenda horizon fuel` is a whole run of engine `fl` (sync / async) of machine
`m` with user code `u`, timing data `r` (named delays, services, durations of slow actions) and
external inputs `agenda`. It re-runs the ENGINE model's own `exitOne` / `enterOne` / `execActions`
(`rt_projects_to_engine` below) and adds what the code does in `_cancel_state_tasks` /
`_schedule_state_tasks` / `_after_timer_task` / `_invoke_service_task` / `stop`, in the code's order.
Time passes only where the interpreter's task is suspended (slow action, the `await` in
`cancel_by_owner`, idle); what happens meanwhile is the interleaving handler `window`.

All theorems are for ALL machines, ALL user code (`UEnv`), ALL timing data (`REnv`), ALL agendas, both
engines, with no bound on anything. Ghost fields: `acts` (activation counter per state), `fired`
(delivered timers), `clean` (no rollback and no entry of an already active state happened).

## Proved

* `timers_current` — THE invariant, after every run: every armed timer (and every live service task)
  belongs to the CURRENT activation of an ACTIVE owner; `invariant_preserved` is the same statement for
  each single step (`Keeps`), with the handler abstract.
* `after_sound` — an expiry is delivered only for an armed timer, at a time ≥ arming time + delay,
  the delay being the one resolved at arming; by the invariant the owner is active and has not been
  left since the timer was armed (`after_sound_quiescent`: if the interpreter is idle the expiry is the
  next event it processes, in that very configuration).
* `after_once_per_activation` — a delivered timer is never armed again and never delivered twice, and
  per (state, ACTIVATION, DELAY KEY) at most one expiry is ever delivered (and no second timer is armed
  for a key whose expiry was delivered): the transition set of a delay key gets at most one expiry per
  activation of its state. One `_schedule_state_tasks` call arms exactly one timer per DELAY KEY whose
  delay resolves, however many guarded alternatives the key lists (`one_timer_per_delay_key`), and it
  is called exactly once per entry (`one_schedule_per_entry`).
* `never_after_exit_or_stop` — after the exit step of `p` NO timer (and no service task) of `p` is
  left — all of them (`independent_timers`: and nobody else's is touched; delivering one timer leaves
  every other one armed); after `stop()` nothing at all is left.
* `reentry_restarts` — an entry starts a new activation (`+1`) and arms its timers AT the time of
  entry for that activation; timers of the previous activation are gone by `never_after_exit`.
* `delay_resolved_at_entry` — the delay a timer carries is `resolveDelay` of its key at arming
  time: numeric keys are themselves, named ones are looked up, unresolvable ones arm nothing.
* `rt_projects_to_engine` — when nothing is delivered during suspensions (`Quiet`) and the machine
  invokes nothing, the runtime layer's transition / event / drain functions act on the `St` component
  exactly like the engine model's, so every theorem about the engine model transfers.

## Disproved (the property is FALSE of model and code) — finding F6

The invariant is about ARMED timers. An expiry that has already been DELIVERED sits in the event
queue as an `AfterEvent` carrying only a type string; the queue is not purged on exit, and the
candidate collection matches it by type. Hence:
* `stale_queued_event_fires` (F6, `decide`d on `RTEx.mAfter`): with the expiry queued behind an event
  that re-enters the owner, the transition fires at t = 110 ms, 0 ms after the re-entry, although the
  delay is 100 ms; the delivered timer belonged to activation 1, the state is in activation 2.
  `RTEx.runAfterIdle` shows the same inputs restart the delay when the interpreter is not busy.
It is reproduced on the real code by the check (`findings/F6_*.json`). `after_once_per_activation` above is
therefore a statement about expiries DELIVERED (timers), not about events processed: a stale queued
expiry of an earlier activation can still be matched by a later one.

## Disproved for a stop that lands INSIDE a macrostep — findings F73 / F73s (C14: F72)

`never_after_stop` is a statement about `stopRT` itself. `stop()` can arrive while the interpreter's own task is suspended inside a
macrostep (`window`); the rest of that macrostep then runs on the stopped interpreter and `scheduleRT` arms the timers of the
states it enters — behind the stop, with nothing left to cancel them:
* `stop_inside_macrostep_arms_tasks` (`decide`d on `RTEx.mStop` / `RTEx.mStopSync`): after the run the status is `stopped` AND a
  timer is armed (async: no slow action needed, the stop shares its instant with an input and lands in the `await` of
  `cancel_by_owner`; sync: another thread stops the interpreter while a blocking exit action runs); the timer expires later and its
  `send` is refused. The same stop between macrosteps leaves nothing.
The real engines produce the same record lists (`findings/F73_*.json`, `F73b_*.json`, `F73s_*.json`; monitor rule
`task-alive-after-stop`). What the model does NOT describe: the async engine's stop() CANCELS the run loop once `cancel_all()` has
been awaited, which cuts the macrostep short at its next suspension point — the model always lets it finish; such runs are
compared up to the stop only (`c08.compare`).

## Repaired in the library — finding F55
One delay key with several guarded alternatives used to arm one timer PER ALTERNATIVE, all with the same
event type; each expiry selected the first alternative whose guard passes, so the winning (targetless)
alternative ran once per listed alternative in ONE activation. The library now arms one timer per delay
key (`for t_def in transitions[:1]`); the model follows (`afterArms`), the former counterexample
theorem is `alternatives_fire_once_fixed` on the same witness (`RTEx.mAlts`: the winner runs once), and
the per-(activation, delay key) clause of `after_once_per_activation` is what the repair made provable.

## Only validated, not proved

* that the model is the code: `harness/xsmverif/c08.py` runs the same cases through `driver_rt` and the
  real engines on a virtual clock and compares the complete time-stamped record lists;
* "the guard passes when it elapses" and "no later than the delay when idle": the first is the engine's
  selection (C02/C06), the second is checked by the monitor on the real code (virtual time: exactly at
  the deadline);
* runs with a rollback or an entry of an already active state are outside `clean`; the monitor found
  the code violating the property there (finding F56, `rollback` profile).

## What the model cannot exhibit

Real clocks and OS scheduling; GIL-level interleavings of the sync engine's timer threads (the model
and the shim run one thread at a time); asyncio internals beyond "timer handles fire in (deadline,
creation) order, ready callbacks are FIFO". (An external event arriving while `start()` is still
inside a slow entry action IS in the model and in the generator since the library creates the run loop
only after the initial entry has settled — `loopCreated`: the event waits in the queue; `stop()` during
`start()` IS generated since F72 (`stopin` profiles): it is a stop inside the initial macrostep.)
-/
namespace XSM.C08
open XSM XSM.RTP

/-! ## 1. the invariant -/

/-- *"every armed timer belongs to the CURRENT activation of an ACTIVE owner"*, after every run
    (same for live service tasks: see C09). -/
theorem timers_current (fl : Flavor) (m : Machine) (u : UEnv) (r : REnv) (agenda : List (Nat × ExtOp)) (horizon fuel : Nat)
    (hc : (runRT fl m u r agenda horizon fuel).clean = true) :
    ∀ t ∈ (runRT fl m u r agenda horizon fuel).timers,
      t.owner ∈ (runRT fl m u r agenda horizon fuel).st.cfg ∧
      t.act = actOf (runRT fl m u r agenda horizon fuel).acts t.owner ∧
      t.armed ≤ (runRT fl m u r agenda horizon fuel).now :=
  fun t ht => ⟨((inv_runRT fl m u r agenda horizon fuel hc).cur t ht).1, ((inv_runRT fl m u r agenda horizon fuel hc).cur t ht).2,
    (inv_runRT fl m u r agenda horizon fuel hc).armed t ht⟩

/-- the invariant is kept by every single step, for ANY window-like interleaving handler: one
    transition (exit steps with their cancels, actions, entry steps with their schedules, rollback),
    one event, the run loops, an external input, a wake-up, letting time pass. -/
theorem invariant_preserved (c : RCx) (hw : WndOK c) (h : Hooks) (hok : HooksOK h) (rt : RT) (hi : Inv rt) :
    (∀ ev pl, Inv (executeRT c h ev pl rt)) ∧ (∀ ev, Inv (processEventRT c h ev rt)) ∧
    (∀ q, Inv (asyncStepRT c q rt)) ∧ (∀ e, Inv (syncSendRT c e rt)) ∧
    (∀ op, Inv (extIdle c op rt)) ∧ (∀ T fuel, Inv (advanceTo c T fuel rt)) ∧ (∀ d, Inv (c.wnd d rt)) :=
  ⟨fun ev pl => (keeps_execute c hw h hok ev pl rt).inv hi, fun ev => (keeps_processEvent c hw h hok ev rt).inv hi,
   fun q => (keeps_asyncStep c hw q rt).inv hi, fun e => (keeps_syncSend c hw e rt).inv hi,
   fun op => (keeps_extIdle c hw op rt).inv hi, fun T fuel => (keeps_advanceTo c hw T fuel rt).inv hi,
   fun d => (hw d rt).inv hi⟩

/-- the real handler `window` (timers expire, services finish, external inputs arrive: all only
    enqueue) is window-like -/
theorem window_ok (fl : Flavor) (m : Machine) (u : UEnv) (r : REnv) : WndOK (mkCx fl m u r) := wndOK_mkCx fl m u r

/-! ## 2. soundness of a delivery -/

/-- *Clause "taken only if its state has been continuously active for at least the whole delay since
    its most recent entry".* Expiries are delivered by `fireWakeQ`/`fireIdle` only for the earliest
    armed timer `t`, after the clock has been set to its deadline (`windowLoop`, `advanceTo`): at that
    moment the owner is active, in the activation in which `t` was armed (so it has not been left in
    between: every entry increments the counter, `reentry_restarts`), and
    `armed + delay ≤ now` with `delay` the value resolved at arming. -/
theorem after_sound (rt : RT) (g : Good rt) (t : Timer) (ht : t ∈ rt.timers) :
    t ∈ (setNow t.due rt).timers ∧ t.owner ∈ (setNow t.due rt).st.cfg ∧
      t.act = actOf (setNow t.due rt).acts t.owner ∧ t.armed + t.delay ≤ (setNow t.due rt).now :=
  ⟨ht, (g.cur t ht).1, (g.cur t ht).2, setNow_now_ge t.due rt⟩

/-- only armed timers are ever delivered: the wake-up chosen by the loops is one of `rt.timers` -/
theorem delivered_was_armed (rt : RT) (uT uS : Nat) (t : Timer) (h : dueWake rt uT uS = some (.tm t)) :
    t ∈ rt.timers ∧ lexLt t.due t.wseq uT uS = true :=
  ⟨minWake_tm rt t (dueWake_min rt uT uS _ h), dueWake_due rt uT uS _ h⟩

/-- *Quiescent delivery.* If the async interpreter is idle (empty queue, running), delivering the
    expiry makes it the one queued event, in an unchanged configuration — in which, by the
    invariant, the owner is active in the activation that armed the timer. -/
theorem after_sound_quiescent (rt : RT) (g : Good rt) (t : Timer) (ht : t ∈ rt.timers)
    (hidle : rt.st.queue = []) (hrun : rt.st.status = "running") :
    (fireTimerQ .async t rt).st.queue = [⟨.after t.evType, false⟩] ∧
    (fireTimerQ .async t rt).st.cfg = rt.st.cfg ∧ t.owner ∈ (fireTimerQ .async t rt).st.cfg := by
  obtain ⟨h1, h2⟩ := fireTimerQ_async_queue t rt hrun
  exact ⟨by rw [h1, hidle]; rfl, h2, h2 ▸ (g.cur t ht).1⟩

/-! ## 3. at most once -/

/-- *Clause "at most once per activation" — at the level of timers.* After every run: the delivered
    timers are pairwise different tasks, and none of them is armed any more (so none can be delivered
    again); moreover, per (state, activation of that state, delay key) — `tkey t = (t.owner, t.act,
    t.slot)`, `slot` being the index of the delay key among the state's arming keys — AT MOST ONE expiry
    has been delivered, at most one timer is armed, and no timer is armed for a key whose expiry was
    already delivered in that activation. -/
theorem after_once_per_activation (fl : Flavor) (m : Machine) (u : UEnv) (r : REnv) (agenda : List (Nat × ExtOp)) (horizon fuel : Nat)
    (hc : (runRT fl m u r agenda horizon fuel).clean = true) :
    ((runRT fl m u r agenda horizon fuel).fired.map (·.seq)).Nodup ∧
    ((runRT fl m u r agenda horizon fuel).timers.map (·.seq)).Nodup ∧
    (∀ t ∈ (runRT fl m u r agenda horizon fuel).timers, ∀ f ∈ (runRT fl m u r agenda horizon fuel).fired, t.seq ≠ f.seq) ∧
    ((runRT fl m u r agenda horizon fuel).fired.map (fun t => (t.owner, t.act, t.slot))).Nodup ∧
    ((runRT fl m u r agenda horizon fuel).timers.map (fun t => (t.owner, t.act, t.slot))).Nodup ∧
    (∀ t ∈ (runRT fl m u r agenda horizon fuel).timers, ∀ f ∈ (runRT fl m u r agenda horizon fuel).fired,
      (t.owner, t.act, t.slot) ≠ (f.owner, f.act, f.slot)) ∧
    (∀ f ∈ (runRT fl m u r agenda horizon fuel).fired, f.act ≤ actOf (runRT fl m u r agenda horizon fuel).acts f.owner) :=
  ⟨(inv_runRT fl m u r agenda horizon fuel hc).ndF, (inv_runRT fl m u r agenda horizon fuel hc).ndT,
   (inv_runRT fl m u r agenda horizon fuel hc).disj,
   (inv_runRT fl m u r agenda horizon fuel hc).keys.1, (inv_runRT fl m u r agenda horizon fuel hc).keys.2.1,
   (inv_runRT fl m u r agenda horizon fuel hc).keys.2.2, (inv_runRT fl m u r agenda horizon fuel hc).actF⟩

/-- one `_schedule_state_tasks` call arms exactly ONE timer PER DELAY KEY of the state whose delay resolves
    (and that lists a transition) and none for the other keys, in key order — however many guarded
    alternatives a key lists: the new timers are, key by key, `armOfKey` of the key (the event type of the
    key's first alternative — all alternatives of a key share `after.<delay>.<id>` — with the resolved
    delay), their `slot`s number the arming keys 0, 1, …, so there are at most as many as delay keys, and
    all are for the current activation and armed at the current time -/
theorem one_timer_per_delay_key (c : RCx) (h : Hooks) (p : Path) (d : StateDef) (rt : RT) :
    ∃ new, (scheduleRT c h p d rt).timers = rt.timers ++ new ∧
      new.map (fun t => (t.evType, t.delay)) = d.after.filterMap (armOfKey c.r) ∧
      new.map (·.slot) = List.range' 0 (d.after.filterMap (armOfKey c.r)).length ∧
      new.length ≤ d.after.length ∧
      ∀ t ∈ new, t.owner = p ∧ t.act = actOf rt.acts p ∧ t.armed = rt.now := by
  refine ⟨_, scheduleRT_timers c h p d rt, ?_, ?_, ?_, fun t ht => ?_⟩
  · rw [← afterArms_eq_filterMap]; exact (mkTimers_data c.fl p _ rt.now rt.nextId _ 0).1
  · rw [← afterArms_eq_filterMap]; exact (mkTimers_data c.fl p _ rt.now rt.nextId _ 0).2
  · have := congrArg List.length (mkTimers_data c.fl p (actOf rt.acts p) rt.now rt.nextId (afterArms c.r d.after) 0).1
    rw [List.length_map] at this
    rw [this]; exact afterArms_length_le c.r d.after
  · obtain ⟨a1, a2, a3, _⟩ := (mkTimers_spec c.fl p (actOf rt.acts p) rt.now rt.nextId _ 0).1 t ht
    exact ⟨a1, a2, a3⟩

/-- what a delay key arms: nothing if its delay does not resolve or it lists no transition, else the one
    timer (event type of its first alternative, resolved delay) -/
theorem armOfKey_cases (r : REnv) (kv : String × List Trans) :
    armOfKey r kv = match resolveDelay r kv.1, kv.2 with
      | some d, t :: _ => some (t.event, d)
      | _, _ => none := rfl

/-- `_schedule_state_tasks` is called exactly once per entered state: the entries of a step list are
    the plan's entries, and every schedule step comes after the entry of its state -/
theorem one_schedule_per_entry (fl : Flavor) (es : List Entry) :
    entersOf (entrySteps fl es) = es ∧ StepsOK [] (entrySteps fl es) ∧
    entrySteps .async es = es.flatMap (fun e => [.enter e, .sched e.path]) :=
  ⟨entersOf_entrySteps fl es, stepsOK_entrySteps fl es, rfl⟩

/-! ## 4. never after exit or stop; independence -/

/-- *Clause "leaving the state … guarantees that transition never fires" — at timer level.* The
    cancel of `p` removes EVERY timer and service task of `p` … -/
theorem never_after_exit (c : RCx) (hw : WndOK c) (p : Path) (rt : RT) :
    (∀ t ∈ (cancelOwner c p rt).timers, t.owner ≠ p) ∧ (∀ i ∈ (cancelOwner c p rt).invs, i.owner ≠ p) :=
  cancelOwner_none c hw p rt

/-- … and the async exit step (cancel, possibly slow exit actions, removal) ends with none of them. -/
theorem never_after_exit_step (c : RCx) (hw : WndOK c) (hfl : c.fl = .async) (h : Hooks) (ev : Option String) (rt : RT) (p : Path)
    (d : StateDef) (hd : c.m.defAt p = some d) (he : rt.st.err.isSome = false) :
    (∀ t ∈ (exitStepRT c h ev rt p).timers, t.owner ≠ p) ∧ (∀ i ∈ (exitStepRT c h ev rt p).invs, i.owner ≠ p) :=
  exitStep_async_none c hw hfl h ev rt p d hd he

/-- the sync engine cancels the tasks of the WHOLE exit set before the first exit action runs (`_exit_states`: one loop
    of `_cancel_state_tasks`, then the exit loop): the state in which the exit steps of `ps` start has no timer and no
    service task owned by any state of `ps` - so no deadline of an ancestor can fall into a slow exit action of one of
    its descendants and be queued for the activation that the same transition is about to create -/
theorem sync_exit_set_cancelled_up_front (c : RCx) (hfl : c.fl = .sync) (h : Hooks) (ev : Option String) (ps : List Path) (rt : RT)
    (he : rt.st.err.isSome = false) :
    exitAllRT c h ev ps rt = ps.foldl (exitStepRT c h ev) (ps.foldl (fun rt p => cancelOwner c p rt) rt) ∧
    (∀ t ∈ (ps.foldl (fun rt p => cancelOwner c p rt) rt).timers, t ∈ rt.timers ∧ t.owner ∉ ps) ∧
    (∀ i ∈ (ps.foldl (fun rt p => cancelOwner c p rt) rt).invs, i ∈ rt.invs ∧ i.owner ∉ ps) := by
  have hc : ∀ (p : Path) (r : RT), (cancelOwner c p r).timers = r.timers.filter (fun t => t.owner ≠ p) ∧
      (cancelOwner c p r).invs = r.invs.filter (fun i => i.owner ≠ p) := by
    intro p r
    unfold cancelOwner
    simp only [hfl]
    split <;> exact ⟨rfl, rfl⟩
  refine ⟨by unfold exitAllRT; simp [hfl, he], ?_, ?_⟩
  · clear he
    induction ps generalizing rt with
    | nil => intro t ht; exact ⟨ht, by simp⟩
    | cons p ps ih =>
      intro t ht
      rw [List.foldl_cons] at ht
      obtain ⟨h1, h2⟩ := ih (cancelOwner c p rt) t ht
      rw [(hc p rt).1, List.mem_filter] at h1
      refine ⟨h1.1, ?_⟩
      have : t.owner ≠ p := by simpa using h1.2
      simp [this, h2]
  · clear he
    induction ps generalizing rt with
    | nil => intro i hi; exact ⟨hi, by simp⟩
    | cons p ps ih =>
      intro i hi
      rw [List.foldl_cons] at hi
      obtain ⟨h1, h2⟩ := ih (cancelOwner c p rt) i hi
      rw [(hc p rt).2, List.mem_filter] at h1
      refine ⟨h1.1, ?_⟩
      have : i.owner ≠ p := by simpa using h1.2
      simp [this, h2]

/-- `stop()` leaves no timer and no service task — at the moment it is done. (What the interpreter's own task does afterwards,
    when the stop arrived INSIDE a macrostep, is `stop_inside_macrostep_arms_tasks` below: findings F72 – F74.) -/
theorem never_after_stop (rt : RT) (h1 : rt.st.status ≠ "uninitialized") (h2 : rt.st.status ≠ "stopped") :
    (stopRT rt).timers = [] ∧ (stopRT rt).invs = [] ∧ (stopRT rt).st.status = "stopped" :=
  stop_clears rt h1 h2

set_option maxRecDepth 100000 in
/-- **F73 / F73s (C14: F72) — `never_after_stop` is about `stopRT` ITSELF; it says nothing about what the interpreter's own task
    does AFTER it when the stop arrived inside a macrostep.** `stop()` is an external input like any other: it can arrive while the
    interpreter's task is suspended inside a macrostep (`window`: the `await` of `cancel_by_owner`, a slow action), and the rest
    of that macrostep then runs on the stopped interpreter — `enterStepRT` / `scheduleRT` do not look at the status, exactly like
    `_enter_states` / `_schedule_state_tasks`.
    async (`RTEx.mStop`: `s` has `after 300 → u`, `R` re-enters `s`; no slow action): `R` and `stop` at t = 50. The run loop takes
    `R`, suspends in the cancellation of the timer of `s`, the stop lands there (`stopRT`: status `stopped`, no timer left), then
    `s` is exited, re-entered and its timer ARMED AGAIN at t = 50: after the run the interpreter is stopped and owns a live timer
    (of activation 2), which expires at t = 350 — its `send` is refused. The same `stop` one millisecond later, between
    macrosteps, leaves nothing.
    sync (`RTEx.mStopSync`: the exit of `a` blocks for 50 ms, `b` has `after 300` and invokes a plain service): `GO` at t = 100,
    `stop` from another thread at t = 120; at t = 150 the macrostep goes on: `b` is entered, its timer armed and its service CALLED
    on the stopped interpreter.
    Reproduced on the real engines with identical record lists (`findings/F73_*.json`, `F73s_*.json`). -/
theorem stop_inside_macrostep_arms_tasks :
    ((RTEx.runStopInside.flush.log.reverse.filter (fun r => r.1 = 50)).map (·.2) =
      ["send:R:running", "#recv:R", "stop", "ex:s@R", "t:s:R@R", "en:s@R", "arm:m.s:after.300.m.s/300", "#t:m,m.s"] ∧
     RTEx.runStopInside.st.status = "stopped" ∧
     RTEx.runStopInside.timers.map (fun t => (t.owner, t.evType, t.armed, t.delay, t.act)) = [(["s"], "after.300.m.s", 50, 300, 2)]) ∧
    ((RTEx.runStopInsideLate.flush.log.reverse.filter (fun r => r.1 = 350)).map (·.2) = ["send:after.300.m.s:stopped"] ∧
     RTEx.runStopInsideLate.fired.map (fun t => (t.act, t.armed, t.delay)) = [(2, 50, 300)] ∧
     RTEx.runStopInsideLate.st.status = "stopped") ∧
    (RTEx.runStopBetween.timers.length = 0 ∧ RTEx.runStopBetween.invs.length = 0 ∧ RTEx.runStopBetween.st.status = "stopped") ∧
    ((RTEx.runStopSync.flush.log.reverse.filter (fun r => 120 ≤ r.1)).map (·.2) =
      ["stop", "slow@GO", "ex:a@GO", "t:a:GO@GO", "en:b@GO", "arm:m.b:after.300.m.b/300", "svc-start:ib0", "svc-end:ib0:ok",
       "send:done.invoke.ib0:stopped", "#t:m,m.b"] ∧
     RTEx.runStopSync.st.status = "stopped" ∧
     RTEx.runStopSync.timers.map (fun t => (t.owner, t.evType, t.armed, t.delay)) = [(["b"], "after.300.m.b", 150, 300)]) := by decide

/-- *Clause "several delays on one state are independent".* Delivering one timer removes exactly
    that timer: every other one (of the same state or any other) stays armed. -/
theorem independent_timers (fl : Flavor) (t : Timer) (rt : RT) :
    (∀ x ∈ rt.timers, x.seq ≠ t.seq → x ∈ (fireTimerQ fl t rt).timers) ∧
    (∀ x ∈ (fireTimerQ fl t rt).timers, x.seq ≠ t.seq) :=
  ⟨fun x hx hne => fireTimerQ_others fl t rt x hx hne, fireTimerQ_gone fl t rt⟩

/-! ## 5. re-entry restarts; delays are resolved at entry -/

/-- *Clause "re-entering the state restarts the delay".* An entry begins a new activation … -/
theorem reentry_new_activation (c : RCx) (hw : WndOK c) (h : Hooks) (ev : Option String) (rt : RT) (e : Entry) (d : StateDef)
    (hd : c.m.defAt e.path = some d) (he : rt.st.err.isSome = false) :
    actOf (enterStepRT c h ev rt (.enter e)).acts e.path = actOf rt.acts e.path + 1 :=
  enterStep_bumps c hw h ev rt e d hd he

/-- … whose timers are armed at the time of the schedule step, for that activation: a timer of the
    state now runs `delay` from this entry (timers of the previous activation are gone:
    `never_after_exit_step`). -/
theorem reentry_restarts (c : RCx) (h : Hooks) (p : Path) (d : StateDef) (rt : RT) :
    ∀ t ∈ (scheduleRT c h p d rt).timers, t ∈ rt.timers ∨ (t.owner = p ∧ t.act = actOf rt.acts p ∧ t.armed = rt.now ∧ t.due = rt.now + t.delay) := by
  intro t ht
  rw [scheduleRT_timers] at ht
  rcases List.mem_append.mp ht with h1 | h1
  · exact Or.inl h1
  · obtain ⟨a1, a2, a3, _⟩ := (mkTimers_spec c.fl p (actOf rt.acts p) rt.now rt.nextId _ 0).1 t h1
    exact Or.inr ⟨a1, a2, a3, by simp [Timer.due, a3]⟩

/-- *Clause "named or computed delays are resolved at entry".* What is armed for a state are the pairs
    (event type, delay) of `afterArms`, i.e. for each `after` key whose delay resolves NOW the event
    type of the key's first alternative with that delay … -/
theorem delay_resolved_at_entry (r : REnv) (after : List (String × List Trans)) (x : String × Nat) :
    x ∈ afterArms r after ↔ ∃ kv ∈ after, ∃ d, resolveDelay r kv.1 = some d ∧ ∃ t, kv.2.head? = some t ∧ x = (t.event, d) :=
  mem_afterArms r after x

/-- … where a numeric key is that number of milliseconds and any other key is looked up in the
    delay table (absent ⇒ no timer). The timer keeps the value: `Timer.due = armed + delay`. -/
theorem resolveDelay_cases (r : REnv) (key : String) :
    resolveDelay r key = match numericKey key with | some n => some n | none => r.delays key := rfl

/-! ## 6. the runtime layer projects onto the engine model -/

/-- With nothing delivered during suspensions and no invoked services, one transition, one event, the
    settling loop and both run loops act on the `St` component exactly as the engine model
    (`Xsm/Model/Engine.lean`) — which is re-used, not re-implemented. -/
theorem rt_projects_to_engine (c : RCx) (hq : Quiet c) (hn : NoInvoke c.m) (h : Hooks) (rt : RT) :
    (∀ ev pl, (runPlanRT c h ev pl rt).st = runPlan h c.fl c.m ev pl rt.st) ∧
    (∀ ev pl, (executeRT c h ev pl rt).st = execute h c.fl c.m ev pl rt.st) ∧
    (∀ ev, (processEventRT c h ev rt).st = processEvent h c.fl c.m c.u ev rt.st) ∧
    (∀ fuel, (transientLoopRT c h fuel rt).st = transientLoop h c.fl c.m c.u fuel rt.st) ∧
    (c.fl = .async → ∀ fuel, (asyncDrainRT c fuel rt).st = asyncDrain c.m c.u fuel rt.st) ∧
    (c.fl = .sync → ∀ fuel chained, (drainLoopRT c fuel chained rt).st = drainLoop c.m c.u fuel chained rt.st) :=
  ⟨fun ev pl => runPlan_st c hq hn h ev pl rt, fun ev pl => execute_st c hq hn h ev pl rt,
   fun ev => processEvent_st c hq hn h ev rt, fun fuel => transientLoop_st c hq hn h fuel rt,
   fun hfl fuel => asyncDrain_st c hfl hq hn fuel rt, fun hfl fuel chained => drainLoop_st c hfl hq hn fuel chained rt⟩

/-! ## 7. the known defects, as theorems about concrete runs -/

open XSM.RTEx

set_option maxRecDepth 100000 in
/-- **F6.** `s` has `after 100 → u`; `X` (t = 60) keeps the interpreter busy until t = 110, `R`
    (t = 70, re-enter `s`) and then the expiry (t = 100) queue up behind it. At t = 110: `R` re-enters
    `s` (activation 2, new timer armed at 110), and the stale expiry — delivered for the timer of
    activation 1, armed at 0 — is matched by type: `s → u` fires 0 ms after the re-entry. -/
theorem stale_queued_event_fires :
    (runAfter.flush.log.reverse.filter (fun r => r.1 = 110)).map (·.2) =
      ["slow@X", "#t:m,m.s", "#recv:R", "arm:m.s:after.100.m.s/100", "#t:m,m.s", "#recv:after.100.m.s", "#t:m,m.u"] ∧
    runAfter.st.cfg = [[], ["u"]] ∧
    runAfter.fired.map (fun t => (t.act, t.armed, t.delay)) = [(1, 0, 100)] ∧
    actOf runAfter.acts ["s"] = 2 := by decide

set_option maxRecDepth 100000 in
/-- the same `R` at an idle interpreter restarts the delay: the timer of activation 1 is cancelled,
    the one of activation 2 (armed at 70) is due at 170 and nothing has fired by t = 150 -/
theorem reentry_restarts_when_idle :
    runAfterIdle.st.cfg = [[], ["s"]] ∧ runAfterIdle.fired = [] ∧
    runAfterIdle.timers.map (fun t => (t.act, t.armed, t.delay)) = [(2, 70, 100)] := by decide

set_option maxRecDepth 100000 in
/-- **F55, repaired.** Two alternatives under ONE delay arm ONE timer; its expiry selects the first
    alternative whose guard passes: the (targetless) winner runs once in the activation, one expiry was
    delivered (for delay key 0), nothing is armed any more. (Before the repair: two timers, the winner ran
    twice at t = 100 — the former counterexample theorem `alternatives_fire_once_each`.) -/
theorem alternatives_fire_once_fixed :
    (runAlts.flush.log.reverse.filter (fun r => r.2 = "tick@after.100.m.s")).map (·.1) = [100] ∧
    actOf runAlts.acts ["s"] = 1 ∧ runAlts.fired.map (·.slot) = [0] ∧ runAlts.timers.map (·.slot) = [] := by decide

end XSM.C08
