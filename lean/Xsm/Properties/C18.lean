import Xsm.Proofs.Spelling
import Xsm.Proofs.Targets
import Xsm.Model.Plan
/-!
# C18 — config front end: spellings are equivalent, malformed input fails loudly

"All documented spellings of the same thing denote the same machine and behave identically: string vs
object vs one-element-list transitions, 'always' vs the empty-string event, 'cond' vs 'guard', a single
action vs a list vs an object, string vs numeric delay keys, an omitted 'initial' with a single child,
and every target spelling that names the same state (sibling key, dotted path, leading-dot relative,
'#machineId.path', '#customId'). A config the library cannot interpret … is rejected … with an
XStateMachineError subclass naming the offender — never accepted as a machine that silently does
something else, and never surfaced as a raw TypeError, AttributeError or KeyError."

Statements about the executable model of the front end: `Xsm/Model/Parse.lean` (`normalizeTransitions`,
`parseTransList`, `parseTransition`, `parseActions`, `parseStateDef` = `StateNode.__init__` without the
children, `parseState`, `parseMachine` = `create_machine` with an explicit `logic`) and
`Xsm/Model/Resolve.lean` (`resolveTarget` = `resolver.resolve_target_state`, `resolveRobust` = the
engines' multi-stage `_resolve_target_state_node` / `_resolve_target_state_robustly`). The work is in
`Xsm/Proofs/Spelling.lean` and `Xsm/Proofs/Targets.lean`; in particular `parseStateDef_eq` there shows that the model's
`parseStateDef` (one 130-line `do` block) IS the composition of thirteen named blocks, by a
continuation-passing copy that is definitionally equal to it (`rfl`).

## What is PROVED (for all inputs, about the model)
* §1 a transition config `"t"`, `{"target": "t"}`, `["t"]`, `[{"target": "t"}]` parses to the same
  transition list as a computation of the parser monad — the SAME transition ids, not just "modulo
  ids"; `{…}` = `[{…}]`; inside a list an item may be respelled.
* §2 `always: X` = `on: {…, "": X}` for a whole state definition (every field, same transition ids),
  when no key of `on` is `""`, `X ≠ null` and the `""` entry is written LAST in `on`. Both present:
  the `on[""]` entries come first, then the `always` entries (`always_after_on_empty`).
* §3 `cond` = `guard` (same theorem as C06 §7, restated); the corner `{"guard": null, "cond": g}`.
* §4 actions: `"a"` = `{"type": "a"}`; a truthy non-list value = the one-element list of it; the
  falsy corner (`""`, `{}`) where the two differ is a theorem, not an omission.
* §5 an omitted `initial` of a compound (non-parallel) state with exactly one non-history child =
  that child's key written out.
* §6 `target_spellings_agree`: `#<machine id>.<path>`, `.<relative path>`, a plain dotted path /
  sibling key (bubbling), the key of the source or of an ancestor, `#customId`,
  `#customId.<path>` — each resolves to the state at the path, through `resolveTarget` AND
  `resolveRobust`, under hypotheses that are all visible: machine id and keys dot-free and non-empty,
  first key not starting with `#`, nothing nearer to the source capturing a plain path (`NoShadow`),
  custom id ≠ machine id. Each hypothesis that is not a mere shape condition comes with a
  counterexample proved by `decide` (`shadowed_sibling_differs`, `custom_id_equal_machine_id_differs`,
  `dotted_key_unreachable`, `key_equal_machine_id_differs`).
* §7 `errors_are_library_errors`: every error of the model's `parseMachine` starts with
  `InvalidConfigError: ` — except the four strings of `rawErrors`, each tagged `RAW:` and each
  modelling a raw Python exception the code really raises (witnesses `raw_*`). These four are the
  formal counterpart of the known findings F15a (non-dict config), F15b (`maxIterations`), F15f
  (non-dict `states` of a compound state).

## What is only VALIDATED (differentially, `harness/xsmverif/c18.py`)
* that the model's parser and resolver ARE the code's: `c18_corruptions` (accept/reject + error class
  of `create_machine` on all single-point type corruptions), `c18_targets` (`resolve_target_state` and
  the engines' robust resolution vs `resolveTarget` / `resolveRobust`, every spelling of every
  source/target pair, ambiguous machines included), `c18_spellings` (canonical dump of the parsed
  machine);
* that spellings BEHAVE identically (the theorems say they PARSE identically; behaviour follows in the
  model because the engine sees only the parsed machine; on the real engines it is the monitor of
  `c18_spellings`: equal observations on both engines);
* string vs numeric delay keys: JSON object keys are strings, so the model's `J` cannot even express
  `after: {1000: …}`; the spelling exists for Python dict literals only and is checked on the real code;
* library errors raised at `start()` / first use (`StateNotFoundError`, `ImplementationMissingError`,
  "compound state without initial") are engine behaviour, not `parseMachine`;
* "the error names the offender" (message text is not compared).

## What the model cannot exhibit
* a non-string `target` (the model's `Trans.target : Option String`; `parseTransition` reads a
  non-string as "no target", which is what the code does for the falsy ones and where it raises a raw
  `TypeError` at `send()` for the truthy ones — finding F15c); a non-string action `type` (F15d); an
  unhashable `invoke.src` (F15g); a guard operand container that is not a list (`parseGuard` reads it
  with `ensureList`, the code iterates it — F15e; excluded from the tie). All four are found and
  pinned down by the corruption check on the real code.
* the message of an error beyond its class prefix; `logic=None` auto-discovery.
* `parse_ok_iff_wellShaped` of DESIGN §6 (an independent declarative `WellShaped`) is NOT done.
-/
namespace XSM.C18
open XSM

/-! ## 1. Transitions: string, object, one-element list -/

/-- *string vs object vs one-element-list transitions*: the four spellings of "go to `t`" are the
same computation of the parser (so the same transitions with the same ids from every parser state) -/
theorem transition_spellings (ev t : String) :
    parseTransList ev (.str t) = parseTransList ev (.obj [("target", .str t)]) ∧
    parseTransList ev (.str t) = parseTransList ev (.arr [.str t]) ∧
    parseTransList ev (.str t) = parseTransList ev (.arr [.obj [("target", .str t)]]) :=
  ⟨parseTransList_congr ev _ _ rfl,
   parseTransList_congr ev _ _ (by rw [normalizeTransitions_str, normalizeTransitions_singleton _ _ rfl]),
   parseTransList_congr ev _ _ (by rw [normalizeTransitions_str, normalizeTransitions_singleton _ _ rfl])⟩

/-- … and what they parse to: exactly one transition, target `t`, no guard, no actions -/
theorem transition_string_parses_to (ev t : String) (s : PState) :
    (parseTransList ev (.str t)).run s =
      .ok ([{ tid := s.nextTid, event := ev, target := some t, guard := none, actions := [], reenter := false,
              forbidden := false }], { s with nextTid := s.nextTid + 1 }) :=
  parseTransList_str_run ev t s

/-- an object transition and the one-element list of it -/
theorem transition_obj_vs_singleton (ev : String) (kvs : List (String × J)) :
    parseTransList ev (.obj kvs) = parseTransList ev (.arr [.obj kvs]) :=
  parseTransList_congr ev _ _ (by rw [normalizeTransitions_obj, normalizeTransitions_singleton _ _ rfl])

/-- inside a list of candidates, at any position, `"t"` and `{"target": "t"}` are interchangeable -/
theorem transition_list_item (ev t : String) (pre post : List J) :
    parseTransList ev (.arr (pre ++ .str t :: post)) =
      parseTransList ev (.arr (pre ++ .obj [("target", .str t)] :: post)) :=
  parseTransList_congr ev _ _ (normalizeTransitions_item_congr pre post _ _ rfl)

/-- `onDone` reads its value through the same normaliser (and takes the first entry) -/
theorem onDone_obj_vs_singleton (kvs : List (String × J)) :
    normalizeTransitions (.obj kvs) = normalizeTransitions (.arr [.obj kvs]) := by
  rw [normalizeTransitions_obj, normalizeTransitions_singleton _ _ rfl]

/-- malformed items are library errors, never silently dropped -/
example : normalizeTransitions (.arr [.str "a", .num 3]) = .error "InvalidConfigError: invalid transition item in list" := by
  rfl

/-! ## 2. `always` vs the empty-string event -/

/-- *'always' vs the empty-string event*: a state `{…, "on": {…}, "always": X}` and the state
`{…, "on": {…, "": X}}` have the same definition — every field, the `on` buckets in the same order,
the same transition ids — from every parser state. `kvs0` (the other keys) is arbitrary. -/
theorem always_is_on_empty (kvs0 onkvs : List (String × J)) (X : J) (sid : String) (path : Path) (isRoot : Bool)
    (h0 : ∀ kv ∈ kvs0, kv.1 ≠ "on" ∧ kv.1 ≠ "always") (hX : X ≠ .null) (hne : ∀ kv ∈ onkvs, kv.1 ≠ "") :
    parseStateDef (.obj (kvs0 ++ [("on", .obj onkvs), ("always", X)])) sid path isRoot =
    parseStateDef (.obj (kvs0 ++ [("on", .obj (onkvs ++ [("", X)]))])) sid path isRoot :=
  always_spelling kvs0 onkvs X sid path isRoot h0 hX hne

/-- a state without `on`: `always: X` is `on: {"": X}` -/
theorem always_is_on_empty_no_on (kvs0 : List (String × J)) (X : J) (sid : String) (path : Path) (isRoot : Bool)
    (h0 : ∀ kv ∈ kvs0, kv.1 ≠ "on" ∧ kv.1 ≠ "always") (hX : X ≠ .null) :
    parseStateDef (.obj (kvs0 ++ [("always", X)])) sid path isRoot =
    parseStateDef (.obj (kvs0 ++ [("on", .obj [("", X)])])) sid path isRoot :=
  always_spelling_no_on kvs0 X sid path isRoot h0 hX

/-- the same for configs given by their look-ups (any key order) -/
theorem always_is_on_empty_lookup (c1 c2 : J) (sid : String) (path : Path) (isRoot : Bool)
    (kvs : List (String × J)) (X : J)
    (hsame : ∀ k, k ≠ "on" → k ≠ "always" → c1.get? k = c2.get? k)
    (hst : c1.hasKey "states" = c2.hasKey "states")
    (h1on : (c1.get? "on").getD (.obj []) = .obj kvs) (h1al : c1.get? "always" = some X) (hX : X ≠ .null)
    (h2on : c2.get? "on" = some (.obj (kvs ++ [("", X)]))) (h2al : c2.get? "always" = none)
    (hne : ∀ kv ∈ kvs, kv.1 ≠ "") :
    parseStateDef c1 sid path isRoot = parseStateDef c2 sid path isRoot :=
  parseStateDef_always_eq_on c1 c2 sid path isRoot kvs X hsame hst h1on h1al hX h2on h2al hne

/-- *both present: order*. When `on` already has a `""` bucket with transitions `ts1`, the `always`
transitions `ts2` are appended to THAT bucket, after `ts1`, and the bucket keeps its place -/
theorem always_after_on_empty (pre post : List (String × List Trans)) (ts1 ts2 : List Trans)
    (hpre : ∀ kv ∈ pre, kv.1 ≠ "") (hpost : ∀ kv ∈ post, kv.1 ≠ "") :
    mergeAlways (pre ++ ("", ts1) :: post) ts2 = pre ++ ("", ts1 ++ ts2) :: post :=
  mergeAlways_order pre post ts1 ts2 hpre hpost

/-- `"always": null` is "no always" (it does not forbid anything) -/
theorem always_null_is_absent (on : List (String × List Trans)) : pAlways (some .null) on = pAlways none on := rfl

/-! ## 3. `cond` vs `guard` -/

/-- *'cond' vs 'guard'* (C06 §7): a transition config in which `"cond": g` stands where `"guard": g`
could (no other `guard` / `cond` key) parses to the very same transition -/
theorem cond_eq_guard (ev : String) (pre post : List (String × J)) (g : J)
    (h : ∀ kv ∈ pre ++ post, kv.1 ≠ "guard" ∧ kv.1 ≠ "cond") :
    parseTransition ev (.obj (pre ++ ("cond", g) :: post)) =
      parseTransition ev (.obj (pre ++ ("guard", g) :: post)) := by
  apply parseTransition_congr
  · rw [get?_mid_ne _ _ _ _ _ (by decide), get?_mid_ne _ _ _ _ _ (by decide)]
  · rw [rawGuardOf_cond_mid pre post g h,
      rawGuardOf_guard_mid pre post g (fun kv hkv => (h kv (by simp [hkv])).1)]
  · rw [get?_mid_ne _ _ _ _ _ (by decide), get?_mid_ne _ _ _ _ _ (by decide)]
  · rw [get?_mid_ne _ _ _ _ _ (by decide), get?_mid_ne _ _ _ _ _ (by decide)]
  · rw [get?_mid_ne _ _ _ _ _ (by decide), get?_mid_ne _ _ _ _ _ (by decide)]

/-- where the two are NOT interchangeable (known corner F20): an explicit `"guard": null` hides `cond` -/
theorem explicit_null_guard_hides_cond (g : J) :
    parseGuardOpt (rawGuardOf (.obj [("guard", .null), ("cond", g)])) = .ok none := by
  simp [rawGuardOf, J.hasKey, J.get?, parseGuardOpt, pure, Except.pure]

/-! ## 4. Actions: a single action, a list, an object -/

/-- *a single action vs a list vs an object*: for a non-empty name `a` the four spellings `"a"`,
`["a"]`, `{"type": "a"}`, `[{"type": "a"}]` parse to the one action `a` without params -/
theorem action_spellings (a : String) (ha : a ≠ "") :
    parseActions (some (.str a)) = .ok [{ type := a, params := none }] ∧
    parseActions (some (.arr [.str a])) = .ok [{ type := a, params := none }] ∧
    parseActions (some (.obj [("type", .str a)])) = .ok [{ type := a, params := none }] ∧
    parseActions (some (.arr [.obj [("type", .str a)]])) = .ok [{ type := a, params := none }] := by
  refine ⟨?_, ?_, ?_, ?_⟩ <;>
    simp [parseActions, truthy, ensureList, ha, parseAction, J.get?, List.mapM_cons, bind, Except.bind, pure, Except.pure]

/-- a truthy value that is not a list is the one-element list of itself (any action object, with params) -/
theorem action_single_vs_list (a : J) (ht : truthy a = true) (hna : ∀ xs, a ≠ .arr xs) :
    parseActions (some a) = parseActions (some (.arr [a])) :=
  parseActions_single_eq_list a ht hna

/-- inside an action list, at any position, `"a"` and `{"type": "a"}` are interchangeable -/
theorem action_list_item (a : String) (pre post : List J) :
    parseActions (some (.arr (pre ++ .str a :: post))) =
      parseActions (some (.arr (pre ++ .obj [("type", .str a)] :: post))) :=
  parseActions_item_congr pre post _ _ (parseAction_str_obj a)

/-- the corner where "single" and "list" differ: a FALSY single value is "no actions" (`if not config`),
its one-element list is one action -/
theorem action_falsy_corner :
    parseActions (some (.str "")) = .ok [] ∧ parseActions (some (.arr [.str ""])) = .ok [{ type := "", params := none }] ∧
    parseActions (some (.obj [])) = .ok [] ∧
    parseActions (some (.arr [.obj []])) = .ok [{ type := "UnknownAction", params := none }] := by
  refine ⟨?_, ?_, ?_, ?_⟩ <;>
    simp [parseActions, truthy, ensureList, parseAction, J.get?, List.mapM_cons, bind, Except.bind, pure, Except.pure]

/-! ## 5. An omitted `initial` with a single child -/

/-- *an omitted 'initial' with a single child*: a compound (not parallel) state whose `states` have
exactly one non-history entry `k` has the same definition with and without `"initial": k` -/
theorem omitted_initial_single_child (kvs0 kids : List (String × J)) (k : String) (ck : J) (sid : String)
    (path : Path) (isRoot : Bool)
    (h0 : ∀ kv ∈ kvs0, kv.1 ≠ "initial" ∧ kv.1 ≠ "states")
    (hnp : (J.obj kvs0).get? "type" ≠ some (.str "parallel"))
    (hone : kids.filter (fun kv => !(isHistoryCfg kv.2)) = [(k, ck)]) :
    parseStateDef (.obj (kvs0 ++ [("states", .obj kids)])) sid path isRoot =
    parseStateDef (.obj (kvs0 ++ [("initial", .str k), ("states", .obj kids)])) sid path isRoot :=
  initial_spelling kvs0 kids k ck sid path isRoot h0 hnp hone

/-- look-up form (any key order) -/
theorem omitted_initial_single_child_lookup (c1 c2 : J) (sid : String) (path : Path) (isRoot : Bool)
    (kids : List (String × J)) (k : String) (ck : J)
    (hsame : ∀ key, key ≠ "initial" → c1.get? key = c2.get? key)
    (hst : c1.hasKey "states" = true) (hst2 : c2.hasKey "states" = true)
    (hstates : c1.get? "states" = some (.obj kids))
    (hnp : c1.get? "type" ≠ some (.str "parallel"))
    (hone : kids.filter (fun kv => !(isHistoryCfg kv.2)) = [(k, ck)])
    (h1 : c1.get? "initial" = none) (h2 : c2.get? "initial" = some (.str k)) :
    parseStateDef c1 sid path isRoot = parseStateDef c2 sid path isRoot :=
  parseStateDef_initial_inferred c1 c2 sid path isRoot kids k ck hsame hst hst2 hstates hnp hone h1 h2

/-- a history child does not count: `{h: history, a: {}}` infers `a`; two real children infer nothing -/
example : pInferInitial .compound none (.obj [("h", .obj [("type", .str "history")]), ("a", .obj [])]) = pure (some "a") := by
  simp [pInferInitial, isHistoryCfg, J.get?]
example : pInferInitial .compound none (.obj [("a", .obj []), ("b", .obj [])]) = pure none := by
  simp [pInferInitial, isHistoryCfg, J.get?]

/-! ## 6. Target spellings -/

/-- well-formedness of a target state `p` of machine `m`, as far as spelling it needs: the machine id
is non-empty and dot-free, every key on the path is non-empty, dot-free and does not start with `#`,
and the state exists -/
structure TargetWF (m : Machine) (p : Path) : Prop where
  mid_dotfree : '.' ∉ m.id.toList
  mid_nonempty : m.id ≠ ""
  keys : ∀ k ∈ p, GoodKey k
  exist : (m.root.at p).isSome

/-- *every target spelling that names the same state*: written on source state `src`, each of

* `#<machineId>.<dotted p>`,
* `.<dotted rel>` where `p = parent(src) ++ rel`,
* the plain dotted path `rel` (a sibling key when `rel = [k]`) where `p = q ++ rel` for an
  ancestor-or-self `q` of `src` and nothing nearer captures `rel`,
* `#cid` where `cid` is the custom id registered for `p` (and is not the machine id)

resolves to `p` with the plain resolver (`resolve_target_state`). -/
theorem target_spellings_agree (m : Machine) (src p : Path) (wf : TargetWF m p) :
    resolveTarget m ("#" ++ m.idOf p) src = some p ∧
    (∀ rel, rel ≠ [] → p = parentOf src ++ rel → resolveTarget m ("." ++ relStr rel) src = some p) ∧
    (∀ q d rel, src = q ++ d → p = q ++ rel → rel ≠ [] → (m.root.at src).isSome → NoShadow m q d rel →
        resolveTarget m (relStr rel) src = some p) ∧
    (∀ cid, '.' ∉ cid.toList → cid.toList ≠ [] → cid ≠ m.id →
        m.customIds.find? (fun kv => decide (kv.1 = cid)) = some (cid, p) →
        resolveTarget m ("#" ++ cid) src = some p) := by
  refine ⟨?_, ?_, ?_, ?_⟩
  · exact resolve_abs m p src wf.mid_dotfree wf.mid_nonempty
      (fun k hk => ⟨(wf.keys k hk).2.1, (wf.keys k hk).1⟩) wf.exist
  · intro rel hne hp
    subst hp
    exact resolve_dot m src rel hne (fun k hk => wf.keys k (by simp [hk])) wf.exist
  · intro q d rel hs hp hne hex hns
    subst hs; subst hp
    exact resolve_plain m q d rel hne (fun k hk => wf.keys k (by simp [hk])) wf.exist hex hns
  · intro cid h1 h2 h3 h4
    exact resolve_custom m cid p src h1 h2 h3 h4

/-- … and so do the engines (`_resolve_target_state_node` / `_resolve_target_state_robustly`): their
first attempt is the plain resolver from the source -/
theorem target_spellings_agree_robust (m : Machine) (src p : Path) (wf : TargetWF m p) :
    resolveRobust m src ("#" ++ m.idOf p) = some p ∧
    (∀ rel, rel ≠ [] → p = parentOf src ++ rel → resolveRobust m src ("." ++ relStr rel) = some p) ∧
    (∀ q d rel, src = q ++ d → p = q ++ rel → rel ≠ [] → (m.root.at src).isSome → NoShadow m q d rel →
        resolveRobust m src (relStr rel) = some p) ∧
    (∀ cid, '.' ∉ cid.toList → cid.toList ≠ [] → cid ≠ m.id →
        m.customIds.find? (fun kv => decide (kv.1 = cid)) = some (cid, p) →
        resolveRobust m src ("#" ++ cid) = some p) := by
  obtain ⟨h1, h2, h3, h4⟩ := target_spellings_agree m src p wf
  exact ⟨robust_of_direct _ _ _ _ h1,
    fun rel a b => robust_of_direct _ _ _ _ (h2 rel a b),
    fun q d rel a b c e f => robust_of_direct _ _ _ _ (h3 q d rel a b c e f),
    fun cid a b c e => robust_of_direct _ _ _ _ (h4 cid a b c e)⟩

/-- The default `target` of a history pseudo-state is resolved at a call site of its own
(`_resolve_history_target`), FROM THE HISTORY NODE: when nothing is remembered for the parent, a default target
string that the plain resolver maps to `p` from the history node's path makes the history node stand for exactly
`[p]` - whatever the parent's `initial` says -/
theorem history_default_enters_named_state (m : Machine) (hist : List (Path × List Path)) (h p : Path)
    (hn pn : SNode) (t : String) (hh : m.root.at h = some hn) (hp : m.root.at h.dropLast = some pn)
    (hrem : ((hist.find? (fun kv => kv.1 = h.dropLast)).map (·.2)).getD [] = [])
    (ht : hn.d.historyTarget = some t) (hne : t ≠ "") (hres : resolveTarget m t h = some p) :
    resolveHistoryTarget m hist h = [p] := by
  unfold resolveHistoryTarget
  simp only [hh, hp, hrem, ht, hne, hres, List.isEmpty_nil, if_true, if_false]

/-- … so every spelling of the default target that names `p` (as `target_spellings_agree` lists them, read from the
history node `h`: `#machine.path`, leading dot relative to the history node's PARENT, plain dotted path from an
ancestor-or-self without shadowing, `#customId`) makes an unvisited history node stand for `[p]` -/
theorem history_default_spellings_agree (m : Machine) (hist : List (Path × List Path)) (h p : Path)
    (hn pn : SNode) (t : String) (wf : TargetWF m p) (hh : m.root.at h = some hn) (hp : m.root.at h.dropLast = some pn)
    (hrem : ((hist.find? (fun kv => kv.1 = h.dropLast)).map (·.2)).getD [] = [])
    (ht : hn.d.historyTarget = some t) (hne : t ≠ "")
    (hspell : t = "#" ++ m.idOf p ∨
      (∃ rel, rel ≠ [] ∧ p = parentOf h ++ rel ∧ t = "." ++ relStr rel) ∨
      (∃ q d rel, h = q ++ d ∧ p = q ++ rel ∧ rel ≠ [] ∧ NoShadow m q d rel ∧ t = relStr rel) ∨
      (∃ cid, '.' ∉ cid.toList ∧ cid.toList ≠ [] ∧ cid ≠ m.id ∧
        m.customIds.find? (fun kv => decide (kv.1 = cid)) = some (cid, p) ∧ t = "#" ++ cid)) :
    resolveHistoryTarget m hist h = [p] := by
  obtain ⟨h1, h2, h3, h4⟩ := target_spellings_agree m h p wf
  refine history_default_enters_named_state m hist h p hn pn t hh hp hrem ht hne ?_
  rcases hspell with e | ⟨rel, a, b, e⟩ | ⟨q, d, rel, a, b, c, f, e⟩ | ⟨cid, a, b, c, f, e⟩
  · rw [e]; exact h1
  · rw [e]; exact h2 rel a b
  · rw [e]; exact h3 q d rel a b c (by simp [hh]) f
  · rw [e]; exact h4 cid a b c f

/-- *sibling key*: from source `par ++ [s]`, the key `k ≠ s` of a sibling names that sibling, provided
the source has no child keyed `k` itself -/
theorem sibling_key_resolves (m : Machine) (par : Path) (s k : String) (wf : TargetWF m (par ++ [k]))
    (hsrc : (m.root.at (par ++ [s])).isSome) (hks : k ≠ s) (hchild : m.root.at (par ++ [s] ++ [k]) = none) :
    resolveTarget m k (par ++ [s]) = some (par ++ [k]) := by
  have hrel : relStr [k] = k := by simp [relStr, relL, String.ofList_toList]
  have := (target_spellings_agree m (par ++ [s]) (par ++ [k]) wf).2.2.1 par [s] [k] rfl rfl (by simp) hsrc (by
    intro d' hd' hne'
    have : d' = [s] := by
      rcases List.prefix_iff_eq_take.1 hd' with h
      cases d' with
      | nil => exact absurd rfl hne'
      | cons x xs =>
        cases xs with
        | nil => simp at h; simp [h]
        | cons y ys => have := hd'.length_le; simp at this
    subst this
    refine ⟨hchild, ?_⟩
    simp [Machine.keyOf, hks])
  rw [hrel] at this
  exact this

/-- `#customId.<dotted rel>`: relative to the state that declared the custom id -/
theorem custom_id_relative (m : Machine) (cid : String) (anchor rel ref : Path) (hcd : '.' ∉ cid.toList)
    (hcne : cid.toList ≠ []) (hnm : cid ≠ m.id) (hne : rel ≠ []) (hg : ∀ k ∈ rel, '.' ∉ k.toList ∧ k.toList ≠ [])
    (hreg : m.customIds.find? (fun kv => decide (kv.1 = cid)) = some (cid, anchor))
    (hex : (m.root.at (anchor ++ rel)).isSome) :
    resolveTarget m ("#" ++ String.ofList (cid.toList ++ idTail rel)) ref = some (anchor ++ rel) :=
  resolve_custom_rel m cid anchor rel ref hcd hcne hnm hne hg hreg hex

/-- the key of the source state, or of one of its ancestors, written as a plain target -/
theorem own_or_ancestor_key_resolves (m : Machine) (q0 : Path) (k : String) (d : Path) (hk : GoodKey k)
    (hex : (m.root.at (q0 ++ [k] ++ d)).isSome) (hns : NoShadow m (q0 ++ [k]) d [k])
    (hchild : m.root.at (q0 ++ [k] ++ [k]) = none) :
    resolveTarget m k (q0 ++ [k] ++ d) = some (q0 ++ [k]) :=
  resolve_key m q0 k d hk hex hns hchild

/-- `.` is the parent of the source -/
theorem dot_is_parent (m : Machine) (src : Path) : resolveTarget m "." src = some (parentOf src) :=
  resolve_dot_alone m src

/-! ### the hypotheses are needed: counterexamples -/

/-- a leaf state definition -/
def leafDef : StateDef :=
  { kind := .atomic, initial := none, entry := [], exit := [], on := [], onDone := none, after := [],
    invoke := [], deep := false, historyTarget := none, customId := none, tags := [] }

def compoundDef (i : String) : StateDef := { leafDef with kind := .compound, initial := some i }

/-- `m` ⊃ `a` ⊃ `b`, and `m` ⊃ `b`: the source `a` has a child keyed like its sibling -/
def shadowMachine : Machine :=
  { id := "m", maxIterations := 10, customIds := [],
    root := .mk (compoundDef "a") [("a", .mk (compoundDef "b") [("b", .mk leafDef [])]), ("b", .mk leafDef [])] }

/-- *ambiguity makes spellings differ* (`NoShadow` is needed): written on `a`, the sibling key `b` names
`a.b` (a child of the source is found first), `#m.b` and `.b` name the sibling -/
theorem shadowed_sibling_differs :
    resolveTarget shadowMachine "b" ["a"] = some ["a", "b"] ∧
    resolveTarget shadowMachine "#m.b" ["a"] = some ["b"] ∧
    resolveTarget shadowMachine ".b" ["a"] = some ["b"] := by decide

/-- a state `x` that declares `id: "m"` in a machine called `m` -/
def cidMachine : Machine :=
  { id := "m", maxIterations := 10, customIds := [("m", ["x"])],
    root := .mk (compoundDef "x") [("x", .mk { leafDef with customId := some "m" } [])] }

/-- *custom id ≠ machine id is needed*: `#m` is the machine root, not the state that declared `id: "m"` -/
theorem custom_id_equal_machine_id_differs :
    cidMachine.customIds.find? (fun kv => decide (kv.1 = "m")) = some ("m", ["x"]) ∧
    resolveTarget cidMachine "#m" [] = some [] := by decide

/-- a state keyed `v1.0` (accepted by the parser when there is no sibling `v1`) -/
def dottedMachine : Machine :=
  { id := "m", maxIterations := 10, customIds := [],
    root := .mk (compoundDef "v1.0") [("v1.0", .mk leafDef []), ("w", .mk leafDef [])] }

/-- *dot-free keys are needed*: the state exists, none of its "spellings" reaches it -/
theorem dotted_key_unreachable :
    (dottedMachine.root.at ["v1.0"]).isSome = true ∧
    resolveTarget dottedMachine "#m.v1.0" ["w"] = none ∧ resolveTarget dottedMachine "v1.0" ["w"] = none ∧
    resolveTarget dottedMachine ".v1.0" ["w"] = none := by decide

/-- a state keyed like the machine -/
def selfKeyMachine : Machine :=
  { id := "m", maxIterations := 10, customIds := [],
    root := .mk (compoundDef "a") [("a", .mk leafDef []), ("m", .mk leafDef [])] }

/-- *no key equal to the machine id*: the plain spelling `m` of the root names the state keyed `m` -/
theorem key_equal_machine_id_differs :
    resolveTarget selfKeyMachine "m" ["a"] = some ["m"] ∧ resolveTarget selfKeyMachine "#m" ["a"] = some [] := by decide

/-- the hypotheses of `target_spellings_agree` are satisfiable: `b`, seen from `a.b`'s parent `a`, in
`shadowMachine`, through all spellings that apply -/
theorem shadowMachine_b_wf : TargetWF shadowMachine ["b"] :=
  ⟨by decide, by decide, fun k hk => by simp at hk; subst hk; exact ⟨by decide, by decide, by decide⟩, by decide⟩
example : resolveTarget shadowMachine ("#" ++ shadowMachine.idOf ["b"]) ["a", "b"] = some ["b"] :=
  (target_spellings_agree shadowMachine ["a", "b"] ["b"] shadowMachine_b_wf).1
/-- … and the sibling key `b` does name `b` when written on `b`'s sibling-free side: from the ROOT's
child `b` itself upward nothing shadows (source `["b"]`, `q = []`, `d = ["b"]`) -/
example : resolveTarget shadowMachine "b" ["b"] = some ["b"] := by decide

/-- `m` ⊃ `start`, `m` ⊃ `on` ⊃ {`low` (initial), `high`, `hist` (history, default target `.high`)} -/
def histDefaultMachine : Machine :=
  { id := "m", maxIterations := 10, customIds := [],
    root := .mk (compoundDef "start") [("start", .mk leafDef []),
      ("on", .mk (compoundDef "low") [("low", .mk leafDef []), ("high", .mk leafDef []),
        ("hist", .mk { leafDef with kind := .history, historyTarget := some ".high" } [])])] }

/-- the hypotheses of `history_default_enters_named_state` are satisfiable, and its conclusion is not what the
parent's `initial` (or a resolution from the PARENT, one level too high) would give: the unvisited history node
stands for `on.high`; read from the parent `on`, `.high` names nothing -/
theorem history_default_example :
    resolveHistoryTarget histDefaultMachine [] ["on", "hist"] = [["on", "high"]] ∧
    resolveTarget histDefaultMachine ".high" ["on", "hist"] = some ["on", "high"] ∧
    resolveTarget histDefaultMachine ".high" ["on"] = none := by decide

/-! ## 7. Malformed input: errors are library errors -/

/-- *rejected … with an XStateMachineError subclass … never a raw TypeError / AttributeError*: every
error the model's `parseMachine` returns is an `InvalidConfigError` — except the four strings of
`rawErrors`, which model raw Python exceptions the code really raises (findings F15a, F15b, F15f) -/
theorem errors_are_library_errors (cfg : J) (e : PErr) (h : parseMachine cfg = .error e) :
    LibErr e ∨ e ∈ rawErrors :=
  parseMachine_errors cfg e h

/-- the four strings of `rawErrors` modelled RAW Python exceptions (`AttributeError`, `TypeError`,
`ValueError`) that the code really raised until the `fix:` commits for findings F15a, F15b, F15f; the
code now raises `InvalidConfigError` there, the model follows, and every one of them is a library error -/
theorem former_raw_errors_are_library_errors : ∀ e ∈ rawErrors, LibErr e := by
  intro e he
  simp only [rawErrors, List.mem_cons, List.mem_nil_iff, or_false] at he
  rcases he with rfl | rfl | rfl | rfl <;> liberr

/-- **every error of the model's `parseMachine` is a library `InvalidConfigError`** — no exception left -/
theorem all_errors_are_library_errors (cfg : J) (e : PErr) (h : parseMachine cfg = .error e) : LibErr e := by
  rcases parseMachine_errors cfg e h with h1 | h1
  · exact h1
  · exact former_raw_errors_are_library_errors e h1

/-- a library error starts with its class name -/
theorem library_error_names_its_class (e : PErr) (h : LibErr e) :
    ("InvalidConfigError: ".toList).isPrefixOf e.toList = true := h

/-- the exceptions to the rule, exactly -/
theorem raw_errors_listed :
    rawErrors = ["InvalidConfigError: machine configuration must be a dictionary",
                 "InvalidConfigError: invalid 'maxIterations' (not a number)",
                 "InvalidConfigError: invalid 'maxIterations' (not an integer literal)",
                 "InvalidConfigError: invalid 'states' value (not an object)"] := rfl

/-- one state's own definition: library errors, or the raw `AttributeError` of `_parse_initial` -/
theorem state_errors (cfg : J) (sid : String) (path : Path) (isRoot : Bool) (s : PState) (e : PErr)
    (h : (parseStateDef cfg sid path isRoot).run s = .error e) : LibErr e ∨ e = "InvalidConfigError: invalid 'states' value (not an object)" :=
  parseStateDef_ErrOK cfg sid path isRoot s e h

/-- transitions, actions and guards on their own only ever fail with library errors -/
theorem transition_errors (ev : String) (cfg : J) (s : PState) (e : PErr)
    (h : (parseTransList ev cfg).run s = .error e) : LibErr e :=
  parseTransList_ErrOK ev cfg s e h

/-- F15a: a config that is not an object — `create_machine(None)` raises `AttributeError` -/
theorem raw_non_dict_config (cfg : J) (h : ∀ kvs, cfg ≠ .obj kvs) :
    parseMachine cfg = .error "InvalidConfigError: machine configuration must be a dictionary" := by
  rw [parseMachine_eq_blocks]
  cases cfg <;> first | rfl | exact absurd rfl (h _)

/-- F15b: `maxIterations` that `int()` cannot convert -/
theorem raw_max_iterations (kvs : List (String × J)) (mid : String) (v : J) (hid : (J.obj kvs).get? "id" = some (.str mid))
    (hmid : mid ≠ "") (hst : (J.obj kvs).hasKey "states" = true) (hctx : (J.obj kvs).get? "context" = none)
    (hv : (J.obj kvs).get? "maxIterations" = some v) :
    (v = .null ∨ (∃ xs, v = .arr xs) ∨ (∃ o, v = .obj o) →
      parseMachine (.obj kvs) = .error "InvalidConfigError: invalid 'maxIterations' (not a number)") ∧
    (∀ s, v = .str s → pyIntOfStr s = none →
      parseMachine (.obj kvs) = .error "InvalidConfigError: invalid 'maxIterations' (not an integer literal)") := by
  constructor
  · intro hcase
    rw [parseMachine_eq_blocks]
    simp only [mObjK, mIdK, hid, hmid, if_false, pure_bind, mStatesK, hst, Bool.not_true, Bool.false_eq_true, mCtxK, hctx,
      mMaxItK, hv]
    rcases hcase with rfl | ⟨xs, rfl⟩ | ⟨o, rfl⟩ <;> rfl
  · intro s hs hnone
    subst hs
    rw [parseMachine_eq_blocks]
    simp only [mObjK, mIdK, hid, hmid, if_false, pure_bind, mStatesK, hst, Bool.not_true, Bool.false_eq_true, mCtxK, hctx,
      mMaxItK, hv, hnone]
    rfl

/-- F15f: a compound state whose `states` is not an object and that has no `initial`: the `.items()` of
`_parse_initial` runs before the shape validation -/
theorem raw_states_not_a_dict (kind : Kind) (ir : Option String) (st : J) (hk : kind = .compound)
    (hir : ir = none ∨ ir = some "") (hst : ∀ kvs, st ≠ .obj kvs) :
    pInferInitial kind ir st = throw "InvalidConfigError: invalid 'states' value (not an object)" := by
  subst hk
  rcases hir with rfl | rfl <;> (cases st <;> first | rfl | exact absurd rfl (hst _))

/-- … while with an explicit `initial` the same malformed `states` IS reported as a library error
(by the shape validation that comes later) -/
example : (pKids (.num 0) "m.a") = throw "InvalidConfigError: state 'm.a' has an invalid 'states' value" := rfl

end XSM.C18
