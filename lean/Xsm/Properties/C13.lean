import Xsm.Proofs.Termination
import Xsm.Proofs.Fifo
import Xsm.Proofs.SyncDrain
/-!
# C13 — bounded self-feeding chains: `start()` and `send()` return

"start() and send() return, and the asynchronous run loop keeps yielding to other tasks, for every
machine and every event: any self-feeding chain - mutually enabling always-transitions, an action
raising its own trigger, an onDone that re-completes its own state, self-enqueueing
pure/choose/enqueueActions expansion - is cut after the machine's maxIterations bound with an error
log, leaving a legal configuration and an interpreter that still answers the next event. Chains
shorter than the bound run to their natural end, and the bound never throttles or discards events
sent from outside."

Statements about the executable model (`Xsm/Model/Engine.lean`); helper definitions and lemmas live
in `Xsm/Proofs/Termination.lean`.

**What "returns" means here.** Every model function is a total Lean function, so the question is
only which recursions are bounded by the code's OWN counters and which by a fuel the model adds.

* SYNC engine (`syncStart`, `syncSend`, `transientLoop`, `execActionsF`): these recursions are structural
  on a counter the Python code itself maintains — `iterations` of `_process_transient_transitions` (bounded
  by `machine.max_iterations`), `_action_depth` of `_execute_actions` (`MAX_ACTION_DEPTH`; the depth counter bounds how DEEP an
  expansion nests, the flag `_expansion_cut` — `St.expCut`, repair of F77 — ends the whole expansion once it tripped, §2). The queue drain
  `drainLoop` (`_process_event_queue`) is different since the second repair of F10: its counter `chained`
  counts only the dequeues of MARKED events (enqueued while a drain was in flight) and is RESET by a cut, after
  which the loop goes on with the external events — so the code's loop is not bounded by one counter, and the
  model recurses on a MODEL fuel `drainFuel m s = (external events queued + 1) * (maxIterations + 2)`. §4
  proves that this fuel never runs out (`sync_drain_terminates`: the measure `drainPot` — `maxIterations + 2`
  per pending external event plus the room left below the bound — strictly decreases in every iteration,
  because a macrostep only ever enqueues MARKED events) and is irrelevant (`sync_fuel_irrelevant`): the real,
  fuel-less loop terminates after at most `drainFuel` iterations, for every machine and user code. §1 and §2
  say what the counters bound, that they do not disturb chains shorter than the bound, and what a cut does.
* ASYNC engine: `transientLoop` and `execActionsF` as above; but the run loop `asyncDrain`
  (`_run_event_loop`) recurses on a MODEL fuel (`asyncFuel m = 10 * maxIterations + 50`) — the code
  has no such bound, and the model reports an exhausted fuel as status "HANG". §3 proves the fuel
  irrelevant above an explicit bound: the real, fuel-less loop empties its queue after at most
  `(n0 + 1) * (maxIterations + 4)` iterations, `n0` the number of pending external events, whatever
  the machine and whatever user code does. "HANG" is unreachable from `asyncStart` / `asyncSend`.

Vocabulary (from `Xsm/Proofs/Termination.lean`):
* `cntSelf q`, `cntExt q` — the number of self-raised / external entries of a queue; `extOf q` — the
  external entries, in order;
* `Grow b s s'` — from `s` to `s'` the queue was only appended to, by entries flagged `b`; every
  appended self-flagged entry was counted in `raiseDepth` (exactly those, if `s'` is running);
  `status` is unchanged or became "done"; `HooksGrow b h` — both send hooks of `h` satisfy it;
* `AInv s` — `cntSelf s.queue ≤ s.raiseDepth`: every self-raised event still queued was counted
  since the counter was last reset;
* `potential L s` — `cntExt s.queue * (L + 4) + chainPot L (cntSelf s.queue) s.raiseDepth`, where
  `chainPot L cs d = if cs = 0 then 0 else 1 + (L + 2 - (d - cs))`;
* `transientSteps` / `transientCut` — instrumented twins of `transientLoop` (same recursion): the number of
  iterations, and whether the loop was cut (counter exhausted with work pending); `transientPending` —
  another settling iteration would do something;
* `drainSteps` / `drainTrips` / `drainCut` / `drainHang` (from `Xsm/Proofs/SyncDrain.lean`) — instrumented
  twins of `drainLoop` (same recursion, arguments: model fuel, the counter `chained`, the state): the number
  of events processed, the number of cuts, "a cut happened or the model fuel ran out", "the model fuel ran
  out with events pending on a running interpreter"; `drainLogQ` / `drainLog` (with the model) — the entries /
  events received; `drainRaised` — the events the macrosteps of the drain enqueued; `syncTrips m c q` — the head
  `q` is marked and is the `maxIterations + 1`-st marked event dequeued (`c` the counter); `syncPurge` — the
  cut; `MacroFanout m u K` — no macrostep of `m` under `u` enqueues more than `K` events;
* `asyncProcess` — what the run loop does with an event it processes (macrostep, settling, error
  logging, end-of-chain test; defined with the model), `asyncBase m s` — the state it is processed in
  (`s`, purged if the breaker fired); `Idle m s` — empty queue and `raiseDepth ≤ maxIterations`;
  `Quiet s` — empty queue and `raiseDepth = 0`; `RunOK m s` — status is "running" / "done" / "stopped"
  and a running interpreter is idle; `asyncStartSettled m u s` — the state `start()` hands to the run loop;
* `selfSendsOf m u e s` — the number of events the machine sends itself while `e` is processed in `s`;
  `asyncTrips` / `asyncSelfSends` — instrumented twins of `asyncDrain` (same recursion): the number of
  iterations in which the chain breaker fired, and the number of events the machine sent itself;
* `asyncLogQ` (from `Xsm/Model/Lifecycle.lean`) — the entries the run loop dequeues and processes.

**The last sentence of the property, async engine** (repaired in the library: F30, F31; the model follows):
1. *"the bound never … discards events sent from outside"*: `external_event_is_processed`,
   `external_events_never_discarded_async` — the breaker drops the event in hand only if it is itself
   self-raised; every external event is received exactly once, in order. The former counterexample
   `burst_drops_external_event` is replaced by `burst_keeps_external_event` (same witness).
2. *"chains shorter than the bound run to their natural end"*: the counter is reset whenever a chain ends,
   after a FAILED macrostep too (`counter_reset_when_chain_ends`, `counter_reset_after_failed_macrostep`),
   every digested command leaves it at 0 (`async_run_quiet`), and a run of the loop in which the machine
   sends itself at most `maxIterations` events IN TOTAL is never cut (`short_chain_not_cut_async`; see F70 below). The former
   counterexample `leaked_counter_cuts_short_chain` is replaced by `failed_chains_do_not_leak` (same witness).
**The last sentence of the property, sync engine** (repaired in the library: F10, twice; the model follows):
3. the bound of one `_process_event_queue()` counts only the dequeues of MARKED events — those `send()` /
   `send_events()` enqueued while a drain was in flight (`_is_processing`: the `raise` built-in, `done.state.*`,
   a send made by an action or a timer thread; also during `start()`) — and the cut discards the marked
   events only and goes on, so an event accepted from outside is neither counted nor discarded:
   `external_events_never_discarded_sync` (the external events received plus those still queued are the
   external events queued at the start, in order — whatever marked entries are queued between them, however
   often the bound cuts — unless the machine stops running) and `short_chain_not_cut_sync` (a drain in which
   at most `maxIterations` marked events come up — queued at its start or enqueued by its macrosteps — is
   never cut; `sync_cut_needs_long_chain`: a cut needs MORE than `maxIterations` of them). The former
   counterexample `sync_burst_throttled` is replaced by `sync_burst_not_throttled` (same witness). The cut
   (`cut_purges_marked_only`) removes the marked entries and nothing else.
   The FIRST repair (budget `maxIterations` + queue length at the start of the drain) exempted the events LEFT
   QUEUED by a drain that raised — mostly self-raised ones — from the bound; with a fan-out machine the queue
   then grew geometrically from `send` to `send` and `send()` effectively hung. `leftovers_stay_bounded`: the
   marks outlive an aborted drain, the number of events one drain processes does not depend on the number of
   marked leftovers (`sync_drain_work_bounded`), and a cut purges them all.
**What the positive theorems do NOT say (open finding F70).** `short_chain_not_cut_async` and
`short_chain_not_cut_sync` bound the TOTAL number of events the machine sends itself during one BUSY PERIOD
(one run of the loop / one drain: `asyncSelfSends`, `drainRaised` — over ALL events processed in it), not the
length of each causal chain. Both engines count that way: the async counter `_raise_depth` is reset only when
nothing self-raised is pending, the sync counter `chained` counts every marked dequeue of a drain and is reset
only by a cut. Read per CAUSAL CHAIN (the events raised, transitively, while ONE external event is
handled — the reading the monitor `c14.c04_monitor`, rule `short-chains-cut-by-burst`, checks) the clause
"chains shorter than the bound run to their natural end" FAILS on both engines: a burst of more than
`maxIterations` external events each of which raises one event — independent chains of length 1 — is cut.
Witness (`shortM`: `E` raises `R` once, bound 3; four `E` queued by one `send_events`):
`burst_of_short_chains_is_cut_async` (all four `R` discarded) and `burst_of_short_chains_is_cut_sync` (the fourth
`R` discarded). They do not contradict the positive theorems: the total of the busy period is 4 > 3.
The "error log" of a cut is outside the model (no record is emitted for it).
-/
namespace XSM.C13
open XSM XSM.Spec XSM.Done XSM.Done.Ex XSM.Term XSM.Term.Ex

/-! ## 1. the sync engine: bounded by the code's own counters -/

/-- *Clause "mutually enabling always-transitions … cut after the machine's maxIterations bound".*
    `transientLoop … n` runs `processEvent` at most `n` times (`transientSteps` is the same
    recursion, counting); both engines call it with `n = m.maxIterations`. -/
theorem transientLoop_bound (h : Hooks) (fl : Flavor) (m : Machine) (u : UEnv) (n : Nat) (s : St) :
    transientSteps h fl m u n s ≤ n := transientSteps_le h fl m u n s

/-- *"leaving … an interpreter that still answers the next event":* the cut of the settling loop is
    the identity — nothing is changed, no error is set. -/
theorem transientLoop_cut_is_identity (h : Hooks) (fl : Flavor) (m : Machine) (u : UEnv) (s : St) :
    transientLoop h fl m u 0 s = s := rfl

/-- a state in which nothing is pending is left alone, whatever the budget -/
theorem transientLoop_stable (h : Hooks) (fl : Flavor) (m : Machine) (u : UEnv) (n : Nat) (s : St)
    (hp : transientPending m u s = false) : transientLoop h fl m u n s = s :=
  transientLoop_not_pending h fl m u n hp

/-- *Clause "chains shorter than the bound run to their natural end" (fuel monotonicity).* If with
    budget `k` the loop is not cut — it stopped by itself: an error, or no enabled eventless
    transition — then every budget `≥ k` gives the same result; in particular the bound
    `m.maxIterations ≥ k` does not affect the chain. -/
theorem transientLoop_fuel_mono (h : Hooks) (fl : Flavor) (m : Machine) (u : UEnv) (k : Nat) (s : St)
    (hk : transientCut h fl m u k s = false) (n : Nat) (hn : k ≤ n) :
    transientLoop h fl m u n s = transientLoop h fl m u k s :=
  Term.transientLoop_fuel_mono h fl m u k s hk n hn

theorem transientLoop_short_chain_unaffected (h : Hooks) (fl : Flavor) (m : Machine) (u : UEnv) (k : Nat)
    (s : St) (hk : transientCut h fl m u k s = false) (n n' : Nat) (hn : k ≤ n) (hn' : k ≤ n') :
    transientLoop h fl m u n s = transientLoop h fl m u n' s := by
  rw [transientLoop_fuel_mono h fl m u k s hk n hn, transientLoop_fuel_mono h fl m u k s hk n' hn']

/-- a loop that needed fewer iterations than its budget was not cut -/
theorem transientLoop_not_cut_of_steps_lt (h : Hooks) (fl : Flavor) (m : Machine) (u : UEnv) (n : Nat) (s : St)
    (hlt : transientSteps h fl m u n s < n) : transientCut h fl m u n s = false :=
  transientCut_false_of_steps_lt h fl m u n s hlt

/-- `pingPongM` (`a` and `b` target each other by `always` transitions, bound 4): exactly 4 iterations,
    then the cut; `start()` returns on both engines in a legal configuration, still running -/
example : (transientSteps (hooksFlagged u0 pingPongM) .sync pingPongM u0 4 running,
    transientCut (hooksFlagged u0 pingPongM) .sync pingPongM u0 4 running) = (4, true) := by decide
example : let s := syncStart pingPongM u0 {}
    (s.status, s.cfg, s.err.isSome, count "toB@" s, count "toA@" s) = ("running", [[], ["a"]], false, 2, 2) := by
  decide
example : let s := asyncStart pingPongM u0 {}
    (s.status, s.cfg, s.err.isSome, count "toB@" s, count "toA@" s) = ("running", [[], ["a"]], false, 2, 2) := by
  decide
/-- `settleM` (`a` → `b` by an `always` transition, `b` stable): one iteration, not cut; any budget
    `≥ 2` would have given the same -/
example : (transientSteps (hooksFlagged u0 settleM) .sync settleM u0 4 running,
    transientCut (hooksFlagged u0 settleM) .sync settleM u0 2 running) = (1, false) := by decide
example : (syncStart settleM u0 {}).cfg = [[], ["b"]] := by decide

/-- *Clause "an action raising its own trigger … cut after the machine's maxIterations bound" (sync).*
    One `_process_event_queue()` started with the counter at 0 processes (`drainSteps`: dequeues and hands to
    `_process_event`) at most `maxIterations + 1` events per EXTERNAL event queued when it starts, plus
    `maxIterations` — whatever the model fuel, and however many marked entries are queued: between two
    external events at most `maxIterations` marked events are processed before the cut. -/
theorem drainLoop_bound (m : Machine) (u : UEnv) (fuel : Nat) (s : St) :
    drainSteps m u fuel 0 s ≤ cntExt s.queue * (m.maxIterations + 1) + m.maxIterations :=
  Term.drainSteps_le m u fuel s

/-- one `send` on the sync engine IS one such drain (counter 0, the event appended unmarked), and processes at
    most `(n + 1) * (maxIterations + 1) + maxIterations` events, `n` the external events already queued -/
theorem syncSend_bound (m : Machine) (u : UEnv) (e : Ev) (s : St) (hr : s.status = "running") :
    syncSend m u e s =
      drainLoop m u (drainFuel m { s with queue := s.queue ++ [⟨e, false⟩] }) 0 { s with queue := s.queue ++ [⟨e, false⟩] } ∧
    drainSteps m u (drainFuel m { s with queue := s.queue ++ [⟨e, false⟩] }) 0 { s with queue := s.queue ++ [⟨e, false⟩] }
      ≤ (cntExt s.queue + 1) * (m.maxIterations + 1) + m.maxIterations := by
  refine ⟨?_, ?_⟩
  · unfold syncSend sndUnflagged drainFlagged
    rw [if_pos hr]
  · have h := Term.drainSteps_le m u (drainFuel m { s with queue := s.queue ++ [⟨e, false⟩] })
      { s with queue := s.queue ++ [⟨e, false⟩] }
    have hc : cntExt ({ s with queue := s.queue ++ [⟨e, false⟩] } : St).queue = cntExt s.queue + 1 := by
      show cntExt (s.queue ++ [⟨e, false⟩]) = _
      rw [cntExt_append]; rfl
    rw [hc] at h; exact h

/-- *What the cut does (sync).* When the head of the queue is a marked event that trips the bound
    (`syncTrips`: the `maxIterations + 1`-st marked event dequeued since the counter was last 0), the loop
    goes on — with the counter at 0 — from `syncPurge s`: the MARKED entries (the head included) are
    discarded, every external entry is kept, in order (`extOf`), nothing marked is left. -/
theorem cut_purges_marked_only (m : Machine) (u : UEnv) (fuel c : Nat) (s : St) (q : QEv) (rest : List QEv)
    (hq : s.queue = q :: rest) (hrun : s.status = "running") (ht : syncTrips m c q = true) :
    drainLoop m u (fuel + 1) c s = drainLoop m u fuel 0 (syncPurge s) ∧
    (syncPurge s).queue = extOf s.queue ∧ (∀ x ∈ (syncPurge s).queue, x.self = false) :=
  ⟨drainLoop_trip m u fuel c s q rest hq hrun ht, rfl, Term.syncPurge_all_ext s⟩

/-- the bound trips exactly on a MARKED head that would be the `maxIterations + 1`-st -/
theorem cut_condition (m : Machine) (c : Nat) (q : QEv) :
    syncTrips m c q = true ↔ (q.self = true ∧ m.maxIterations < c + 1) := Term.syncTrips_eq_true m c q

/-- *"leaving a legal configuration and an interpreter that still answers the next event" (sync).* The
    cut changes nothing but the queue: configuration, status, error flag, context, history, trace are
    as they were — in particular no error is raised to the caller and the status stays "running". -/
theorem cut_keeps_running (s : St) :
    syncPurge s = { s with queue := s.queue.filter (fun q => !q.self) } ∧
    (syncPurge s).cfg = s.cfg ∧ (syncPurge s).status = s.status ∧
      (syncPurge s).err = s.err ∧ (syncPurge s).ctx = s.ctx ∧ (syncPurge s).hist = s.hist ∧
      (syncPurge s).trace = s.trace := ⟨rfl, rfl, rfl, rfl, rfl, rfl, rfl⟩

/-- `fanM` (`E` raises `E` twice, bound 3), sync: `send(E)` — the `E` sent is external and does not count —
    processes exactly 4 events (the external `E` and three marked ones) and is cut by the fourth marked `E`; it
    returns running, with an empty queue, no error; the next event is answered -/
example : (drainSteps fanM u0 (drainFuel fanM { running with queue := [⟨.user "E", false⟩] }) 0
      { running with queue := [⟨.user "E", false⟩] },
    drainTrips fanM u0 (drainFuel fanM { running with queue := [⟨.user "E", false⟩] }) 0
      { running with queue := [⟨.user "E", false⟩] },
    drainCut fanM u0 (drainFuel fanM { running with queue := [⟨.user "E", false⟩] }) 0
      { running with queue := [⟨.user "E", false⟩] }) = (4, 1, true) := by decide
example : let s := syncSend fanM u0 (.user "E") running
    (s.status, s.cfg, evTypes s, s.err.isSome, count "sawE@E" s) = ("running", [[], ["a"]], [], false, 4) := by
  decide
example : count "sawX@X" (syncSend fanM u0 (.user "X") (syncSend fanM u0 (.user "E") running)) = 1 := by decide
/-- `shortM` (`E` raises `R` once): two events, not cut; the chain ran to its natural end -/
example : (drainSteps shortM u0 (drainFuel shortM { running with queue := [⟨.user "E", false⟩] }) 0
      { running with queue := [⟨.user "E", false⟩] },
    drainCut shortM u0 (drainFuel shortM { running with queue := [⟨.user "E", false⟩] }) 0
      { running with queue := [⟨.user "E", false⟩] }) = (2, false) := by decide
example : count "sawR@R" (syncSend shortM u0 (.user "E") running) = 1 := by decide

/-! ## 2. nested action expansion (`choose` …) is bounded by the code's depth counter — and once the
bound tripped, the rest of that expansion produces no follow-ups (`_expansion_cut`, repair of F77: the
counter bounds the DEPTH of an expansion, the flag its size; model: `St.expCut`, set at the cut level by
`assignStep`, read by `builtinStep`, cleared by `endExpansion` when the expansion of a top-level built-in
is over — the code resets it at the next top-level built-in, before any read) -/

/-- *Clause "self-enqueueing pure/choose/enqueueActions expansion".* `execActions` is `execActionsF`
    with fuel `MAX_ACTION_DEPTH + 1`; a follow-up list of a built-in runs one level deeper, with
    fuel one less — the recursion is structural on it (`endExpansion f` is the identity except when the
    built-in sat at the top level, `f = MAX_ACTION_DEPTH`, where it clears `_expansion_cut`) … -/
theorem execActions_levels (h : Hooks) (as : List ActionRef) (ev : String) (s : St) :
    execActions h as ev s = execActionsF h (Tables.maxActionDepth + 1) as ev s := rfl

theorem execActionsF_succ (h : Hooks) (f : Nat) (as : List ActionRef) (ev : String) (s : St) :
    execActionsF h (f + 1) as ev s =
      (as.foldl (actStep h (fun fs e s => endExpansion f (execActionsF h f fs e s)) false ev) (s, false)).1 := rfl

/-- … and at fuel 0 no built-in produces follow-ups: the function that would run them is never
    consulted (the result is the same whatever it is), so expansion stops after
    `MAX_ACTION_DEPTH + 1` levels. -/
theorem execActionsF_depth_bound (h : Hooks) (nested : List ActionRef → String → St → St)
    (as : List ActionRef) (ev : String) (s : St) :
    execActionsF h 0 as ev s = (as.foldl (actStep h nested true ev) (s, false)).1 := by
  have : actStep h (fun _ _ s => s) true ev = actStep h nested true ev := by
    funext acc a; exact actStep_cut_ignores_nested h _ nested ev acc a
  rw [execActionsF, this]

/-- `choose([{actions: [assign({x: 1})]}])`: with two levels the nested assignment runs, with one
    level the follow-up is cut, with none the `choose` itself produces nothing -/
example : ((execActionsF (hooksFlagged u0 fanM) 2 [chooseA] "E" running).ctx,
           (execActionsF (hooksFlagged u0 fanM) 1 [chooseA] "E" running).ctx,
           (execActionsF (hooksFlagged u0 fanM) 0 [chooseA] "E" running).ctx) = ([("x", 1)], [], []) := by
  decide

/-- *Once the bound tripped, the rest of the expansion produces no follow-ups* (`_expansion_cut`; the
    depth counter alone bounds how DEEP an expansion goes, not how large it is). The trip is recorded: at
    the cut level every built-in that is reached sets the flag … -/
theorem cut_level_records_trip (h : Hooks) (hc : HooksCutOK h) (nested : List ActionRef → String → St → St)
    (ev canon : String) (a : ActionRef) (s : St) :
    (builtinStep h nested true ev canon a s).1.expCut = true :=
  builtinStep_cut_trips h hc nested ev canon a s

/-- … it is seen by every later sibling of the same expansion: below the top level a set flag stays set
    through any list … -/
theorem trip_persists (h : Hooks) (hc : HooksCutOK h) (fuel : Nat) (hf : fuel ≤ Tables.maxActionDepth)
    (as : List ActionRef) (ev : String) (s : St) (ht : s.expCut = true) :
    (execActionsF h fuel as ev s).expCut = true :=
  execActionsF_tripped h hc fuel hf as ev s ht

/-- … and while it is set a sibling `choose` (in the code also `pure`, `enqueueActions`) produces no
    follow-ups, at ANY level: the function that would run them is never consulted (the result is the
    same whatever it is) — the `choose` is a no-op, its guards are not even evaluated. `assign`,
    `raise`, user actions are not affected. -/
theorem tripped_choose_no_followups (h : Hooks) (nested nested' : List ActionRef → String → St → St)
    (ev canon : String) (a : ActionRef) (s : St) (ht : s.expCut = true) :
    builtinStep h nested false ev canon a s = builtinStep h nested' false ev canon a s :=
  builtinStep_tripped_ignores_nested h nested nested' ev canon a s ht

theorem tripped_choose_noop (h : Hooks) (nested : List ActionRef → String → St → St) (ev : String)
    (a : ActionRef) (s : St) (ht : s.expCut = true) (he : s.err = none) :
    builtinStep h nested false ev Tables.act_CHOOSE a s = (s, false) :=
  choose_after_trip h nested ev a s ht he

/-- *A fresh top-level list expands again* (`if depth == 0: self._expansion_cut = False`): whatever
    tripped inside the expansions of a top-level list, the flag is clear when the list is over — and
    before each of its actions (`foldl_top_expCut`) — so the next top-level built-in starts from scratch. -/
theorem top_level_starts_fresh (h : Hooks) (hc : HooksCutOK h) (as : List ActionRef) (ev : String) (s : St)
    (hs : s.expCut = false) : (execActions h as ev s).expCut = false :=
  execActions_expCut h hc as ev s hs

/-- `choose` with one unguarded branch, as JSON and as an action -/
def chooseJ (acts : List J) : J :=
  .obj [("type", .str "choose"), ("params", .obj [("conditions", .arr [.obj [("actions", .arr acts)]])])]
def chooseR (acts : List J) : ActionRef :=
  { type := "choose", params := some (.obj [("conditions", .arr [.obj [("actions", .arr acts)]])]) }
/-- `n` nested `choose`s around the marker `deep`, each followed by a sibling `choose` of the marker `late` -/
def nestJ : Nat → J
  | 0 => .str "deep"
  | n + 1 => chooseJ [nestJ n, chooseJ [.str "late"]]

/-- three levels of fuel, four levels of `choose`: the innermost reached one trips (its sibling marker
    `m0` still runs — user actions are not affected), the sibling `choose` one level up (`late1`) and the
    one two levels up (`late2`) then produce nothing -/
example : (execActionsF (hooksFlagged u0 fanM) 2
    [chooseR [chooseJ [chooseJ [.str "deep"], .str "m0"], chooseJ [.str "late1"], .str "m1"],
     chooseR [.str "late2"]] "E" running).trace = ["m1@E", "m0@E"] := by decide
/-- without a trip the siblings expand -/
example : (execActionsF (hooksFlagged u0 fanM) 3
    [chooseR [chooseJ [chooseJ [.str "deep"], .str "m0"], chooseJ [.str "late1"], .str "m1"],
     chooseR [.str "late2"]] "E" running).trace = ["late2@E", "m1@E", "late1@E", "m0@E", "deep@E"] := by decide
set_option maxRecDepth 100000 in
/-- top level, the code's own bound (`MAX_ACTION_DEPTH` = 50): a `choose` nested 53 deep trips — no `late`
    sibling at any level expands, `deep` is never reached — and the SECOND top-level `choose` expands again -/
example : let s := execActions (hooksFlagged u0 fanM) [chooseR [nestJ 52], chooseR [.str "fresh"]] "E" running
    (s.trace, s.expCut) = (["fresh@E"], false) := by decide
set_option maxRecDepth 100000 in
/-- three levels less (the innermost sibling `choose` at depth 50) and nothing trips: `deep` runs and every
    `late` sibling expands -/
example : let s := execActions (hooksFlagged u0 fanM) [chooseR [nestJ 49], chooseR [.str "fresh"]] "E" running
    (count "deep@E" s, count "late@E" s, count "fresh@E" s) = (1, 49, 1) := by decide

/-! ## 3. the async run loop terminates: the model fuel is irrelevant -/

/-- *(a) append-only.* With the hooks of the run loop (`hooksAsync`: both `raise` and a done event
    enqueue a self-flagged entry after incrementing `raiseDepth`) … -/
theorem hooksAsync_append_only (u : UEnv) (m : Machine) : HooksGrow true (hooksAsync u m) := hooksAsync_grow u m

/-- … one macrostep — selection, every selected transition with its exits, actions, entries, done
    checks, rollback on failure — only appends self-flagged entries to the queue, counts each of them
    in `raiseDepth`, and leaves the status alone or sets it to "done"; so does settling. (For any
    hooks with `HooksGrow b h`; `hooksAsyncStart` satisfies it with `b = false`. The sync hooks `hooksFlagged`
    append MARKED entries without counting them in `raiseDepth` — the sync engine has no such counter:
    `Term.syncMacro_marked`.) -/
theorem processEvent_append_only {b : Bool} (h : Hooks) (hg : HooksGrow b h) (fl : Flavor) (m : Machine)
    (u : UEnv) (ev : Ev) (s : St) : Grow b s (processEvent h fl m u ev s) := processEvent_grow h hg fl m u ev s

theorem transientLoop_append_only {b : Bool} (h : Hooks) (hg : HooksGrow b h) (fl : Flavor) (m : Machine)
    (u : UEnv) (n : Nat) (s : St) : Grow b s (transientLoop h fl m u n s) := transientLoop_grow h hg fl m u n s

/-- `Grow`, spelled out -/
theorem grow_iff (b : Bool) (s s' : St) :
    Grow b s s' ↔
      (∃ l, s'.queue = s.queue ++ l ∧ (∀ q ∈ l, q.self = b) ∧ s.raiseDepth + cntSelf l ≤ s'.raiseDepth ∧
        (s'.status = "running" → s'.raiseDepth = s.raiseDepth + cntSelf l)) ∧
      (s'.status = s.status ∨ s'.status = "done") := Iff.rfl

/-- *(b) + (c): one iteration of `_run_event_loop`.* `s` is the state when the event `q` is taken off
    the queue. The invariant is kept, the measure strictly decreases, the status is unchanged or
    became "done". -/
theorem asyncStep_measure (m : Machine) (u : UEnv) (s : St) (q : QEv) (rest : List QEv)
    (hq : s.queue = q :: rest) (hI : AInv s) :
    AInv (asyncStep m u q { s with queue := rest }) ∧
    potential m.maxIterations (asyncStep m u q { s with queue := rest }) < potential m.maxIterations s ∧
    ((asyncStep m u q { s with queue := rest }).status = s.status ∨
      (asyncStep m u q { s with queue := rest }).status = "done") :=
  Term.asyncStep_measure m u s q rest hq hI

theorem potential_bound (L : Nat) (s : St) : potential L s ≤ (cntExt s.queue + 1) * (L + 4) := potential_le L s

/-- **MAIN THEOREM.** For every machine `m`, user code `u` and state `s` satisfying the invariant
    `AInv` (pending self-raised events were all counted), with `n0` pending external events and
    `L = m.maxIterations`: for every fuel `F ≥ (n0 + 1) * (L + 4)` the run loop ends with the status
    it started with, or "done" — so never with the model's "HANG" marker (unless that was the status
    to begin with, which no model function produces otherwise). -/
theorem asyncDrain_no_hang (m : Machine) (u : UEnv) (s : St) (hI : AInv s) (hs : s.status ≠ "HANG") (F : Nat)
    (hF : (cntExt s.queue + 1) * (m.maxIterations + 4) ≤ F) : (asyncDrain m u F s).status ≠ "HANG" := by
  rcases (asyncDrain_no_hang_aux m u s hI F hF).1 with h | h
  · rw [h]; exact hs
  · rw [h]; decide

theorem asyncDrain_status (m : Machine) (u : UEnv) (s : St) (hI : AInv s) (F : Nat)
    (hF : (cntExt s.queue + 1) * (m.maxIterations + 4) ≤ F) :
    (asyncDrain m u F s).status = s.status ∨ (asyncDrain m u F s).status = "done" :=
  (asyncDrain_no_hang_aux m u s hI F hF).1

/-- **… and the fuel is irrelevant above that bound**: the real, fuel-less loop is `asyncDrain m u F`
    for any such `F`. -/
theorem fuel_irrelevant (m : Machine) (u : UEnv) (s : St) (hI : AInv s) (F : Nat)
    (hF : (cntExt s.queue + 1) * (m.maxIterations + 4) ≤ F) (F' : Nat) (hF' : F ≤ F') :
    asyncDrain m u F s = asyncDrain m u F' s :=
  ((asyncDrain_no_hang_aux m u s hI F hF).2 F' hF').symm

/-- the same with the sharper, state-dependent bound -/
theorem fuel_irrelevant_potential (m : Machine) (u : UEnv) (s : St) (hI : AInv s) (F : Nat)
    (hF : potential m.maxIterations s ≤ F) (F' : Nat) (hF' : F ≤ F') :
    asyncDrain m u F s = asyncDrain m u F' s :=
  (asyncDrain_fuel_irrelevant m u F s hI hF F' hF').symm

/-- *What the loop leaves behind:* whatever the fuel, a run that returns "running" has emptied the
    queue (a run cut short by the fuel is "HANG", one that completed the machine is "done") … -/
theorem asyncDrain_leaves_quiescent (m : Machine) (u : UEnv) (F : Nat) (s : St)
    (hr : (asyncDrain m u F s).status = "running") : (asyncDrain m u F s).queue = [] :=
  asyncDrain_running_queue_nil m u F s hr

/-- … with the counter within the bound (`Idle`), if it was so whenever the queue was empty at the
    start (and at `0` if it was `0` then: `asyncDrain_leaves_quiet`, §4) -/
theorem asyncDrain_leaves_idle (m : Machine) (u : UEnv) (F : Nat) (s : St)
    (h0 : s.queue = [] → s.raiseDepth ≤ m.maxIterations) (hr : (asyncDrain m u F s).status = "running") :
    Idle m (asyncDrain m u F s) :=
  ⟨asyncDrain_running_queue_nil m u F s hr, asyncDrain_idle_depth m u F s h0 hr⟩

/-- the model's constant `asyncFuel m = 10 * L + 50` covers up to 9 pending external events -/
theorem asyncFuel_enough (m : Machine) (n : Nat) (hn : n ≤ 9) : (n + 1) * (m.maxIterations + 4) ≤ asyncFuel m :=
  asyncFuel_ge m n hn

/-- **`send` returns (async).** From any state satisfying the invariant with at most 8 external events
    already pending — in particular from what the loop leaves behind: an empty queue, ANY counter — the
    status after `asyncSend` is the one before or "done": never "HANG". -/
theorem asyncSend_terminates (m : Machine) (u : UEnv) (e : Ev) (s : St) (hI : AInv s) (hn : cntExt s.queue ≤ 8) :
    (asyncSend m u e s).status = s.status ∨ (asyncSend m u e s).status = "done" :=
  asyncSend_status m u e s hI hn

theorem asyncSend_terminates_idle (m : Machine) (u : UEnv) (e : Ev) (s : St) (hq : s.queue = [])
    (hs : s.status ≠ "HANG") : (asyncSend m u e s).status ≠ "HANG" := by
  rcases asyncSend_status m u e s (by simp [AInv, hq, cntSelf]) (by simp [hq, cntExt]) with h | h
  · rw [h]; exact hs
  · rw [h]; decide

/-- the constant `asyncFuel` is not observable: `asyncSend` is the run loop with any larger fuel -/
theorem asyncSend_fuel_irrelevant (m : Machine) (u : UEnv) (e : Ev) (s : St) (hI : AInv s)
    (hn : cntExt s.queue ≤ 8) (hs : s.status = "running") (F : Nat) (hF : asyncFuel m ≤ F) :
    asyncSend m u e s = asyncDrain m u F { s with queue := s.queue ++ [⟨e, false⟩] } :=
  Term.asyncSend_fuel_irrelevant m u e s hI hn hs F hF

/-- **`start()` returns (async)**, under the explicit hypothesis that at most 9 events are pending
    when the initial entry and settling are over (`start()` runs outside the run loop: what entry
    actions raise then is queued like external events, not counted). The status is "running", "done",
    or — the library refused to start — "stopped". -/
theorem asyncStart_terminates (m : Machine) (u : UEnv) (s : St) (hI : AInv s)
    (hn : cntExt (asyncStartSettled m u s).queue ≤ 9) :
    (asyncStart m u s).status = "running" ∨ (asyncStart m u s).status = "done" ∨
      (asyncStart m u s).status = "stopped" := Term.asyncStart_status m u s hI hn

/-- **whole runs (async).** After `start()` and after each of any finite sequence of events, each sent
    when the previous one has been digested: the status is "running", "done" or "stopped" — never
    "HANG" — and a running interpreter is idle (empty queue, counter within the bound). -/
theorem async_run_never_hangs (m : Machine) (u : UEnv) (hn : cntExt (asyncStartSettled m u {}).queue ≤ 9)
    (evs : List Ev) :
    let r := evs.foldl (cmd .async m u) (asyncStart m u {})
    r.status ≠ "HANG" ∧ (r.status = "running" ∨ r.status = "done" ∨ r.status = "stopped") ∧
      (r.status = "running" → r.queue = [] ∧ r.raiseDepth ≤ m.maxIterations) := by
  intro r
  obtain ⟨h1, h2⟩ := async_run_ok m u hn evs
  refine ⟨?_, h1, h2⟩
  rcases h1 with h | h | h <;> (show r.status ≠ "HANG"; rw [h]; decide)

/-- `fanM`: `E` raises its own trigger twice (fan-out 2), bound 3. `asyncSend` returns with status
    "running", an empty queue, the counter reset, a legal configuration; `E` was processed twice (the
    second time the counter reached 4 > 3: the third `E` tripped the breaker, which purged the rest);
    the next event is answered. -/
example : let s := asyncSend fanM u0 (.user "E") running
    (s.status, evTypes s, s.raiseDepth, s.cfg, s.err.isSome, count "sawE@E" s) =
      ("running", [], 0, [[], ["a"]], false, 2) := by decide
example : count "sawX@X" (asyncSend fanM u0 (.user "X") (asyncSend fanM u0 (.user "E") running)) = 1 := by decide
/-- the same from `start()`; the hypothesis of `asyncStart_terminates` holds (nothing is raised) -/
example : cntExt (asyncStartSettled fanM u0 {}).queue = 0 := by decide
example : let s := asyncSend fanM u0 (.user "E") (asyncStart fanM u0 {})
    (s.status, evTypes s) = ("running", []) := by decide
/-- the invariant and the measure on a state of that run: `E` processed once, two `E` pending -/
example : let s : St := { running with queue := [⟨.user "E", true⟩, ⟨.user "E", true⟩], raiseDepth := 2 }
    (decide (cntSelf s.queue ≤ s.raiseDepth), potential 3 s,
     potential 3 (asyncStep fanM u0 ⟨.user "E", true⟩ { s with queue := [⟨.user "E", true⟩] })) = (true, 6, 5) := by
  decide
/-- `reDoneM` (*"an onDone that re-completes its own state"*), bound 3: `start()` returns on both
    engines, running, in a legal configuration; the `onDone` transition ran 3 times on the sync engine (the done
    event queued by `start()` itself is MARKED — `_is_processing` is set during the initial entry — so it is
    the first of the three marked events the drain processes before the cut) and 4 times on the async one (one
    done event queued by `start()` itself, uncounted: `start()` runs outside the run loop; then 3 more before
    the breaker fires) -/
example : let s := syncStart reDoneM u0 {}
    (s.status, s.cfg, evTypes s, count "again@done.state.m.p" s) = ("running", [[], ["p"], ["p", "f"]], [], 3) := by
  decide +kernel
example : let s := asyncStart reDoneM u0 {}
    (s.status, s.cfg, evTypes s, s.raiseDepth, count "again@done.state.m.p" s) =
      ("running", [[], ["p"], ["p", "f"]], [], 0, 4) := by decide +kernel
example : cntExt (asyncStartSettled reDoneM u0 {}).queue = 1 := by decide
/-- The hypothesis of `asyncStart_terminates` cannot simply be dropped — an artefact of the MODEL's fuel
    constant, not of the code: `manyM` raises 60 events from its initial entry actions (queued like
    external events) with bound 0, so `asyncFuel = 50` iterations do not suffice and the model says
    "HANG"; with fuel 61 the same run ends normally, as `fuel_irrelevant` predicts for every fuel
    `≥ (60 + 1) * 4`. (`decide +kernel`: plain kernel evaluation, no extra axiom.) -/
example : (cntExt (asyncStartSettled manyM u0 {}).queue, (asyncStart manyM u0 {}).status) = (60, "HANG") := by
  decide +kernel
example : let s := asyncDrain manyM u0 61 (asyncStartSettled manyM u0 {})
    (s.status, evTypes s, count "sawR@R" s) = ("running", [], 60) := by decide +kernel
/-- `shortM` (`E` raises `R`, `R` raises nothing), bound 3: the chain runs to its natural end and the
    counter is reset -/
example : let s := asyncSend shortM u0 (.user "E") running
    (s.status, evTypes s, s.raiseDepth, count "sawR@R" s) = ("running", [], 0, 1) := by decide

/-! ## 4. events sent from outside -/

/-- *The breaker and the queue.* When the counter exceeds the bound and the dequeued event is itself
    SELF-RAISED it is dropped, every queued self-raised event is purged and the counter reset — nothing
    else changes (configuration, status, error flag, context …: the interpreter "still answers the next
    event"). -/
theorem trip_keeps_running (m : Machine) (u : UEnv) (q : QEv) (s : St) (h : m.maxIterations < s.raiseDepth)
    (hq : q.self = true) :
    asyncStep m u q s = { s with raiseDepth := 0, queue := s.queue.filter (fun q => !q.self) } :=
  asyncStep_above_bound_self m u q s h hq

/-- … an EXTERNAL event dequeued then is not part of the runaway chain: same purge and reset, and the
    event is processed like any other -/
theorem trip_processes_external (m : Machine) (u : UEnv) (q : QEv) (s : St) (h : m.maxIterations < s.raiseDepth)
    (hq : q.self = false) :
    asyncStep m u q s =
      asyncProcess m u q.ev { s with raiseDepth := 0, queue := s.queue.filter (fun q => !q.self) } :=
  asyncStep_above_bound_ext m u q s h hq

/-- below the bound the dequeued event is processed -/
theorem below_bound_processes (m : Machine) (u : UEnv) (q : QEv) (s : St) (h : s.raiseDepth ≤ m.maxIterations) :
    asyncStep m u q s = asyncProcess m u q.ev s := asyncStep_below_bound m u q s h

/-- *"the bound never … discards events sent from outside" (i):* whatever one iteration does — process
    or trip — the external events that were QUEUED stay queued, in order. -/
theorem asyncStep_keeps_queued_external (m : Machine) (u : UEnv) (q : QEv) (s0 : St) :
    extOf (asyncStep m u q s0).queue = extOf s0.queue := Term.asyncStep_keeps_queued_external m u q s0

/-- *(ii):* the event IN HAND is never dropped either if it came from outside: the iteration that
    dequeues an external event processes it, whatever the counter says (from the purged state,
    `asyncBase`, if the breaker fired). -/
theorem external_event_is_processed (m : Machine) (u : UEnv) (q : QEv) (s : St) (hq : q.self = false) :
    asyncStep m u q s = asyncProcess m u q.ev (asyncBase m s) := asyncStep_external m u q s hq

/-- *(iii):* **external events are never discarded by the async run loop.** For every machine, user code,
    state, counter and fuel: the external events the loop received (`asyncLogQ`: dequeued AND processed),
    followed by those still queued when it returns, are exactly the external events queued at the start —
    none lost, none duplicated, order kept; and a loop that returns "running" has received them all. -/
theorem external_events_never_discarded_async (m : Machine) (u : UEnv) (F : Nat) (s : St) :
    extOf (asyncLogQ m u F s) ++ extOf (asyncDrain m u F s).queue = extOf s.queue ∧
    ((asyncDrain m u F s).status = "running" → extOf (asyncLogQ m u F s) = extOf s.queue) := by
  have h := async_external_split m u F s
  refine ⟨h, fun hr => ?_⟩
  rw [asyncDrain_running_queue_nil m u F s hr] at h
  simpa [extOf] using h

/-- *(iv):* an event sent to a running, idle interpreter — what `start()` and every digested `send`
    leave behind, see `async_run_never_hangs` — is processed, never dropped. -/
theorem asyncSend_at_idle_processes (m : Machine) (u : UEnv) (e : Ev) (s : St) (hs : s.status = "running")
    (hi : Idle m s) :
    asyncSend m u e s =
      asyncDrain m u (10 * m.maxIterations + 49) (asyncProcess m u e { s with queue := [] }) :=
  Term.asyncSend_at_idle_processes m u e s hs hi

/-- **The former Deviation 1 (F30), repaired outcome.** `burstM`, bound 3: `E` raises `R` four times in one
    step. With `E` and `X` both sent before the loop runs (two `await send(…)` in a row), `X` — an external
    event — is dequeued with the counter at 4 > 3: the breaker fires, the four `R`s are purged, and `X` IS
    PROCESSED (`sawX` runs once; before the repair it was dropped: 0). Sent in the other order both are
    processed, as before. -/
theorem burst_keeps_external_event :
    count "sawX@X" (asyncDrain burstM u0 (asyncFuel burstM)
      { running with queue := [⟨.user "E", false⟩, ⟨.user "X", false⟩] }) = 1 ∧
    count "sawR@R" (asyncDrain burstM u0 (asyncFuel burstM)
      { running with queue := [⟨.user "E", false⟩, ⟨.user "X", false⟩] }) = 0 ∧
    asyncTrips burstM u0 (asyncFuel burstM)
      { running with queue := [⟨.user "E", false⟩, ⟨.user "X", false⟩] } = 1 ∧
    count "sawX@X" (asyncDrain burstM u0 (asyncFuel burstM)
      { running with queue := [⟨.user "X", false⟩, ⟨.user "E", false⟩] }) = 1 := by decide

/-! ### chains shorter than the bound run to their natural end -/

/-- **the chain counter is reset whenever a chain ends.** After an event has been processed —
    successfully or NOT — with the machine still running and no self-raised event queued, the counter
    is 0: nothing leaks into the next chain. -/
theorem counter_reset_when_chain_ends (m : Machine) (u : UEnv) (e : Ev) (s : St)
    (hr : (asyncProcess m u e s).status = "running") (hq : cntSelf (asyncProcess m u e s).queue = 0) :
    (asyncProcess m u e s).raiseDepth = 0 := asyncProcess_counter_zero m u e s hr hq

/-- … spelled out for a macrostep that FAILED (the case the reset used to skip, F31): the failure is
    logged and counted, the error flag cleared, and the counter is reset all the same -/
theorem counter_reset_after_failed_macrostep (m : Machine) (u : UEnv) (e : Ev) (s : St)
    (hfail : (asyncProcessed m u e s).err ≠ none)
    (hr : (asyncProcess m u e s).status = "running") (hq : cntSelf (asyncProcess m u e s).queue = 0) :
    (asyncProcess m u e s).raiseDepth = 0 ∧ (asyncProcess m u e s).errors = s.errors + 1 ∧
      (asyncProcess m u e s).err = none := by
  refine ⟨asyncProcess_counter_zero m u e s hr hq, ?_, asyncProcess_err_none m u e s⟩
  rw [asyncProcess_failed m u e s hfail, (asyncChainEnd_fields _ _).2.2.2.2.2.2.2]

/-- the same for a whole iteration of the loop, tripping or not -/
theorem asyncStep_counter_reset (m : Machine) (u : UEnv) (q : QEv) (s : St)
    (hr : (asyncStep m u q s).status = "running") (hq : cntSelf (asyncStep m u q s).queue = 0) :
    (asyncStep m u q s).raiseDepth = 0 := asyncStep_counter_zero m u q s hr hq

/-- *What the loop leaves behind, sharpened:* a run of the loop that returns "running" has emptied the
    queue and left the counter at 0 — whatever happened on the way, failed macrosteps included — if
    the counter was 0 whenever the queue was empty at the start. -/
theorem asyncDrain_leaves_quiet (m : Machine) (u : UEnv) (F : Nat) (s : St)
    (h0 : s.queue = [] → s.raiseDepth = 0) (hr : (asyncDrain m u F s).status = "running") :
    Quiet (asyncDrain m u F s) :=
  ⟨asyncDrain_running_queue_nil m u F s hr, asyncDrain_counter_zero m u F s h0 hr⟩

/-- **whole runs: every command starts with the counter at 0.** After `start()` and after each of any
    finite sequence of events, each sent when the previous one has been digested, a running interpreter
    has an empty queue and `raiseDepth = 0` (no hypothesis on the machine or on user code: macrosteps may
    fail, chains may have been cut). -/
theorem async_run_quiet (m : Machine) (u : UEnv) (evs : List Ev)
    (hr : (evs.foldl (cmd .async m u) (asyncStart m u {})).status = "running") :
    (evs.foldl (cmd .async m u) (asyncStart m u {})).queue = [] ∧
    (evs.foldl (cmd .async m u) (asyncStart m u {})).raiseDepth = 0 := Term.async_run_quiet m u evs hr

/-- **a chain of at most `maxIterations` self-raised events, started from a state with the counter at 0,
    is never cut** (the formal counterpart of the monitor `oracles.c13_short_chain_not_cut`; general form:
    the counter at the start plus the number of events the machine sends itself during this run of the
    loop — `asyncSelfSends`, over all events processed, external or raised — within the bound). The chain
    breaker does not fire in any iteration (`asyncTrips = 0`), for every fuel. -/
theorem short_chain_not_cut_async (m : Machine) (u : UEnv) (F : Nat) (s : St)
    (h : s.raiseDepth + asyncSelfSends m u F s ≤ m.maxIterations) : asyncTrips m u F s = 0 :=
  short_chain_not_cut m u F s h

/-- … for one `send` to a quiet interpreter (what every command of a run finds, `async_run_quiet`) -/
theorem short_chain_not_cut_send (m : Machine) (u : UEnv) (e : Ev) (s : St) (hq : Quiet s)
    (h : asyncSelfSends m u (asyncFuel m) { s with queue := s.queue ++ [⟨e, false⟩] } ≤ m.maxIterations) :
    asyncTrips m u (asyncFuel m) { s with queue := s.queue ++ [⟨e, false⟩] } = 0 := by
  apply short_chain_not_cut
  have : ({ s with queue := s.queue ++ [⟨e, false⟩] } : St).raiseDepth = 0 := hq.2
  omega

/-- when the breaker never fires every dequeued event is received: nothing at all is dropped -/
theorem no_trip_receives_everything (m : Machine) (q : QEv) (s : St)
    (h : ¬ s.raiseDepth > m.maxIterations) : asyncReceives m q s = true :=
  (asyncReceives_eq_true m q s).2 (fun hh => h hh.1)

/-- `shortM` (`E` raises `R` once, bound 3): one self-send, no trip; `fanM` (fan-out 2, bound 3): the
    machine sends itself 4 events, more than the bound — the hypothesis fails, and the breaker fires once -/
example : (asyncSelfSends shortM u0 (asyncFuel shortM) { running with queue := [⟨.user "E", false⟩] },
    asyncTrips shortM u0 (asyncFuel shortM) { running with queue := [⟨.user "E", false⟩] }) = (1, 0) := by decide
example : (asyncSelfSends fanM u0 (asyncFuel fanM) { running with queue := [⟨.user "E", false⟩] },
    asyncTrips fanM u0 (asyncFuel fanM) { running with queue := [⟨.user "E", false⟩] }) = (4, 1) := by decide

/-- **Counterexample to the per-causal-chain reading (F70, async; open).** `shortM`, bound 3: `E` raises `R` once,
    `R` raises nothing — every external `E` starts a chain of length 1. ALONE such a chain is within the bound,
    is not cut and its `R` is received. FOUR of them queued together (`send_events([E, E, E, E])`, or four sends
    while the loop is busy): the counter is never reset while a self-raised event is pending, reaches 4 > 3 after
    the fourth `E`, and the breaker — fired by the first `R` dequeued — purges all four `R`: every `E` is received,
    NO `R` is. The interpreter stays running with an empty queue. The hypothesis of `short_chain_not_cut_async`
    does not hold for this run (4 self-sends in the busy period), so the theorem is not contradicted: it bounds
    the total of a busy period, not a chain. -/
theorem burst_of_short_chains_is_cut_async :
    let e : QEv := ⟨.user "E", false⟩
    let one : St := { running with queue := [e] }
    let s0 : St := { running with queue := [e, e, e, e] }
    (shortM.maxIterations, asyncSelfSends shortM u0 (asyncFuel shortM) one,
      asyncTrips shortM u0 (asyncFuel shortM) one, count "sawR@R" (asyncDrain shortM u0 (asyncFuel shortM) one)) = (3, 1, 0, 1) ∧
    (asyncLogQ shortM u0 (asyncFuel shortM) s0).map (·.ev.type) = ["E", "E", "E", "E"] ∧
    count "sawR@R" (asyncDrain shortM u0 (asyncFuel shortM) s0) = 0 ∧
    asyncTrips shortM u0 (asyncFuel shortM) s0 = 1 ∧
    ((asyncDrain shortM u0 (asyncFuel shortM) s0).status, evTypes (asyncDrain shortM u0 (asyncFuel shortM) s0)) = ("running", []) ∧
    asyncSelfSends shortM u0 (asyncFuel shortM) s0 = 4 := by decide
/-- … five of them: the fifth `E` (external) is dequeued with the counter at 4, the breaker purges the four `R`
    queued so far and `E` is processed from 0: one `R` of five survives (in general `N mod (maxIterations + 1)`
    of `N`; the code with its default bound 1000 and a burst of 1500: 499) -/
example : let e : QEv := ⟨.user "E", false⟩
    count "sawR@R" (asyncDrain shortM u0 (asyncFuel shortM) { running with queue := [e, e, e, e, e] }) = 1 := by decide

/-- **The former Deviation 2 (F31), repaired outcome.** `errChainM`, bound 3: `E` raises `R`; handling `R`
    runs `sawR` and then fails on a missing action. The counter IS reset after the failed macrostep: after
    three such (independent, length-1) chains it stands at 0 with an empty queue (before the repair: 3),
    and the fourth chain runs to its natural end: its `R` is received, `sawR` ran 4 times (before: 3, the
    fourth `R` was dropped by the breaker although the chain is shorter than the bound). -/
theorem failed_chains_do_not_leak :
    let s3 := [Ev.user "E", .user "E", .user "E"].foldl (cmd .async errChainM u0) running
    let s4 := cmd .async errChainM u0 s3 (.user "E")
    (s3.status, evTypes s3, s3.raiseDepth, count "sawR@R" s3) = ("running", [], 0, 3) ∧
    (s4.status, evTypes s4, s4.raiseDepth, count "sawR@R" s4) = ("running", [], 0, 4) ∧
    asyncTrips errChainM u0 (asyncFuel errChainM) { s3 with err := none, queue := [⟨.user "E", false⟩] } = 0 := by
  decide

/-! ### the sync engine: termination, external events, short chains, leftovers (F10, repaired twice) -/

/-- `_process_event_queue()`: the loop with `chained = 0`; `syncSend` / `send_events` / `syncStart` all drain
    through `drainFlagged`. The first argument is the MODEL's fuel (`drainFuel`). -/
theorem sync_drain_is (m : Machine) (u : UEnv) (s : St) :
    drainFlagged m u s = drainLoop m u ((cntExt s.queue + 1) * (m.maxIterations + 2)) 0 s := rfl

/-- the measure of the sync drain strictly decreases in every iteration: processing the head (marked and
    within the bound, or external) … -/
theorem sync_measure_decreases (m : Machine) (u : UEnv) (c : Nat) (s : St) (q : QEv) (rest : List QEv)
    (hq : s.queue = q :: rest) (hc : c ≤ m.maxIterations) (ht : syncTrips m c q = false) :
    drainPot m.maxIterations (chainedNext c q) (syncMacro m u q.ev { s with queue := rest }).queue <
      drainPot m.maxIterations c s.queue ∧ chainedNext c q ≤ m.maxIterations :=
  ⟨Term.drainPot_step m u c s q rest hq hc ht, Term.chainedNext_le m c q hc ht⟩

/-- … and a cut -/
theorem sync_measure_decreases_cut (m : Machine) (c : Nat) (s : St) (q : QEv) (rest : List QEv)
    (hq : s.queue = q :: rest) (hc : c ≤ m.maxIterations) (ht : syncTrips m c q = true) :
    drainPot m.maxIterations 0 (syncPurge s).queue < drainPot m.maxIterations c s.queue :=
  Term.drainPot_trip m c s q rest hq hc ht

/-- **the sync drain terminates — for every machine, user code and state.** With any fuel `F ≥ drainFuel m s`
    (in general: at least the measure `drainPot`) the model's fuel never runs out with events pending on a
    running interpreter (`drainHang`): the `while self._event_queue:` loop of the code, which has no such
    bound, ends after at most `(external events queued + 1) * (maxIterations + 2)` iterations. -/
theorem sync_drain_terminates (m : Machine) (u : UEnv) (s : St) (F : Nat) (hF : drainFuel m s ≤ F) :
    drainHang m u F 0 s = false := Term.drain_no_hang m u s F hF

theorem sync_drain_terminates_pot (m : Machine) (u : UEnv) (F c : Nat) (s : St) (hc : c ≤ m.maxIterations)
    (hF : drainPot m.maxIterations c s.queue ≤ F) : drainHang m u F c s = false :=
  Term.drain_no_hang_pot m u F c s hc hF

/-- **… and the fuel is irrelevant**: the drain the model runs is the drain with ANY larger fuel — the real,
    fuel-less loop — in its result and in the events it receives. -/
theorem sync_fuel_irrelevant (m : Machine) (u : UEnv) (s : St) (F : Nat) (hF : drainFuel m s ≤ F) :
    drainLoop m u F 0 s = drainFlagged m u s ∧ drainLogQ m u F 0 s = drainLogQ m u (drainFuel m s) 0 s :=
  Term.sync_fuel_irrelevant m u s F hF

/-- `send` returns (sync): `syncSend` is the fuel-less drain of the queue with the event appended -/
theorem syncSend_terminates (m : Machine) (u : UEnv) (e : Ev) (s : St) (hr : s.status = "running") (F : Nat)
    (hF : drainFuel m { s with queue := s.queue ++ [⟨e, false⟩] } ≤ F) :
    syncSend m u e s = drainLoop m u F 0 { s with queue := s.queue ++ [⟨e, false⟩] } ∧
    drainHang m u F 0 { s with queue := s.queue ++ [⟨e, false⟩] } = false := by
  refine ⟨?_, Term.drain_no_hang m u _ F hF⟩
  rw [(Term.sync_fuel_irrelevant m u _ F hF).1]
  unfold syncSend sndUnflagged
  rw [if_pos hr]

/-- with the model's fuel, "cut" (`drainCut`) means exactly: the bound tripped at least once -/
theorem sync_cut_iff_trips (m : Machine) (u : UEnv) (s : St) :
    drainCut m u (drainFuel m s) 0 s = true ↔ 0 < drainTrips m u (drainFuel m s) 0 s :=
  Term.drainCut_iff_trips m u _ 0 s (Term.drain_no_hang m u s _ (Nat.le_refl _))

/-- **external events are never discarded by the sync bound** (the sync counterpart of
    `external_events_never_discarded_async`; the former counterexample `sync_burst_throttled` no longer holds).
    For every machine, user code and state — in particular with MARKED leftovers of a drain that raised queued
    in front of, or between, the external events: the external events the drain received (`drainLogQ`:
    dequeued AND handed to `_process_event`), followed by those still queued when it returns, are an initial
    segment of the external events queued at its start — none skipped, none twice, order kept; ALL of them when
    the interpreter is still "running" then (the only way an external event is lost: the machine completed or
    was stopped — status gate, C10); and a drain that returns "running" without raising has received every one
    of them and left nothing queued. -/
theorem external_events_never_discarded_sync (m : Machine) (u : UEnv) (s : St) :
    (extOf (drainLogQ m u (drainFuel m s) 0 s) ++ extOf (drainFlagged m u s).queue <+: extOf s.queue) ∧
    ((drainFlagged m u s).status = "running" →
      extOf (drainLogQ m u (drainFuel m s) 0 s) ++ extOf (drainFlagged m u s).queue = extOf s.queue) ∧
    ((drainFlagged m u s).err = none → (drainFlagged m u s).status = "running" →
      extOf (drainLogQ m u (drainFuel m s) 0 s) = extOf s.queue ∧ (drainFlagged m u s).queue = []) := by
  have h1 := Term.drain_external_prefix m u (drainFuel m s) 0 s
  have h2 := Term.drain_external_split m u (drainFuel m s) 0 s (Term.drain_no_hang m u s _ (Nat.le_refl _))
  refine ⟨h1, h2, fun he hr => ?_⟩
  have hnil : (drainLoop m u (drainFuel m s) 0 s).queue = [] := drainLoop_queue_nil m u _ _ _ he
  have := h2 hr
  rw [hnil] at this
  exact ⟨by simpa [extOf] using this, hnil⟩

/-- … for every fuel and counter: a prefix, always -/
theorem external_events_prefix_sync (m : Machine) (u : UEnv) (fuel c : Nat) (s : St) :
    extOf (drainLogQ m u fuel c s) ++ extOf (drainLoop m u fuel c s).queue <+: extOf s.queue :=
  Term.drain_external_prefix m u fuel c s

/-- **a drain in which at most `maxIterations` marked events come up is never cut** (the sync counterpart of
    `short_chain_not_cut_async`, and of the monitor `oracles.c13_short_chain_not_cut`). The marked entries
    queued when the drain starts (`cntSelf`: leftovers of a drain that raised, what `start()` queued) plus
    `drainRaised`: the events the macrosteps of this drain append to the queue — every `raise`, every
    `done.state.*`, every `send` to itself, over all events processed. However many EXTERNAL events are queued. -/
theorem short_chain_not_cut_sync (m : Machine) (u : UEnv) (s : St)
    (h : cntSelf s.queue + (drainRaised m u (drainFuel m s) 0 s).length ≤ m.maxIterations) :
    drainTrips m u (drainFuel m s) 0 s = 0 ∧ drainCut m u (drainFuel m s) 0 s = false := by
  have h0 := drainTrips_zero_of_raised m u (drainFuel m s) 0 s (by omega)
  refine ⟨h0, ?_⟩
  cases hc : drainCut m u (drainFuel m s) 0 s with
  | false => rfl
  | true => have := (sync_cut_iff_trips m u s).1 hc; omega

/-- … the exact threshold: the bound trips only in a drain in which MORE than `maxIterations` marked events
    come up -/
theorem sync_cut_needs_long_chain (m : Machine) (u : UEnv) (s : St)
    (hc : drainCut m u (drainFuel m s) 0 s = true) :
    m.maxIterations < cntSelf s.queue + (drainRaised m u (drainFuel m s) 0 s).length := by
  by_cases h : m.maxIterations < cntSelf s.queue + (drainRaised m u (drainFuel m s) 0 s).length
  · exact h
  · rw [(short_chain_not_cut_sync m u s (by omega)).2] at hc; exact absurd hc (by simp)

/-- … for one `send` to an interpreter with nothing marked queued (the event appended, then the drain) -/
theorem short_chain_not_cut_send_sync (m : Machine) (u : UEnv) (e : Ev) (s : St) (hs : cntSelf s.queue = 0)
    (h : (drainRaised m u (drainFuel m { s with queue := s.queue ++ [⟨e, false⟩] }) 0
      { s with queue := s.queue ++ [⟨e, false⟩] }).length ≤ m.maxIterations) :
    drainCut m u (drainFuel m { s with queue := s.queue ++ [⟨e, false⟩] }) 0
      { s with queue := s.queue ++ [⟨e, false⟩] } = false := by
  apply (short_chain_not_cut_sync m u { s with queue := s.queue ++ [⟨e, false⟩] } ?_).2
  have : cntSelf ({ s with queue := s.queue ++ [⟨e, false⟩] } : St).queue = 0 := by
    show cntSelf (s.queue ++ [⟨e, false⟩]) = 0
    rw [cntSelf_append, hs]; rfl
  omega

/-- **the work of one drain does not depend on the marked leftovers** (what made the first repair of F10 hang:
    there, every event left queued by a drain that raised was exempt from the bound, so a fan-out machine
    processed ALL of them in the next drain, each enqueuing several more). One `_process_event_queue()`
    processes at most `maxIterations + 1` events per external event queued plus `maxIterations`, and with
    `MacroFanout m u K` enqueues at most `K` times as many. -/
theorem sync_drain_work_bounded (m : Machine) (u : UEnv) (K : Nat) (hK : Term.MacroFanout m u K) (s : St) :
    drainSteps m u (drainFuel m s) 0 s ≤ cntExt s.queue * (m.maxIterations + 1) + m.maxIterations ∧
    (drainFlagged m u s).queue.length ≤ s.queue.length + K * drainSteps m u (drainFuel m s) 0 s :=
  ⟨Term.drainSteps_le m u _ s, Term.drain_queue_length m u K hK _ 0 s⟩

/-- **the queue left behind by a drain stays bounded** (the formal counterpart of the regression of the first
    repair of F10). When `_process_event_queue()` returns — in particular with an error, which keeps what is
    queued, marks included — the MARKED entries still queued are at most the marked entries queued when it
    started, if the bound never tripped, and none of those otherwise (a cut purges them ALL), plus `K` per
    event this drain processed, `K` any bound on what one macrostep enqueues; and the drain processed at most
    `cntExt s.queue * (maxIterations + 1) + maxIterations` events. So what a later drain finds is bounded by
    what the earlier ones PROCESSED (not by what they found): the queue cannot grow geometrically from `send`
    to `send`; and as soon as more than `maxIterations` marked leftovers are dequeued in one drain — at the
    `maxIterations + 1`-st — they are all gone. -/
theorem leftovers_stay_bounded (m : Machine) (u : UEnv) (K : Nat) (hK : Term.MacroFanout m u K) (s : St) :
    cntSelf (drainFlagged m u s).queue ≤
      (if drainTrips m u (drainFuel m s) 0 s = 0 then cntSelf s.queue else 0) +
        K * drainSteps m u (drainFuel m s) 0 s ∧
    cntSelf (drainFlagged m u s).queue ≤
      (if drainTrips m u (drainFuel m s) 0 s = 0 then cntSelf s.queue else 0) +
        K * (cntExt s.queue * (m.maxIterations + 1) + m.maxIterations) ∧
    cntExt (drainFlagged m u s).queue ≤ cntExt s.queue := by
  have h1 := Term.drain_leftovers m u K hK (drainFuel m s) 0 s
  have h2 := Term.drainSteps_le m u (drainFuel m s) s
  refine ⟨h1, Nat.le_trans h1 (Nat.add_le_add_left (Nat.mul_le_mul_left K h2) _), ?_⟩
  have h3 := Term.drain_external_prefix m u (drainFuel m s) 0 s
  have h4 := h3.length_le
  rw [List.length_append, Term.extOf_length, Term.extOf_length, Term.extOf_length] at h4
  show cntExt (drainLoop m u (drainFuel m s) 0 s).queue ≤ _
  omega

/-- … a drain that starts with MORE than `maxIterations` marked leftovers at the head of its queue and whose
    first `maxIterations` macrosteps do not fail purges them at the `maxIterations + 1`-st: stated through the
    counter — a marked head is processed only while fewer than `maxIterations` marked events were dequeued
    since the last cut -/
theorem marked_head_processed_iff (m : Machine) (c : Nat) (q : QEv) (hq : q.self = true) :
    syncTrips m c q = false ↔ c + 1 ≤ m.maxIterations := by
  rw [Term.syncTrips_eq_false]; simp [hq]

/-- `fanErrM` (`E` raises `R` twice and then FAILS, `R` raises `R` twice; bound 3), `send(E)` four times (each
    from the state the previous one left, error flag cleared — the exception went to the caller): every `send`
    raises; the queue it leaves behind has length 2, 6, 2, 6 — bounded: the second send finds `R R E`, processes
    `R R` (marked, 2 ≤ 3) and `E`, leaves 6 marked `R`; the third finds `R⁶ E`, processes three `R`, the fourth
    trips the bound: all marked entries are purged, `E` is processed and leaves 2. (Under the first repair
    every leftover was exempt from the bound: 2, 6, 14, 30, … — each drain processed all of them.) `K = 2` is a
    fan-out bound for the run, and `leftovers_stay_bounded` gives 2, 2 + 2·3, 0 + 2·4, 2 + 2·3. -/
theorem leftovers_example :
    let s1 := cmd .sync fanErrM u0 running (.user "E")
    let s2 := cmd .sync fanErrM u0 s1 (.user "E")
    let s3 := cmd .sync fanErrM u0 s2 (.user "E")
    let s4 := cmd .sync fanErrM u0 s3 (.user "E")
    (s1.queue.length, s2.queue.length, s3.queue.length, s4.queue.length) = (2, 6, 2, 6) ∧
    (s1.err.isSome, s2.err.isSome, s3.err.isSome, s4.err.isSome) = (true, true, true, true) ∧
    (cntSelf s1.queue, cntSelf s2.queue, cntSelf s3.queue, cntSelf s4.queue) = (2, 6, 2, 6) ∧
    (let q2 : St := { s1 with err := none, queue := s1.queue ++ [⟨.user "E", false⟩] }
     let q3 : St := { s2 with err := none, queue := s2.queue ++ [⟨.user "E", false⟩] }
     (drainSteps fanErrM u0 (drainFuel fanErrM q2) 0 q2, drainTrips fanErrM u0 (drainFuel fanErrM q2) 0 q2,
      drainSteps fanErrM u0 (drainFuel fanErrM q3) 0 q3, drainTrips fanErrM u0 (drainFuel fanErrM q3) 0 q3) =
       (3, 0, 4, 1)) := by decide

/-- **Counterexample to the per-causal-chain reading (F70, sync; open).** The same witness on the sync engine: one
    `E` alone enqueues one event while draining, is not cut, its `R` is received. Four `E` queued by one
    `send_events`: every raised `R` is marked and every marked dequeue of the drain counts, so after
    `E E E E R R R` the counter stands at 3 and the fourth `R` trips the bound: the cut discards it — the whole
    (length 1) chain of the fourth `E` (in general `N - maxIterations` of `N`). The hypothesis of
    `short_chain_not_cut_sync` does not hold (4 events enqueued while draining): it bounds the total of a drain,
    not a chain. -/
theorem burst_of_short_chains_is_cut_sync :
    let e : QEv := ⟨.user "E", false⟩
    let one : St := { running with queue := [e] }
    let s0 : St := { running with queue := [e, e, e, e] }
    (shortM.maxIterations, (drainRaised shortM u0 (drainFuel shortM one) 0 one).length,
      drainCut shortM u0 (drainFuel shortM one) 0 one, count "sawR@R" (drainFlagged shortM u0 one)) = (3, 1, false, 1) ∧
    (drainLog shortM u0 (drainFuel shortM s0) 0 s0).map (·.type) = ["E", "E", "E", "E", "R", "R", "R"] ∧
    count "sawR@R" (drainFlagged shortM u0 s0) = 3 ∧
    drainCut shortM u0 (drainFuel shortM s0) 0 s0 = true ∧
    ((drainFlagged shortM u0 s0).status, evTypes (drainFlagged shortM u0 s0)) = ("running", []) ∧
    (drainRaised shortM u0 (drainFuel shortM s0) 0 s0).length = 4 := by decide

/-- **The former Deviation 3 (F10), repaired outcome.** Five plain external events queued by one call
    (`send_events`) with bound 3 — no chain at all: all five are processed (before the repair: 3, the last
    two were discarded); external events do not count, nothing is cut. -/
theorem sync_burst_not_throttled :
    let x : QEv := ⟨.user "X", false⟩
    count "sawX@X" (drainFlagged fanM u0 { running with queue := [x, x, x, x, x] }) = 5 ∧
    drainTrips fanM u0 (drainFuel fanM { running with queue := [x, x, x, x, x] }) 0
      { running with queue := [x, x, x, x, x] } = 0 ∧
    drainCut fanM u0 (drainFuel fanM { running with queue := [x, x, x, x, x] }) 0
      { running with queue := [x, x, x, x, x] } = false := by
  decide
/-- … and a burst mixed with a runaway chain: `X E X`, `fanM` (`E` raises `E` twice, bound 3): `X E X` are
    received first, then three of the raised (marked) `E`s, then the cut — which discards raised `E`s only -/
example : let x : QEv := ⟨.user "X", false⟩
    let e : QEv := ⟨.user "E", false⟩
    (drainLog fanM u0 (drainFuel fanM { running with queue := [x, e, x] }) 0 { running with queue := [x, e, x] },
     drainCut fanM u0 (drainFuel fanM { running with queue := [x, e, x] }) 0 { running with queue := [x, e, x] },
     count "sawX@X" (drainFlagged fanM u0 { running with queue := [x, e, x] })) =
    ([.user "X", .user "E", .user "X", .user "E", .user "E", .user "E"], true, 2) := by decide
/-- … and with MARKED leftovers in front of the external events (what a drain that raised leaves): five marked
    `E` then `X X`, bound 3 — three `E` are processed, the fourth trips the bound: every marked entry is purged
    (the fifth leftover and the six `E` raised meanwhile), both `X` are received -/
example : let x : QEv := ⟨.user "X", false⟩
    let l : QEv := ⟨.user "E", true⟩
    (drainLog fanM u0 (drainFuel fanM { running with queue := [l, l, l, l, l, x, x] }) 0
        { running with queue := [l, l, l, l, l, x, x] },
     drainTrips fanM u0 (drainFuel fanM { running with queue := [l, l, l, l, l, x, x] }) 0
        { running with queue := [l, l, l, l, l, x, x] },
     evTypes (drainFlagged fanM u0 { running with queue := [l, l, l, l, l, x, x] })) =
    ([.user "E", .user "E", .user "E", .user "X", .user "X"], 1, []) := by decide
/-- `shortM` (`E` raises `R` once, bound 3): one event enqueued while draining, not cut; `fanM`: the hypothesis
    of `short_chain_not_cut_sync` fails (8 > 3 events enqueued while draining) and the drain is cut -/
example : ((drainRaised shortM u0 (drainFuel shortM { running with queue := [⟨.user "E", false⟩] }) 0
      { running with queue := [⟨.user "E", false⟩] }).length,
    drainCut shortM u0 (drainFuel shortM { running with queue := [⟨.user "E", false⟩] }) 0
      { running with queue := [⟨.user "E", false⟩] }) = (1, false) := by decide
example : ((drainRaised fanM u0 (drainFuel fanM { running with queue := [⟨.user "E", false⟩] }) 0
      { running with queue := [⟨.user "E", false⟩] }).length,
    drainCut fanM u0 (drainFuel fanM { running with queue := [⟨.user "E", false⟩] }) 0
      { running with queue := [⟨.user "E", false⟩] }) = (8, true) := by decide

/-! ## 5. … "leaving a legal configuration" -/

/-- Legality of the configuration after `send` — cut or not — is C01 (`legal_run`); for one command: -/
theorem send_leaves_legal (fl : Flavor) (m : Machine) (u : UEnv) (e : Ev) (hwf : WF m.root) (hi : InitOK m.root)
    (hsel : SelSound m) (s : St) (hl : Legal m.root s.cfg) : Legal m.root (cmd fl m u s e).cfg :=
  cmd_inv fl m u e hwf hi hsel s hl

end XSM.C13
