import Xsm.Proofs.Descriptor
/-!
# C20 — event-descriptor matching

"Within one state an event type is matched first against an identical key, then against partial
descriptors `p.*` in decreasing prefix length (where `p.*` matches `p` itself and anything beginning
`p.`), and last against `*`, candidates being tried in that order. Synthetic events the engine raises
(`done.*`, `error.*`, `after.*`, `xstate.*`) are matched only by their exact handler and never by a
partial or bare wildcard, and a transition declared as null consumes its event at that state so that
no ancestor's handler runs."

Statements only; the proofs live in `Xsm/Proofs/Descriptor.lean`. Everything is about the model's own
definitions `XSM.matchingDescriptors` (`Xsm/Model/Descriptor.lean`, the model of
`_matching_descriptors`) and `XSM.onCands` / `XSM.collectChain` / `XSM.collectEligible`
(`Xsm/Model/Select.lean`, the model of `_collect_eligible_transitions`), for ALL key lists and ALL
event strings.

Vocabulary (defined in `Xsm/Proofs/Descriptor.lean`, unfolded by the two `_spec` theorems below):
* `isInternal ev`       : `ev` starts with one of `internalPrefixes` (the tuple read from the source);
* `partialMatch k ev`   : `k ≠ "*"`, `k` ends with `.*`, and `ev` is `k[:-2]` or starts with `k[:-2] ++ "."`;
* `partialsOf keys ev`  : the model's sorted list of the keys with `partialMatch k ev`;
* `transOf d key`       : the transition list under `key` in `d.on` (Python `current.on[key]`);
* `onAll d keys`        : `keys.flatMap (transOf d)`; `onVisited d keys`: its part before the first
                          forbidden transition; `onBlocked d keys`: whether there is a forbidden one;
* `onKeys d ev`         : `matchingDescriptors (d.on.map (·.1)) ev.type`;
* `consumesAt d ev`     : `onBlocked d (onKeys d ev)`;
* `passing g src ts`    : the candidates `⟨src, t⟩` for the `t ∈ ts` with `g t.tid`, in order;
* `CacheOK g c`         : every entry of the guard cache `c` agrees with the oracle `g`.
-/
namespace XSM.C20
open XSM

/-! ## vocabulary, unfolded -/

/-- meaning of `isInternal` -/
theorem isInternal_spec (ev : String) :
    isInternal ev = true ↔ ∃ p ∈ internalPrefixes, sStartsWith ev p = true :=
  XSM.isInternal_iff

/-- meaning of `partialMatch`: `p.*` matches `p` itself and anything beginning `p.` -/
theorem partialMatch_spec (k ev : String) :
    partialMatch k ev = true ↔
      k ≠ "*" ∧ sEndsWith k ".*" = true ∧
        (ev = sDropRight k 2 ∨ sStartsWith ev (sDropRight k 2 ++ ".") = true) :=
  XSM.partialMatch_iff

example : partialMatch "a.b.*" "a.b" = true ∧ partialMatch "a.b.*" "a.b.c" = true ∧
    partialMatch "a.b.*" "a.bc" = false ∧ partialMatch "*" "a" = false := by decide

/-! ## clause 1: "matched first against an identical key" -/

/-- **exact key first**: an identical key is the first descriptor tried. -/
theorem exact_first (keys : List String) (ev : String) (hev : ev ≠ "") (hmem : ev ∈ keys) :
    (matchingDescriptors keys ev).head? = some ev :=
  XSM.matching_exact_first keys ev hev hmem

example : (matchingDescriptors ["a.*", "*", "a.b", "a.b.*"] "a.b").head? = some "a.b" := by decide
example : (matchingDescriptors ["a.*", "*", "a.b", "a.b.*"] "a.b").head? = some "a.b" :=
  exact_first _ _ (by decide) (by decide)

/-- **... and only once**: with distinct keys (they come from a dict) the exact key does not occur
    again further down — provided the event type is not itself of descriptor form (`*` or `….*`).
    For such event types the exact key really is tried twice; see the two `example`s below, which
    the Python code reproduces. -/
theorem exact_once (keys : List String) (ev : String) (hn : keys.Nodup) (hev : ev ≠ "")
    (hmem : ev ∈ keys) (hstar : ev ≠ "*") (hsuf : sEndsWith ev ".*" = false) :
    ∃ rest, matchingDescriptors keys ev = ev :: rest ∧ ev ∉ rest :=
  XSM.matching_exact_once keys ev hn hev hmem hstar hsuf

/-- more generally the whole result is duplicate-free under the same conditions -/
theorem matching_nodup (keys : List String) (ev : String) (hn : keys.Nodup)
    (hstar : ev ≠ "*") (hsuf : sEndsWith ev ".*" = false) :
    (matchingDescriptors keys ev).Nodup :=
  XSM.matching_nodup keys ev hn hstar hsuf

example : matchingDescriptors ["a.*", "*", "a.b", "a.b.*"] "a.b" = ["a.b", "a.b.*", "a.*", "*"] := by
  decide
/-- the side conditions of `exact_once` are necessary: an event literally named like a descriptor is
    matched by that key twice (same in the Python code) -/
example : matchingDescriptors ["a.*"] "a.*" = ["a.*", "a.*"] := by decide
example : matchingDescriptors ["*"] "*" = ["*", "*"] := by decide

/-! ## clause 2: which keys are candidates at all -/

/-- **membership**: a key is tried iff it is the identical key, or — for non-internal events only —
    it is `*` or a partial descriptor `p.*` with `ev = p` or `ev` beginning `p.`. -/
theorem mem_matching (keys : List String) (ev k : String) :
    k ∈ matchingDescriptors keys ev ↔
      keys ≠ [] ∧ ev ≠ "" ∧ k ∈ keys ∧
        (k = ev ∨
          ((¬ ∃ p ∈ internalPrefixes, sStartsWith ev p = true) ∧
            (k = "*" ∨
              (k ≠ "*" ∧ sEndsWith k ".*" = true ∧
                (ev = sDropRight k 2 ∨ sStartsWith ev (sDropRight k 2 ++ ".") = true))))) := by
  rw [XSM.matching_mem, ← XSM.partialMatch_iff, ← XSM.isInternal_iff]
  simp only [Bool.not_eq_true]

example : "a.*" ∈ matchingDescriptors ["a.*", "*", "a.b", "a.b.*"] "a.b.c" ∧
    "a.b" ∉ matchingDescriptors ["a.*", "*", "a.b", "a.b.*"] "a.b.c" := by decide

/-! ## clause 3: the order — exact, partials by decreasing length, `*` last -/

/-- **shape** for an ordinary (non-internal) event: `[ev]?` ++ partials ++ `["*"]?`, the partials
    sorted by non-increasing length and each one a key that partially matches. -/
theorem matching_shape (keys : List String) (ev : String) (h0 : keys ≠ []) (he : ev ≠ "")
    (hint : isInternal ev = false) :
    matchingDescriptors keys ev =
        (if ev ∈ keys then [ev] else []) ++ partialsOf keys ev ++ (if "*" ∈ keys then ["*"] else []) ∧
      (partialsOf keys ev).Pairwise (fun a b => b.length ≤ a.length) ∧
      (∀ p, p ∈ partialsOf keys ev ↔ p ∈ keys ∧ partialMatch p ev = true) :=
  ⟨XSM.matching_eq_of_user keys ev h0 he hint, XSM.partialsOf_sorted keys ev,
    fun _ => XSM.mem_partialsOf⟩

/-- **shape**, every case (empty map, empty type, internal event included) -/
theorem matching_shape_all (keys : List String) (ev : String) :
    ∃ ex ps st, matchingDescriptors keys ev = ex ++ ps ++ st ∧
      (ex = [] ∨ (ex = [ev] ∧ ev ∈ keys)) ∧ (st = [] ∨ (st = ["*"] ∧ "*" ∈ keys)) ∧
      ps.Pairwise (fun a b => b.length ≤ a.length) ∧
      (∀ p ∈ ps, p ∈ keys ∧ partialMatch p ev = true) :=
  XSM.matching_shape_all keys ev

example : matchingDescriptors ["a.*", "*", "a.b", "a.b.*"] "a.b.c" = [] ++ ["a.b.*", "a.*"] ++ ["*"] := by
  decide
example : partialsOf ["a.*", "*", "a.b", "a.b.*", "a.b.c.*", "x.*"] "a.b.c" = ["a.b.c.*", "a.b.*", "a.*"] := by
  decide

/-- **`*` is last**: whenever `*` is tried at all it is the last descriptor tried. -/
theorem star_last (keys : List String) (ev : String) (h : "*" ∈ matchingDescriptors keys ev) :
    (matchingDescriptors keys ev).getLast? = some "*" :=
  XSM.matching_star_last keys ev h

/-- ... and (for an event not literally named `*`) it is tried only there. -/
theorem star_only_last (keys : List String) (ev : String) (hs : "*" ∈ keys) (he : ev ≠ "")
    (hne : ev ≠ "*") (hint : isInternal ev = false) :
    ∃ init, matchingDescriptors keys ev = init ++ ["*"] ∧ "*" ∉ init :=
  XSM.matching_star_only_last keys ev hs he hne hint

example : (matchingDescriptors ["*", "a.*", "a.b.c"] "a.b.c").getLast? = some "*" := by decide
example : (matchingDescriptors ["*", "a.*", "a.b.c"] "a.b.c").getLast? = some "*" :=
  star_last _ _ (by decide)

/-! ## clause 3, continued: the order does not depend on the dict's insertion order -/

/-- two partial descriptors that match the same event and have the same length are the same key -/
theorem matching_partials_distinct_lengths (k1 k2 ev : String)
    (h1 : partialMatch k1 ev = true) (h2 : partialMatch k2 ev = true) (hne : k1 ≠ k2) :
    k1.length ≠ k2.length :=
  fun hlen => hne (XSM.partialMatch_length_inj h1 h2 hlen)

/-- hence the stable sort never has a tie to break, and the whole result is independent of the order
    of the keys (no `Nodup` needed) -/
theorem partials_order_independent (keys keys' : List String) (ev : String) (hp : keys.Perm keys') :
    matchingDescriptors keys ev = matchingDescriptors keys' ev :=
  XSM.matching_perm ev hp

example : matchingDescriptors ["a.*", "*", "a.b", "a.b.*"] "a.b.c" =
    matchingDescriptors ["a.b.*", "a.b", "*", "a.*"] "a.b.c" := by decide
example : matchingDescriptors ["a.*", "*", "a.b", "a.b.*"] "a.b.c" =
    matchingDescriptors ["a.b.*", "a.b", "*", "a.*"] "a.b.c" :=
  partials_order_independent _ _ _ (by decide)
example : ("a.b.*" : String).length ≠ ("a.*" : String).length :=
  matching_partials_distinct_lengths "a.b.*" "a.*" "a.b.c" (by decide) (by decide) (by decide)

/-! ## clause 4: engine-raised events -/

/-- the four families named in the property are in the tuple read from the Python source
    (deleting one there breaks the build here) -/
theorem internal_prefixes_cover : ["done.", "error.", "after.", "xstate."] ⊆ internalPrefixes := by
  decide

/-- **internal events match only their exact key** (stated over the tuple read from the source) -/
theorem internal_only_exact (keys : List String) (ev : String)
    (h : ∃ p ∈ internalPrefixes, sStartsWith ev p = true) :
    matchingDescriptors keys ev ⊆ [ev] :=
  XSM.matching_internal_only_exact keys ev (XSM.isInternal_iff.2 h)

/-- the same, spelled with the four families of the property text -/
theorem internal_only_exact_named (keys : List String) (ev : String)
    (h : sStartsWith ev "done." = true ∨ sStartsWith ev "error." = true ∨
      sStartsWith ev "after." = true ∨ sStartsWith ev "xstate." = true) :
    matchingDescriptors keys ev ⊆ [ev] := by
  apply internal_only_exact
  rcases h with h | h | h | h
  · exact ⟨"done.", internal_prefixes_cover (by simp), h⟩
  · exact ⟨"error.", internal_prefixes_cover (by simp), h⟩
  · exact ⟨"after.", internal_prefixes_cover (by simp), h⟩
  · exact ⟨"xstate.", internal_prefixes_cover (by simp), h⟩

example : matchingDescriptors ["*", "done.*", "done.state.m", "done.state.*"] "done.state.m" =
    ["done.state.m"] := by decide
example : matchingDescriptors ["*", "done.*", "error.*"] "error.platform.x" = [] := by decide
example : matchingDescriptors ["*", "done.*", "done.state.m"] "done.state.m" ⊆ ["done.state.m"] :=
  internal_only_exact_named _ _ (Or.inl (by decide))

/-! ## clause 3 again: "candidates being tried in that order" (`onCands`) -/

/-- **closed form of the `on`-walk at one state**, every outcome included (also a missing guard):
    concatenate the transition lists of the given keys in the given order, stop before the first
    forbidden transition, and guard-filter that list front to back with the shared cache
    (`filterPassing`); the flag says whether a forbidden transition was met. -/
theorem onCands_closed_form (m : Machine) (cfg : List Path) (env : GEnv) (src : Path) (d : StateDef)
    (ev : Ev) (keys : List String) (c : GCache) :
    onCands m cfg env src d ev keys c =
      withFlag (onBlocked d keys) (filterPassing m cfg env src (onVisited d keys) c) :=
  XSM.onCands_eq' m cfg env src d ev keys c

/-- **order, in full generality**: whatever the guards and the cache say, if the walk succeeds its
    candidates are a subsequence of the visited transitions (so they keep the descriptor order and,
    inside one key, the declared order), all with source `src`, and the flag is `onBlocked`. -/
theorem candidates_subsequence (m : Machine) (cfg : List Path) (env : GEnv) (src : Path)
    (d : StateDef) (ev : Ev) (keys : List String) (c c' : GCache) (out : List Cand) (blk : Bool)
    (h : onCands m cfg env src d ev keys c = .ok (out, blk, c')) :
    (out.map (·.t)).Sublist (onVisited d keys) ∧ (∀ x ∈ out, x.src = src) ∧
      blk = onBlocked d keys := by
  obtain ⟨h1, h2⟩ := XSM.onCands_ok_inv h
  obtain ⟨h3, h4⟩ := XSM.filterPassing_sublist m cfg env src _ c out c' h2
  exact ⟨h3, h4, h1⟩

/-- **candidates in descriptor order**, exact form. Assumed: guards are given by an oracle `g` on
    transition identities (`guardOk … t.guard = .ok (g t.tid)` for every visited `t`, i.e. no visited
    guard is missing and equal `tid`s have equal verdicts) and the incoming cache agrees with `g`.
    Then the walk succeeds and yields exactly the `g`-passing visited transitions, in order. -/
theorem candidates_in_descriptor_order (m : Machine) (cfg : List Path) (env : GEnv) (src : Path)
    (d : StateDef) (ev : Ev) (keys : List String) (c : GCache) (g : Nat → Bool) (hc : CacheOK g c)
    (hg : ∀ t ∈ onVisited d keys, guardOk m cfg env t.guard = .ok (g t.tid)) :
    ∃ c', onCands m cfg env src d ev keys c =
        .ok (passing g src (onVisited d keys), onBlocked d keys, c') ∧ CacheOK g c' :=
  XSM.onCands_pure src d ev keys hc hg

/-- ... when no forbidden transition is met: the passing transitions of key₁'s list, then key₂'s … -/
theorem candidates_unblocked (g : Nat → Bool) (src : Path) (d : StateDef) (keys : List String)
    (h : onBlocked d keys = false) :
    passing g src (onVisited d keys) = keys.flatMap (fun k => passing g src (transOf d k)) := by
  rw [XSM.onVisited_of_not_blocked h, XSM.passing_flatMap]

/-- ... when the first forbidden transition is under key `k`: all earlier keys in full, then the
    passing transitions of `k`'s list before the forbidden one; the later keys are never looked at. -/
theorem candidates_blocked_at (g : Nat → Bool) (src : Path) (d : StateDef) (pre post : List String)
    (k : String) (hpre : onBlocked d pre = false) (hk : (transOf d k).any (·.forbidden) = true) :
    passing g src (onVisited d (pre ++ k :: post)) =
        pre.flatMap (fun k' => passing g src (transOf d k')) ++
          passing g src ((transOf d k).takeWhile (fun t => !t.forbidden)) ∧
      onBlocked d (pre ++ k :: post) = true := by
  obtain ⟨h1, h2⟩ := XSM.onVisited_of_blocked_at (post := post) hpre hk
  exact ⟨by rw [h1, XSM.passing_append, XSM.passing_flatMap], h2⟩

/-! ## clause 5: "a transition declared as null consumes its event at that state" -/

/-- **forbidden blocks ancestors**, one step of the upward walk: if the event is consumed at `cur`
    (walking the matching keys of `cur` meets a forbidden transition), the walk from `cur` returns
    exactly the `on`-candidates of `cur` found before the forbidden transition — whatever `ups` is,
    and without running the other buckets (always / onDone / after / invoke) of `cur`
    (that is the Python `break` out of the `while current` loop). -/
theorem forbidden_blocks_ancestors (m : Machine) (cfg : List Path) (env : GEnv) (ev : Ev)
    (isTransientCheck : Bool) (cur : Path) (ups : List Path) (d : StateDef)
    (hd : m.defAt cur = some d) (hb : consumesAt d ev = true) (c : GCache) :
    collectChain m cfg env ev isTransientCheck false (cur :: ups) c =
      filterPassing m cfg env cur (onVisited d (onKeys d ev)) c :=
  XSM.collectChain_consumed m cfg env ev isTransientCheck cur ups d hd hb c

/-- ... the states above a consuming state do not influence the result of the walk at all -/
theorem forbidden_ups_irrelevant (m : Machine) (cfg : List Path) (env : GEnv) (ev : Ev)
    (isTransientCheck : Bool) (cur : Path) (d : StateDef) (hd : m.defAt cur = some d)
    (hb : consumesAt d ev = true) (pre ups ups' : List Path) (c : GCache) :
    collectChain m cfg env ev isTransientCheck false (pre ++ cur :: ups) c =
      collectChain m cfg env ev isTransientCheck false (pre ++ cur :: ups') c :=
  XSM.collectChain_consumed_irrel m cfg env ev isTransientCheck cur d hd hb ups ups' pre c

/-- ... on a chain `pre ++ cur :: ups`: every candidate has its source in `pre` (below `cur`) or is
    an `on`-transition of `cur` visited before the forbidden one; none has its source in `ups`. -/
theorem forbidden_blocks_ancestors_chain (m : Machine) (cfg : List Path) (env : GEnv) (ev : Ev)
    (isTransientCheck : Bool) (pre ups : List Path) (cur : Path) (d : StateDef)
    (hd : m.defAt cur = some d) (hb : consumesAt d ev = true) (c c' : GCache) (out : List Cand)
    (h : collectChain m cfg env ev isTransientCheck false (pre ++ cur :: ups) c = .ok (out, c')) :
    ∀ x ∈ out, x.src ∈ pre ∨ (x.src = cur ∧ x.t ∈ onVisited d (onKeys d ev)) :=
  XSM.collectChain_consumed_mid hd hb h

/-- **forbidden blocks ancestors**, for the whole walk from one active leaf
    (`_collect_eligible_transitions`): if the event is consumed at a state `cur` on the leaf's
    ancestor chain, no eligible transition has a source strictly above `cur`, and the eligible
    transitions of `cur` itself are `on`-transitions visited before the forbidden one. -/
theorem forbidden_blocks_ancestors_leaf (m : Machine) (cfg : List Path) (env : GEnv)
    (leaf cur : Path) (ev : Ev) (d : StateDef) (hcur : cur ∈ chainUp leaf)
    (hd : m.defAt cur = some d) (hb : consumesAt d ev = true) (c c' : GCache) (out : List Cand)
    (h : collectEligible m cfg env leaf ev c = .ok (out, c')) :
    ∀ x ∈ out, cur.length ≤ x.src.length ∧ (x.src = cur → x.t ∈ onVisited d (onKeys d ev)) :=
  XSM.collectEligible_consumed hcur hd hb h

/-! ## a concrete instance of clauses 3 and 5

State `s` (child of the root) has `on = {"a.*": [t1, t2 (guard false), t3 FORBIDDEN, t4], "*": [t5],
"a.b.*": [t0]}`; the root has `on = {"*": [t9]}`. -/
namespace Ex

def mkT (tid : Nat) (forb : Bool := false) (guard : Option GuardExpr := none) : Trans :=
  { tid := tid, event := "", target := none, guard := guard, actions := [], reenter := false,
    forbidden := forb }

def dS : StateDef :=
  { (default : StateDef) with
    on := [("a.*", [mkT 1, mkT 2 (guard := some (.named "no" none)), mkT 3 true, mkT 4]),
           ("*", [mkT 5]), ("a.b.*", [mkT 0])] }

def dRoot : StateDef := { (default : StateDef) with kind := .compound, on := [("*", [mkT 9])] }

def mach : Machine := { (default : Machine) with root := .mk dRoot [("s", .mk dS [])] }

def env : GEnv := fun n => if n = "no" then .f else .t

/-- source and identity of each candidate, or `none` on error -/
def tids : Except GErr (List Cand × GCache) → Option (List (Path × Nat))
  | .ok (o, _) => some (o.map (fun x => (x.src, x.t.tid)))
  | .error _ => none

-- descriptor order at `s` for "a.b.c": longest partial, shorter partial, bare wildcard
example : onKeys dS (.user "a.b.c") = ["a.b.*", "a.*", "*"] := by decide
-- the walk visits t0, then t1, t2 and stops at the forbidden t3 (t4 and the `*` key are not reached)
example : (onVisited dS (onKeys dS (.user "a.b.c"))).map (·.tid) = [0, 1, 2] := by decide
example : consumesAt dS (.user "a.b.c") = true := by decide
-- `forbidden_blocks_ancestors_leaf`: only t0 and t1 (t2's guard fails) — nothing from the root
example : tids (collectEligible mach [["s"]] env ["s"] (.user "a.b.c") []) =
    some [(["s"], 0), (["s"], 1)] := by decide
-- an event that is not consumed at `s` does reach the root's handler
example : tids (collectEligible mach [["s"]] env ["s"] (.user "zzz") []) =
    some [(["s"], 5), ([], 9)] := by decide

end Ex

end XSM.C20
