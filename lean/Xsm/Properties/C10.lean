import Xsm.Proofs.Done
/-!
# C10 — done-ness, `onDone`, completion

"A compound state's onDone transition is taken exactly once each time its active child becomes a
final state, a parallel state's exactly once each time the last of its regions becomes final and
never while any region is not final (history children are not regions), with the done event
carrying the final state's output. Entering a final child of the root sets the status to done
exactly once and records the machine output (machine-level output taking precedence); from then on
sent events are ignored and no user code runs in response, while stop() still releases every timer,
service and child actor."

Statements about the executable model (`Xsm/Model/Engine.lean`): `doneNode` / `isStateDone`
(= `_is_state_done`), `checkAndFireOnDone` (= `_check_and_fire_on_done`), `complete` (= `_complete`),
`enqueueQ`, `drainLoop`, `syncSend`, `asyncSend`, `asyncDrain`, `enterOne`. Helper definitions and
lemmas live in `Xsm/Proofs/Done.lean`. Everything is for arbitrary machines and configurations unless
a hypothesis says otherwise.

Vocabulary (from `Xsm/Proofs/Done.lean`):
* `firstChild cfg p` — the first path of `cfg` (in its order) that is a child of `p`;
* `strictAncestors fin` — `(chainUp fin).drop 1`: parent, grand-parent, …, root;
* `onDoneReady m cfg a` — `a` declares `onDone` and `isStateDone m cfg a`;
* `firingAncestor m cfg fin` — `(strictAncestors fin).find? (onDoneReady m cfg)`;
* `doneEv m a` — the event `done.state.<id of a>` with `src = <id of a>`;
* `HooksStatusOK h` — the two send hooks of `h` leave `status` unchanged (true of all engine hooks).

Outside the model (hence outside these theorems): the value carried by the done event and the
recorded machine output (the model's `Ev.done` has a type and a source, no data; `St` has no output
field), and `stop()` (timers, services and child actors are not modelled).

The example machines are in `XSM.Done.Ex` (end of `Xsm/Proofs/Done.lean`).
-/
namespace XSM.C10
open XSM XSM.Spec XSM.Done XSM.Done.Ex

/-! ## 1. when is a state done -/

/-- *A final state is done.* -/
theorem doneNode_final (cfg : List Path) (p : Path) (d : StateDef) (kids : List (String × SNode))
    (h : d.kind = .final) : doneNode cfg p (.mk d kids) = true :=
  Done.doneNode_final cfg p d kids h

/-- *An atomic (non-final) state is never done*, nor is a history pseudo-state. -/
theorem doneNode_atomic (cfg : List Path) (p : Path) (d : StateDef) (kids : List (String × SNode))
    (h : d.kind = .atomic) : doneNode cfg p (.mk d kids) = false :=
  Done.doneNode_atomic cfg p d kids h

theorem doneNode_history (cfg : List Path) (p : Path) (d : StateDef) (kids : List (String × SNode))
    (h : d.kind = .history) : doneNode cfg p (.mk d kids) = false :=
  Done.doneNode_history cfg p d kids h

/-- *Clause "a compound state … its active child becomes a final state".* When exactly one child key
    `k` of the compound state at `p` is active (what `Legal` guarantees), the state is done exactly
    when that child is. -/
theorem doneNode_compound (cfg : List Path) (p : Path) (d : StateDef) (kids : List (String × SNode))
    (h : d.kind = .compound) (k : String) (child : SNode) (hc : findKid k kids = some child)
    (hk : (p ++ [k]) ∈ cfg) (hu : ∀ k', (p ++ [k']) ∈ cfg → k' = k) :
    doneNode cfg p (.mk d kids) = doneNode cfg (p ++ [k]) child :=
  Done.doneNode_compound cfg p d kids h k child hc hk hu

/-- *The same for an arbitrary configuration:* the done-ness of the FIRST active child found (the
    code's `next(s for s in active if s.parent == state)`); not done when no child is active. -/
theorem doneNode_compound_first (cfg : List Path) (p : Path) (d : StateDef) (kids : List (String × SNode))
    (h : d.kind = .compound) :
    doneNode cfg p (.mk d kids) =
      match firstChild cfg p with
      | some ch =>
        (match findKid (ch.getLast?.getD "") kids with
         | some c => doneNode cfg ch c
         | none => false)
      | none => false :=
  Done.doneNode_compound_first cfg p d kids h

theorem firstChild_spec {cfg : List Path} {p ch : Path} (h : firstChild cfg p = some ch) :
    ch ∈ cfg ∧ ∃ k, ch = p ++ [k] ∧ ch.getLast?.getD "" = k := firstChild_some h

/-- in a legal configuration: an active compound state (with children) has one active child, and is
    done exactly when that child is -/
theorem isStateDone_compound_legal (m : Machine) (cfg : List Path) (hL : Legal m.root cfg) (p : Path)
    (hp : p ∈ cfg) (d : StateDef) (kids : List (String × SNode)) (hat : m.root.at p = some (.mk d kids))
    (hk : d.kind = .compound) (hne : kids ≠ []) :
    ∃ k, (p ++ [k]) ∈ cfg ∧ (∀ k', (p ++ [k']) ∈ cfg → k' = k) ∧
      isStateDone m cfg p = isStateDone m cfg (p ++ [k]) := by
  obtain ⟨k, hk1, hk2⟩ := hL.compound_one p hp d kids hat hk hne
  obtain ⟨n, hn, _⟩ := hL.states _ hk1
  have hf : findKid k kids = some n := by rw [← at_snoc m.root p d kids k hat]; exact hn
  refine ⟨k, hk1, hk2, ?_⟩
  unfold isStateDone
  rw [hat, hn]
  exact Done.doneNode_compound cfg p d kids hk k n hf hk1 hk2

/-- *Clause "a parallel state's … the last of its regions becomes final … (history children are not
    regions)".* A parallel state is done exactly when every non-history child is active (some active
    state lies in it) and is itself done. -/
theorem parallel_done_iff_all_regions (cfg : List Path) (p : Path) (d : StateDef)
    (kids : List (String × SNode)) (h : d.kind = .parallel) :
    doneNode cfg p (.mk d kids) = true ↔
      ∀ k c, (k, c) ∈ kids → c.kind ≠ .history →
        (∃ q ∈ cfg, (p ++ [k]) <+: q) ∧ doneNode cfg (p ++ [k]) c = true := by
  rw [doneNode_parallel cfg p d kids h, doneRegions_iff]
  constructor
  · intro H k c hkc; exact H (k, c) hkc
  · intro H kc hkc; exact H kc.1 kc.2 hkc

/-- *"history children are not regions":* removing every history child does not change the answer … -/
theorem history_not_a_region (cfg : List Path) (p : Path) (d : StateDef) (kids : List (String × SNode))
    (h : d.kind = .parallel) :
    doneNode cfg p (.mk d kids) =
      doneNode cfg p (.mk d (kids.filter (fun kc => kc.2.kind != .history))) := by
  rw [doneNode_parallel cfg p d kids h, doneNode_parallel cfg p d _ h]
  exact doneRegions_filter cfg p kids

/-- … so two child lists that differ only in history children give the same answer … -/
theorem history_children_irrelevant (cfg : List Path) (p : Path) (d : StateDef)
    (kids kids' : List (String × SNode)) (h : d.kind = .parallel)
    (hs : kids.filter (fun kc => kc.2.kind != .history) = kids'.filter (fun kc => kc.2.kind != .history)) :
    doneNode cfg p (.mk d kids) = doneNode cfg p (.mk d kids') := by
  rw [history_not_a_region cfg p d kids h, history_not_a_region cfg p d kids' h, hs]

/-- … in particular adding a history child anywhere changes nothing. -/
theorem add_history_child (cfg : List Path) (p : Path) (d : StateDef) (pre post : List (String × SNode))
    (k : String) (hn : SNode) (h : d.kind = .parallel) (hh : hn.kind = .history) :
    doneNode cfg p (.mk d (pre ++ (k, hn) :: post)) = doneNode cfg p (.mk d (pre ++ post)) := by
  apply history_children_irrelevant cfg p d _ _ h
  simp [List.filter_append, hh]

/-- *Clause "never while any region is not final".* One non-history region that is not done keeps
    the parallel state from being done … -/
theorem parallel_not_done_while_region_not_final (cfg : List Path) (p : Path) (d : StateDef)
    (kids : List (String × SNode)) (h : d.kind = .parallel) (k : String) (c : SNode)
    (hkc : (k, c) ∈ kids) (hh : c.kind ≠ .history) (hnd : doneNode cfg (p ++ [k]) c = false) :
    doneNode cfg p (.mk d kids) = false := by
  cases hdn : doneNode cfg p (.mk d kids) with
  | false => rfl
  | true =>
    have := ((parallel_done_iff_all_regions cfg p d kids h).1 hdn k c hkc hh).2
    rw [hnd] at this; exact absurd this (by simp)

/-- … and so does one that is not active at all. -/
theorem parallel_not_done_while_region_inactive (cfg : List Path) (p : Path) (d : StateDef)
    (kids : List (String × SNode)) (h : d.kind = .parallel) (k : String) (c : SNode)
    (hkc : (k, c) ∈ kids) (hh : c.kind ≠ .history) (hna : ∀ q ∈ cfg, ¬ (p ++ [k]) <+: q) :
    doneNode cfg p (.mk d kids) = false := by
  cases hdn : doneNode cfg p (.mk d kids) with
  | false => rfl
  | true =>
    obtain ⟨q, hq, hpq⟩ := ((parallel_done_iff_all_regions cfg p d kids h).1 hdn k c hkc hh).1
    exact absurd hpq (hna q hq)

/-- *The nested case (repaired by a fix commit):* a region that is itself parallel counts only when
    ALL its sub-regions are done — one unfinished sub-region of one region keeps the outer parallel
    state from being done. -/
theorem nested_parallel_region_needs_all_subregions (cfg : List Path) (p : Path) (d : StateDef)
    (kids : List (String × SNode)) (h : d.kind = .parallel)
    (k : String) (dA : StateDef) (kidsA : List (String × SNode)) (hkc : (k, SNode.mk dA kidsA) ∈ kids)
    (hA : dA.kind = .parallel) (k2 : String) (c2 : SNode) (h2 : (k2, c2) ∈ kidsA)
    (hh2 : c2.kind ≠ .history) (hnd : doneNode cfg (p ++ [k] ++ [k2]) c2 = false) :
    doneNode cfg p (.mk d kids) = false := by
  apply parallel_not_done_while_region_not_final cfg p d kids h k (.mk dA kidsA) hkc
  · show dA.kind ≠ .history
    rw [hA]; decide
  · exact parallel_not_done_while_region_not_final cfg (p ++ [k]) dA kidsA hA k2 c2 h2 hh2 hnd

/-- outer `P` with regions `A` (parallel: `A1`, `A2`), `B` and a history child `H`: with `A1` and `B`
    in their final children but `A2` not, `P` is not done (the unchanged code said it was) … -/
example : doneNode nestedCfg ["P"] nestedP = false := by decide
example : isStateDone nestedM nestedCfg ["P"] = false := by decide
/-- … `A` alone is not done either, `A1` and `B` are … -/
example : isStateDone nestedM nestedCfg ["P", "A"] = false := by decide
example : isStateDone nestedM nestedCfg ["P", "A", "A1"] = true := by decide
example : isStateDone nestedM nestedCfg ["P", "B"] = true := by decide
/-- … and once `A2` reaches its final child, `P` is done — the history child `H` (never active)
    notwithstanding. -/
example : isStateDone nestedM nestedCfgAll ["P"] = true := by decide
/-- an atomic state, and a compound state none of whose children is active -/
example : isStateDone nestedM nestedCfgAll ["P", "B", "b"] = false := by decide
example : isStateDone nestedM [[], ["P"], ["P", "B"]] ["P", "B"] = false := by decide

/-! ## 2. what entering a final state raises: `_check_and_fire_on_done` -/

/-- *The whole function:* look, from the parent upward, for the first strict ancestor that declares
    `onDone` and is done; send ITS done event — one event, then stop; if there is none, a child of
    the root completes the machine; anything else does nothing. -/
theorem checkAndFireOnDone_spec (h : Hooks) (m : Machine) (fin : Path) (s : St) :
    checkAndFireOnDone h m fin s =
      match firingAncestor m s.cfg fin with
      | some a => h.snd (doneEv m a) s
      | none => if fin.length = 1 then complete s else s := rfl

theorem fires_for_ancestor (h : Hooks) (m : Machine) (fin : Path) (s : St) (a : Path)
    (ha : firingAncestor m s.cfg fin = some a) :
    checkAndFireOnDone h m fin s = h.snd (.done ("done.state." ++ m.idOf a) (m.idOf a)) s := by
  rw [checkAndFireOnDone_spec, ha]; rfl

theorem completes_when_no_ancestor (h : Hooks) (m : Machine) (fin : Path) (s : St)
    (ha : firingAncestor m s.cfg fin = none) (hl : fin.length = 1) :
    checkAndFireOnDone h m fin s = complete s := by
  rw [checkAndFireOnDone_spec, ha]; simp [hl]

theorem nothing_otherwise (h : Hooks) (m : Machine) (fin : Path) (s : St)
    (ha : firingAncestor m s.cfg fin = none) (hl : fin.length ≠ 1) :
    checkAndFireOnDone h m fin s = s := by
  rw [checkAndFireOnDone_spec, ha]; simp [hl]

/-- *Which ancestor:* `a` is a strict ancestor of the final state, declares `onDone`, is done, and no
    strict ancestor of the final state lying strictly below `a` has both properties: the NEAREST. -/
theorem firingAncestor_nearest (m : Machine) (cfg : List Path) (fin a : Path) :
    firingAncestor m cfg fin = some a ↔
      (a <+: fin ∧ a ≠ fin) ∧ onDoneReady m cfg a = true ∧
        ∀ b, a <+: b → b ≠ a → b <+: fin → b ≠ fin → onDoneReady m cfg b = false :=
  find_strictAncestors_iff (onDoneReady m cfg) fin a

theorem firingAncestor_none (m : Machine) (cfg : List Path) (fin : Path) :
    firingAncestor m cfg fin = none ↔ ∀ b, b <+: fin → b ≠ fin → onDoneReady m cfg b = false :=
  find_strictAncestors_none (onDoneReady m cfg) fin

theorem onDoneReady_spec (m : Machine) (cfg : List Path) (a : Path) :
    onDoneReady m cfg a = true ↔
      (∃ d, m.defAt a = some d ∧ d.onDone.isSome = true) ∧ isStateDone m cfg a = true :=
  onDoneReady_iff

/-- *"exactly once": at most one done event per final state entered.* With the hooks of either engine
    (`b = false` for `hooksAsyncStart`, `true` for `hooksFlagged` / `hooksAsync`: see
    `hooksFlagged_snd_queue` …) the queue grows by exactly the one done event of the firing ancestor
    when there is one and the machine is running, and not at all otherwise. -/
theorem at_most_one_done_event (h : Hooks) (b : Bool)
    (hq : ∀ e s, (h.snd e s).queue = s.queue ++ (if s.status = "running" then [⟨e, b⟩] else []))
    (m : Machine) (fin : Path) (s : St) :
    (checkAndFireOnDone h m fin s).queue =
      s.queue ++ (match firingAncestor m s.cfg fin with
        | some a => if s.status = "running" then [⟨doneEv m a, b⟩] else []
        | none => []) := by
  rw [checkAndFireOnDone_spec]
  cases firingAncestor m s.cfg fin with
  | some a => exact hq _ _
  | none =>
    simp only [List.append_nil]
    split
    · unfold complete; split <;> rfl
    · rfl

/-- *The done event is raised only if its state is done at that very moment* (and declares `onDone`). -/
theorem fires_only_if_done (m : Machine) (cfg : List Path) (fin a : Path)
    (ha : firingAncestor m cfg fin = some a) :
    isStateDone m cfg a = true ∧ (∃ d, m.defAt a = some d ∧ d.onDone.isSome = true) ∧
      a <+: fin ∧ a ≠ fin := by
  obtain ⟨h1, h2, _⟩ := (firingAncestor_nearest m cfg fin a).1 ha
  obtain ⟨h3, h4⟩ := onDoneReady_iff.1 h2
  exact ⟨h4, h3, h1⟩

/-- *Clause "never while any region is not final".* If the done event of a parallel state is raised,
    every one of its non-history regions is active and done … -/
theorem parallel_fires_only_when_all_regions_done (m : Machine) (cfg : List Path) (fin a : Path)
    (ha : firingAncestor m cfg fin = some a) (d : StateDef) (kids : List (String × SNode))
    (hat : m.root.at a = some (.mk d kids)) (hp : d.kind = .parallel) :
    ∀ k c, (k, c) ∈ kids → c.kind ≠ .history →
      (∃ q ∈ cfg, (a ++ [k]) <+: q) ∧ doneNode cfg (a ++ [k]) c = true := by
  have hd := (fires_only_if_done m cfg fin a ha).1
  unfold isStateDone at hd
  rw [hat] at hd
  exact (parallel_done_iff_all_regions cfg a d kids hp).1 hd

/-- … equivalently: while one region is not done, the parallel state's done event is not raised,
    whichever final state is being entered. -/
theorem parallel_never_fires_early (m : Machine) (cfg : List Path) (fin a : Path)
    (d : StateDef) (kids : List (String × SNode)) (hat : m.root.at a = some (.mk d kids))
    (hp : d.kind = .parallel) (k : String) (c : SNode) (hkc : (k, c) ∈ kids) (hh : c.kind ≠ .history)
    (hnd : doneNode cfg (a ++ [k]) c = false) : firingAncestor m cfg fin ≠ some a := by
  intro ha
  have := (parallel_fires_only_when_all_regions_done m cfg fin a ha d kids hat hp k c hkc hh).2
  rw [hnd] at this; exact absurd this (by simp)

/-- *Clause "a compound state's onDone … each time its active child becomes a final state".* Entering
    the final child `k` of a compound state `p` that declares `onDone` (and has, as in every legal
    configuration, no other active child) raises exactly `p`'s done event — `p` is the nearest
    ancestor, so nothing can shadow it. -/
theorem compound_fires_when_child_final (m : Machine) (cfg : List Path) (p : Path) (k : String)
    (d : StateDef) (kids : List (String × SNode)) (df : StateDef) (kf : List (String × SNode))
    (hat : m.root.at p = some (.mk d kids)) (hk : d.kind = .compound) (hod : d.onDone.isSome = true)
    (hc : findKid k kids = some (.mk df kf)) (hf : df.kind = .final)
    (hact : (p ++ [k]) ∈ cfg) (hu : ∀ k', (p ++ [k']) ∈ cfg → k' = k) :
    firingAncestor m cfg (p ++ [k]) = some p := by
  rw [firingAncestor_nearest]
  refine ⟨⟨List.prefix_append _ _, ?_⟩, ?_, ?_⟩
  · intro he
    have := congrArg List.length he
    simp at this
  · rw [onDoneReady_iff]
    refine ⟨⟨d, by simp [Machine.defAt, hat, SNode.d], hod⟩, ?_⟩
    unfold isStateDone
    rw [hat]
    simp only
    rw [Done.doneNode_compound cfg p d kids hk k _ hc hact hu]
    exact Done.doneNode_final cfg _ df kf hf
  · intro b hpb hne hbf hbne
    exfalso
    have h1 := hpb.length_le
    have h2 := hbf.length_le
    simp only [List.length_append, List.length_cons, List.length_nil] at h2
    have h3 : b.length ≠ p.length := fun he => hne (hpb.eq_of_length he.symm).symm
    have h4 : b.length ≠ p.length + 1 := fun he => hbne (hbf.eq_of_length (by simp [he]))
    omega

/-- `shadowM`: entering `af` while `B` is still in `b1` raises `A`'s done event -/
example : firingAncestor shadowM [[], ["P"], ["P", "A"], ["P", "B"], ["P", "B", "b1"], ["P", "A", "af"]]
    ["P", "A", "af"] = some ["P", "A"] := by decide

/-- in `nestedM`, entering `a1f` while `A2` is unfinished raises nothing (and `P`, `A` declare no
    `onDone` anyway); in `shadowM` entering `bf` while `A` is still in `a1` raises nothing although
    `P` declares `onDone` -/
example : firingAncestor nestedM nestedCfg ["P", "A", "A1", "a1f"] = none := by decide
example : firingAncestor shadowM [[], ["P"], ["P", "A"], ["P", "A", "a1"], ["P", "B"], ["P", "B", "bf"]]
    ["P", "B", "bf"] = none := by decide
/-- … and once `A` is in `af`, entering `bf` raises `P`'s done event (`B` declares no `onDone`) -/
example : firingAncestor shadowM [[], ["P"], ["P", "A"], ["P", "A", "af"], ["P", "B"], ["P", "B", "bf"]]
    ["P", "B", "bf"] = some ["P"] := by decide

/-- **Known limitation (a), as the model — like the code — behaves.** The search stops at the nearest
    ancestor that declares `onDone` and is done: whatever outer ancestors are ALSO done and declare
    `onDone` (e.g. a parallel grand-parent whose last region just completed), only the nearest one's
    event is sent. -/
theorem nearest_ancestor_shadows_outer (u : UEnv) (m : Machine) (fin : Path) (s : St) (a : Path)
    (ha : firingAncestor m s.cfg fin = some a) (hrun : s.status = "running") :
    ∀ b, b <+: a → b ≠ a → onDoneReady m s.cfg b = true →
      checkAndFireOnDone (hooksFlagged u m) m fin s =
        { s with queue := s.queue ++ [⟨doneEv m a, true⟩] } := by
  intro _ _ _ _
  rw [fires_for_ancestor _ m fin s a ha]
  show enqueueQ true _ s = _
  rw [enqueueQ_running true _ hrun]; rfl

/-- `shadowM`: `B` is in `bf`; `af` is entered, which makes BOTH `A` and `P` done, both declare
    `onDone`; only `done.state.s.P.A` is queued — `P`'s done event is not raised. -/
example : onDoneReady shadowM shadowS.cfg ["P", "A"] = true ∧ onDoneReady shadowM shadowS.cfg ["P"] = true := by
  decide
example : firingAncestor shadowM shadowS.cfg ["P", "A", "af"] = some ["P", "A"] := by decide
example : evTypes (checkAndFireOnDone (hooksFlagged exU shadowM) shadowM ["P", "A", "af"] shadowS) =
    ["done.state.s.P.A"] := by decide

/-- a compound root whose only active child is a final state is done -/
theorem root_done_when_final_child_active (m : Machine) (cfg : List Path) (d : StateDef)
    (kids : List (String × SNode)) (hroot : m.root = .mk d kids) (hk : d.kind = .compound) (k : String)
    (df : StateDef) (kf : List (String × SNode)) (hc : findKid k kids = some (.mk df kf))
    (hf : df.kind = .final) (hact : [k] ∈ cfg) (hu : ∀ k', [k'] ∈ cfg → k' = k) :
    isStateDone m cfg [] = true := by
  unfold isStateDone
  simp only [SNode.at, hroot]
  rw [Done.doneNode_compound cfg [] d kids hk k _ hc hact hu]
  exact Done.doneNode_final cfg _ df kf hf

/-- **Known limitation (b), as the model — like the code — behaves.** A root that declares `onDone`
    and is done (a final child was just entered) gets its done event; the machine is NOT completed:
    `status` stays what it was. -/
theorem root_onDone_suppresses_completion (h : Hooks) (hs : HooksStatusOK h) (m : Machine) (k : String)
    (s : St) (dr : StateDef) (hroot : m.defAt [] = some dr) (hod : dr.onDone.isSome = true)
    (hdone : isStateDone m s.cfg [] = true) :
    checkAndFireOnDone h m [k] s = h.snd (doneEv m []) s ∧
      (checkAndFireOnDone h m [k] s).status = s.status := by
  have hr : onDoneReady m s.cfg [] = true := onDoneReady_iff.2 ⟨⟨dr, hroot, hod⟩, hdone⟩
  have ha : firingAncestor m s.cfg [k] = some [] := by
    simp [firingAncestor, strictAncestors_single, hr]
  have := fires_for_ancestor h m [k] s [] ha
  refine ⟨this, ?_⟩
  rw [this]; exact hs.snd_status _ _

/-- `{"id":"m","initial":"f","onDone":{"actions":["x"]},"states":{"f":{"type":"final"}}}`: entering
    `f` queues `done.state.m` and leaves the status "running"; after `start()` has drained the queue
    (the root's `onDone` action `x` ran) the machine is still "running" — so is the Python library. -/
example : let s := checkAndFireOnDone (hooksFlagged exU rootOnDoneM) rootOnDoneM ["f"] rootOnDoneS
    (s.status, evTypes s) = ("running", ["done.state.m"]) := by decide
example : let s := syncStart rootOnDoneM exU {}
    (s.status, s.cfg, s.trace) = ("running", [[], ["f"]], ["#t:m,m.f", "x@done.state.m", "#recv:done.state.m"]) := by
  decide
/-- without the root `onDone` the same machine completes -/
example : (syncStart plainM exU {}).status = "done" := by decide

/-! ## 3. completion is terminal -/

/-- *Clause "sets the status to done exactly once".* `_complete` acts only on a running machine, where
    it sets the status and nothing else; a second call changes nothing. -/
theorem complete_sets_done_once (s : St) :
    (s.status = "running" → complete s = { s with status := "done" }) ∧
    (s.status ≠ "running" → complete s = s) ∧
    ((complete s).status = "done" ↔ s.status = "running" ∨ s.status = "done") ∧
    complete (complete s) = complete s := by
  refine ⟨complete_of_running, complete_of_not_running, ?_, complete_idem s⟩
  by_cases h : s.status = "running"
  · rw [complete_of_running h]; simp [h]
  · rw [complete_of_not_running h]; simp [h]

example : (complete { status := "running" }).status = "done" := by decide
example : (complete { status := "stopped" }).status = "stopped" := by decide

/-- *Clause "from then on sent events are ignored".* `send` on a machine that is not running returns
    the state unchanged — every field: configuration, history, context, queue, trace (no action,
    guard or observer ran), counters. Both engines. -/
theorem status_done_is_terminal_for_send (m : Machine) (u : UEnv) (e : Ev) (s : St)
    (h : s.status ≠ "running") : syncSend m u e s = s ∧ asyncSend m u e s = s :=
  ⟨syncSend_not_running m u e h, asyncSend_not_running m u e h⟩

/-- *… "and no user code runs in response", for whole sequences of commands.* `cmd` is `send` with the
    error flag of the previous command cleared; on a machine that is not running any number of
    commands leaves everything as it was, except that the flag has been cleared. -/
theorem after_done_nothing_runs (fl : Flavor) (m : Machine) (u : UEnv) (evs : List Ev) (s : St)
    (h : s.status ≠ "running") :
    evs.foldl (cmd fl m u) s = if evs = [] then s else { s with err := none } :=
  foldl_cmd_not_running fl m u evs s h

/-- the same field by field -/
theorem after_done_fields (fl : Flavor) (m : Machine) (u : UEnv) (evs : List Ev) (s : St)
    (h : s.status ≠ "running") :
    let r := evs.foldl (cmd fl m u) s
    r.cfg = s.cfg ∧ r.hist = s.hist ∧ r.ctx = s.ctx ∧ r.queue = s.queue ∧ r.trace = s.trace ∧
      r.status = s.status ∧ r.raiseDepth = s.raiseDepth ∧ r.errors = s.errors := by
  simp only [after_done_nothing_runs fl m u evs s h]
  split <;> simp

/-- `goM` reaches its top-level final state on `GO`: status "done", the entry action of `f` ran; three
    more events change nothing at all (either engine) -/
example : let s := syncSend goM exU (.user "GO") (syncStart goM exU {})
    (s.status, s.cfg, s.trace) = ("done", [[], ["f"]], ["#t:m,m.f", "bye@GO", "going@GO", "#recv:GO"]) := by decide
example : let s := syncSend goM exU (.user "GO") (syncStart goM exU {})
    let r := [Ev.user "GO", .user "X", .done "done.state.m" "m"].foldl (cmd .sync goM exU) s
    (r.status, r.cfg, r.trace, evTypes r) = (s.status, s.cfg, s.trace, evTypes s) := by decide
example : let s := asyncSend goM exU (.user "GO") (asyncStart goM exU {})
    let r := [Ev.user "GO", .user "X"].foldl (cmd .async goM exU) s
    (s.status, r.status, r.cfg, r.trace == s.trace) = ("done", "done", [[], ["f"]], true) := by decide

/-- *Inside one macrostep (sync):* once the machine is not running, the rest of the queue is discarded
    without anything being processed. -/
theorem drain_stops_when_done (m : Machine) (u : UEnv) (n c : Nat) (s : St) (h : s.status ≠ "running") :
    drainLoop m u (n + 1) c s = if s.queue = [] then s else { s with queue := [] } :=
  drainLoop_not_running m u n c h

/-- *(async):* the run loop leaves a machine that is not running alone (queue included). -/
theorem asyncDrain_stops_when_done (m : Machine) (u : UEnv) (n : Nat) (s : St) (h : s.status ≠ "running") :
    asyncDrain m u n s = s := asyncDrain_not_running m u n h

example : let s : St := { status := "done", queue := [⟨.user "A", false⟩, ⟨.user "B", false⟩], cfg := [[], ["f"]] }
    let r := drainFlagged goM exU s
    (evTypes r, r.trace, r.cfg, r.status) = ([], [], [[], ["f"]], "done") := by decide

/-! ## 4. nothing is queued once the machine is not running -/

/-- a done event (or any event) raised after completion is dropped -/
theorem enqueue_refused_when_not_running (b : Bool) (e : Ev) (s : St) (h : s.status ≠ "running") :
    enqueueQ b e s = s := enqueueQ_not_running b e h

example : evTypes (enqueue (.done "done.state.m" "m") { status := "done" }) = [] := by decide
example : evTypes (enqueue (.done "done.state.m" "m") { status := "running" }) = ["done.state.m"] := by decide

/-! ## 5. entering a top-level final state completes the machine -/

/-- *Actions never change `status`* — user actions, `assign`, `choose`, `raise` — provided the two
    send hooks do not; … -/
theorem execActions_status (h : Hooks) (hok : HooksStatusOK h) (evType : String) (as : List ActionRef)
    (s : St) : (execActions h as evType s).status = s.status :=
  Done.execActions_status h hok evType as s

/-- … and the hooks of both engines do not. -/
theorem engine_hooks_statusOK (u : UEnv) (m : Machine) :
    HooksStatusOK (hooksFlagged u m) ∧ HooksStatusOK (hooksAsync u m) ∧ HooksStatusOK (hooksAsyncStart u m) :=
  ⟨hooksFlagged_statusOK u m, hooksAsync_statusOK u m, hooksAsyncStart_statusOK u m⟩

/-- entering a final state whose entry actions do not fail = add it, run its entry actions, run the
    done check on the result -/
theorem enterOne_final (h : Hooks) (fl : Flavor) (m : Machine) (ev : Option String) (s : St) (e : Entry)
    (d : StateDef) (hd : m.defAt e.path = some d) (hk : d.kind = .final) (herr : s.err = none)
    (hact : (execActions h d.entry (entryEvName fl m e ev) (addActive e.path s)).err = none) :
    enterOne h fl m ev s e =
      checkAndFireOnDone h m e.path (execActions h d.entry (entryEvName fl m e ev) (addActive e.path s)) :=
  Done.enterOne_final h fl m ev s e d hd hk herr hact

/-- *Clause "entering a final child of the root sets the status to done".* From a running machine with
    no pending error, entering a final child of the root whose entry actions do not fail, while the
    root is not (declaring `onDone` and done) — in particular when it declares no `onDone` — yields the
    state after the entry actions with status "done". -/
theorem top_final_completes (h : Hooks) (hok : HooksOK h) (hs : HooksStatusOK h) (fl : Flavor) (m : Machine)
    (ev : Option String) (s : St) (e : Entry) (d : StateDef)
    (hd : m.defAt e.path = some d) (hk : d.kind = .final) (hlen : e.path.length = 1)
    (herr : s.err = none) (hrun : s.status = "running")
    (hact : (execActions h d.entry (entryEvName fl m e ev) (addActive e.path s)).err = none)
    (hroot : onDoneReady m (addActive e.path s).cfg [] = false) :
    enterOne h fl m ev s e =
        { execActions h d.entry (entryEvName fl m e ev) (addActive e.path s) with status := "done" } ∧
      (enterOne h fl m ev s e).status = "done" := by
  have hst : (execActions h d.entry (entryEvName fl m e ev) (addActive e.path s)).status = "running" := by
    rw [Done.execActions_status h hs, addActive_status, hrun]
  have hcfg := execActions_cfg h hok (entryEvName fl m e ev) d.entry (addActive e.path s)
  obtain ⟨k, hk1⟩ : ∃ k, e.path = [k] := by
    match hp : e.path, hlen with
    | [k], _ => exact ⟨k, rfl⟩
  have hnone : firingAncestor m (execActions h d.entry (entryEvName fl m e ev) (addActive e.path s)).cfg
      e.path = none := by
    rw [hcfg]
    rw [hk1] at hroot ⊢
    simp [firingAncestor, strictAncestors_single, hroot]
  have heq := Done.enterOne_final h fl m ev s e d hd hk herr hact
  rw [completes_when_no_ancestor h m e.path _ hnone hlen, complete_of_running hst] at heq
  exact ⟨heq, by rw [heq]⟩

/-- the common case: the root declares no `onDone` -/
theorem top_final_completes_no_root_onDone (h : Hooks) (hok : HooksOK h) (hs : HooksStatusOK h) (fl : Flavor)
    (m : Machine) (ev : Option String) (s : St) (e : Entry) (d : StateDef)
    (hd : m.defAt e.path = some d) (hk : d.kind = .final) (hlen : e.path.length = 1)
    (herr : s.err = none) (hrun : s.status = "running")
    (hact : (execActions h d.entry (entryEvName fl m e ev) (addActive e.path s)).err = none)
    (hroot : ∀ dr, m.defAt [] = some dr → dr.onDone = none) :
    (enterOne h fl m ev s e).status = "done" := by
  refine (top_final_completes h hok hs fl m ev s e d hd hk hlen herr hrun hact ?_).2
  unfold onDoneReady
  cases hr : m.defAt [] with
  | none => rfl
  | some dr => simp [hroot dr hr]

/-- with entry actions `[]` nothing can fail -/
theorem top_final_completes_no_entry (h : Hooks) (hok : HooksOK h) (hs : HooksStatusOK h) (fl : Flavor)
    (m : Machine) (ev : Option String) (s : St) (e : Entry) (d : StateDef)
    (hd : m.defAt e.path = some d) (hk : d.kind = .final) (hlen : e.path.length = 1)
    (herr : s.err = none) (hrun : s.status = "running") (hentry : d.entry = [])
    (hroot : onDoneReady m (addActive e.path s).cfg [] = false) :
    (enterOne h fl m ev s e).status = "done" := by
  refine (top_final_completes h hok hs fl m ev s e d hd hk hlen herr hrun ?_ hroot).2
  rw [hentry]
  simp only [execActions, execActionsF, List.foldl_nil]
  rw [addActive_err]; exact herr

/-- `plainM`: entering `f` (entry action `bye`) from the running machine completes it, either engine;
    the entry action has run -/
example : let s := enterOne (hooksFlagged exU plainM) .sync plainM none { cfg := [[]], status := "running" } ⟨["f"], true⟩
    (s.status, s.cfg, s.trace) = ("done", [[], ["f"]], ["bye@entry.m.f"]) := by decide
example : (enterOne (hooksAsync exU plainM) .async plainM (some "E") { cfg := [[]], status := "running" }
    ⟨["f"], true⟩).status = "done" := by decide
/-- a final state that is not a child of the root completes nothing -/
example : (enterOne (hooksFlagged exU nestedM) .sync nestedM none { cfg := nestedCfg, status := "running" }
    ⟨["P", "A", "A2", "a2f"], true⟩).status = "running" := by decide

/-! ## 6. completion ends the macrostep (finding F26, repaired in the library)

`_process_event` executes the transitions selected for one event in a loop. Since the repair the loop
starts with `if self.status not in ("running", "uninitialized"): break` — once an earlier transition
of the same macrostep has entered a top-level final state (status "done"), or the machine has failed
or been stopped, no later selected transition executes. In the model: `finished status`, and the fold
step `peStep` of `processEvent` (`processEvent_is_fold`, `peStep_def`). All statements are for both
engines (`fl`), every hook set and every user environment, any number of selected transitions. -/

/-- `finished` is the code's `self.status not in ("running", "uninitialized")` -/
theorem finished_spec (st : String) : finished st = true ↔ st ≠ "running" ∧ st ≠ "uninitialized" :=
  finished_iff st

example : finished "done" = true ∧ finished "error" = true ∧ finished "stopped" = true ∧
    finished "running" = false ∧ finished "uninitialized" = false := by decide

/-- what `processEvent` is when selection succeeds: the fold of `peStep` over the selected list … -/
theorem processEvent_is_fold (h : Hooks) (fl : Flavor) (m : Machine) (u : UEnv) (ev : Ev) (s : St)
    (sel : List Cand) (hsel : selectTransitions m s.cfg (u.genv s.ctx ev.type) ev = .ok sel) :
    processEvent h fl m u ev s = sel.foldl (peStep h fl m ev sel.length) s :=
  processEvent_peFold h fl m u ev s hsel

/-- … and what one step of that fold is (`n` = number of selected transitions): a pending error, a
    finished machine and (several selected) an inactive source each leave the state as it is -/
theorem peStep_def (h : Hooks) (fl : Flavor) (m : Machine) (ev : Ev) (n : Nat) (s : St) (c : Cand) :
    peStep h fl m ev n s c =
      if s.err.isSome then s
      else if finished s.status then s
      else if n > 1 && !(s.cfg.contains c.src) then s
      else execute h fl m ev (planTransition m s.cfg s.hist c) s := rfl

/-- *At the level of the loop:* from a finished state, whatever candidates remain, the state is
    returned unchanged — nothing executes. -/
theorem finished_stops_fold (h : Hooks) (fl : Flavor) (m : Machine) (ev : Ev) (n : Nat) (cs : List Cand)
    (s : St) (hf : finished s.status = true) : cs.foldl (peStep h fl m ev n) s = s :=
  peFold_finished h fl m ev n cs s hf

/-- **`finished_stops_macrostep`.** A machine that is finished processes an event (whenever selection
    succeeds, whatever was selected) by doing nothing: the state is returned unchanged — every field. -/
theorem finished_stops_macrostep (h : Hooks) (fl : Flavor) (m : Machine) (u : UEnv) (ev : Ev) (s : St)
    (hf : finished s.status = true) (sel : List Cand)
    (hsel : selectTransitions m s.cfg (u.genv s.ctx ev.type) ev = .ok sel) :
    processEvent h fl m u ev s = s :=
  processEvent_finished h fl m u ev s hf sel hsel

/-- the same field by field: no action ran and no observer was notified (trace), configuration,
    history, context, queue, status and counters are what they were -/
theorem finished_stops_macrostep_fields (h : Hooks) (fl : Flavor) (m : Machine) (u : UEnv) (ev : Ev) (s : St)
    (hf : finished s.status = true) (sel : List Cand)
    (hsel : selectTransitions m s.cfg (u.genv s.ctx ev.type) ev = .ok sel) :
    let r := processEvent h fl m u ev s
    r.trace = s.trace ∧ r.cfg = s.cfg ∧ r.hist = s.hist ∧ r.ctx = s.ctx ∧ r.queue = s.queue ∧
      r.status = s.status ∧ r.err = s.err ∧ r.raiseDepth = s.raiseDepth ∧ r.errors = s.errors := by
  simp only [finished_stops_macrostep h fl m u ev s hf sel hsel, and_self]

/-- **The loop is cut where the machine finishes.** If the state reached after the candidates
    `pre ++ [c]` is finished (`c` entered a top-level final state, say), folding the whole list
    `pre ++ c :: post` yields that very state: `post` contributes nothing. -/
theorem completion_cuts_fold (h : Hooks) (fl : Flavor) (m : Machine) (ev : Ev) (n : Nat) (pre post : List Cand)
    (c : Cand) (s : St) (hf : finished ((pre ++ [c]).foldl (peStep h fl m ev n) s).status = true) :
    (pre ++ c :: post).foldl (peStep h fl m ev n) s = (pre ++ [c]).foldl (peStep h fl m ev n) s :=
  peFold_cut h fl m ev n pre post c s hf

/-- **… for a whole event.** If the selected list is `pre ++ c :: post` and the machine is finished
    once `c` has been dealt with, the result of the macrostep is the state at that point: no transition
    of `post` executes — no action of theirs runs, the final state is not left again. -/
theorem completion_cuts_macrostep (h : Hooks) (fl : Flavor) (m : Machine) (u : UEnv) (ev : Ev) (s : St)
    (pre post : List Cand) (c : Cand)
    (hsel : selectTransitions m s.cfg (u.genv s.ctx ev.type) ev = .ok (pre ++ c :: post))
    (hf : finished ((pre ++ [c]).foldl (peStep h fl m ev (pre ++ c :: post).length) s).status = true) :
    processEvent h fl m u ev s = (pre ++ [c]).foldl (peStep h fl m ev (pre ++ c :: post).length) s := by
  rw [processEvent_is_fold h fl m u ev s _ hsel]
  exact completion_cuts_fold h fl m ev _ pre post c s hf

/-- in particular the status the macrostep ends with is the finished one (e.g. "done" stays "done") -/
theorem completion_status_kept (h : Hooks) (fl : Flavor) (m : Machine) (u : UEnv) (ev : Ev) (s : St)
    (pre post : List Cand) (c : Cand)
    (hsel : selectTransitions m s.cfg (u.genv s.ctx ev.type) ev = .ok (pre ++ c :: post))
    (hf : finished ((pre ++ [c]).foldl (peStep h fl m ev (pre ++ c :: post).length) s).status = true) :
    finished (processEvent h fl m u ev s).status = true := by
  rw [completion_cuts_macrostep h fl m u ev s pre post c hsel hf]; exact hf

/-- **The witness of F26** (`f26M`, `findings/F26_transitions_after_completion.json`): in the start
    configuration event `D` selects two transitions — `x → #m.f` (region `r2`, deepest source, first)
    and the root's `→ #m.p.r1.b` … -/
example : (syncStart f26M exU {}).cfg = f26S.cfg ∧ (syncStart f26M exU {}).status = "running" := by decide
example : (match selectTransitions f26M f26S.cfg (exU.genv [] "D") (.user "D") with
    | .ok sel => some (sel.map (fun c => (c.src, c.t.tid)))
    | .error _ => none) = some [(["p", "r2", "x"], 1), ([], 0)] := by decide
/-- … the first one enters the top-level final state `f` and completes the machine; the source of the
    second (the root) is still active, so the stale-source test does not skip it … -/
example : let s1 := peStep (hooksFlagged exU f26M) .sync f26M (.user "D") 2 f26S ⟨["p", "r2", "x"], f26XT⟩
    (s1.status, s1.cfg, s1.cfg.contains [], s1.trace) =
      ("done", [[], ["f"]], true, ["#t:m,m.f", "en:f@D", "tr:p.r2.x:D:0@D"]) := by decide
/-- … executing it there is what the unrepaired library did: `f` is left again (its exit action runs),
    the transition's action runs, the machine is "done" outside any final state … -/
example : let s1 := peStep (hooksFlagged exU f26M) .sync f26M (.user "D") 2 f26S ⟨["p", "r2", "x"], f26XT⟩
    let s2 := execute (hooksFlagged exU f26M) .sync f26M (.user "D") (planTransition f26M s1.cfg s1.hist ⟨[], f26RootT⟩) s1
    (s2.status, s2.cfg.contains ["f"], s2.trace.take 3) =
      ("done", false, ["#t:m,m.p,m.p.r2,m.p.r2.x,m.p.r1,m.p.r1.b", "tr::D:0@D", "ex:f@D"]) := by decide
/-- … and the model, like the repaired library, stops: the second step returns the state unchanged,
    and the whole event ends in `f` with status "done"; `tr::D:0` and `ex:f` never run. Both engines. -/
example : let s1 := peStep (hooksFlagged exU f26M) .sync f26M (.user "D") 2 f26S ⟨["p", "r2", "x"], f26XT⟩
    let s2 := peStep (hooksFlagged exU f26M) .sync f26M (.user "D") 2 s1 ⟨[], f26RootT⟩
    (s2.status, s2.cfg, s2.trace) = (s1.status, s1.cfg, s1.trace) := by decide
example : let s := processEvent (hooksFlagged exU f26M) .sync f26M exU (.user "D") f26S
    (s.status, s.cfg, s.trace) = ("done", [[], ["f"]], ["#t:m,m.f", "en:f@D", "tr:p.r2.x:D:0@D"]) := by decide
example : let s := syncSend f26M exU (.user "D") (syncStart f26M exU {})
    (s.status, s.cfg, s.trace) = ("done", [[], ["f"]], ["#t:m,m.f", "en:f@D", "tr:p.r2.x:D:0@D", "#recv:D"]) := by
  decide
example : let s := asyncSend f26M exU (.user "D") (asyncStart f26M exU {})
    (s.status, s.cfg, s.trace) = ("done", [[], ["f"]], ["#t:m,m.f", "en:f@D", "tr:p.r2.x:D:0@D", "#recv:D"]) := by
  decide

end XSM.C10
