import Xsm.Proofs.SnapshotRun
import Xsm.Proofs.SnapshotTree
/-!
# C12 — snapshots are faithful, isolated resume points

"Restoring the snapshot taken at any quiescent point of any run into a fresh interpreter over the same
machine definition yields an interpreter that, for every continuation of events, produces the same
configurations, context, history-dependent behaviour, status, output, error flag and actor/systemId
registrations as the uninterrupted run (pending timers and in-flight services excepted). A snapshot is
valid JSON, is not affected by later execution of the interpreter it was taken from, re-snapshotting a
restored interpreter reproduces it, and a corrupt snapshot or one naming states the machine does not
have is rejected with a library error."

Statements about the executable model: `snap` / `restore` (`Xsm/Model/Snapshot.lean` =
`get_persisted_snapshot` / `from_snapshot`) over the engine state `St` and `send` of both engines
(`Xsm/Model/Engine.lean`).  Helper lemmas: `Xsm/Proofs/Snapshot.lean`, `Xsm/Proofs/SnapshotRun.lean`.

Vocabulary
* `MDot m` — neither the machine id nor any state key contains '.' (then ids are injective and
  `get_state_by_id` inverts `id`; the library rejects dotted keys).
* `SnapOK m s` — the cut state is sane: active paths name states, parents of active states are active,
  no duplicates, every remembered list is a non-empty list of states under an owner that is a state.
* `Quiet s` — quiescent: empty queue, chain-breaker counter at 0 (what `restore` starts from).
* `restored m s` — what `from_snapshot` rebuilds: configuration = ancestor closure of the id-sorted
  configuration; history = same owners, every remembered list sorted by id (the snapshot) and then by
  (depth, id) (`from_snapshot` since commit 546b3d4: `sortDI`); same context and status.
* `DISorted m hist` — every remembered list is in the (depth, id) order `_record_history` produces. It is
  an invariant of every run (`diSorted_run`, unconditional), so it is a hypothesis only for states
  given out of the blue.
* `restoreUnsorted` — `from_snapshot` BEFORE 546b3d4 (remembered lists left in the id order of the
  snapshot); kept only for the counterexample of §4 (finding F40, fixed).
* `SnapEquiv m s s'` — same configuration as a SET (`List.Perm`), same history, context, status, queue
  and chain-breaker counter; `St.equiv` (C16) is the same plus: traces equal record by record (a `#t:`
  observer record may list the same configuration in another order), same error flag and failure count.
* `cmdO fl m u s e` — one command as the harness observes it: `send e` from a cleared log.
* `RunInv … P C E` — an invariant of the run providing, at every transition actually executed, the
  side conditions of C16's `microstep_equiv`; `runInv_legal` instantiates it from C01/C11 with
  `RunP m s` = "`s.cfg` is `Legal` and every remembered list is a legal selection of its owner's subtree",
  which holds in every state a run reaches (`reached_runP`).
* `SelSoundH m` — selection soundness (hypothesis, as `SelSound` in C01's `legal_run`): sources of
  selected transitions are ancestors-or-self of active states; the selected transitions all have
  plain or root targets, or exactly one is selected and it targets a history state whose owner is
  inactive (C11's scope: source outside the owner).

PROVED (all machines, all user code `u`, both engines, no bounds)
* `restore_snap`, `restore_snap_equiv`, `snap_restore_snap`, `repeated_cycles`, the `restore_rejects_*`
  family and `restore_ok_inv`;
* `step_respects_equiv`, `resume_bisimilar_of_inv`: the bisimulation step and, by induction, every
  continuation — for any run invariant `RunInv`;
* `recorded_lists_sorted` (`DISorted` in every reached state, unconditionally) and `reached_runP`
  (`Legal` + legal remembered selections in every reached state, history targets included);
* `resume_bisimilar`: every continuation from a restored snapshot, for well-formed machines with sound
  selection, from any sane quiescent cut; `resume_bisimilar_run`: the same for a cut REACHED BY A RUN —
  `Legal`, `HistAll` and `DISorted` are then theorems, what is left as hypothesis of the cut is only
  "no duplicate in `cfg`, remembered lists name states" (`SnapOK`) and quiescence (`Quiet`);
* `prefix_resume_history_order_counterexample`: with the pre-fix `restoreUnsorted` the claim was false
  (F40), and `fix_restores_order_example`: the same witness now agrees.

ONLY VALIDATED (differential check `harness/xsmverif/c12.py`, every cut point of generated runs)
* that model and code agree on snapshot content, on the restored state and on every continuation;
* the remaining cut hypotheses: `driver_snap` evaluates `Quiet` and `SnapOK` (and `DISorted`) on the model
  state at every cut and the check requires them. `SelSoundH` is a hypothesis (`selSound_of_targetsOK`
  discharges its plain/root half: `resume_bisimilar_of_targets`);
* JSON text (de)serialisation, isolation from later execution (aliasing), `output`, `error`, the
  snapshot of a never-started interpreter.

OUTSIDE THE MODEL: machine output, the error object, child actors and the systemId registry (`snap`
writes `null`, `null`, `{}`, `{}`; of `actors` / `system` in a snapshot handed to `restore` only the shape
check of `_validate_snapshot_shape` is modelled: a well-shaped value is accepted and ignored), non-integer
context values, pending timers / in-flight services (excepted by the property), `start()` on a restored
interpreter (identity: `resume`).

Wrongly shaped snapshot objects (finding F43, repaired): `shapeErr` is `_validate_snapshot_shape`, run on
the decoded object before anything is rebuilt; `restore` reports the first offending key (`RErr.shape`,
`InvalidConfigError` in the code) — `restore_shape_first`, the `restore_rejects_shape_*` family — and after
a passed validation only an unknown state id can fail (`restore_wellshaped_outcome`). Ids in `history`
that name no state are dropped, as the code drops them (`restoreHistEntry`).
-/
namespace XSM.C12
open XSM XSM.Spec XSM.Hist XSM.Snap

/-- quiescent cut point -/
def Quiet (s : St) : Prop := s.queue = [] ∧ s.raiseDepth = 0

/-! ## 1. `restore ∘ snap` -/

theorem histGet_histOrd (m : Machine) (ord : List Path → List Path) (h : List (Path × List Path)) (P : Path) :
    histGet (histOrd m ord h) P = (histGet h P).map (fun R => ord (sortIds m R)) := by
  induction h with
  | nil => rfl
  | cons kv h ih =>
    simp only [histGet, histOrd, List.map_cons, List.find?_cons] at ih ⊢
    by_cases hk : kv.1 = P
    · simp [hk]
    · simp only [hk, decide_false]
      exact ih

/-- **restore ∘ snap**: the snapshot of a sane state is accepted, and the state that comes back has the
    same configuration as a set, the same context and status, an empty queue and fresh counters, and
    the same history as a map — each remembered list holding the same states, in (depth, id) order. -/
theorem restore_snap (m : Machine) (hd : MDot m) (s : St) (hs : SnapOK m s) :
    restore m (snap m s) = .ok (restored m s) ∧
    (restored m s).cfg.Perm s.cfg ∧ (restored m s).ctx = s.ctx ∧ (restored m s).status = s.status ∧
    (restored m s).queue = [] ∧ (restored m s).raiseDepth = 0 ∧ (restored m s).err = none ∧
    (∀ P, histGet (restored m s).hist P = (histGet s.hist P).map (fun R => sortDI m (sortIds m R))) ∧
    (∀ kv ∈ s.hist, (sortDI m (sortIds m kv.2)).Perm kv.2) ∧ DISorted m (restored m s).hist := by
  refine ⟨restore_snap_core m hd s hs, closeUp_perm m s.cfg hs.cfgClosed hs.cfgNodup, rfl, rfl, rfl, rfl, rfl,
    histGet_histOrd m (sortDI m) s.hist, fun kv _ => (sortDI_perm m _).trans (sortIds_perm m kv.2), ?_⟩
  intro kv hkv
  obtain ⟨kv0, _, rfl⟩ := List.mem_map.1 hkv
  exact Hist.sortBy_pairwise _ (depthIdLe_total m) (fun _ _ _ => depthIdLe_trans m) _

/-- the remembered lists come back exactly as they were recorded -/
theorem restored_hist (m : Machine) (hd : MDot m) (s : St) (hs : SnapOK m s) (hdi : DISorted m s.hist) :
    (restored m s).hist = s.hist := by
  show histOrd m (sortDI m) s.hist = s.hist
  unfold histOrd
  conv => rhs; rw [← List.map_id s.hist]
  apply List.map_congr_left
  intro kv hkv
  have hinj : IdInj m kv.2 := idInj_of_valid m hd kv.2 (hs.histValid kv hkv).2.2
  have h1 : sortDI m (sortIds m kv.2) = sortDI m kv.2 :=
    sortDI_perm_eq m (sortIds_perm m kv.2) (hinj.perm (sortIds_perm m kv.2).symm)
  rw [h1, sortDI_of_sorted m kv.2 hinj (hdi kv hkv)]
  rfl

/-- **… and the restored state is `SnapEquiv` to the original** (quiescent cut): same history exactly
    (in particular `histGet` agrees for every owner), same queue and counter. `DISorted` is what
    `_record_history` guarantees (`recorded_lists_sorted`). -/
theorem restore_snap_equiv (m : Machine) (hd : MDot m) (s : St) (hs : SnapOK m s) (hq : Quiet s)
    (hdi : DISorted m s.hist) :
    restore m (snap m s) = .ok (restored m s) ∧ SnapEquiv m s (restored m s) ∧
      (restored m s).hist = s.hist ∧ ∀ P, histGet (restored m s).hist P = histGet s.hist P := by
  have hh : (restored m s).hist = s.hist := restored_hist m hd s hs hdi
  refine ⟨restore_snap_core m hd s hs, ?_, hh, fun P => by rw [hh]⟩
  exact ⟨(closeUp_perm m s.cfg hs.cfgClosed hs.cfgNodup).symm, hh.symm, hq.1, rfl, TraceEq.nil, rfl, rfl, hq.2, rfl, rfl⟩

/-- **`_record_history` guarantees the order**: in every state a run reaches — `start()`, then any
    commands, either engine, any machine, any user code — every remembered list is in (depth, id) order -/
theorem recorded_lists_sorted (m : Machine) (fl : Flavor) (u : UEnv) (evs : List Ev) :
    DISorted m (evs.foldl (cmdO fl m u) (start fl m u {})).hist :=
  diSorted_run m fl u evs

/-- **re-snapshot reproduces**: whatever `restore` makes of a snapshot, its snapshot is that snapshot
    (the snapshot sorts the remembered lists by id whatever order they are held in) -/
theorem snap_restore_snap (m : Machine) (hd : MDot m) (s : St) (hs : SnapOK m s) (s' : St)
    (h : restore m (snap m s) = .ok s') : snap m s' = snap m s := by
  rw [restore_snap_core m hd s hs] at h
  cases h
  exact snap_restored m hd s hs

/-- **repeated save/restore cycles**: restoring the re-snapshot gives the same restored state again -/
theorem repeated_cycles (m : Machine) (hd : MDot m) (s : St) (hs : SnapOK m s) :
    restore m (snap m (restored m s)) = .ok (restored m s) := by
  rw [snap_restored m hd s hs]; exact restore_snap_core m hd s hs

/-! ## 2. rejection -/

/-- a snapshot that does not decode to a JSON object: `InvalidConfigError` -/
theorem restore_rejects_nonobject (m : Machine) (j : J) (h : ∀ kvs, j ≠ .obj kvs) :
    ∃ msg, restore m j = .error (.invalidConfig msg) := by
  unfold restore restoreWith
  split
  · rename_i kvs; exact absurd rfl (h kvs)
  · exact ⟨_, rfl⟩

/-- a well-shaped snapshot whose configuration names a state the machine does not have:
    `StateNotFoundError`, carrying the first such id (the shape of every key is checked before: a snapshot
    that is ALSO wrongly shaped gets `InvalidConfigError`, `restore_shape_first`) -/
theorem restore_rejects_unknown_state (m : Machine) (kvs : List (String × J)) (ids : List String)
    (hshape : shapeErr (.obj kvs) = none)
    (hids : restoreIdsJ (.obj kvs) = .ok ids) (hbad : ∃ id ∈ ids, stateById m id = none) :
    ∃ id ∈ ids, stateById m id = none ∧ restore m (.obj kvs) = .error (.stateNotFound id) := by
  obtain ⟨id, hid, hn, he⟩ := restoreIds_unknown m ids hbad
  refine ⟨id, hid, hn, ?_⟩
  rcases restoreWith_wellshaped m (sortDI m) kvs hshape with ⟨s, hs⟩ | ⟨ids', id', hids', _, _, hr⟩
  · obtain ⟨_, _, _, ⟨ids', ps, h4, h5, _⟩, _⟩ := Snap.restore_ok_inv m _ s hs
    rw [hids] at h4
    cases h4
    rw [he] at h5
    cases h5
  · obtain ⟨h1, h2, _⟩ := shapeErr_none _ hshape
    obtain ⟨v1, hv1, _, hc1⟩ := shapeRowOk_required h1
    obtain ⟨v2, hv2, _, hc2⟩ := shapeRowOk_required h2
    cases v1 <;> simp [isStr] at hc1
    cases v2 <;> simp [isObj] at hc2
    unfold restore
    rw [restoreWith_obj, hshape]
    simp only [restoreCore, hv1, hv2, hids, he]

/-- **the validation comes first**: a snapshot object with a wrongly shaped key is refused with the first
    offending key of `status`, `context`, `configuration`, `state_ids`, `history`, `actors`, `system`
    (`InvalidConfigError`), whatever else is wrong with it — unknown state ids included -/
theorem restore_shape_first (m : Machine) (kvs : List (String × J)) (e : RErr)
    (h : shapeErr (.obj kvs) = some e) : restore m (.obj kvs) = .error e :=
  restoreWith_shape_first m (sortDI m) kvs e h

/-- the errors of the validation are `shape` errors of exactly these seven keys -/
theorem shapeErr_keys (j : J) (e : RErr) (h : shapeErr j = some e) :
    ∃ k ∈ ["status", "context", "configuration", "state_ids", "history", "actors", "system"], e = .shape k := by
  unfold shapeErr at h
  repeat' split at h
  all_goals first | (cases h; exact ⟨_, by simp, rfl⟩) | cases h

/-- **after a passed validation only an unknown state id can fail**: the snapshot is accepted, or one of
    the ids it lists names no state of the machine and `StateNotFoundError` carries such an id -/
theorem restore_wellshaped_outcome (m : Machine) (kvs : List (String × J)) (h : shapeErr (.obj kvs) = none) :
    (∃ s, restore m (.obj kvs) = .ok s) ∨
    ∃ ids id, restoreIdsJ (.obj kvs) = .ok ids ∧ id ∈ ids ∧ stateById m id = none ∧
      restore m (.obj kvs) = .error (.stateNotFound id) :=
  restoreWith_wellshaped m (sortDI m) kvs h

/-- an accepted snapshot passed the validation: every row of the table holds -/
theorem restore_ok_shape (m : Machine) (j : J) (s : St) (h : restore m j = .ok s) : shapeErr j = none :=
  restoreWith_ok_shape m (sortDI m) j s h

/-- wrongly typed or missing `status` / `context`: never accepted -/
theorem restore_rejects_shape_status (m : Machine) (j : J) (h : ∀ st, j.get? "status" ≠ some (.str st)) :
    ∀ s, restore m j ≠ .ok s := by
  intro s hs
  exact h _ (restore_ok_inv m j s hs).2.2.1
theorem restore_rejects_shape_context (m : Machine) (j : J) (h : ∀ c, j.get? "context" ≠ some (.obj c)) :
    ∀ s, restore m j ≠ .ok s := by
  intro s hs
  obtain ⟨c, hc, _⟩ := (restore_ok_inv m j s hs).2.1
  exact h c hc

/-- a `configuration` that is not a list of strings, and a `history` that is not an object of lists of
    strings, are never accepted -/
theorem restore_rejects_shape_configuration (m : Machine) (j : J) (h : ∀ ids, restoreIdsJ j ≠ .ok ids) :
    ∀ s, restore m j ≠ .ok s := by
  intro s hs
  obtain ⟨ids, _, hi, _⟩ := (restore_ok_inv m j s hs).2.2.2.1
  exact h ids hi
theorem restore_rejects_shape_history (m : Machine) (j : J) (h : ∀ hh, restoreHistJ m (sortDI m) j ≠ .ok hh) :
    ∀ s, restore m j ≠ .ok s := by
  intro s hs
  exact h _ (restore_ok_inv m j s hs).2.2.2.2.1

/-- a `state_ids` that is present, not `null` and not a list of strings is never accepted — also when
    `configuration` is there to be used instead -/
theorem restore_rejects_shape_state_ids (m : Machine) (j : J) (v : J) (hv : j.get? "state_ids" = some v)
    (hn : v ≠ .null) (hbad : isIds v = false) : ∀ s, restore m j ≠ .ok s := by
  intro s hs
  refine shapeErr_of_row (j := j) (key := "state_ids") (req := stateIdsRequired j) (check := isIds) ?_
    (by simp) (restore_ok_shape m j s hs)
  unfold shapeRowOk
  rw [hv]
  cases v <;> simp_all

/-- an `actors` that is present, not `null` and not an object of actor records (objects whose `snapshot`
    is an object and whose `src` is absent, `null` or a string — what `from_snapshot` reads of a record)
    is never accepted -/
theorem restore_rejects_shape_actors (m : Machine) (j : J) (v : J) (hv : j.get? "actors" = some v)
    (hn : v ≠ .null) (hbad : isMapOf isActorRec v = false) : ∀ s, restore m j ≠ .ok s := by
  intro s hs
  refine shapeErr_of_row (j := j) (key := "actors") (req := false) (check := isMapOf isActorRec) ?_
    (by simp) (restore_ok_shape m j s hs)
  unfold shapeRowOk
  rw [hv]
  cases v <;> simp_all

/-- a `system` that is present, not `null` and not an object of strings (systemId -> actor id) is never
    accepted -/
theorem restore_rejects_shape_system (m : Machine) (j : J) (v : J) (hv : j.get? "system" = some v)
    (hn : v ≠ .null) (hbad : isMapOf isStr v = false) : ∀ s, restore m j ≠ .ok s := by
  intro s hs
  refine shapeErr_of_row (j := j) (key := "system") (req := false) (check := isMapOf isStr) ?_
    (by simp) (restore_ok_shape m j s hs)
  unfold shapeRowOk
  rw [hv]
  cases v <;> simp_all

/-- … and the error is the library's `InvalidConfigError` naming the key, when the keys checked before
    (`status` … `history`, resp. … `actors`) are well-shaped -/
theorem restore_shape_error_actors (m : Machine) (kvs : List (String × J))
    (h1 : shapeRowOk (.obj kvs) "status" true isStr = true) (h2 : shapeRowOk (.obj kvs) "context" true isObj = true)
    (h3 : shapeRowOk (.obj kvs) "configuration" false isIds = true)
    (h4 : shapeRowOk (.obj kvs) "state_ids" (stateIdsRequired (.obj kvs)) isIds = true)
    (h5 : shapeRowOk (.obj kvs) "history" false (isMapOf isIds) = true)
    (h6 : shapeRowOk (.obj kvs) "actors" false (isMapOf isActorRec) = false) :
    restore m (.obj kvs) = .error (.shape "actors") :=
  restore_shape_first m kvs _ (by simp [shapeErr, h1, h2, h3, h4, h5, h6])
theorem restore_shape_error_system (m : Machine) (kvs : List (String × J))
    (h1 : shapeRowOk (.obj kvs) "status" true isStr = true) (h2 : shapeRowOk (.obj kvs) "context" true isObj = true)
    (h3 : shapeRowOk (.obj kvs) "configuration" false isIds = true)
    (h4 : shapeRowOk (.obj kvs) "state_ids" (stateIdsRequired (.obj kvs)) isIds = true)
    (h5 : shapeRowOk (.obj kvs) "history" false (isMapOf isIds) = true)
    (h6 : shapeRowOk (.obj kvs) "actors" false (isMapOf isActorRec) = true)
    (h7 : shapeRowOk (.obj kvs) "system" false (isMapOf isStr) = false) :
    restore m (.obj kvs) = .error (.shape "system") :=
  restore_shape_first m kvs _ (by simp [shapeErr, h1, h2, h3, h4, h5, h6, h7])

/-- everything an accepted snapshot went through: it is an object, `context` is an object, `status` a
    string, the listed ids are strings that all name states, the history is well-shaped; the state
    starts quiescent and without error -/
theorem restore_ok_inv (m : Machine) (j : J) (s : St) (h : restore m j = .ok s) :
    (∃ kvs, j = .obj kvs) ∧ (∃ c, j.get? "context" = some (.obj c) ∧ s.ctx = restoreCtx c) ∧
    j.get? "status" = some (.str s.status) ∧
    (∃ ids ps, restoreIdsJ j = .ok ids ∧ restoreIds m ids = .ok ps ∧ s.cfg = closeUp ps ∧
      ∀ id ∈ ids, ∃ p ∈ ps, stateById m id = some p) ∧
    restoreHistJ m (sortDI m) j = .ok s.hist ∧ Quiet s ∧ s.err = none := by
  obtain ⟨h1, h2, h3, ⟨ids, ps, h4, h5, h6⟩, h7, h8, h9, h10⟩ := Snap.restore_ok_inv m j s h
  exact ⟨h1, h2, h3, ⟨ids, ps, h4, h5, h6, restoreIds_ok_mem m ids ps h5⟩, h7, ⟨h8, h9⟩, h10⟩

/-! ## 3. the bisimulation -/

/-- **the bisimulation step** (`≈` is preserved by one more command, both engines): from
    `SnapEquiv` states the next command leaves `St.equiv` states — same configuration as a set, same
    context, history, status, queue, and the same log of that command (actions in the same order, same
    error flag, same failure count) — and keeps the run invariant. -/
theorem step_respects_equiv {m : Machine} {u : UEnv} {P : St → Prop} {C : Cand → Prop} {E : St → Cand → Prop}
    (fl : Flavor) (hP : RunInv m u (hooksOf fl u m) fl P C E) (e : Ev) {s s' : St}
    (he : SnapEquiv m s s') (hs : P s) :
    St.equiv m (cmdO fl m u s e) (cmdO fl m u s' e) ∧ P (cmdO fl m u s e) :=
  cmdO_equiv fl hP e he hs

/-- **every continuation**, for any run invariant: the two runs stay equivalent after every further
    command, and each command logs the same on both sides -/
theorem resume_bisimilar_of_inv {m : Machine} {u : UEnv} {P : St → Prop} {C : Cand → Prop}
    {E : St → Cand → Prop} (fl : Flavor) (hP : RunInv m u (hooksOf fl u m) fl P C E) {s s' : St}
    (he : SnapEquiv m s s') (hs : P s) (evs : List Ev) :
    SnapEquiv m (evs.foldl (cmdO fl m u) s) (evs.foldl (cmdO fl m u) s') ∧
    ∀ e, St.equiv m (cmdO fl m u (evs.foldl (cmdO fl m u) s) e) (cmdO fl m u (evs.foldl (cmdO fl m u) s') e) := by
  obtain ⟨h1, h2⟩ := run_equiv fl hP evs he hs
  exact ⟨h1, fun e => (cmdO_equiv fl hP e h1 h2).1⟩

/-- C01 and C11 provide the invariant: `RunP m s` = "`s.cfg` is `Legal` and every remembered list is a
    legal selection of its owner's subtree" -/
theorem runInv_legal (fl : Flavor) (m : Machine) (u : UEnv) (hwf : WF m.root) (hi : InitOK m.root)
    (hsel : SelSoundH m) (hd : MDot m) :
    RunInv m u (hooksOf fl u m) fl (RunP m) (CandOK m) (fun s c => HistCand m s.cfg c) :=
  Snap.runInv_legal fl m u hwf hi hsel hd

/-- **every state a run reaches satisfies it** (C01 and C11 for whole runs of either engine, history
    targets included): if `start()` did not refuse the machine, then after `start()` and after every
    command the configuration is `Legal` and every remembered list is a legal selection -/
theorem reached_runP (fl : Flavor) (m : Machine) (u : UEnv) (hwf : WF m.root) (hi : InitOK m.root)
    (hk : m.root.kind ≠ .history) (hsel : SelSoundH m) (hd : MDot m) (hstart : (start fl m u {}).err = none)
    (evs : List Ev) :
    Legal m.root (evs.foldl (cmdO fl m u) (start fl m u {})).cfg ∧
      HistAll m (evs.foldl (cmdO fl m u) (start fl m u {})).hist :=
  runP_run fl m u hwf hi hk hsel hd hstart evs

/-- **resume is bisimilar.**  For a well-formed machine with sound selection, either engine and
    arbitrary user code: the snapshot of a sane quiescent state is accepted, re-snapshotting the restored
    state reproduces it, and from the restored state EVERY continuation of events behaves as from the
    original — after each command the same configuration (as a set), context, history, status and
    queue, and the same log of that command (actions in order, error flag, failure count). -/
theorem resume_bisimilar (fl : Flavor) (m : Machine) (u : UEnv) (hwf : WF m.root) (hi : InitOK m.root)
    (hsel : SelSoundH m) (hd : MDot m) (s : St) (hL : Legal m.root s.cfg) (hA : HistAll m s.hist)
    (hdi : DISorted m s.hist) (hs : SnapOK m s) (hq : Quiet s) :
    ∃ s', restore m (snap m s) = .ok s' ∧ snap m s' = snap m s ∧
      ∀ evs : List Ev,
        SnapEquiv m (evs.foldl (cmdO fl m u) s) (evs.foldl (cmdO fl m u) (resume s')) ∧
        ∀ e, St.equiv m (cmdO fl m u (evs.foldl (cmdO fl m u) s) e)
          (cmdO fl m u (evs.foldl (cmdO fl m u) (resume s')) e) := by
  obtain ⟨h1, h2, _⟩ := restore_snap_equiv m hd s hs hq hdi
  exact ⟨restored m s, h1, snap_restored m hd s hs, fun evs =>
    resume_bisimilar_of_inv fl (Snap.runInv_legal fl m u hwf hi hsel hd) h2 ⟨hL, hA⟩ evs⟩

/-- **… from every cut point of every run**: the cut is the state after `start()` and any prefix `pre`
    of events. Legality, legal remembered selections and the (depth, id) order are theorems about
    reached states; what remains a hypothesis of the cut is that it is quiescent (`Quiet`: a `send()`
    that raised can leave events queued, and the snapshot does not store the queue) and `SnapOK`
    (no duplicate in the configuration list, remembered lists non-empty lists of states). -/
theorem resume_bisimilar_run (fl : Flavor) (m : Machine) (u : UEnv) (hwf : WF m.root) (hi : InitOK m.root)
    (hk : m.root.kind ≠ .history) (hsel : SelSoundH m) (hd : MDot m) (hstart : (start fl m u {}).err = none)
    (pre : List Ev) (hs : SnapOK m (pre.foldl (cmdO fl m u) (start fl m u {})))
    (hq : Quiet (pre.foldl (cmdO fl m u) (start fl m u {}))) :
    ∃ s', restore m (snap m (pre.foldl (cmdO fl m u) (start fl m u {}))) = .ok s' ∧
      snap m s' = snap m (pre.foldl (cmdO fl m u) (start fl m u {})) ∧
      ∀ evs : List Ev,
        SnapEquiv m (evs.foldl (cmdO fl m u) (pre.foldl (cmdO fl m u) (start fl m u {})))
          (evs.foldl (cmdO fl m u) (resume s')) ∧
        ∀ e, St.equiv m (cmdO fl m u (evs.foldl (cmdO fl m u) (pre.foldl (cmdO fl m u) (start fl m u {}))) e)
          (cmdO fl m u (evs.foldl (cmdO fl m u) (resume s')) e) := by
  obtain ⟨hL, hA⟩ := runP_run fl m u hwf hi hk hsel hd hstart pre
  exact resume_bisimilar fl m u hwf hi hsel hd _ hL hA (diSorted_run m fl u pre) hs hq

/-- the same from machine-level hypotheses only, for machines all of whose transitions have plain or
    root targets (`TargetsOK`, as `legal_run'`): `SelSoundH` is then a theorem -/
theorem resume_bisimilar_of_targets (fl : Flavor) (m : Machine) (u : UEnv) (hwf : WF m.root)
    (hi : InitOK m.root) (hk : m.root.kind ≠ .history) (ht : TargetsOK m) (hd : MDot m)
    (hstart : (start fl m u {}).err = none)
    (pre : List Ev) (hs : SnapOK m (pre.foldl (cmdO fl m u) (start fl m u {})))
    (hq : Quiet (pre.foldl (cmdO fl m u) (start fl m u {}))) :
    ∃ s', restore m (snap m (pre.foldl (cmdO fl m u) (start fl m u {}))) = .ok s' ∧
      snap m s' = snap m (pre.foldl (cmdO fl m u) (start fl m u {})) ∧
      ∀ evs : List Ev,
        SnapEquiv m (evs.foldl (cmdO fl m u) (pre.foldl (cmdO fl m u) (start fl m u {})))
          (evs.foldl (cmdO fl m u) (resume s')) ∧
        ∀ e, St.equiv m (cmdO fl m u (evs.foldl (cmdO fl m u) (pre.foldl (cmdO fl m u) (start fl m u {}))) e)
          (cmdO fl m u (evs.foldl (cmdO fl m u) (resume s')) e) :=
  resume_bisimilar_run fl m u hwf hi hk (SelSound.toH (selSound_of_targetsOK m ht)) hd hstart pre hs hq

/-! ## 4. finding F40 (fixed by 546b3d4): why `from_snapshot` must re-establish the (depth, id) order -/
namespace Ex
/-
m (compound, initial P)
├─ P (parallel)                on OUT: → #m.S
│  ├─ a (compound, initial x)  entry: en:a, set:c:1
│  │  └─ x                     entry: en:x
│  ├─ b (atomic)               entry: en:b, set:c:2
│  └─ hd (history, deep)
└─ S                           on BACK: → #m.P.hd
After OUT the history of `P` is remembered in (depth, id) order: [P.a, P.b, P.a.x]; the snapshot stores
it sorted by id: [m.P.a, m.P.a.x, m.P.b].  BACK restores the leaves in the remembered order: the live
interpreter enters b, then a, x (context c = 1). Before 546b3d4 the restored interpreter kept the id
order and entered a, x, then b (c = 2); now it sorts the list back and does what the live one does.
-/
def mkT (tid : Nat) (event : String) (target : Option String) : Trans :=
  { tid, event, target, guard := none, actions := [], reenter := false, forbidden := false }
def mkD (kind : Kind) (initial : Option String := none) (on : List (String × List Trans) := [])
    (entry : List ActionRef := []) (deep := false) : StateDef :=
  { kind, initial, entry, exit := [], on, onDone := none, after := [], invoke := [], deep,
    historyTarget := none, customId := none, tags := [] }
def tOut := mkT 0 "OUT" (some "#m.S")
def tBack := mkT 1 "BACK" (some "#m.P.hd")
def cxM : Machine :=
  { id := "m", maxIterations := 10, customIds := [],
    root := .mk (mkD .compound (some "P")) [
      ("P", .mk (mkD .parallel none [("OUT", [tOut])]) [
        ("a", .mk (mkD .compound (some "x") [] [⟨"en:a", none⟩, ⟨"set:c:1", none⟩])
          [("x", .mk (mkD .atomic none [] [⟨"en:x", none⟩]) [])]),
        ("b", .mk (mkD .atomic none [] [⟨"en:b", none⟩, ⟨"set:c:2", none⟩]) []),
        ("hd", .mk (mkD .history none [] [] true) [])]),
      ("S", .mk (mkD .atomic none [("BACK", [tBack])]) [])] }
/-- user code: `set:c:n` writes the context, every other action is a marker -/
def cxU : UEnv :=
  { g := fun _ _ _ => .missing,
    a := fun n c _ => if n = "set:c:1" then .ok (ctxSet c "c" 1) else if n = "set:c:2" then .ok (ctxSet c "c" 2) else .ok c }
/-- the cut: after `start()` and `OUT` -/
def cxS : St := cmdO .sync cxM cxU (start .sync cxM cxU {}) (.user "OUT")
/-- what the continuation `f` yields from the restored interpreter (`rst` = `restore` or the pre-fix
    `restoreUnsorted`) -/
def afterRestore {α} (rst : Machine → J → Except RErr St) (dflt : α) (f : St → α) : α :=
  match rst cxM (snap cxM cxS) with
  | .ok s' => f (resume s')
  | .error _ => dflt
end Ex
open Ex

example : cxS.cfg = [[], ["S"]] ∧ cxS.hist = [(["P"], [["P", "a"], ["P", "b"], ["P", "a", "x"]])] ∧
    cxS.queue = [] ∧ cxS.raiseDepth = 0 := by decide
/-- what the two versions of `from_snapshot` make of the remembered list -/
example : afterRestore restoreUnsorted [] (·.hist) = [(["P"], [["P", "a"], ["P", "a", "x"], ["P", "b"]])] ∧
    afterRestore restore [] (·.hist) = cxS.hist := by decide

/-- **the pre-fix behaviour** (F40; replay `findings/F40_snapshot_history_order.json` failed on the code
    before 546b3d4): the snapshot is accepted, the restored state has the same configuration, context and
    status — and after the continuation `BACK` the two interpreters have run the entry actions in
    different orders and hold different contexts. -/
theorem prefix_resume_history_order_counterexample :
    afterRestore restoreUnsorted false
      (fun s' => s'.cfg == cxS.cfg && s'.ctx == cxS.ctx && s'.status == cxS.status) = true ∧
    (cmdO .sync cxM cxU cxS (.user "BACK")).trace.reverse =
      ["#recv:BACK", "en:b@BACK", "set:c:2@BACK", "en:a@BACK", "set:c:1@BACK", "en:x@BACK",
       "#t:m,m.P,m.P.b,m.P.a,m.P.a.x"] ∧
    afterRestore restoreUnsorted [] (fun s' => (cmdO .sync cxM cxU s' (.user "BACK")).trace.reverse) =
      ["#recv:BACK", "en:a@BACK", "set:c:1@BACK", "en:x@BACK", "en:b@BACK", "set:c:2@BACK",
       "#t:m,m.P,m.P.a,m.P.a.x,m.P.b"] ∧
    (cmdO .sync cxM cxU cxS (.user "BACK")).ctx = [("c", 1)] ∧
    afterRestore restoreUnsorted [] (fun s' => (cmdO .sync cxM cxU s' (.user "BACK")).ctx) = [("c", 2)] := by decide

/-- hence, before the fix, no equivalence that includes the context survived that continuation -/
theorem prefix_resume_not_equiv_counterexample :
    afterRestore restoreUnsorted True (fun s' => ¬ St.equiv cxM (cmdO .sync cxM cxU cxS (.user "BACK"))
      (cmdO .sync cxM cxU s' (.user "BACK"))) := by
  have h2 : afterRestore restoreUnsorted [] (fun s' => (cmdO .sync cxM cxU s' (.user "BACK")).ctx) = [("c", 2)] := by
    decide
  have h1 : (cmdO .sync cxM cxU cxS (.user "BACK")).ctx = [("c", 1)] := by decide
  unfold afterRestore at h2 ⊢
  split
  · rename_i s' hs'
    rw [hs'] at h2
    simp only at h2
    intro he
    have := he.ctx
    rw [h1, h2] at this
    revert this; decide
  · trivial

/-- **with the fix** the same witness agrees: same log in the same order, same context, both engines -/
theorem fix_restores_order_example :
    afterRestore restore [] (fun s' => (cmdO .sync cxM cxU s' (.user "BACK")).trace.reverse) =
      (cmdO .sync cxM cxU cxS (.user "BACK")).trace.reverse ∧
    afterRestore restore [] (fun s' => (cmdO .sync cxM cxU s' (.user "BACK")).ctx) = [("c", 1)] ∧
    afterRestore restore [] (fun s' => (cmdO .async cxM cxU s' (.user "BACK")).ctx) = [("c", 1)] := by decide

/-- the hypotheses of the theorems hold of the example machine and cut (nothing is vacuous): the machine
    is well-formed with dot-free keys, the cut is sane, quiescent and legal -/
theorem cxWF : WF cxM.root := by
  simp [cxM, WF, WFKids, HasRealKid, mkD, SNode.kind, SNode.d]
theorem cxInitOK : InitOK cxM.root := by
  simp [cxM, InitOK, InitOKKids, mkD, truthyInit]
theorem cxMDot : MDot cxM := by
  refine ⟨by decide, fun p hp => ?_⟩
  obtain ⟨n, hn⟩ := Option.isSome_iff_exists.1 hp
  have hmem : p ∈ cxM.root.allPaths [] := by
    have := at_mem_allPaths cxM.root [] p n hn
    simpa using this
  have hall : ∀ q ∈ cxM.root.allPaths [], ∀ k ∈ q, '.' ∉ k.toList := by decide
  exact hall p hmem
theorem cxSnapOK : SnapOK cxM cxS :=
  ⟨by decide, by decide, by decide, by decide⟩
theorem cxQuiet : Quiet cxS := ⟨by decide, by decide⟩
theorem cxLegal : Legal cxM.root cxS.cfg := by
  apply legal_of_legalAt cxM.root cxWF
  · simp [cxM, cxS, LegalAt, OneKid, AllKids, ClearKids, Clear, mkD, SNode.kind, SNode.d]
    decide
  · intro q hq
    have : (cxM.root.at q).isSome = true := by
      revert q; decide
    exact Option.isSome_iff_exists.1 this
/-- `restore_snap` applied to the example cut: the snapshot is accepted, same configuration as a set -/
example : restore cxM (snap cxM cxS) = .ok (restored cxM cxS) ∧ (restored cxM cxS).cfg.Perm cxS.cfg :=
  ⟨(restore_snap cxM cxMDot cxS cxSnapOK).1, (restore_snap cxM cxMDot cxS cxSnapOK).2.1⟩
/-- the example cut is in (depth, id) order, as every recorded history is -/
example : DISorted cxM cxS.hist := by
  intro kv hkv
  have : kv = (["P"], [["P", "a"], ["P", "b"], ["P", "a", "x"]]) := by
    have h : cxS.hist = [(["P"], [["P", "a"], ["P", "b"], ["P", "a", "x"]])] := by decide
    rw [h] at hkv; simpa using hkv
  subst this
  decide

/-! ## 6. Persisted actor TREES (`actors` / `system`), any depth and width

Model `Xsm/Model/SnapshotTree.lean` (independent of the engine model: parametric in the per-interpreter payload `σ`,
i.e. in everything §1–§5 are about), lemmas `Xsm/Proofs/SnapshotTree.lean`.  `Snap σ` is a persisted snapshot
(`own`, `actors` = records `(actor id, src, child snapshot)`, `system` = systemId ↦ actor id), `Live σ` an interpreter
with its children (`kids`), its parked records (`parked` = `_pending_actor_snapshots`), its registry (`sys`) and the
pending systemIds (`pend`).  `snapTree` = `get_persisted_snapshot`, `restoreTree svc` = `from_snapshot` where
`svc key` says whether `services[key]` yields a machine — with the repairs proposed for the findings F60
(`system` entries are looked up in the whole restored tree) and F62 (a systemId that names a parked actor is carried
forward with the record); `restoreAsIs` is the code at /repo HEAD, about which only the two counterexamples at the end
are stated.  Finding F61 (watcher threads of the sync engine) is about threads, not about this data.

DOCUMENTED EXCEPTIONS, and where they are in the statements: a record whose `src` does not resolve (its service is not
registered on the restoring interpreter; or it has no `src` at all — a machine started by `invoke` on the async engine,
an in-flight service) is not rebuilt but PARKED.  `WFLive svc t` therefore asks that every live child's key resolves
and that parked records do not; `AllAvail svc s` is "no exception applies anywhere in the tree".

* `tree_restore_snap`          restore ∘ snap = id on every well-formed live hierarchy — parked records included (they
                               stay parked, verbatim, with their systemIds)
* `tree_restore_wf`            what `from_snapshot` builds from a decoded snapshot is well-formed (for ANY `svc`)
* `tree_snap_restore`          snap ∘ restore = id (re-snapshot reproduces the snapshot) when every record resolves
* `tree_cycle_fixed`, `tree_repeated_cycles`, `tree_repeated_cycles_exact`
                               any number of save/restore cycles: from the first cycle on the snapshot no longer changes,
                               whatever services are missing; with every service present it never changes at all
* `tree_registry_after_restore`, `tree_registered_iff`
                               the registry maps exactly the systemIds of the snapshot whose actor came back alive, at any
                               depth, to the recorded ids; those that name a parked actor are kept pending; the rest is dropped
* `tree_degraded_cycle`        one cycle with services missing: live records re-snapshotted, parked records VERBATIM behind
                               them, `system` = pending ++ live = a permutation of the entries that name an actor of the tree;
                               no record id lost or invented
* `tree_asis_loses_grandchild_systemid` (F60), `tree_asis_drops_systemid_of_parked_actor` (F62): the unrepaired code -/
section Trees
open XSM.SnapTree
variable {σ : Type}

/-- **restore ∘ snap = id**, all hierarchies, unbounded depth and width -/
theorem tree_restore_snap (svc : String → Bool) (t : Live σ) (h : WFLive svc t) :
    restoreTree svc (snapTree t) = t :=
  restore_snapTree svc t h

/-- `from_snapshot` builds a well-formed hierarchy from any decoded snapshot, whatever services are registered -/
theorem tree_restore_wf (svc : String → Bool) (s : Snap σ) (h : WFSnap s) : WFLive svc (restoreTree svc s) :=
  wfLive_restore svc s h

/-- **re-snapshot idempotence**: `snap (restore s) = s` when no documented exception applies -/
theorem tree_snap_restore (svc : String → Bool) (s : Snap σ) (hw : WFSnap s) (ha : AllAvail svc s) (hl : SysLive svc s) :
    snapTree (restoreTree svc s) = s :=
  snap_restoreTree svc s hw ha hl

/-- whatever is missing from `services`: the snapshot after one cycle is a fixed point of further cycles -/
theorem tree_cycle_fixed (svc : String → Bool) (s : Snap σ) (h : WFSnap s) :
    cycle svc (cycle svc s) = cycle svc s := by
  unfold cycle
  rw [restore_snapTree svc (restoreTree svc s) (wfLive_restore svc s h)]

/-- **repeated cycles**, any `services`: `n+1` cycles give what one cycle gives -/
theorem tree_repeated_cycles (svc : String → Bool) (s : Snap σ) (h : WFSnap s) (n : Nat) :
    cycles svc (n + 1) s = cycle svc s := by
  induction n with
  | zero => rfl
  | succ n ih =>
    show cycle svc (cycles svc (n + 1) s) = cycle svc s
    rw [ih]
    exact tree_cycle_fixed svc s h

/-- **repeated cycles**, every service present: nothing ever changes -/
theorem tree_repeated_cycles_exact (svc : String → Bool) (s : Snap σ) (hw : WFSnap s) (ha : AllAvail svc s)
    (hl : SysLive svc s) (n : Nat) : cycles svc n s = s := by
  induction n with
  | zero => rfl
  | succ n ih =>
    show cycle svc (cycles svc n s) = s
    rw [ih]
    exact snap_restoreTree svc s hw ha hl

/-- **the registry after a restore**: exactly the entries of the snapshot whose actor came back alive (`liveIn`: its
    record and the records of all its ancestors resolve), at any depth; the entries that name a parked actor, or an actor
    inside a parked record, are kept pending; every other entry (it names nothing in the tree) is dropped -/
theorem tree_registry_after_restore (svc : String → Bool) (s : Snap σ) :
    (restoreTree svc s).sys = s.system.filter (fun e => liveIn svc s.actors e.2) ∧
    (restoreTree svc s).pend = s.system.filter (fun e => !liveIn svc s.actors e.2 && parkedIn svc s.actors e.2) ∧
    (∀ aid, (restoreTree svc s).has aid = liveIn svc s.actors aid) ∧
    (∀ aid, (restoreTree svc s).isParked aid = parkedIn svc s.actors aid) := by
  refine ⟨sys_restoreTree svc s, pend_restoreTree svc s, fun aid => ?_, fun aid => ?_⟩
  · cases s with
    | mk own actors system => exact has_restoreV repaired svc (.mk own actors system) aid
  · cases s with
    | mk own actors system => exact isParked_restoreV repaired svc (.mk own actors system) aid

/-- a systemId is registered after the restore iff the snapshot records it for an actor that is alive again -/
theorem tree_registered_iff (svc : String → Bool) (s : Snap σ) (sid aid : String) :
    (sid, aid) ∈ (restoreTree svc s).sys ↔ (sid, aid) ∈ s.system ∧ (restoreTree svc s).has aid = true := by
  rw [(tree_registry_after_restore svc s).1, (tree_registry_after_restore svc s).2.2.1 aid, List.mem_filter]

/-- **one cycle with services missing** (the documented degraded mode): the payload is untouched; the records of the
    actors that came back are re-snapshotted, the parked records follow VERBATIM; `system` is pending ++ live, a
    permutation of the snapshot's entries that name an actor of the tree; the record ids are a permutation of the
    snapshot's: nothing is lost, nothing is invented -/
theorem tree_degraded_cycle (svc : String → Bool) (s : Snap σ) (h : WFSnap s) :
    (cycle svc s).own = s.own ∧
    (cycle svc s).actors = snapKids (restoreKids repaired svc s.actors) ++ s.actors.filter (fun r => !avail svc r.2.1) ∧
    (cycle svc s).system = (restoreTree svc s).pend ++ (restoreTree svc s).sys ∧
    (cycle svc s).system.Perm (s.system.filter (fun e => liveIn svc s.actors e.2 || parkedIn svc s.actors e.2)) ∧
    ((cycle svc s).actors.map (·.1)).Perm (s.actors.map (·.1)) := by
  obtain ⟨h1, h2, h3⟩ := cycle_parts svc s h
  refine ⟨h1, h2, h3, ?_, ?_⟩
  · rw [h3, sys_restoreTree, pend_restoreTree]
    exact filter_or_perm _ _ _
  · rw [h2, List.map_append, snapKids_ids, restoreKids_ids]
    simp only [parkedOf, ← List.map_append]
    exact (List.filter_append_perm (fun r => avail svc r.2.1) s.actors).map _

/-- witnesses: a root whose child `r:a` has a child `r:a:g` registered as `G1`; a root whose child `r:a` is `S1` -/
def exDeep : Snap Unit := .mk () [("r:a", some "k1", .mk () [("r:a:g", some "k2", .mk () [] [])] [])] [("G1", "r:a:g")]
def exFlat : Snap Unit := .mk () [("r:a", some "k1", .mk () [] [])] [("S1", "r:a")]

/-- **F60** (open): the code at HEAD looks a `system` entry up among the DIRECT children only — the grandchild is
    restored, its systemId is not, and the re-snapshot has lost the entry; the repaired lookup keeps it -/
theorem tree_asis_loses_grandchild_systemid :
    (restoreAsIs (fun _ => true) exDeep).has "r:a:g" = true ∧
    (restoreAsIs (fun _ => true) exDeep).sys = [] ∧
    (snapTree (restoreAsIs (fun _ => true) exDeep)).system = [] ∧
    (restoreTree (fun _ => true) exDeep).sys = [("G1", "r:a:g")] ∧
    (snapTree (restoreTree (fun _ => true) exDeep)).system = exDeep.system := by
  refine ⟨by decide, by decide, by decide, by decide, by decide⟩

/-- **F62** (open): with the service of `r:a` missing the code at HEAD parks the record and re-emits it verbatim, but
    drops the systemId that names it; the repaired code carries it forward -/
theorem tree_asis_drops_systemid_of_parked_actor :
    (restoreAsIs (fun _ => false) exFlat).parked.map (·.1) = ["r:a"] ∧
    (snapTree (restoreAsIs (fun _ => false) exFlat)).actors.map (·.1) = ["r:a"] ∧
    (snapTree (restoreAsIs (fun _ => false) exFlat)).system = [] ∧
    (snapTree (restoreTree (fun _ => false) exFlat)).system = [("S1", "r:a")] := by
  refine ⟨by decide, by decide, by decide, by decide⟩

/-- the hypotheses are satisfiable (nothing is vacuous): the witness snapshot is well-formed, every record resolves, every
    `system` entry names an actor that comes back; hence what `from_snapshot` builds from it is a well-formed hierarchy -/
theorem tree_hypotheses_hold_of_example :
    WFSnap exDeep ∧ AllAvail (fun _ => true) exDeep ∧ SysLive (fun _ => true) exDeep ∧
    WFLive (fun _ => true) (restoreTree (fun _ => true) exDeep) ∧ WFLive (fun _ => false) (restoreTree (fun _ => false) exDeep) := by
  have hw : WFSnap exDeep := by
    simp [exDeep, WFSnap, WFRecs]
  refine ⟨hw, ?_, ?_, tree_restore_wf _ _ hw, tree_restore_wf _ _ hw⟩
  · simp [exDeep, AllAvail, AllAvailRecs, avail]
  · simp [exDeep, SysLive, SysLiveRecs, liveIn, liveInSnap, avail]

end Trees

end XSM.C12
