import Xsm.Proofs.Fifo
import Xsm.Proofs.SyncFlag
/-!
# C04 — run-to-completion and lossless, ordered event processing

"Every event accepted by send()/send_events() while the interpreter is running is processed exactly
once, events from one sender are processed in the order they were sent, and each event is processed to a
stable configuration - including all eventless (always) follow-ups - before the next one starts, never
interleaved with it. Events that actions raise or send to their own machine during processing (including
from entry actions during start) are handled after the current event completes rather than
re-entrantly, and no volume or timing of external sends - from tasks, timer threads or actors - causes
an event to be lost, duplicated or processed concurrently with another."

Statements about the executable model: the queue discipline of `Xsm/Model/Engine.lean` (`enqueueQ`,
`drainLoop`, `asyncDrain`, `asyncStep`, the send hooks `hooksFlagged` / `hooksAsync`) and the operations
`opSend` / `opSendMany` of `Xsm/Model/Lifecycle.lean`. "Received" is defined by the loops themselves:
`drainLog` / `asyncLog` list the events a drain dequeues and hands to `on_event_received` +
`_process_event`, following the recursion of `drainLoop` / `asyncDrain` case by case; `rtc_structure`
ties that list to the `#recv:` records of the trace the harness compares with the real engines.
Everything is for every machine, every user-code environment and every state, with no bound. (`drainLoop`
and its twins take a MODEL fuel and the loop's counter `chained` of marked dequeues; `drainFlagged` runs them
with `drainFuel` and `0`. The fuel never runs out: `C13.sync_drain_terminates`.)

PROVED (model, all inputs):
* `send_appends_at_tail`, `drain_pops_head`, `async_loop_pops_head` — the queue is FIFO at both ends;
* `send_during_processing_only_enqueues` — a send made by an action (the send hooks of both engines, in
  every phase incl. `start()`) changes the queue (and the async raise counter) and NOTHING else: it is
  never processed re-entrantly;
* `raised_after_current` — whatever a macrostep raises is appended BEHIND everything already queued;
* `rtc_structure` — what a drain writes to the trace is, per dequeued event and in dequeue order,
  `#recv:e` followed by records of e's own transitions / eventless follow-ups only: macrosteps are never
  interleaved, each event is settled before the next is dequeued (unconditional: also when the bound
  cuts, a macrostep raises, or the machine completes);
* `fifo_exactly_once_clean` (sync), `fifo_exactly_once_async_clean`, `fifo_exactly_once_queued` — when nothing cuts
  the drain short (`DrainClean` / `AsyncClean`: the bound `maxIterations` never trips, the machine
  keeps running, sync: no macrostep raises an error; these are the side conditions C13 / C10 / C07 govern)
  the events received are EXACTLY the accepted ones, in order, each once, followed by the raised events
  in raise order, and nothing is left queued;
* sync, EXTERNAL events (accepted from outside by `send` / `send_events`: queued unmarked), with NO side
  condition on the bound (repairs F10, second repair: the bound of `_process_event_queue` counts only the
  dequeues of MARKED events — those enqueued while a drain was in flight, `QEv.self` — and a cut purges
  marked entries only and goes on; the same policy as the async chain breaker):
  `sync_external_never_dropped` — external events at the head of the queue when a drain starts are the first
  events it receives, in order, none skipped, none twice; a drain that returns "running" without raising
  has received them ALL; a drain that raises (a failing macrostep aborts the sync drain) leaves the ones
  not yet received queued, in order, at the head of the queue; `external_exactly_once_sync` — for
  `_process_event_queue` itself (`drainFlagged`) and ANY queue — marked leftovers of an aborted drain in front
  of, or between, the external events included: the external events received, followed by those still
  queued, are an initial segment of the external events queued at the start, ALL of them when the
  interpreter is still "running" afterwards; `sync_cut_discards_only_raised` — the cut keeps every external
  entry, in order, and removes exactly the marked ones; `fifo_exactly_once` — a burst `send_events(es)` of
  ANY length to an idle running interpreter: every event of `es` is received exactly once, in order, when
  the call returns with the interpreter still "running" (in general a prefix of `es` is: the rest is still
  queued if the call raised, dropped by the status gate if the machine completed);
* async, EXTERNAL events, with NO side condition on the bound (repairs F30): `async_external_never_dropped`
  — an external event the run loop dequeues is always processed (`#recv:` written, macrostep run), chain
  breaker tripped or not; `external_exactly_once_async` — for every fuel, counter and machine the external
  events received, followed by those still queued when the loop returns, ARE the external events that
  were queued, in order; `fifo_exactly_once_async` — every accepted external event is received exactly
  once, in order, when `send_events` returns with the interpreter still "running" (and in general a
  prefix of them is, the rest still being queued: the machine completed or the model's fuel ran out);
* async `start()` (repairs F42): `async_start_settles_before_loop` — `start()` is the initial entry, then
  the eventless settling, with nothing dequeued in between (whatever was queued or is raised meanwhile
  stays queued, in order, behind what was there), and ONLY THEN, and only if the interpreter is still
  running, the run loop (`loop` of the interpreter object says whether the task was created);
* `send_is_sendMany_singleton`, `sync_sendMany_is_one_drain`, and by example `sendMany_differs_from_sends`:
  `send_events([a, b])` queues both and drains once, so what `a` raises runs AFTER `b`, whereas
  `send(a); send(b)` runs it before `b` (both engines at the model's quiescent observation points);
* the former counterexamples are gone: `sync_burst_over_bound_loses_events` (F10: the sync drain bound
  counted every dequeued event, so of a burst longer than `maxIterations` only `maxIterations` events were
  received and the rest discarded) is replaced by `sync_external_never_dropped` /
  `external_exactly_once_sync` / `sync_cut_discards_only_raised`, the old witness run now showing all three
  events received; the async one (F30: the chain breaker dropped the event in hand whatever its origin) by
  `async_breaker_drops_only_self_raised`, with the old witness run showing the external event received;
* `SyncFlag` (two threads executing `append; if flag: return; flag := True; drain; flag := False` at
  statement granularity): `mutual_exclusion_fails` (test-then-set: a schedule puts both threads inside
  the drain — the formal counterpart of F18), `mutual_exclusion_atomic` (with test-and-set atomic: for
  ALL schedules at most one thread is inside), and `flag_protocol_can_strand_an_event` (even then a
  schedule exists after which both sends have returned and one event is still queued, unprocessed until
  the next send).

OPEN (F70): the side condition "the bound `maxIterations` is not reached" of `fifo_exactly_once_clean` /
`fifo_exactly_once_async_clean` is about the TOTAL of a busy period, not about a chain: a `send_events` burst of
more than `maxIterations` events each of which raises ONE event reaches it, and RAISED events — never external
ones — are discarded although every causal chain has length 1. Witnesses on both engine models:
`C13.burst_of_short_chains_is_cut_sync` / `_async` (`Xsm/Properties/C13.lean`); monitor: rule
`short-chains-cut-by-burst` of `c14.c04_monitor`.

NOT exhibited by the model, VALIDATED only (harness `xsmverif/c14.py::c04_ordering`, every run): sends
that arrive while a macrostep is in flight (async producer tasks against sleeping coroutine actions) —
the model observes at quiescent points, there is no suspension inside a macrostep (the defect F42 — the
run loop processing events in the middle of the initial entry when an entry coroutine suspends — needed
one; with the loop created after the settling there is no loop to suspend into, which is what
`async_start_settles_before_loop` states; the harness runs starts with suspending entry coroutines and
pre-sent / raised events on the real engine, replay `findings/F42_async_start_runs_loop_during_entry.json`); timers,
services and actors as producers; real threads. `SyncFlag` interleaves at Python-STATEMENT granularity:
byte-code-level preemption and the OS scheduler are not exhibited. Record shapes: a user action NAMED
`#recv:…` would write records that look like receive records; `rtc_structure` speaks about the position
of records, the harness uses generated action names.
-/
namespace XSM.C04
open XSM XSM.Done

/-! ## 1. the queue is FIFO at both ends -/

/-- `send` / `send_events` while running: the events are appended at the TAIL, in the order given -/
theorem send_appends_at_tail (es : List Ev) (s : St) :
    (pushAll es s).queue = s.queue ++ es.map (fun e => (⟨e, false⟩ : QEv)) := rfl

theorem sync_sendMany_is_one_drain (m : Machine) (u : UEnv) (es : List Ev) (l : LSt) (h : l.st.status = "running") :
    opSendMany .sync m u es l =
      { l with st := drainLoop m u (drainFuel m (pushAll es l.st)) 0 (pushAll es l.st) } := by
  have hg : ¬ refuses (sendGate .sync) l.st.status = true := by
    intro hh; exact (syncSendGate_spec _).1 hh h
  unfold opSendMany
  rw [if_neg hg]
  rfl

theorem async_sendMany_is_enqueue_then_loop (m : Machine) (u : UEnv) (es : List Ev) (l : LSt)
    (h : l.st.status = "running") (hl : l.loop = true) :
    opSendMany .async m u es l = { l with st := asyncDrain m u (asyncFuel m) (pushAll es l.st) } := by
  have hg : ¬ refuses (sendGate .async) l.st.status = true := by
    intro hh; have := (asyncSendGate_spec _).1 hh; rw [h] at this; revert this; decide
  unfold opSendMany
  rw [if_neg hg]
  have : (pushAll es l.st).status = "running" := h
  simp [lsettle, hl, this]

/-- `send(e)` IS `send_events([e])` -/
theorem send_is_sendMany_singleton (fl : Flavor) (m : Machine) (u : UEnv) (e : Ev) (l : LSt) :
    opSend fl m u e l = opSendMany fl m u [e] l := rfl

/-- the operations of this file and the engine's own `send` (what C01 … C11 are stated about) agree -/
theorem opSend_sync_is_engine_send (m : Machine) (u : UEnv) (e : Ev) (l : LSt) :
    (opSend .sync m u e l).st = syncSend m u e l.st := by
  unfold opSend opSendMany syncSend sndUnflagged
  by_cases h : l.st.status = "running"
  · have hg : ¬ refuses (sendGate .sync) l.st.status = true := fun hh => (syncSendGate_spec _).1 hh h
    rw [if_neg hg, if_pos h]; rfl
  · have hg : refuses (sendGate .sync) l.st.status = true := (syncSendGate_spec _).2 h
    rw [if_pos hg, if_neg h]

/-- the sync drain dequeues the HEAD (unless it is a marked event that trips the runaway bound, §5), runs ONE
    macrostep (`syncMacro`: `_process_event` then `_process_transient_transitions`) on the rest, and only then
    looks at the queue again; the counter `chained` goes up iff the head was marked -/
theorem drain_pops_head (m : Machine) (u : UEnv) (fuel c : Nat) (s : St) (q : QEv) (rest : List QEv)
    (hq : s.queue = q :: rest) (hrun : s.status = "running") (ht : syncTrips m c q = false) :
    drainLoop m u (fuel + 1) c s =
      (if (syncMacro m u q.ev { s with queue := rest }).err.isSome = true then syncMacro m u q.ev { s with queue := rest }
       else drainLoop m u fuel (chainedNext c q) (syncMacro m u q.ev { s with queue := rest })) ∧
    drainLog m u (fuel + 1) c s =
      q.ev :: (if (syncMacro m u q.ev { s with queue := rest }).err.isSome = true then []
               else drainLog m u fuel (chainedNext c q) (syncMacro m u q.ev { s with queue := rest })) :=
  ⟨drainLoop_cons m u fuel c s q rest hq hrun ht, drainLog_cons m u fuel c s q rest hq hrun ht⟩

/-- the async run loop likewise: one `asyncStep` (process + settle) per dequeued event -/
theorem async_loop_pops_head (m : Machine) (u : UEnv) (fuel : Nat) (s : St) (q : QEv) (rest : List QEv)
    (hq : s.queue = q :: rest) (hrun : s.status = "running") :
    asyncDrain m u (fuel + 1) s = asyncDrain m u fuel (asyncStep m u q { s with queue := rest }) :=
  asyncDrain_cons m u fuel s q rest hq hrun

/-! ## 2. sends made during processing -/

/-- *"handled after the current event completes rather than re-entrantly"*: a send made by an action
    while an event is processed (sync: `_is_processing` is set — also during `start()`; async: `raise`
    and `done.state.*` go through `Queue.put`) ONLY enqueues — configuration, history, context, trace,
    status, error flag are untouched, nothing is processed -/
theorem send_during_processing_only_enqueues (u : UEnv) (m : Machine) (e : Ev) (s : St) :
    -- sync, every phase (start included): the queued entry is MARKED (`_raised_in_drain`)
    (hooksFlagged u m).sndRaise e s = (if s.status = "running" then { s with queue := s.queue ++ [⟨e, true⟩] } else s) ∧
    (hooksFlagged u m).snd e s = (hooksFlagged u m).sndRaise e s ∧
    -- async, inside the run loop: also counts towards the chain breaker and is marked self-raised
    (hooksAsync u m).sndRaise e s =
      (if s.status = "running" then { s with raiseDepth := s.raiseDepth + 1, queue := s.queue ++ [⟨e, true⟩] }
       else { s with raiseDepth := s.raiseDepth + 1 }) ∧
    (hooksAsync u m).snd e s = (hooksAsync u m).sndRaise e s ∧
    -- async, during `start()`: no loop yet, nothing is counted or marked
    (hooksAsyncStart u m).sndRaise e s = (if s.status = "running" then { s with queue := s.queue ++ [⟨e, false⟩] } else s) ∧
    (hooksAsyncStart u m).snd e s = (hooksAsyncStart u m).sndRaise e s :=
  ⟨rfl, rfl, rfl, rfl, rfl, rfl⟩

/-- *"Events that actions raise … are handled after the current event"*: whatever the macrostep of `e`
    raises (any number of `raise`s, `done.state.*` events, from transition, exit and entry actions and
    from the eventless follow-ups) is appended BEHIND everything that was already queued -/
theorem raised_after_current (m : Machine) (u : UEnv) (e : Ev) (q : QEv) (s : St) :
    (syncMacro m u e s).queue = s.queue ++ raisedBy m u e s ∧
    (¬ s.raiseDepth > m.maxIterations → (asyncStep m u q s).queue = s.queue ++ asyncRaisedBy m u q s) :=
  ⟨syncMacro_queue m u e s, asyncStep_queue_eq m u q s⟩

/-- … and on the sync engine every one of them is MARKED: a macrostep never adds an external entry -/
theorem raised_are_marked (m : Machine) (u : UEnv) (e : Ev) (s : St) : ∀ q ∈ raisedBy m u e s, q.self = true := by
  obtain ⟨added, hq, hm⟩ := Term.syncMacro_marked m u e s
  have : raisedBy m u e s = added := by unfold raisedBy; rw [hq]; simp
  rw [this]; exact hm

/-- *a macrostep that FAILS (the error escapes the sync call) loses nothing that was accepted*: the drain stops
    there, and what it leaves queued is exactly what was queued behind the failing event — external events and
    events raised by EARLIER, completed macrosteps of the same drain alike, in order — followed by what the failing
    macrostep itself had raised before it failed. The next `send()` drains them first. -/
theorem failed_macrostep_keeps_the_rest_queued (m : Machine) (u : UEnv) (fuel c : Nat) (s : St) (q : QEv) (rest : List QEv)
    (hq : s.queue = q :: rest) (hrun : s.status = "running") (ht : syncTrips m c q = false)
    (hfail : (syncMacro m u q.ev { s with queue := rest }).err.isSome = true) :
    drainLoop m u (fuel + 1) c s = syncMacro m u q.ev { s with queue := rest } ∧
    (drainLoop m u (fuel + 1) c s).queue = rest ++ raisedBy m u q.ev { s with queue := rest } := by
  have h := (drain_pops_head m u fuel c s q rest hq hrun ht).1
  rw [if_pos hfail] at h
  exact ⟨h, by rw [h]; exact (raised_after_current m u q.ev q { s with queue := rest }).1⟩

/-! ## 3. run to completion: what a drain writes -/

/-- **a drain's contribution to the trace is the concatenation, per dequeued event and in dequeue order,
    of `#recv:e` followed by the records of e's own macrostep** — records of transitions taken for `e`
    (`TransRec e.type`) or of eventless follow-ups (`TransRec ""`), nothing else; and the dequeued events
    are exactly `drainLog`. Unconditional. -/
theorem rtc_structure (m : Machine) (u : UEnv) (fuel c : Nat) (s : St) :
    (drainLoop m u fuel c s).chron = s.chron ++ (drainSegs m u fuel c s).flatMap segRecords ∧
    (drainSegs m u fuel c s).map (·.1) = drainLog m u fuel c s ∧
    (∀ p ∈ drainSegs m u fuel c s, ∀ r ∈ p.2, TransRec p.1.type r ∨ TransRec "" r) :=
  ⟨drain_chron m u fuel c s, drainSegs_events m u fuel c s, drainSegs_records m u fuel c s⟩

/-- one macrostep in the trace: its `#recv` record first, then only its own records -/
theorem macrostep_writes (m : Machine) (u : UEnv) (e : Ev) (s : St) :
    (syncMacro m u e s).chron = s.chron ++ ("#recv:" ++ e.type) :: macroRecords m u e s ∧
    ∀ r ∈ macroRecords m u e s, TransRec e.type r ∨ TransRec "" r :=
  ⟨syncMacro_chron m u e s, macroRecords_spec m u e s⟩

/-! ## 4. lossless, ordered, exactly once -/

theorem drain_clean_queue_nil (m : Machine) (u : UEnv) (fuel c : Nat) (s : St) (h : DrainClean m u fuel c s) :
    (drainLoop m u fuel c s).queue = [] := (drainClean_not_cut m u fuel c s h).2

/-- **FIFO, exactly once, general form** (sync): whatever is queued when a drain starts — events accepted
    by this call and, after a call that raised, events accepted or raised earlier — is received in queue
    order, each once, then the raised events in raise order; nothing is left -/
theorem fifo_exactly_once_queued (m : Machine) (u : UEnv) (fuel c : Nat) (s : St) (h : DrainClean m u fuel c s) :
    drainLog m u fuel c s = s.queue.map (·.ev) ++ drainRaised m u fuel c s ∧
    (drainLoop m u fuel c s).queue = [] :=
  ⟨drain_fifo m u fuel c s h, drain_clean_queue_nil m u fuel c s h⟩

/-- the bound of one `_process_event_queue()` counts the dequeues of MARKED events only: an EXTERNAL event at
    the head never trips it and leaves the counter `chained` as it is — however large the counter, however
    many events were received before (`send()` / `send_events()` enqueue external events unmarked:
    `send_appends_at_tail`) -/
theorem sync_bound_counts_only_marked (m : Machine) (u : UEnv) (s : St) (c : Nat) (q : QEv) (hq : q.self = false) :
    drainFlagged m u s = drainLoop m u (drainFuel m s) 0 s ∧
    syncTrips m c q = false ∧ chainedNext c q = c :=
  ⟨rfl, Term.syncTrips_ext m c hq, Term.chainedNext_ext c hq⟩

/-- **FIFO, exactly once, everything** (sync `send_events(es)` / `send(e)` on an idle running interpreter,
    nothing cuts the drain short): the events received by this call are `es` — all of them, in order, each
    once — followed by what their macrosteps raised; the trace shows exactly these macrosteps, one after
    the other; nothing is left queued -/
theorem fifo_exactly_once_clean (m : Machine) (u : UEnv) (es : List Ev) (l : LSt) (hrun : l.st.status = "running")
    (hq : l.st.queue = []) (hclean : DrainClean m u (drainFuel m (pushAll es l.st)) 0 (pushAll es l.st)) :
    drainLog m u (drainFuel m (pushAll es l.st)) 0 (pushAll es l.st) =
      es ++ drainRaised m u (drainFuel m (pushAll es l.st)) 0 (pushAll es l.st) ∧
    (opSendMany .sync m u es l).st.chron =
      l.st.chron ++ (drainSegs m u (drainFuel m (pushAll es l.st)) 0 (pushAll es l.st)).flatMap segRecords ∧
    (drainSegs m u (drainFuel m (pushAll es l.st)) 0 (pushAll es l.st)).map (·.1) =
      es ++ drainRaised m u (drainFuel m (pushAll es l.st)) 0 (pushAll es l.st) ∧
    (opSendMany .sync m u es l).st.queue = [] := by
  have hlog := drain_fifo m u _ _ _ hclean
  have hqq : (pushAll es l.st).queue.map (·.ev) = es := by
    simp [pushAll, hq, List.map_map, Function.comp_def]
  rw [hqq] at hlog
  rw [sync_sendMany_is_one_drain m u es l hrun]
  refine ⟨hlog, ?_, ?_, drain_clean_queue_nil m u _ _ _ hclean⟩
  · exact drain_chron m u _ _ _
  · rw [drainSegs_events]; exact hlog

/-- **external events at the head of the queue when a sync drain starts are never dropped by the bound**
    (repairs F10; the sync counterpart of `async_external_never_dropped`). `init` — a prefix of the queue
    consisting of EXTERNAL events (what `send` / `send_events` accepted: unmarked) —, `more` whatever is queued
    behind, and a model fuel that covers `init`. Then
    1. the first events the drain receives (hands to `on_event_received` / `_process_event`, `drainLog`) are
       the events of `init`, in queue order, none skipped, none twice — as many as it receives at all;
    2. if the drain returns with the interpreter still "running" and raised nothing, it received ALL of `init`;
    3. if the drain raised (a macrostep failed: the sync engine aborts the drain and re-raises), the events
       of `init` not yet received are still queued, in order, at the head of the queue — the next `send`
       processes them first.
    The one remaining way out is the status gate: the machine completed or was stopped (C10), and the drain
    drops what is queued exactly as `send()` drops later events. No hypothesis on the machine, on user code,
    on how many events there are, on the counter `c`, or on what the events raise. (For external events that
    are NOT at the head — marked leftovers of an aborted drain queued in front of them — see
    `external_exactly_once_sync`.) -/
theorem sync_external_never_dropped (m : Machine) (u : UEnv) (init more : List QEv) (fuel c : Nat) (s : St)
    (hq : s.queue = init ++ more) (hext : ∀ q ∈ init, q.self = false) (hB : init.length ≤ fuel) :
    (drainLog m u fuel c s).take init.length = (init.map (·.ev)).take (drainLog m u fuel c s).length ∧
    ((drainLoop m u fuel c s).err = none → (drainLoop m u fuel c s).status = "running" →
      (drainLog m u fuel c s).take init.length = init.map (·.ev)) ∧
    (s.status = "running" → (drainLoop m u fuel c s).err ≠ none →
      init.drop (drainLog m u fuel c s).length <+: (drainLoop m u fuel c s).queue) := by
  obtain ⟨h1, h2, h3⟩ := drain_initial m u init fuel c s more hq hext hB
  refine ⟨h1, fun he hr => ?_, h3⟩
  rw [h1, List.take_of_length_le]
  rw [List.length_map]; exact h2 he hr

/-- **external events: exactly once, in order — for every machine, user code and queue** (the sync
    counterpart of `external_exactly_once_async`), for the drain the code runs (`drainFlagged`:
    `_process_event_queue()` with `chained = 0`) from ANY state — in particular with MARKED leftovers of a
    drain that raised queued in front of, or between, the external events. `drainLogQ`: the entries received,
    with their mark; `Term.extOf`: the external ones among them, in order.
    1. the external events received, followed by the external events still queued when the drain returns,
       are an initial segment of the external events that were queued when it started: none skipped, none
       duplicated, none reordered — by the bound, by a cut, by a failing macrostep;
    2. they are ALL of them if the interpreter is still "running" then (otherwise the machine completed or was
       stopped — the status gate dropped the rest, C10);
    3. if moreover the drain raised nothing, every external event was received and nothing is left queued. -/
theorem external_exactly_once_sync (m : Machine) (u : UEnv) (s : St) :
    (Term.extOf (drainLogQ m u (drainFuel m s) 0 s) ++ Term.extOf (drainFlagged m u s).queue <+: Term.extOf s.queue) ∧
    ((drainFlagged m u s).status = "running" →
      Term.extOf (drainLogQ m u (drainFuel m s) 0 s) ++ Term.extOf (drainFlagged m u s).queue = Term.extOf s.queue) ∧
    ((drainFlagged m u s).err = none → (drainFlagged m u s).status = "running" →
      Term.extOf (drainLogQ m u (drainFuel m s) 0 s) = Term.extOf s.queue ∧ (drainFlagged m u s).queue = []) := by
  have h1 := Term.drain_external_prefix m u (drainFuel m s) 0 s
  have h2 := Term.drain_external_split m u (drainFuel m s) 0 s (Term.drain_no_hang m u s _ (Nat.le_refl _))
  refine ⟨h1, h2, fun he hr => ?_⟩
  have hnil : (drainFlagged m u s).queue = [] := drainLoop_queue_nil m u _ _ _ he
  have := h2 hr
  have hnil' : (drainLoop m u (drainFuel m s) 0 s).queue = [] := hnil
  rw [hnil'] at this
  exact ⟨by simpa [Term.extOf] using this, hnil⟩

/-- **what a cut of the sync drain discards was enqueued while a drain was in flight** — literally: when the
    head of the queue is a marked event that trips the bound (`syncTrips`: it is the `maxIterations + 1`-st
    marked event dequeued since the counter was last at 0) the loop goes on from `syncPurge s`, in which
    every EXTERNAL entry of the queue is still queued, in order (leftovers of an aborted drain may have been
    queued in front of them: they are marked, and go), nothing marked is left, and nothing else changed;
    nothing is received in that iteration. -/
theorem sync_cut_discards_only_raised (m : Machine) (u : UEnv) (fuel c : Nat) (s : St) (q : QEv) (rest : List QEv)
    (hq : s.queue = q :: rest) (hrun : s.status = "running") (ht : syncTrips m c q = true) :
    drainLoop m u (fuel + 1) c s = drainLoop m u fuel 0 (syncPurge s) ∧
    drainLogQ m u (fuel + 1) c s = drainLogQ m u fuel 0 (syncPurge s) ∧
    (syncPurge s).queue = Term.extOf s.queue ∧
    (∀ x ∈ (syncPurge s).queue, x.self = false) ∧
    syncPurge s = { s with queue := s.queue.filter (fun x => !x.self) } ∧
    q.self = true :=
  ⟨drainLoop_trip m u fuel c s q rest hq hrun ht, Term.drainLogQ_trip m u fuel c s q rest hq hrun ht, rfl,
   Term.syncPurge_all_ext s, rfl, ((Term.syncTrips_eq_true m c q).1 ht).1⟩

/-- **FIFO, exactly once** (sync `send_events(es)` / `send(e)` on an idle running interpreter; NO hypothesis
    on the bound, on the length of `es` or on what the events raise — the sync counterpart of
    `fifo_exactly_once_async`). The events received by this call begin with events of `es`, in order, none
    skipped, none twice; if the call returns with the interpreter "running" and raised nothing they are ALL
    received — exactly `es` first, each once, in order — and nothing is left queued; if the call raised (a
    macrostep failed; C07) the events of `es` not yet received are still queued, in order, at the head.
    (Otherwise the machine completed or was stopped — C10: the status gate drops the rest.) The trace
    shows exactly the macrosteps of the received events, one after the other. -/
theorem fifo_exactly_once (m : Machine) (u : UEnv) (es : List Ev) (l : LSt) (hrun : l.st.status = "running")
    (hq : l.st.queue = []) :
    (drainLog m u (drainFuel m (pushAll es l.st)) 0 (pushAll es l.st)).take es.length =
      es.take (drainLog m u (drainFuel m (pushAll es l.st)) 0 (pushAll es l.st)).length ∧
    ((opSendMany .sync m u es l).st.err = none → (opSendMany .sync m u es l).st.status = "running" →
      (drainLog m u (drainFuel m (pushAll es l.st)) 0 (pushAll es l.st)).take es.length = es ∧
      (opSendMany .sync m u es l).st.queue = []) ∧
    ((opSendMany .sync m u es l).st.err ≠ none →
      (es.drop (drainLog m u (drainFuel m (pushAll es l.st)) 0 (pushAll es l.st)).length).map
        (fun e => (⟨e, false⟩ : QEv)) <+: (opSendMany .sync m u es l).st.queue) ∧
    (opSendMany .sync m u es l).st.chron =
      l.st.chron ++ (drainSegs m u (drainFuel m (pushAll es l.st)) 0 (pushAll es l.st)).flatMap segRecords ∧
    (drainSegs m u (drainFuel m (pushAll es l.st)) 0 (pushAll es l.st)).map (·.1) =
      drainLog m u (drainFuel m (pushAll es l.st)) 0 (pushAll es l.st) := by
  have hqq : (pushAll es l.st).queue = es.map (fun e => (⟨e, false⟩ : QEv)) := by simp [pushAll, hq]
  have hev : (pushAll es l.st).queue.map (·.ev) = es := by
    rw [hqq]; simp [List.map_map, Function.comp_def]
  have hlen : (pushAll es l.st).queue.length = es.length := by rw [hqq]; simp
  have hext : ∀ q ∈ (pushAll es l.st).queue, q.self = false := by
    intro q hmem; rw [hqq] at hmem
    obtain ⟨e, _, rfl⟩ := List.mem_map.1 hmem
    rfl
  have hB : (pushAll es l.st).queue.length ≤ drainFuel m (pushAll es l.st) := by
    have hc : Term.cntExt (pushAll es l.st).queue = (pushAll es l.st).queue.length := (Term.cntSelf_all_false hext).2
    unfold drainFuel
    rw [Term.extCount_eq_cntExt, hc, Nat.add_mul, Nat.one_mul, Nat.mul_add]
    omega
  obtain ⟨h1, h2, h3⟩ := sync_external_never_dropped m u (pushAll es l.st).queue [] (drainFuel m (pushAll es l.st)) 0
    (pushAll es l.st) (by simp) hext hB
  rw [hev, hlen] at h1 h2
  rw [sync_sendMany_is_one_drain m u es l hrun]
  refine ⟨h1, fun he hr => ⟨h2 he hr, drainLoop_queue_nil m u _ _ _ he⟩, fun he => ?_, drain_chron m u _ _ _,
    drainSegs_events m u _ _ _⟩
  have := h3 hrun he
  rw [hqq, ← List.map_drop] at this
  exact this

/-- **FIFO, exactly once, everything** (async, interpreter with its run loop attached, nothing cuts the
    loop short): the accepted events, then the raised ones, each once, in order -/
theorem fifo_exactly_once_async_clean (m : Machine) (u : UEnv) (es : List Ev) (l : LSt) (hrun : l.st.status = "running")
    (hl : l.loop = true) (hq : l.st.queue = []) (hclean : AsyncClean m u (asyncFuel m) (pushAll es l.st)) :
    asyncLog m u (asyncFuel m) (pushAll es l.st) = es ++ asyncRaised m u (asyncFuel m) (pushAll es l.st) ∧
    (opSendMany .async m u es l).st.queue = [] := by
  obtain ⟨h1, h2⟩ := async_fifo m u _ _ hclean
  have hqq : (pushAll es l.st).queue.map (·.ev) = es := by
    simp [pushAll, hq, List.map_map, Function.comp_def]
  rw [hqq] at h1
  rw [async_sendMany_is_enqueue_then_loop m u es l hrun hl]
  exact ⟨h1, h2⟩

/-- **an EXTERNAL event that is dequeued is always processed** — chain breaker tripped or not. The
    iteration that takes the external entry `q` off the queue hands it to `on_event_received` /
    `_process_event`: it appears in the log of received events, the state after the iteration is
    `asyncProcess` of it (run from the purged state if the breaker fired, `asyncBase`), and the trace
    shows `#recv:q` followed by the records of q's own macrostep only. -/
theorem async_external_never_dropped (m : Machine) (u : UEnv) (fuel : Nat) (s : St) (q : QEv) (rest : List QEv)
    (hq : s.queue = q :: rest) (hrun : s.status = "running") (hext : q.self = false) :
    asyncLogQ m u (fuel + 1) s = q :: asyncLogQ m u fuel (asyncStep m u q { s with queue := rest }) ∧
    asyncStep m u q { s with queue := rest } = asyncProcess m u q.ev (Term.asyncBase m { s with queue := rest }) ∧
    (asyncStep m u q { s with queue := rest }).chron =
      s.chron ++ ("#recv:" ++ q.ev.type) :: asyncMacroRecords m u q.ev (Term.asyncBase m { s with queue := rest }) ∧
    (∀ r ∈ asyncMacroRecords m u q.ev (Term.asyncBase m { s with queue := rest }),
      TransRec q.ev.type r ∨ TransRec "" r) := by
  have hstep := Term.asyncStep_external m u q { s with queue := rest } hext
  refine ⟨?_, hstep, ?_, (asyncProcess_chron m u q.ev _).2⟩
  · rw [asyncLogQ_cons m u fuel s q rest hq hrun, if_pos (asyncReceives_external m q s hext)]; rfl
  · rw [hstep, (asyncProcess_chron m u q.ev _).1, asyncBase_chron]; rfl

/-- **external events: exactly once, in order — for every fuel, counter, machine and user code.** The
    external events the run loop received, followed by the external events still queued when it returns,
    are exactly the external events that were queued when it started. Nothing on the way — the chain
    breaker, failing macrosteps, the machine completing — loses, duplicates or reorders one. -/
theorem external_exactly_once_async (m : Machine) (u : UEnv) (fuel : Nat) (s : St) :
    Term.extOf (asyncLogQ m u fuel s) ++ Term.extOf (asyncDrain m u fuel s).queue = Term.extOf s.queue :=
  async_external_split m u fuel s

/-- **FIFO, exactly once** (async, interpreter with its run loop attached; NO hypothesis on the bound or
    on what the events raise). Of a burst `es` accepted by an idle running interpreter: the external
    events received by the loop are a prefix of `es`, the rest is still queued, in order; and if the call
    leaves the interpreter "running" they are ALL received — exactly `es`, each once, in order — and
    nothing is left queued. (Not "running" afterwards means: the machine completed — C10 —, or the
    MODEL's fuel ran out, status "HANG" — C13 `asyncDrain_no_hang` bounds that.) -/
theorem fifo_exactly_once_async (m : Machine) (u : UEnv) (es : List Ev) (l : LSt) (hrun : l.st.status = "running")
    (hl : l.loop = true) (hq : l.st.queue = []) :
    ((Term.extOf (asyncLogQ m u (asyncFuel m) (pushAll es l.st))).map (·.ev) ++
        (Term.extOf (opSendMany .async m u es l).st.queue).map (·.ev) = es) ∧
    ((opSendMany .async m u es l).st.status = "running" →
      (Term.extOf (asyncLogQ m u (asyncFuel m) (pushAll es l.st))).map (·.ev) = es ∧
      (opSendMany .async m u es l).st.queue = []) := by
  have hsplit := async_external_split m u (asyncFuel m) (pushAll es l.st)
  have hqq : (Term.extOf (pushAll es l.st).queue).map (·.ev) = es := by
    simp [pushAll, hq, Term.extOf, List.filter_map, List.map_map, Function.comp_def]
  rw [async_sendMany_is_enqueue_then_loop m u es l hrun hl]
  have h1 : (Term.extOf (asyncLogQ m u (asyncFuel m) (pushAll es l.st))).map (·.ev) ++
      (Term.extOf (asyncDrain m u (asyncFuel m) (pushAll es l.st)).queue).map (·.ev) = es := by
    rw [← List.map_append, hsplit, hqq]
  refine ⟨h1, fun hr => ?_⟩
  have hnil := Term.asyncDrain_running_queue_nil m u _ _ hr
  rw [hnil] at h1
  exact ⟨by simpa [Term.extOf] using h1, hnil⟩

/-! ## 4b. async `start()`: entry and settling first, the run loop only afterwards (repairs F42) -/

/-- **`start()` performs the initial entry and the eventless settling with no event dequeued in between;
    the run loop exists only afterwards.** For an uninitialized async interpreter: the state after
    `start()` is `asyncStartSettle` (entry, then settling — a failure stops the interpreter) and, only if
    that left it "running", the run loop applied to it; the loop task is attached exactly in that case;
    and through entry and settling the queue is only appended to — what was queued before (events sent
    before `start()`) is still there, in order, in front of whatever entry actions raised. -/
theorem async_start_settles_before_loop (m : Machine) (u : UEnv) (l : LSt) (h0 : l.st.status = "uninitialized")
    (hl : l.loop = false) :
    (opStart .async m u l).st =
      (if (asyncStartSettle m u l.st).status = "running" then
         asyncDrain m u (asyncFuel m) (asyncStartSettle m u l.st)
       else asyncStartSettle m u l.st) ∧
    ((opStart .async m u l).loop = true ↔ (asyncStartSettle m u l.st).status = "running") ∧
    (∃ added, (asyncStartSettle m u l.st).queue = l.st.queue ++ added ∧ ∀ q ∈ added, q.self = false) := by
  have hres : asyncResumes l = false := by simp [asyncResumes, h0]
  have hraises : startRaises l = false := by simp [startRaises, h0]
  have hst : opStart .async m u l = { st := asyncStart m u l.st, loop := asyncLoopCreated m u l.st } := by
    simp [opStart, hres, hraises, h0]
  rw [hst]
  refine ⟨rfl, by simp [asyncLoopCreated], ?_⟩
  have hg := Term.asyncStartSettled_grow m u l.st
  have he : Term.Grow false { l.st with status := "running", ctx := m.ctx0 } (asyncStartEntered m u l.st) := by
    unfold asyncStartEntered
    simp only
    generalize startEntries m = se
    obtain ⟨es, e⟩ := se
    simp only
    have h1 := Term.foldl_grow (b := false)
      (enterOne (hooksAsyncStart u m) .async m (some "___xstate_statemachine_init___"))
      (Term.enterOne_grow _ (Term.hooksAsyncStart_grow u m) .async m _) es { l.st with status := "running", ctx := m.ctx0 }
    split
    · exact h1.trans (Term.fail_grow _ _ _)
    · exact h1
  unfold asyncStartSettle
  split
  · obtain ⟨⟨a, ha, hf, _⟩, _⟩ := he; exact ⟨a, ha, hf⟩
  · split
    · obtain ⟨⟨a, ha, hf, _⟩, _⟩ := hg; exact ⟨a, ha, hf⟩
    · obtain ⟨⟨a, ha, hf, _⟩, _⟩ := hg; exact ⟨a, ha, hf⟩

/-! ## 5. what the bounds do to events: neither loses an event sent from outside (F10, F30: both repaired) -/

/-- **what the async chain breaker does** (after the repair of F30; the former counterexample
    `async_breaker_drops_any_event` no longer holds): when it trips (`_raise_depth > maxIterations`) the
    self-raised events still queued are purged and the counter reset; the event just dequeued is dropped
    unprocessed ONLY IF it is itself self-raised — an external one is processed, from the purged state. -/
theorem async_breaker_drops_only_self_raised (m : Machine) (u : UEnv) (fuel : Nat) (s : St) (q : QEv) (rest : List QEv)
    (hq : s.queue = q :: rest) (hrun : s.status = "running") (hd : s.raiseDepth > m.maxIterations) :
    (q.self = true →
      asyncLogQ m u (fuel + 1) s =
        asyncLogQ m u fuel { s with raiseDepth := 0, queue := rest.filter (fun x => !x.self) } ∧
      asyncDrain m u (fuel + 1) s =
        asyncDrain m u fuel { s with raiseDepth := 0, queue := rest.filter (fun x => !x.self) }) ∧
    (q.self = false →
      asyncLogQ m u (fuel + 1) s = q ::
        asyncLogQ m u fuel (asyncProcess m u q.ev { s with raiseDepth := 0, queue := rest.filter (fun x => !x.self) }) ∧
      asyncDrain m u (fuel + 1) s =
        asyncDrain m u fuel (asyncProcess m u q.ev { s with raiseDepth := 0, queue := rest.filter (fun x => !x.self) })) := by
  have hd' : m.maxIterations < ({ s with queue := rest } : St).raiseDepth := hd
  rw [asyncLogQ_cons m u fuel s q rest hq hrun, asyncDrain_cons m u fuel s q rest hq hrun]
  constructor
  · intro hself
    have hr : ¬ asyncReceives m q s = true := by
      rw [asyncReceives_eq_true]; exact fun h => h ⟨hd, hself⟩
    rw [if_neg hr, Term.asyncStep_above_bound_self m u q _ hd' hself]
    exact ⟨rfl, rfl⟩
  · intro hext
    rw [if_pos (asyncReceives_external m q s hext), Term.asyncStep_above_bound_ext m u q _ hd' hext]
    exact ⟨rfl, rfl⟩

namespace Ex
open XSM.Done.Ex

/-- user code for the examples: guards true, built-in names not overridden, every other action a marker -/
def exB : UEnv := { g := fun _ _ _ => .t, a := fun n c _ => if (canonicalBuiltin n).isSome then .missing else .ok c }

def raiseR : ActionRef := { type := "xstate.raise", params := some (.obj [("event", .str "R")]) }
def tr (tid : Nat) (ev : String) (acts : List ActionRef) : Trans :=
  { tid, event := ev, target := none, guard := none, actions := acts, reenter := false, forbidden := false }

/-- `{"id":"m","initial":"a","maxIterations":2,"states":{"a":{"on":{
      "A":{"actions":["tA", raise R]}, "B":{"actions":["tB"]}, "R":{"actions":["tR"]}}}}}` -/
def burstM : Machine :=
  { id := "m", maxIterations := 2, customIds := [],
    root := .mk (mkD .compound (some "a")) [
      ("a", .mk (mkD .atomic none none []
        [("A", [tr 0 "A" [{ type := "tA" }, raiseR]]), ("B", [tr 1 "B" [{ type := "tB" }]]),
         ("R", [tr 2 "R" [{ type := "tR" }]])]) [])] }
/-- the same machine with room: `maxIterations` 10 -/
def roomyM : Machine := { burstM with maxIterations := 10 }

def started (fl : Flavor) (m : Machine) : LSt := opStart fl m exB (LSt.new m)
/-- the trace of `l`, oldest record first -/
def tr0 (l : LSt) : List String := l.st.trace.reverse
end Ex
open Ex

/-- the former F10 witness (replay `findings/F10_sync_burst_over_bound.json`), REPAIRED outcome: three `B`s,
    bound 2 — all three are received (before the repair: two, the third was gone); the interpreter is
    running with an empty queue and no error. External events do not count towards the bound; the MODEL's fuel
    for this drain is (3 + 1) * (2 + 2). -/
example : (tr0 (opSendMany .sync burstM exB [.user "B", .user "B", .user "B"] (started .sync burstM)),
     (opSendMany .sync burstM exB [.user "B", .user "B", .user "B"] (started .sync burstM)).st.queue.length,
     (opSendMany .sync burstM exB [.user "B", .user "B", .user "B"] (started .sync burstM)).st.status,
     (opSendMany .sync burstM exB [.user "B", .user "B", .user "B"] (started .sync burstM)).st.err.isSome) =
      (["#recv:B", "tB@B", "#t:m,m.a", "#recv:B", "tB@B", "#t:m,m.a", "#recv:B", "tB@B", "#t:m,m.a"],
       0, "running", false) := by decide
example : drainFuel burstM (pushAll [.user "B", .user "B", .user "B"] (started .sync burstM).st) = 16 := by decide
/-- … `fifo_exactly_once` at work on it: all three accepted events received, in order, nothing cut -/
example : (drainLog burstM exB (drainFuel burstM (pushAll [.user "B", .user "B", .user "B"] (started .sync burstM).st)) 0
      (pushAll [.user "B", .user "B", .user "B"] (started .sync burstM).st),
    Term.drainCut burstM exB (drainFuel burstM (pushAll [.user "B", .user "B", .user "B"] (started .sync burstM).st)) 0
      (pushAll [.user "B", .user "B", .user "B"] (started .sync burstM).st)) =
    ([.user "B", .user "B", .user "B"], false) := by decide
/-- … and a burst that IS cut: `A A A`, bound 2 — each `A` raises one `R`, three MARKED events enqueued while
    draining, more than the bound: after `A A A R R` the third `R` is the third marked event dequeued, 3 > 2:
    the cut. All three accepted events were received, in order; what is discarded is the third `R`, enqueued
    during the drain (`external_exactly_once_sync`, `sync_cut_discards_only_raised`) -/
example : (drainLog burstM exB (drainFuel burstM (pushAll [.user "A", .user "A", .user "A"] (started .sync burstM).st)) 0
      (pushAll [.user "A", .user "A", .user "A"] (started .sync burstM).st),
    Term.drainCut burstM exB (drainFuel burstM (pushAll [.user "A", .user "A", .user "A"] (started .sync burstM).st)) 0
      (pushAll [.user "A", .user "A", .user "A"] (started .sync burstM).st),
    (drainRaised burstM exB (drainFuel burstM (pushAll [.user "A", .user "A", .user "A"] (started .sync burstM).st)) 0
      (pushAll [.user "A", .user "A", .user "A"] (started .sync burstM).st)).length) =
    ([.user "A", .user "A", .user "A", .user "R", .user "R"], true, 3) := by decide

/-- the former F30 witness (replay `findings/F30_async_chain_breaker_drops_external.json`), REPAIRED outcome:
    `A A A B`, bound 2 — each `A` raises one harmless `R`; the depth counter is not reset while an `R` is
    queued, so it stands at 3 when the EXTERNAL `B` is dequeued: the breaker fires, the three `R`s are
    purged — and `B` is received and processed (`tB` runs); before the repair `B` vanished with them -/
example : (tr0 (opSendMany .async burstM exB [.user "A", .user "A", .user "A", .user "B"] (started .async burstM)),
     (opSendMany .async burstM exB [.user "A", .user "A", .user "A", .user "B"] (started .async burstM)).st.queue.length,
     (opSendMany .async burstM exB [.user "A", .user "A", .user "A", .user "B"] (started .async burstM)).st.status) =
      (["#recv:A", "tA@A", "#t:m,m.a", "#recv:A", "tA@A", "#t:m,m.a", "#recv:A", "tA@A", "#t:m,m.a",
        "#recv:B", "tB@B", "#t:m,m.a"], 0, "running") := by
  decide
/-- … `fifo_exactly_once_async` at work on it: all four external events received, in order -/
example : (Term.extOf (asyncLogQ burstM exB (asyncFuel burstM)
      (pushAll [.user "A", .user "A", .user "A", .user "B"] (started .async burstM).st))).map (·.ev) =
    [.user "A", .user "A", .user "A", .user "B"] := by decide
/-- `start()` attached the run loop (the interpreter was still running once entry and settling were over) -/
example : (started .async burstM).loop = true := by decide

/-- … with room the same kind of burst is received completely, in order, and the raised events after it
    (`fifo_exactly_once_clean` / `fifo_exactly_once_async_clean` at work), the same in both engines … -/
example : tr0 (opSendMany .sync roomyM exB [.user "A", .user "A", .user "B"] (started .sync roomyM)) =
    ["#recv:A", "tA@A", "#t:m,m.a", "#recv:A", "tA@A", "#t:m,m.a", "#recv:B", "tB@B", "#t:m,m.a",
     "#recv:R", "tR@R", "#t:m,m.a", "#recv:R", "tR@R", "#t:m,m.a"] := by decide
example : tr0 (opSendMany .async roomyM exB [.user "A", .user "A", .user "B"] (started .async roomyM)) =
    ["#recv:A", "tA@A", "#t:m,m.a", "#recv:A", "tA@A", "#t:m,m.a", "#recv:B", "tB@B", "#t:m,m.a",
     "#recv:R", "tR@R", "#t:m,m.a", "#recv:R", "tR@R", "#t:m,m.a"] := by decide

/-- the hypotheses of `fifo_exactly_once_clean` / `fifo_exactly_once_async_clean` hold of these runs (the theorems
    are not vacuous) — also of the former F10 run —, and they fail of the cut run / the breaker run above —
    that is exactly what `DrainClean` / `AsyncClean` say (a raised `R` is discarded / the raised `R`s are
    purged, so "everything raised is received" fails; the EXTERNAL events are all received nonetheless) -/
example : DrainClean roomyM exB (drainFuel roomyM (pushAll [.user "A", .user "A", .user "B"] (started .sync roomyM).st)) 0
    (pushAll [.user "A", .user "A", .user "B"] (started .sync roomyM).st) := by decide
example : DrainClean burstM exB (drainFuel burstM (pushAll [.user "B", .user "B", .user "B"] (started .sync burstM).st)) 0
    (pushAll [.user "B", .user "B", .user "B"] (started .sync burstM).st) := by decide
example : AsyncClean roomyM exB (asyncFuel roomyM)
    (pushAll [.user "A", .user "A", .user "B"] (started .async roomyM).st) := by decide
example : ¬ DrainClean burstM exB (drainFuel burstM (pushAll [.user "A", .user "A", .user "A"] (started .sync burstM).st)) 0
    (pushAll [.user "A", .user "A", .user "A"] (started .sync burstM).st) := by decide
example : ¬ AsyncClean burstM exB (asyncFuel burstM)
    (pushAll [.user "A", .user "A", .user "A", .user "B"] (started .async burstM).st) := by decide
example : drainLog roomyM exB (drainFuel roomyM (pushAll [.user "A", .user "A", .user "B"] (started .sync roomyM).st)) 0
      (pushAll [.user "A", .user "A", .user "B"] (started .sync roomyM).st) =
    [.user "A", .user "A", .user "B", .user "R", .user "R"] := by decide

/-- … and `send_events([A, B])` is NOT `send(A); send(B)`: the burst is queued as a whole, so the `R` that
    `A` raises waits behind `B`; sent one by one, `R` is handled before `B` is even accepted. (Unchanged by
    the repairs of F10: an ordering fact about ONE drain versus two; `roomyM` reaches no bound.) -/
theorem sendMany_differs_from_sends :
    tr0 (opSendMany .sync roomyM exB [.user "A", .user "B"] (started .sync roomyM)) =
      ["#recv:A", "tA@A", "#t:m,m.a", "#recv:B", "tB@B", "#t:m,m.a", "#recv:R", "tR@R", "#t:m,m.a"] ∧
    tr0 (opSend .sync roomyM exB (.user "B") (opSend .sync roomyM exB (.user "A") (started .sync roomyM))) =
      ["#recv:A", "tA@A", "#t:m,m.a", "#recv:R", "tR@R", "#t:m,m.a", "#recv:B", "tB@B", "#t:m,m.a"] := by decide

namespace Ex
/-- as `exB`, but the action `boom` has no implementation -/
def exF : UEnv := { g := fun _ _ _ => .t, a := fun n c _ => if n = "boom" then .missing else exB.a n c "" }
/-- `A` raises `R`; the transition of `X` runs the missing action `boom` -/
def failM : Machine :=
  { id := "m", maxIterations := 10, customIds := [],
    root := .mk (mkD .compound (some "a")) [
      ("a", .mk (mkD .atomic none none []
        [("A", [tr 0 "A" [{ type := "tA" }, raiseR]]), ("X", [tr 1 "X" [{ type := "boom" }]]),
         ("R", [tr 2 "R" [{ type := "tR" }]])]) [])] }
end Ex

/-- `failed_macrostep_keeps_the_rest_queued` at work (its hypotheses are satisfiable): `send_events([A, X])` — the
    macrostep of `A` completes and raises `R`, the macrostep of `X` fails (`ImplementationMissingError` escapes the
    call): the interpreter is still running, `R` is STILL QUEUED (marked), and the next `send(A)` (the error of the
    previous call is the caller's, the driver clears it) handles `R` first, then `A`, then the `R` that `A` raised -/
theorem failed_macrostep_example :
    let l1 := opSendMany .sync failM exF [.user "A", .user "X"] (opStart .sync failM exF (LSt.new failM))
    l1.st.err.isSome = true ∧ l1.st.status = "running" ∧ l1.st.queue.map (fun q => (q.ev.type, q.self)) = [("R", true)] ∧
    tr0 l1 = ["#recv:A", "tA@A", "#t:m,m.a", "#recv:X"] ∧
    tr0 (opSend .sync failM exF (.user "A") { l1 with st := { l1.st with err := none } }) =
      ["#recv:A", "tA@A", "#t:m,m.a", "#recv:X", "#recv:R", "tR@R", "#t:m,m.a", "#recv:A", "tA@A", "#t:m,m.a",
       "#recv:R", "tR@R", "#t:m,m.a"] := by decide

/-! ## 6. the re-entrancy flag under two threads (`XSM.SyncFlag`, statement granularity) -/

open XSM.SyncFlag in
/-- **mutual exclusion is FALSE of the protocol as written** (test, then set — two statements, no lock):
    both threads append, both see the flag clear, both set it, both are inside the drain (F18) -/
theorem mutual_exclusion_fails : ¬ ∀ sched : List Bool, Mutex (run stmt sched {}) := by
  intro h
  exact absurd (h [true, false, true, false, true, false]) (by decide)

open XSM.SyncFlag in
/-- **with test-and-set atomic, mutual exclusion holds for ALL schedules** (any length, any interleaving) -/
theorem mutual_exclusion_atomic (sched : List Bool) : Mutex (run stmtAtomic sched {}) :=
  (inv_run sched {} inv_init).2.1

open XSM.SyncFlag in
/-- even the atomic protocol can leave an accepted event unprocessed until the NEXT send: thread A finds
    the queue empty and is about to clear the flag when thread B appends, sees the flag set and returns -/
theorem flag_protocol_can_strand_an_event :
    (run stmtAtomic [true, true, true, true, true, false, false, true] {}) =
      { pcA := .done, pcB := .done, flag := false, queue := 1, processed := 1 } ∧
    (run stmt [true, true, true, true, true, true, false, false, true] {}) =
      { pcA := .done, pcB := .done, flag := false, queue := 1, processed := 1 } := by decide

end XSM.C04
