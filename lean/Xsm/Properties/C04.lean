import Xsm.Proofs.Fifo
import Xsm.Proofs.SyncFlag
/-!
# C04 — run-to-completion and lossless, ordered event processing

"Every event accepted by send()/send_events() while the interpreter is running is processed exactly
once, events from one sender are processed in the order they were sent, and each event is processed to a
stable configuration - including all eventless (always) follow-ups - before the next one starts, never
interleaved with it. Events that actions raise or send to their own machine during processing (including
from entry actions during start) are handled after the current event completes rather than
re-entrantly, and no volume or timing of external sends - from tasks, timer threads or actors - causes
an event to be lost, duplicated or processed concurrently with another."

Statements about the executable model: the queue discipline of `Xsm/Model/Engine.lean` (`enqueueQ`,
`drainLoop`, `asyncDrain`, `asyncStep`, the send hooks `hooksFlagged` / `hooksAsync`) and the operations
`opSend` / `opSendMany` of `Xsm/Model/Lifecycle.lean`. "Received" is defined by the loops themselves:
`drainLog` / `asyncLog` list the events a drain dequeues and hands to `on_event_received` +
`_process_event`, following the recursion of `drainLoop` / `asyncDrain` case by case; `rtc_structure`
ties that list to the `#recv:` records of the trace the harness compares with the real engines.
Everything is for every machine, every user-code environment and every state, with no bound.

PROVED (model, all inputs):
* `send_appends_at_tail`, `drain_pops_head`, `async_loop_pops_head` — the queue is FIFO at both ends;
* `send_during_processing_only_enqueues` — a send made by an action (the send hooks of both engines, in
  every phase incl. `start()`) changes the queue (and the async raise counter) and NOTHING else: it is
  never processed re-entrantly;
* `raised_after_current` — whatever a macrostep raises is appended BEHIND everything already queued;
* `rtc_structure` — what a drain writes to the trace is, per dequeued event and in dequeue order,
  `#recv:e` followed by records of e's own transitions / eventless follow-ups only: macrosteps are never
  interleaved, each event is settled before the next is dequeued (unconditional: also when the budget
  cuts, a macrostep raises, or the machine completes);
* `fifo_exactly_once` (sync), `fifo_exactly_once_async`, `fifo_exactly_once_queued` — when nothing cuts
  the drain short (`DrainClean` / `AsyncClean`: the bound `maxIterations` is not reached, the machine
  keeps running, sync: no macrostep raises an error; these are the side conditions C13 / C10 / C07 govern)
  the events received are EXACTLY the accepted ones, in order, each once, followed by the raised events
  in raise order, and nothing is left queued;
* `send_is_sendMany_singleton`, `sync_sendMany_is_one_drain`, and by example `sendMany_differs_from_sends`:
  `send_events([a, b])` queues both and drains once, so what `a` raises runs AFTER `b`, whereas
  `send(a); send(b)` runs it before `b` (both engines at the model's quiescent observation points);
* the counterexamples: `sync_burst_over_bound_loses_events` (F10: the sync drain budget counts every
  dequeued event, so of a burst longer than `maxIterations` only `maxIterations` events are received and
  the rest is discarded — accepted, never processed, no longer queued) with a concrete run;
  `async_breaker_drops_any_event` (F30: when the async chain breaker trips, the event just dequeued is
  dropped whether or not it was self-raised) with a concrete run in which an EXTERNAL event vanishes;
* `SyncFlag` (two threads executing `append; if flag: return; flag := True; drain; flag := False` at
  statement granularity): `mutual_exclusion_fails` (test-then-set: a schedule puts both threads inside
  the drain — the formal counterpart of F18), `mutual_exclusion_atomic` (with test-and-set atomic: for
  ALL schedules at most one thread is inside), and `flag_protocol_can_strand_an_event` (even then a
  schedule exists after which both sends have returned and one event is still queued, unprocessed until
  the next send).

NOT exhibited by the model, VALIDATED only (harness `xsmverif/c14.py::c04_ordering`, every run): sends
that arrive while a macrostep is in flight (async producer tasks against sleeping coroutine actions) —
the model observes at quiescent points, there is no suspension inside a macrostep, which is also why it
cannot show F42 (async `start()` lets the run loop process events during the initial entry); timers,
services and actors as producers; real threads. `SyncFlag` interleaves at Python-STATEMENT granularity:
byte-code-level preemption and the OS scheduler are not exhibited. Record shapes: a user action NAMED
`#recv:…` would write records that look like receive records; `rtc_structure` speaks about the position
of records, the harness uses generated action names.
-/
namespace XSM.C04
open XSM XSM.Done

/-! ## 1. the queue is FIFO at both ends -/

/-- `send` / `send_events` while running: the events are appended at the TAIL, in the order given -/
theorem send_appends_at_tail (es : List Ev) (s : St) :
    (pushAll es s).queue = s.queue ++ es.map (fun e => (⟨e, false⟩ : QEv)) := rfl

theorem sync_sendMany_is_one_drain (m : Machine) (u : UEnv) (es : List Ev) (l : LSt) (h : l.st.status = "running") :
    opSendMany .sync m u es l = { l with st := drainLoop m u m.maxIterations (pushAll es l.st) } := by
  have hg : ¬ refuses (sendGate .sync) l.st.status = true := by
    intro hh; exact (syncSendGate_spec _).1 hh h
  unfold opSendMany
  rw [if_neg hg]
  rfl

theorem async_sendMany_is_enqueue_then_loop (m : Machine) (u : UEnv) (es : List Ev) (l : LSt)
    (h : l.st.status = "running") (hl : l.loop = true) :
    opSendMany .async m u es l = { l with st := asyncDrain m u (asyncFuel m) (pushAll es l.st) } := by
  have hg : ¬ refuses (sendGate .async) l.st.status = true := by
    intro hh; have := (asyncSendGate_spec _).1 hh; rw [h] at this; revert this; decide
  unfold opSendMany
  rw [if_neg hg]
  have : (pushAll es l.st).status = "running" := h
  simp [lsettle, hl, this]

/-- `send(e)` IS `send_events([e])` -/
theorem send_is_sendMany_singleton (fl : Flavor) (m : Machine) (u : UEnv) (e : Ev) (l : LSt) :
    opSend fl m u e l = opSendMany fl m u [e] l := rfl

/-- the operations of this file and the engine's own `send` (what C01 … C11 are stated about) agree -/
theorem opSend_sync_is_engine_send (m : Machine) (u : UEnv) (e : Ev) (l : LSt) :
    (opSend .sync m u e l).st = syncSend m u e l.st := by
  unfold opSend opSendMany syncSend sndUnflagged
  by_cases h : l.st.status = "running"
  · have hg : ¬ refuses (sendGate .sync) l.st.status = true := fun hh => (syncSendGate_spec _).1 hh h
    rw [if_neg hg, if_pos h]; rfl
  · have hg : refuses (sendGate .sync) l.st.status = true := (syncSendGate_spec _).2 h
    rw [if_pos hg, if_neg h]

/-- the sync drain dequeues the HEAD, runs ONE macrostep (`syncMacro`: `_process_event` then
    `_process_transient_transitions`) on the rest, and only then looks at the queue again -/
theorem drain_pops_head (m : Machine) (u : UEnv) (budget : Nat) (s : St) (q : QEv) (rest : List QEv)
    (hq : s.queue = q :: rest) (hrun : s.status = "running") :
    drainLoop m u (budget + 1) s =
      (if (syncMacro m u q.ev { s with queue := rest }).err.isSome = true then syncMacro m u q.ev { s with queue := rest }
       else drainLoop m u budget (syncMacro m u q.ev { s with queue := rest })) ∧
    drainLog m u (budget + 1) s =
      q.ev :: (if (syncMacro m u q.ev { s with queue := rest }).err.isSome = true then []
               else drainLog m u budget (syncMacro m u q.ev { s with queue := rest })) :=
  ⟨drainLoop_cons m u budget s q rest hq hrun, drainLog_cons m u budget s q rest hq hrun⟩

/-- the async run loop likewise: one `asyncStep` (process + settle) per dequeued event -/
theorem async_loop_pops_head (m : Machine) (u : UEnv) (fuel : Nat) (s : St) (q : QEv) (rest : List QEv)
    (hq : s.queue = q :: rest) (hrun : s.status = "running") :
    asyncDrain m u (fuel + 1) s = asyncDrain m u fuel (asyncStep m u q.ev { s with queue := rest }) :=
  asyncDrain_cons m u fuel s q rest hq hrun

/-! ## 2. sends made during processing -/

/-- *"handled after the current event completes rather than re-entrantly"*: a send made by an action
    while an event is processed (sync: `_is_processing` is set — also during `start()`; async: `raise`
    and `done.state.*` go through `Queue.put`) ONLY enqueues — configuration, history, context, trace,
    status, error flag are untouched, nothing is processed -/
theorem send_during_processing_only_enqueues (u : UEnv) (m : Machine) (e : Ev) (s : St) :
    -- sync, every phase (start included)
    (hooksFlagged u m).sndRaise e s = (if s.status = "running" then { s with queue := s.queue ++ [⟨e, false⟩] } else s) ∧
    (hooksFlagged u m).snd e s = (hooksFlagged u m).sndRaise e s ∧
    -- async, inside the run loop: also counts towards the chain breaker and is marked self-raised
    (hooksAsync u m).sndRaise e s =
      (if s.status = "running" then { s with raiseDepth := s.raiseDepth + 1, queue := s.queue ++ [⟨e, true⟩] }
       else { s with raiseDepth := s.raiseDepth + 1 }) ∧
    (hooksAsync u m).snd e s = (hooksAsync u m).sndRaise e s ∧
    -- async, during `start()`
    (hooksAsyncStart u m).sndRaise e s = (hooksFlagged u m).sndRaise e s ∧
    (hooksAsyncStart u m).snd e s = (hooksFlagged u m).sndRaise e s :=
  ⟨rfl, rfl, rfl, rfl, rfl, rfl⟩

/-- *"Events that actions raise … are handled after the current event"*: whatever the macrostep of `e`
    raises (any number of `raise`s, `done.state.*` events, from transition, exit and entry actions and
    from the eventless follow-ups) is appended BEHIND everything that was already queued -/
theorem raised_after_current (m : Machine) (u : UEnv) (e : Ev) (s : St) :
    (syncMacro m u e s).queue = s.queue ++ raisedBy m u e s ∧
    (¬ s.raiseDepth > m.maxIterations → (asyncStep m u e s).queue = s.queue ++ asyncRaisedBy m u e s) :=
  ⟨syncMacro_queue m u e s, asyncStep_queue_eq m u e s⟩

/-! ## 3. run to completion: what a drain writes -/

/-- **a drain's contribution to the trace is the concatenation, per dequeued event and in dequeue order,
    of `#recv:e` followed by the records of e's own macrostep** — records of transitions taken for `e`
    (`TransRec e.type`) or of eventless follow-ups (`TransRec ""`), nothing else; and the dequeued events
    are exactly `drainLog`. Unconditional. -/
theorem rtc_structure (m : Machine) (u : UEnv) (budget : Nat) (s : St) :
    (drainLoop m u budget s).chron = s.chron ++ (drainSegs m u budget s).flatMap segRecords ∧
    (drainSegs m u budget s).map (·.1) = drainLog m u budget s ∧
    (∀ p ∈ drainSegs m u budget s, ∀ r ∈ p.2, TransRec p.1.type r ∨ TransRec "" r) :=
  ⟨drain_chron m u budget s, drainSegs_events m u budget s, drainSegs_records m u budget s⟩

/-- one macrostep in the trace: its `#recv` record first, then only its own records -/
theorem macrostep_writes (m : Machine) (u : UEnv) (e : Ev) (s : St) :
    (syncMacro m u e s).chron = s.chron ++ ("#recv:" ++ e.type) :: macroRecords m u e s ∧
    ∀ r ∈ macroRecords m u e s, TransRec e.type r ∨ TransRec "" r :=
  ⟨syncMacro_chron m u e s, macroRecords_spec m u e s⟩

/-! ## 4. lossless, ordered, exactly once -/

theorem drain_clean_queue_nil (m : Machine) (u : UEnv) : ∀ (budget : Nat) (s : St), DrainClean m u budget s →
    (drainLoop m u budget s).queue = [] := by
  intro budget
  induction budget with
  | zero =>
    intro s h
    simp only [DrainClean] at h
    rw [drainLoop_zero]; simp [h]
  | succ n ih =>
    intro s h
    cases hq : s.queue with
    | nil => rw [drainLoop_nil m u n s hq]; exact hq
    | cons q rest =>
      obtain ⟨hrun, herr, hc⟩ := (DrainClean_cons m u n s q rest hq).1 h
      have hns : ¬ (syncMacro m u q.ev { s with queue := rest }).err.isSome = true := by rw [herr]; simp
      rw [drainLoop_cons m u n s q rest hq hrun, if_neg hns]
      exact ih _ hc

/-- **FIFO, exactly once, general form** (sync): whatever is queued when a drain starts — events accepted
    by this call and, after a call that raised, events accepted earlier — is received in queue order, each
    once, then the raised events in raise order; nothing is left -/
theorem fifo_exactly_once_queued (m : Machine) (u : UEnv) (budget : Nat) (s : St) (h : DrainClean m u budget s) :
    drainLog m u budget s = s.queue.map (·.ev) ++ drainRaised m u budget s ∧
    (drainLoop m u budget s).queue = [] :=
  ⟨drain_fifo m u budget s h, drain_clean_queue_nil m u budget s h⟩

/-- **FIFO, exactly once** (sync `send_events(es)` / `send(e)` on an idle running interpreter): the events
    received by this call are `es` — all of them, in order, each once — followed by what their macrosteps
    raised; the trace shows exactly these macrosteps, one after the other; nothing is left queued -/
theorem fifo_exactly_once (m : Machine) (u : UEnv) (es : List Ev) (l : LSt) (hrun : l.st.status = "running")
    (hq : l.st.queue = []) (hclean : DrainClean m u m.maxIterations (pushAll es l.st)) :
    drainLog m u m.maxIterations (pushAll es l.st) = es ++ drainRaised m u m.maxIterations (pushAll es l.st) ∧
    (opSendMany .sync m u es l).st.chron =
      l.st.chron ++ (drainSegs m u m.maxIterations (pushAll es l.st)).flatMap segRecords ∧
    (drainSegs m u m.maxIterations (pushAll es l.st)).map (·.1) =
      es ++ drainRaised m u m.maxIterations (pushAll es l.st) ∧
    (opSendMany .sync m u es l).st.queue = [] := by
  have hlog := drain_fifo m u _ _ hclean
  have hqq : (pushAll es l.st).queue.map (·.ev) = es := by
    simp [pushAll, hq, List.map_map, Function.comp_def]
  rw [hqq] at hlog
  rw [sync_sendMany_is_one_drain m u es l hrun]
  refine ⟨hlog, ?_, ?_, drain_clean_queue_nil m u _ _ hclean⟩
  · exact drain_chron m u _ _
  · rw [drainSegs_events]; exact hlog

/-- **FIFO, exactly once** (async, interpreter with its run loop attached) -/
theorem fifo_exactly_once_async (m : Machine) (u : UEnv) (es : List Ev) (l : LSt) (hrun : l.st.status = "running")
    (hl : l.loop = true) (hq : l.st.queue = []) (hclean : AsyncClean m u (asyncFuel m) (pushAll es l.st)) :
    asyncLog m u (asyncFuel m) (pushAll es l.st) = es ++ asyncRaised m u (asyncFuel m) (pushAll es l.st) ∧
    (opSendMany .async m u es l).st.queue = [] := by
  obtain ⟨h1, h2⟩ := async_fifo m u _ _ hclean
  have hqq : (pushAll es l.st).queue.map (·.ev) = es := by
    simp [pushAll, hq, List.map_map, Function.comp_def]
  rw [hqq] at h1
  rw [async_sendMany_is_enqueue_then_loop m u es l hrun hl]
  exact ⟨h1, h2⟩

/-! ## 5. counterexamples: events CAN be lost (findings F10, F30) -/

/-- **F10** — the sync drain budget counts EVERY dequeued event. Of a burst that makes the queue longer
    than `maxIterations`, at most `maxIterations` events are received by the call (strictly fewer than
    were accepted), and unless the call raised NOTHING stays queued: the remaining accepted events are
    gone for good. (No hypothesis on the machine: it need not raise anything, nor have any transition.) -/
theorem sync_burst_over_bound_loses_events (m : Machine) (u : UEnv) (es : List Ev) (l : LSt)
    (hrun : l.st.status = "running") (hlen : m.maxIterations < l.st.queue.length + es.length) :
    (drainLog m u m.maxIterations (pushAll es l.st)).length ≤ m.maxIterations ∧
    (drainLog m u m.maxIterations (pushAll es l.st)).length < (pushAll es l.st).queue.length ∧
    ((opSendMany .sync m u es l).st.err = none → (opSendMany .sync m u es l).st.queue = []) := by
  have h1 := drainLog_length_le m u m.maxIterations (pushAll es l.st)
  refine ⟨h1, ?_, ?_⟩
  · have : (pushAll es l.st).queue.length = l.st.queue.length + es.length := by simp [pushAll]
    omega
  · rw [sync_sendMany_is_one_drain m u es l hrun]
    exact drainLoop_queue_nil m u _ _

/-- **F30** — when the async chain breaker trips (`_raise_depth > maxIterations`) the event just dequeued is
    dropped unprocessed WHETHER OR NOT it was self-raised (`q.self` is not consulted), together with the
    self-raised events still queued -/
theorem async_breaker_drops_any_event (m : Machine) (u : UEnv) (fuel : Nat) (s : St) (q : QEv) (rest : List QEv)
    (hq : s.queue = q :: rest) (hrun : s.status = "running") (hd : s.raiseDepth > m.maxIterations) :
    asyncLog m u (fuel + 1) s =
      asyncLog m u fuel { s with raiseDepth := 0, queue := rest.filter (fun x => !x.self) } ∧
    asyncDrain m u (fuel + 1) s =
      asyncDrain m u fuel { s with raiseDepth := 0, queue := rest.filter (fun x => !x.self) } := by
  have hs : asyncStep m u q.ev { s with queue := rest } =
      { s with raiseDepth := 0, queue := rest.filter (fun x => !x.self) } := by
    unfold asyncStep
    have : ({ s with queue := rest } : St).raiseDepth > m.maxIterations := hd
    rw [if_pos this]
  rw [asyncLog_cons m u fuel s q rest hq hrun, asyncDrain_cons m u fuel s q rest hq hrun, hs, if_pos hd]
  exact ⟨rfl, rfl⟩

namespace Ex
open XSM.Done.Ex

/-- user code for the examples: guards true, built-in names not overridden, every other action a marker -/
def exB : UEnv := { g := fun _ _ _ => .t, a := fun n c _ => if (canonicalBuiltin n).isSome then .missing else .ok c }

def raiseR : ActionRef := { type := "xstate.raise", params := some (.obj [("event", .str "R")]) }
def tr (tid : Nat) (ev : String) (acts : List ActionRef) : Trans :=
  { tid, event := ev, target := none, guard := none, actions := acts, reenter := false, forbidden := false }

/-- `{"id":"m","initial":"a","maxIterations":2,"states":{"a":{"on":{
      "A":{"actions":["tA", raise R]}, "B":{"actions":["tB"]}, "R":{"actions":["tR"]}}}}}` -/
def burstM : Machine :=
  { id := "m", maxIterations := 2, customIds := [],
    root := .mk (mkD .compound (some "a")) [
      ("a", .mk (mkD .atomic none none []
        [("A", [tr 0 "A" [{ type := "tA" }, raiseR]]), ("B", [tr 1 "B" [{ type := "tB" }]]),
         ("R", [tr 2 "R" [{ type := "tR" }]])]) [])] }
/-- the same machine with room: `maxIterations` 10 -/
def roomyM : Machine := { burstM with maxIterations := 10 }

def started (fl : Flavor) (m : Machine) : LSt := opStart fl m exB (LSt.new m)
/-- the trace of `l`, oldest record first -/
def tr0 (l : LSt) : List String := l.st.trace.reverse
end Ex
open Ex

/-- F10, concretely (replay `findings/F10_sync_burst_over_bound.json`): three `B`s, bound 2 — two are
    received, the third is gone, the interpreter is running with an empty queue and no error -/
example : (tr0 (opSendMany .sync burstM exB [.user "B", .user "B", .user "B"] (started .sync burstM)),
     (opSendMany .sync burstM exB [.user "B", .user "B", .user "B"] (started .sync burstM)).st.queue.length,
     (opSendMany .sync burstM exB [.user "B", .user "B", .user "B"] (started .sync burstM)).st.status,
     (opSendMany .sync burstM exB [.user "B", .user "B", .user "B"] (started .sync burstM)).st.err.isSome) =
      (["#recv:B", "tB@B", "#t:m,m.a", "#recv:B", "tB@B", "#t:m,m.a"], 0, "running", false) := by decide

/-- F30, concretely (replay `findings/F30_async_chain_breaker_drops_external.json`): `A A A B`, bound 2 —
    each `A` raises one harmless `R`; the depth counter is not reset while an `R` is queued, so it stands
    at 3 when the EXTERNAL `B` is dequeued: `B` is dropped (and the three `R`s are purged) -/
example : (tr0 (opSendMany .async burstM exB [.user "A", .user "A", .user "A", .user "B"] (started .async burstM)),
     (opSendMany .async burstM exB [.user "A", .user "A", .user "A", .user "B"] (started .async burstM)).st.queue.length,
     (opSendMany .async burstM exB [.user "A", .user "A", .user "A", .user "B"] (started .async burstM)).st.status) =
      (["#recv:A", "tA@A", "#t:m,m.a", "#recv:A", "tA@A", "#t:m,m.a", "#recv:A", "tA@A", "#t:m,m.a"], 0, "running") := by
  decide

/-- … with room the same kind of burst is received completely, in order, and the raised events after it
    (`fifo_exactly_once` / `fifo_exactly_once_async` at work), the same in both engines … -/
example : tr0 (opSendMany .sync roomyM exB [.user "A", .user "A", .user "B"] (started .sync roomyM)) =
    ["#recv:A", "tA@A", "#t:m,m.a", "#recv:A", "tA@A", "#t:m,m.a", "#recv:B", "tB@B", "#t:m,m.a",
     "#recv:R", "tR@R", "#t:m,m.a", "#recv:R", "tR@R", "#t:m,m.a"] := by decide
example : tr0 (opSendMany .async roomyM exB [.user "A", .user "A", .user "B"] (started .async roomyM)) =
    ["#recv:A", "tA@A", "#t:m,m.a", "#recv:A", "tA@A", "#t:m,m.a", "#recv:B", "tB@B", "#t:m,m.a",
     "#recv:R", "tR@R", "#t:m,m.a", "#recv:R", "tR@R", "#t:m,m.a"] := by decide

/-- the hypotheses of `fifo_exactly_once` / `fifo_exactly_once_async` hold of these runs (the theorems are
    not vacuous), and they fail of the F10 / F30 runs above — that is exactly what `DrainClean` /
    `AsyncClean` say -/
example : DrainClean roomyM exB roomyM.maxIterations
    (pushAll [.user "A", .user "A", .user "B"] (started .sync roomyM).st) := by decide
example : AsyncClean roomyM exB (asyncFuel roomyM)
    (pushAll [.user "A", .user "A", .user "B"] (started .async roomyM).st) := by decide
example : ¬ DrainClean burstM exB burstM.maxIterations
    (pushAll [.user "B", .user "B", .user "B"] (started .sync burstM).st) := by decide
example : ¬ AsyncClean burstM exB (asyncFuel burstM)
    (pushAll [.user "A", .user "A", .user "A", .user "B"] (started .async burstM).st) := by decide
example : drainLog roomyM exB roomyM.maxIterations (pushAll [.user "A", .user "A", .user "B"] (started .sync roomyM).st) =
    [.user "A", .user "A", .user "B", .user "R", .user "R"] := by decide

/-- … and `send_events([A, B])` is NOT `send(A); send(B)`: the burst is queued as a whole, so the `R` that
    `A` raises waits behind `B`; sent one by one, `R` is handled before `B` is even accepted -/
theorem sendMany_differs_from_sends :
    tr0 (opSendMany .sync roomyM exB [.user "A", .user "B"] (started .sync roomyM)) =
      ["#recv:A", "tA@A", "#t:m,m.a", "#recv:B", "tB@B", "#t:m,m.a", "#recv:R", "tR@R", "#t:m,m.a"] ∧
    tr0 (opSend .sync roomyM exB (.user "B") (opSend .sync roomyM exB (.user "A") (started .sync roomyM))) =
      ["#recv:A", "tA@A", "#t:m,m.a", "#recv:R", "tR@R", "#t:m,m.a", "#recv:B", "tB@B", "#t:m,m.a"] := by decide

/-! ## 6. the re-entrancy flag under two threads (`XSM.SyncFlag`, statement granularity) -/

open XSM.SyncFlag in
/-- **mutual exclusion is FALSE of the protocol as written** (test, then set — two statements, no lock):
    both threads append, both see the flag clear, both set it, both are inside the drain (F18) -/
theorem mutual_exclusion_fails : ¬ ∀ sched : List Bool, Mutex (run stmt sched {}) := by
  intro h
  exact absurd (h [true, false, true, false, true, false]) (by decide)

open XSM.SyncFlag in
/-- **with test-and-set atomic, mutual exclusion holds for ALL schedules** (any length, any interleaving) -/
theorem mutual_exclusion_atomic (sched : List Bool) : Mutex (run stmtAtomic sched {}) :=
  (inv_run sched {} inv_init).2.1

open XSM.SyncFlag in
/-- even the atomic protocol can leave an accepted event unprocessed until the NEXT send: thread A finds
    the queue empty and is about to clear the flag when thread B appends, sees the flag set and returns -/
theorem flag_protocol_can_strand_an_event :
    (run stmtAtomic [true, true, true, true, true, false, false, true] {}) =
      { pcA := .done, pcB := .done, flag := false, queue := 1, processed := 1 } ∧
    (run stmt [true, true, true, true, true, true, false, false, true] {}) =
      { pcA := .done, pcB := .done, flag := false, queue := 1, processed := 1 } := by decide

end XSM.C04
