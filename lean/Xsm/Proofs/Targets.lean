import Xsm.Model.Resolve
import Xsm.Proofs.Guard
/-!
Helper lemmas for property C18, part 2: target spellings through `resolveTarget`
(`resolver.resolve_target_state`) and `resolveRobust` (the engines' multi-stage resolution).
Uses the `splitDotL` / `idTail` lemmas of `Xsm/Proofs/Guard.lean`.
-/
namespace XSM

/-! ## Target spellings -/

theorem SNode.at_append (n : SNode) (a b : Path) : n.at (a ++ b) = (n.at a).bind (fun c => c.at b) := by
  induction a generalizing n with
  | nil => simp [SNode.at]
  | cons k a ih =>
    obtain ⟨d, ks⟩ := n
    simp only [List.cons_append, SNode.at]
    cases findKid k ks with
    | none => rfl
    | some c => exact ih c

theorem SNode.at_prefix (n : SNode) (a b : Path) (h : (n.at (a ++ b)).isSome) : (n.at a).isSome := by
  rw [SNode.at_append] at h
  cases hna : n.at a with
  | none => simp [hna] at h
  | some c => rfl

theorem descend_eq (n : SNode) (base segs : Path) :
    descend n base segs = if (n.at segs).isSome then some (base ++ segs) else none := by
  unfold descend; cases n.at segs <;> rfl

/-- a key usable in every target spelling: non-empty, no `'.'`, not starting with `'#'` -/
def GoodKey (k : String) : Prop := k.toList ≠ [] ∧ '.' ∉ k.toList ∧ k.toList.head? ≠ some '#'

/-- the characters of a dotted relative path `k1.k2.….kn` -/
def relL : Path → List Char
  | [] => []
  | [k] => k.toList
  | k :: ks => k.toList ++ '.' :: relL ks

/-- the dotted relative path `k1.k2.….kn` as a string -/
def relStr (rel : Path) : String := String.ofList (relL rel)

theorem relStr_toList (rel : Path) : (relStr rel).toList = relL rel := by simp [relStr]

theorem splitDotL_relL (rel : Path) (hne : rel ≠ []) (hd : ∀ k ∈ rel, '.' ∉ k.toList) :
    splitDotL (relL rel) = rel.map String.toList := by
  induction rel with
  | nil => exact absurd rfl hne
  | cons k ks ih =>
    cases ks with
    | nil => simp [relL, splitDotL_dotfree _ (hd k (by simp))]
    | cons k' ks' =>
      have : relL (k :: k' :: ks') = k.toList ++ '.' :: relL (k' :: ks') := rfl
      rw [this, splitDotL_append_dot, splitDotL_dotfree _ (hd k (by simp)),
        ih (by simp) (fun x hx => hd x (by simp [hx]))]
      simp

theorem splitDot_relStr (rel : Path) (hne : rel ≠ []) (hd : ∀ k ∈ rel, '.' ∉ k.toList) :
    splitDot (relStr rel) = rel := by
  unfold splitDot
  rw [relStr_toList, splitDotL_relL rel hne hd, List.map_map]
  have : (String.ofList ∘ String.toList) = id := by funext s; simp
  rw [this, List.map_id]

theorem relL_head (rel : Path) (k : String) (ks : Path) (h : rel = k :: ks) (hk : k.toList ≠ []) :
    ∃ c cs, relL rel = c :: cs ∧ k.toList.head? = some c := by
  subst h
  cases hkl : k.toList with
  | nil => exact absurd hkl hk
  | cons c cs =>
    cases ks with
    | nil => exact ⟨c, cs, by simp [relL, hkl], rfl⟩
    | cons k' ks' => exact ⟨c, cs ++ '.' :: relL (k' :: ks'), by simp [relL, hkl], rfl⟩

/-- what the resolver looks at first: the target string is not empty, and its first character -/
theorem relStr_first (rel : Path) (hne : rel ≠ []) (hg : ∀ k ∈ rel, GoodKey k) :
    relStr rel ≠ "" ∧ sStartsWith (relStr rel) "#" = false ∧ sStartsWith (relStr rel) "." = false ∧ relStr rel ≠ "." := by
  obtain ⟨k, ks, rfl⟩ := List.exists_cons_of_ne_nil hne
  obtain ⟨hk1, hk2, hk3⟩ := hg k (by simp)
  obtain ⟨c, cs, hrel, hc⟩ := relL_head (k :: ks) k ks rfl hk1
  have hc1 : c ≠ '#' := fun e => hk3 (by rw [hc, e])
  have hc2 : c ≠ '.' := by
    intro e
    apply hk2
    cases hkl : k.toList with
    | nil => exact absurd hkl hk1
    | cons c' cs' => rw [hkl] at hc; simp at hc; subst hc; subst e; simp
  have hl : (relStr (k :: ks)).toList = c :: cs := by rw [relStr_toList, hrel]
  refine ⟨?_, ?_, ?_, ?_⟩
  · intro e; rw [e] at hl; cases hl
  · simp only [sStartsWith, hl]
    show List.isPrefixOf ['#'] (c :: cs) = false
    simp [List.isPrefixOf, Ne.symm hc1]
  · simp only [sStartsWith, hl]
    show List.isPrefixOf ['.'] (c :: cs) = false
    simp [List.isPrefixOf, Ne.symm hc2]
  · intro e; rw [e] at hl
    have : ".".toList = ['.'] := rfl
    rw [this] at hl
    exact hc2 (List.cons.inj hl).1.symm

theorem any_empty_false (rel : Path) (hg : ∀ k ∈ rel, k.toList ≠ []) :
    (rel.any fun x => decide (x = "")) = false := by
  rw [List.any_eq_false]
  intro k hk
  have := hg k hk
  simp only [decide_eq_true_eq]
  intro e; subst e; exact this rfl

theorem hash_prefix (t : String) :
    ("#" ++ t) ≠ "" ∧ sStartsWith ("#" ++ t) "#" = true ∧ sDrop ("#" ++ t) 1 = t := by
  have hl : ("#" ++ t).toList = '#' :: t.toList := by rw [String.toList_append]; rfl
  refine ⟨?_, ?_, ?_⟩
  · intro e; rw [e] at hl; cases hl
  · simp only [sStartsWith, hl]
    show List.isPrefixOf ['#'] ('#' :: t.toList) = true
    simp [List.isPrefixOf]
  · simp only [sDrop, hl]
    show String.ofList (List.drop 1 ('#' :: t.toList)) = t
    simp [String.ofList_toList]

theorem dot_prefix (t : String) (ht : t ≠ "") :
    ("." ++ t) ≠ "" ∧ sStartsWith ("." ++ t) "#" = false ∧ ("." ++ t) ≠ "." ∧
    sStartsWith ("." ++ t) "." = true ∧ sDrop ("." ++ t) 1 = t := by
  have hl : ("." ++ t).toList = '.' :: t.toList := by rw [String.toList_append]; rfl
  refine ⟨?_, ?_, ?_, ?_, ?_⟩
  · intro e; rw [e] at hl; cases hl
  · simp only [sStartsWith, hl]
    show List.isPrefixOf ['#'] ('.' :: t.toList) = false
    simp [List.isPrefixOf]
  · intro e
    rw [e] at hl
    have h1 : ".".toList = ['.'] := rfl
    rw [h1] at hl
    have : t.toList = [] := (List.cons.inj hl).2.symm
    apply ht
    have := congrArg String.ofList this
    simpa [String.ofList_toList] using this
  · simp only [sStartsWith, hl]
    show List.isPrefixOf ['.'] ('.' :: t.toList) = true
    simp [List.isPrefixOf]
  · simp only [sDrop, hl]
    show String.ofList (List.drop 1 ('.' :: t.toList)) = t
    simp [String.ofList_toList]

/-- segments of a state id: the machine id, then the keys (all dot-free) -/
theorem splitDot_idOf (m : Machine) (p : Path) (hm : '.' ∉ m.id.toList) (hp : ∀ k ∈ p, '.' ∉ k.toList) :
    splitDot (m.idOf p) = m.id :: p := by
  unfold splitDot
  rw [idOf_toList, splitDotL_idTail _ _ hp, splitDotL_dotfree _ hm]
  simp only [List.singleton_append, List.map_cons, List.map_map, String.ofList_toList]
  have : (String.ofList ∘ String.toList) = id := by funext s; simp
  rw [this, List.map_id]

/-- **`#<machineId>.<dotted path>`** names the state at that path, from any reference state -/
theorem resolve_abs (m : Machine) (p ref : Path) (hm : '.' ∉ m.id.toList) (hmne : m.id ≠ "")
    (hp : ∀ k ∈ p, '.' ∉ k.toList ∧ k.toList ≠ []) (hex : (m.root.at p).isSome) :
    resolveTarget m ("#" ++ m.idOf p) ref = some p := by
  obtain ⟨h1, h2, h3⟩ := hash_prefix (m.idOf p)
  have hsegs : splitDot (m.idOf p) = m.id :: p := splitDot_idOf m p hm (fun k hk => (hp k hk).1)
  have hany : ((m.id :: p).any fun x => decide (x = "")) = false := by
    apply any_empty_false
    intro k hk
    rcases List.mem_cons.1 hk with rfl | hk
    · intro e; apply hmne; have := congrArg String.ofList e; simpa [String.ofList_toList] using this
    · exact (hp k hk).2
  unfold resolveTarget
  simp only [h1, if_false, h2, if_true, h3, hsegs, hany, Bool.false_eq_true, List.head?_cons, List.tail_cons]
  cases hat : m.root.at p with
  | none => simp [hat] at hex
  | some n => simp

/-- **`.<dotted path>`** (leading dot) is relative to the PARENT of the reference state -/
theorem resolve_dot (m : Machine) (ref rel : Path) (hne : rel ≠ []) (hg : ∀ k ∈ rel, GoodKey k)
    (hex : (m.root.at (parentOf ref ++ rel)).isSome) :
    resolveTarget m ("." ++ relStr rel) ref = some (parentOf ref ++ rel) := by
  obtain ⟨r1, _, _, _⟩ := relStr_first rel hne hg
  obtain ⟨h1, h2, h3, h4, h5⟩ := dot_prefix (relStr rel) r1
  have hsegs := splitDot_relStr rel hne (fun k hk => (hg k hk).2.1)
  have hany := any_empty_false rel (fun k hk => (hg k hk).1)
  unfold resolveTarget
  simp only [h1, if_false, h2, Bool.false_eq_true, h3, h4, if_true, h5, hsegs, hany]
  have hb := SNode.at_prefix _ _ _ hex
  cases hat : m.root.at (parentOf ref) with
  | none => simp [hat] at hb
  | some n =>
    have : (n.at rel).isSome := by
      rw [SNode.at_append, hat] at hex; exact hex
    simp [descend_eq, this]

/-- `.` alone is the parent of the reference state (the root for the root) -/
theorem resolve_dot_alone (m : Machine) (ref : Path) : resolveTarget m "." ref = some (parentOf ref) := by
  unfold resolveTarget
  have h1 : ("." : String) ≠ "" := by decide
  have h2 : sStartsWith "." "#" = false := by decide
  simp [h1, h2]

/-- nothing between `q` and the reference state captures the plain spelling `rel`: no state strictly
below `q` on the way to `ref` has a descendant at `rel`, and none of them is keyed like a one-segment `rel` -/
def NoShadow (m : Machine) (q d rel : Path) : Prop :=
  ∀ d', d' <+: d → d' ≠ [] → m.root.at (q ++ d' ++ rel) = none ∧ ¬ (rel.length = 1 ∧ rel.head? = some (m.keyOf (q ++ d')))

theorem list_snoc_induction {α : Type} {P : List α → Prop} (hnil : P [])
    (hsnoc : ∀ l a, P l → P (l ++ [a])) : ∀ l, P l := by
  intro l
  have : ∀ n (l : List α), l.length = n → P l := by
    intro n
    induction n with
    | zero => intro l hl; have : l = [] := List.length_eq_zero_iff.1 hl; subst this; exact hnil
    | succ n ih =>
      intro l hl
      have hne : l ≠ [] := by intro e; subst e; simp at hl
      rw [← List.dropLast_concat_getLast hne]
      exact hsnoc _ _ (ih _ (by simp [hl]))
  exact this _ l rfl

/-- the bubbling loop climbs from `q ++ d` to `q` when nothing on the way captures `rel` -/
theorem go_climb (m : Machine) (q rel : Path) :
    ∀ (d : Path) (fuel : Nat), (m.root.at (q ++ d)).isSome → NoShadow m q d rel →
      resolveTarget.go m rel (fuel + d.length) (q ++ d) = resolveTarget.go m rel fuel q := by
  intro d
  induction d using list_snoc_induction with
  | hnil => intro fuel _ _; simp
  | hsnoc d0 x ih =>
    intro fuel hex hns
    have hlen : fuel + (d0 ++ [x]).length = (fuel + d0.length) + 1 := by simp; omega
    have hcur : q ++ (d0 ++ [x]) ≠ [] := by simp
    obtain ⟨hsh, hkey⟩ := hns (d0 ++ [x]) (List.prefix_refl _) (by simp)
    rw [hlen]
    conv => lhs; unfold resolveTarget.go
    cases hat : m.root.at (q ++ (d0 ++ [x])) with
    | none => simp [hat] at hex
    | some n =>
      have hnone : n.at rel = none := by
        have := hsh
        rw [SNode.at_append, hat] at this
        exact this
      have hpar : parentOf (q ++ (d0 ++ [x])) = q ++ d0 := by
        simp [parentOf, ← List.append_assoc, List.dropLast_concat]
      have hkey' : ¬ (rel.length = 1 ∧ rel.head? = some (m.keyOf (q ++ (d0 ++ [x])))) := hkey
      simp only [descend_eq, hnone, Option.isSome_none, Bool.false_eq_true, if_false, hkey', hcur, hpar]
      apply ih fuel
      · have : q ++ (d0 ++ [x]) = (q ++ d0) ++ [x] := by simp
        rw [this] at hex
        exact SNode.at_prefix _ _ _ hex
      · intro d' hd' hne'
        exact hns d' (hd'.trans (List.prefix_append _ _)) hne'

theorem go_bubbles (m : Machine) (q rel : Path) (hexq : (m.root.at (q ++ rel)).isSome)
    (d : Path) (hex : (m.root.at (q ++ d)).isSome) (hns : NoShadow m q d rel) :
    resolveTarget.go m rel ((q ++ d).length + 1) (q ++ d) = some (q ++ rel) := by
  have : (q ++ d).length + 1 = (q.length + 1) + d.length := by simp; omega
  rw [this, go_climb m q rel d _ hex hns]
  unfold resolveTarget.go
  have hq := SNode.at_prefix _ _ _ hexq
  cases hat : m.root.at q with
  | none => simp [hat] at hq
  | some n =>
    have : (n.at rel).isSome := by rw [SNode.at_append, hat] at hexq; exact hexq
    simp [descend_eq, this]

/-- a one-segment plain target equal to the KEY of an ancestor-or-self `q0 ++ [k]` of the reference
state names that state — when nothing nearer captures it and it has no child keyed `k` itself -/
theorem go_key (m : Machine) (q0 : Path) (k : String) (d : Path)
    (hex : (m.root.at (q0 ++ [k] ++ d)).isSome) (hns : NoShadow m (q0 ++ [k]) d [k])
    (hchild : m.root.at (q0 ++ [k] ++ [k]) = none) :
    resolveTarget.go m [k] ((q0 ++ [k] ++ d).length + 1) (q0 ++ [k] ++ d) = some (q0 ++ [k]) := by
  have : (q0 ++ [k] ++ d).length + 1 = ((q0 ++ [k]).length + 1) + d.length := by simp; omega
  rw [this, go_climb m (q0 ++ [k]) [k] d _ hex hns]
  unfold resolveTarget.go
  have hq := SNode.at_prefix _ _ _ hex
  cases hat : m.root.at (q0 ++ [k]) with
  | none => simp [hat] at hq
  | some n =>
    have hnone : n.at [k] = none := by
      rw [SNode.at_append, hat] at hchild; exact hchild
    have hkey : m.keyOf (q0 ++ [k]) = k := by simp [Machine.keyOf]
    simp [descend_eq, hnone, hkey]

/-- **a plain dotted path** (in particular a sibling key) is looked up below the reference state, then
below its parent, and so on upwards ("bubbling"): it names `q ++ rel` for the nearest
ancestor-or-self `q` of the reference state below which the path exists — provided nothing nearer
captures it (`NoShadow`) -/
theorem resolve_plain (m : Machine) (q d rel : Path) (hne : rel ≠ []) (hg : ∀ k ∈ rel, GoodKey k)
    (hexq : (m.root.at (q ++ rel)).isSome) (hexr : (m.root.at (q ++ d)).isSome) (hns : NoShadow m q d rel) :
    resolveTarget m (relStr rel) (q ++ d) = some (q ++ rel) := by
  obtain ⟨r1, r2, r3, r4⟩ := relStr_first rel hne hg
  have hsegs := splitDot_relStr rel hne (fun k hk => (hg k hk).2.1)
  have hany := any_empty_false rel (fun k hk => (hg k hk).1)
  unfold resolveTarget
  simp only [r1, if_false, r2, Bool.false_eq_true, r4, r3, hsegs, hany]
  exact go_bubbles m q rel hexq d hexr hns

/-- **the key of the reference state or of one of its ancestors**, written as a plain target -/
theorem resolve_key (m : Machine) (q0 : Path) (k : String) (d : Path) (hk : GoodKey k)
    (hex : (m.root.at (q0 ++ [k] ++ d)).isSome) (hns : NoShadow m (q0 ++ [k]) d [k])
    (hchild : m.root.at (q0 ++ [k] ++ [k]) = none) :
    resolveTarget m k (q0 ++ [k] ++ d) = some (q0 ++ [k]) := by
  have hrel : relStr [k] = k := by simp [relStr, relL, String.ofList_toList]
  obtain ⟨r1, r2, r3, r4⟩ := relStr_first [k] (by simp) (by intro x hx; simp at hx; subst hx; exact hk)
  have hsegs := splitDot_relStr [k] (by simp) (by intro x hx; simp at hx; subst hx; exact hk.2.1)
  have hany := any_empty_false [k] (by intro x hx; simp at hx; subst hx; exact hk.1)
  rw [hrel] at r1 r2 r3 r4 hsegs
  unfold resolveTarget
  simp only [r1, if_false, r2, Bool.false_eq_true, r4, r3, hsegs, hany]
  exact go_key m q0 k d hex hns hchild

/-- **`#customId`** names the state that declared `id: customId` — provided the custom id is not the
machine id (the machine key is looked up first) -/
theorem resolve_custom (m : Machine) (cid : String) (p ref : Path) (hcd : '.' ∉ cid.toList) (hcne : cid.toList ≠ [])
    (hnm : cid ≠ m.id)
    (hreg : m.customIds.find? (fun kv => decide (kv.1 = cid)) = some (cid, p)) :
    resolveTarget m ("#" ++ cid) ref = some p := by
  obtain ⟨h1, h2, h3⟩ := hash_prefix cid
  have hsegs : splitDot cid = [cid] := by
    unfold splitDot; rw [splitDotL_dotfree _ hcd]; simp [String.ofList_toList]
  have hany : ([cid].any fun x => decide (x = "")) = false :=
    any_empty_false [cid] (by intro k hk; simp at hk; subst hk; exact hcne)
  unfold resolveTarget
  simp only [h1, if_false, h2, if_true, h3, hsegs, hany, Bool.false_eq_true, List.head?_cons, List.tail_cons]
  have : ¬ (some cid = some m.id) := fun e => hnm (Option.some.inj e)
  simp [this, hreg]

/-- **`#customId.<dotted path>`**: relative to the state that declared the custom id -/
theorem resolve_custom_rel (m : Machine) (cid : String) (anchor rel ref : Path) (hcd : '.' ∉ cid.toList)
    (hcne : cid.toList ≠ []) (hnm : cid ≠ m.id) (hne : rel ≠ []) (hg : ∀ k ∈ rel, '.' ∉ k.toList ∧ k.toList ≠ [])
    (hreg : m.customIds.find? (fun kv => decide (kv.1 = cid)) = some (cid, anchor))
    (hex : (m.root.at (anchor ++ rel)).isSome) :
    resolveTarget m ("#" ++ String.ofList (cid.toList ++ idTail rel)) ref = some (anchor ++ rel) := by
  obtain ⟨h1, h2, h3⟩ := hash_prefix (String.ofList (cid.toList ++ idTail rel))
  have hsegs : splitDot (String.ofList (cid.toList ++ idTail rel)) = cid :: rel := by
    unfold splitDot
    rw [String.toList_ofList, splitDotL_idTail _ _ (fun k hk => (hg k hk).1), splitDotL_dotfree _ hcd]
    simp only [List.singleton_append, List.map_cons, List.map_map, String.ofList_toList]
    have : (String.ofList ∘ String.toList) = id := by funext s; simp
    rw [this, List.map_id]
  have hany : ((cid :: rel).any fun x => decide (x = "")) = false := by
    apply any_empty_false
    intro k hk
    rcases List.mem_cons.1 hk with rfl | hk
    · exact hcne
    · exact (hg k hk).2
  obtain ⟨k0, ks0, hrel⟩ := List.exists_cons_of_ne_nil hne
  unfold resolveTarget
  simp only [h1, if_false, h2, if_true, h3, hsegs, hany, Bool.false_eq_true, List.head?_cons, List.tail_cons]
  have hne1 : ¬ (some cid = some m.id) := fun e => hnm (Option.some.inj e)
  have hlen : ¬ ((cid :: rel).length = 1) := by rw [hrel]; simp
  have ha := SNode.at_prefix _ _ _ hex
  cases hat : m.root.at anchor with
  | none => simp [hat] at ha
  | some n =>
    have : (n.at rel).isSome := by rw [SNode.at_append, hat] at hex; exact hex
    simp [hne1, hreg, hne, hat, descend_eq, this]

/-- whatever the plain resolver finds from the source state is what the engines' multi-stage
resolution returns (its first attempt) -/
theorem robust_of_direct (m : Machine) (src : Path) (t : String) (p : Path)
    (h : resolveTarget m t src = some p) : resolveRobust m src t = some p := by
  unfold resolveRobust
  simp [h]

end XSM
